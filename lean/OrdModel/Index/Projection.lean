import OrdModel.Index.Run
/-
C15 — what "inscription and rune results" means, as a projection of the index content, and
what each configuration *sees* of the chain.

`projInsRunes : State → Proj` keeps every table and counter the property talks about
(inscription entries without `sat` and without the sat-derived charm bits, ids, numbers,
locations, parents/children, collections, galleries, home, per-height last sequence number;
every rune table and counter) and drops what the optional indexes add: the `sat` field and the
eight sat-derived charm bits (coin, uncommon, rare, epic, legendary, mythic, nineball,
palindrome), `sat2sp`, `sat2seq`, the UTXO table (values / sat ranges / scripts; the inscription
lists of the entries are the `seq2sp` rows), `script2out`, `txid2tx`, the headers and the
`LostSats` statistic (which is a statement about sats, not about inscriptions — it does enter
the *location* of lost inscriptions, and that is where C15 fails, see Theorems/C15.lean).

This is the same projection the implementation-vs-implementation streams apply to the real
dumps (`harness/store` stream `flags`, `harness/flagsx`).
-/
namespace Ord.Index

/-- the six charm bits that do not come from `Sat::charms`: cursed 2, lost 16, reinscription 128,
unbound 256, vindicated 1024, burned 4096 (the other eight — coin 1, epic 4, legendary 8,
nineball 32, rare 64, uncommon 512, mythic 2048, palindrome 8192 — are masked out; so is
anything above bit 13, which no code path sets) -/
def nonSatCharms (c : Nat) : Nat :=
  (c / 2 % 2) * 2 + (c / 16 % 2) * 16 + (c / 128 % 2) * 128 + (c / 256 % 2) * 256 +
  (c / 1024 % 2) * 1024 + (c / 4096 % 2) * 4096

/-- an inscription entry without `sat` and without the sat-derived charms -/
structure PEntry where
  charms : Nat
  fee : Nat
  height : Nat
  hidden : Bool
  id : InscriptionId
  number : Int
  parents : List Nat
  seq : Nat
  timestamp : Nat
  deriving Repr, DecidableEq

def projEntry (e : InsEntry) : PEntry :=
  ⟨nonSatCharms e.charms, e.fee, e.height, e.hidden, e.id, e.number, e.parents, e.seq, e.timestamp⟩

/-- the inscription and rune results of an index -/
structure Proj where
  entries : List PEntry
  id2seq : List (InscriptionId × Nat)
  num2seq : List (Int × Nat)
  /-- locations -/
  seq2sp : List (Nat × SatPoint)
  children : List (Nat × Nat)
  coll2latest : List (Nat × Nat)
  latest2coll : List (Nat × Nat)
  gallery : List Nat
  home : List (Nat × InscriptionId)
  height2lastseq : List (Nat × Nat)
  cursed : Nat
  blessed : Nat
  unbound : Nat
  runeEntries : List (RuneId × RuneEntry)
  rune2id : List (Nat × RuneId)
  balances : List (OutPoint × List (RuneId × Nat))
  txid2rune : List (Txid × Nat)
  seq2rune : List (Nat × RuneId)
  runes : Nat
  reservedRunes : Nat

def projInsRunes (st : State) : Proj :=
  { entries := st.entries.map projEntry, id2seq := st.id2seq, num2seq := st.num2seq, seq2sp := st.seq2sp,
    children := st.children, coll2latest := st.coll2latest, latest2coll := st.latest2coll,
    gallery := st.gallery, home := st.home, height2lastseq := st.height2lastseq,
    cursed := st.cursed, blessed := st.blessed, unbound := st.unbound,
    runeEntries := st.runeEntries, rune2id := st.rune2id, balances := st.balances,
    txid2rune := st.txid2rune, seq2rune := st.seq2rune, runes := st.runes,
    reservedRunes := st.reservedRunes }

/-- the rune results alone: entries (with number, mints, burned, premine, terms …), name → id,
balances per outpoint, etching txid → name, and the two counters (`statistic Runes`,
`ReservedRunes`) — every rune table except SEQUENCE_NUMBER_TO_RUNE_ID, which is keyed by an
inscription's sequence number and so depends on the inscription pass -/
structure RuneProj where
  runeEntries : List (RuneId × RuneEntry)
  rune2id : List (Nat × RuneId)
  balances : List (OutPoint × List (RuneId × Nat))
  txid2rune : List (Txid × Nat)
  runes : Nat
  reservedRunes : Nat

def projRunes (st : State) : RuneProj :=
  { runeEntries := st.runeEntries, rune2id := st.rune2id, balances := st.balances,
    txid2rune := st.txid2rune, runes := st.runes, reservedRunes := st.reservedRunes }

/-- the two configurations differ at most in the three optional indexes -/
def SameUpToOptionalIndexes (a b : Cfg) : Prop :=
  a.indexInscriptions = b.indexInscriptions ∧ a.indexRunes = b.indexRunes ∧
  a.firstInscriptionHeight = b.firstInscriptionHeight ∧ a.jubileeHeight = b.jubileeHeight ∧
  a.firstRuneHeight = b.firstRuneHeight

/-- the configuration with the three optional indexes switched off -/
def Cfg.base (cfg : Cfg) : Cfg :=
  { cfg with indexSats := false, indexAddresses := false, indexTransactions := false }

/-! ### block shape

What the theorems need of "a valid chain" (all of it is implied by `Valid.validChain`): the
first transaction of a block is the coinbase (its first input is null), no other transaction
has an input with the all-zero txid (null / unbound outpoint), and no transaction has the
all-zero txid. -/

def TxShape (i : Nat) (tx : Tx) : Bool :=
  tx.txid != 0 &&
  (if i = 0 then (match tx.inputs with | inp :: _ => inp.prev.isNull | [] => false)
   else tx.inputs.all (fun inp => inp.prev.txid != 0))

def BlockShape (blk : Block) : Bool :=
  !blk.txs.isEmpty && (enumFrom 0 blk.txs).all (fun p => TxShape p.1 p.2)

/-! ### what a configuration sees of the chain

`Index::open`: `first_index_height` is 0 with the sat or address index, else the first
inscription height (inscriptions on), else the first rune height (runes on).  Below it
`Updater::get_block_with_retries` fetches the header only: the block arrives with no
transactions.  Values of outputs created below that height and spent above it come from the
node (`fetcher.rs`); the index model's local tracking *is* the specification of that path (the
correspondence stream `signet` of `harness/flagsx` compares them).

`fixed` = the repair of finding C15-S2 (notes/fix-C15-runes-first-index-height.diff) is present
in the source: with inscriptions AND runes indexed the height is the smaller of the two
activation heights.  The flag is read off the source text on every run
(`tools/extractors/first_index_height.py` → `Generated/FirstIndexHeight.lean`); the theorems are
stated for `false` (the unchanged code: `c15_fails_runes_below_first_index_height`) and for `true`
(`c15_fixed_…`). -/

def Cfg.firstIndexHeight (fixed : Bool) (cfg : Cfg) : Option Nat :=
  if cfg.indexSats || cfg.indexAddresses then some 0
  else if cfg.indexInscriptions then
    (if fixed && cfg.indexRunes then some (min cfg.firstInscriptionHeight cfg.firstRuneHeight)
     else some cfg.firstInscriptionHeight)
  else if cfg.indexRunes then some cfg.firstRuneHeight
  else none

/-- the block is delivered with its transactions (`height >= first_index_height`) -/
def Cfg.fetchesFull (fixed : Bool) (cfg : Cfg) (height : Nat) : Bool :=
  match cfg.firstIndexHeight fixed with
  | some h => decide (height ≥ h)
  | none => false

/-- the block as `fetch_blocks_from` delivers it -/
def fetchView (fixed : Bool) (cfg : Cfg) (blk : Block) : Block :=
  match cfg.firstIndexHeight fixed with
  | some h => if blk.height ≥ h then blk else { blk with txs := [] }
  | none => { blk with txs := [] }

/-- index the chain as the configuration sees it -/
def runSeen (fixed : Bool) (cfg : Cfg) (chain : List Block) : Outcome (State × List Event) :=
  run cfg (chain.map (fetchView fixed cfg))

/-- One block as the configuration sees it, *with local tracking standing in for the node*: a
block delivered header-only has no transaction for the rune updater, and the inscription updater
is not active there either (`first_index_height ≤ first_inscription_height`); the values of its
outputs, which the real index later obtains from the node (`fetcher.rs`) when they are spent
above `first_index_height`, are tracked locally by the UTXO pass of the model.  This is what the
driver of stream `signet` (`drv_flagsx`) folds over the sparse chain it is fed; on blocks
delivered in full it is `applyBlock`. -/
def applyBlockTracked (fixed : Bool) (cfg : Cfg) (st : State) (blk : Block) : Outcome (State × List Event) :=
  if cfg.fetchesFull fixed blk.height then applyBlock cfg st blk
  else applyBlock { cfg with indexRunes := false } st blk

/-- index the chain as the configuration sees it, values of outputs created below
`first_index_height` tracked locally (the fold `drv_flagsx` performs) -/
def runTrackedFrom (fixed : Bool) (cfg : Cfg) : State → List Block → Outcome (State × List Event)
  | st, [] => .ok (st, [])
  | st, b :: bs =>
    match applyBlockTracked fixed cfg st b with
    | .panic s => .panic s
    | .err e => .err e
    | .ok (st1, ev1) =>
      match runTrackedFrom fixed cfg st1 bs with
      | .panic s => .panic s
      | .err e => .err e
      | .ok (st2, ev2) => .ok (st2, ev1 ++ ev2)

def runTracked (fixed : Bool) (cfg : Cfg) (chain : List Block) : Outcome (State × List Event) :=
  runTrackedFrom fixed cfg {} chain

end Ord.Index
