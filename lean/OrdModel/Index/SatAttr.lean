import OrdModel.Index.Chain
/-
The few sat attributes the updater reads: `Sat::common` (gate for SAT_TO_SATPOINT rows) and
`Sat::charms` (coin, rarity, nineball, palindrome bits stored in an inscription entry).
Written directly from sat.rs / rarity.rs / degree.rs; the C29 model (OrdModel/Num) is the
authoritative treatment of sat numbering — these are kept minimal and compared with the real
crate through every inscription entry and rare-sat row in the index correspondence.
-/
namespace Ord.Index

def SUPPLY : Nat := 2099999997690000

/-- `Epoch::from(Sat)`: the last epoch whose starting sat is ≤ s (33 once the supply is out) -/
def satEpochAux (s : Nat) : Nat → Nat → Nat
  | 0, e => e
  | fuel + 1, e => if e < 33 ∧ epochStartingSat (e + 1) ≤ s then satEpochAux s fuel (e + 1) else e

def satEpoch (s : Nat) : Nat := satEpochAux s 33 0

def epochSubsidy (e : Nat) : Nat := if e < 33 then 5000000000 >>> e else 0

/-- `Sat::height` -/
def satHeight (s : Nat) : Nat :=
  let e := satEpoch s
  if epochSubsidy e = 0 then e * 210000 else e * 210000 + (s - epochStartingSat e) / epochSubsidy e

/-- `Sat::third` (offset within the block's subsidy) -/
def satThird (s : Nat) : Nat :=
  let e := satEpoch s
  if epochSubsidy e = 0 then 0 else (s - epochStartingSat e) % epochSubsidy e

/-- `!Sat::common()` — the slow path of `common`, which the fast path agrees with (C29) -/
def satRare (s : Nat) : Bool := satThird s == 0

def palindromeRev : Nat → Nat → Nat → Nat
  | 0, _, acc => acc
  | fuel + 1, n, acc => if n = 0 then acc else palindromeRev fuel (n / 10) (acc * 10 + n % 10)

def satPalindrome (s : Nat) : Bool := palindromeRev 40 s 0 == s

def charmCoin : Nat := 1
def charmCursed : Nat := 2
def charmEpic : Nat := 4
def charmLegendary : Nat := 8
def charmLost : Nat := 16
def charmNineball : Nat := 32
def charmRare : Nat := 64
def charmReinscription : Nat := 128
def charmUnbound : Nat := 256
def charmUncommon : Nat := 512
def charmVindicated : Nat := 1024
def charmMythic : Nat := 2048
def charmBurned : Nat := 4096
def charmPalindrome : Nat := 8192

/-- `Rarity::from(Sat)` as its charm bit (0 for common) -/
def rarityCharm (s : Nat) : Nat :=
  let h := satHeight s
  let hour := h / 1260000
  let minute := h % 210000
  let second := h % 2016
  let third := satThird s
  if hour = 0 ∧ minute = 0 ∧ second = 0 ∧ third = 0 then charmMythic
  else if minute = 0 ∧ second = 0 ∧ third = 0 then charmLegendary
  else if minute = 0 ∧ third = 0 then charmEpic
  else if second = 0 ∧ third = 0 then charmRare
  else if third = 0 then charmUncommon
  else 0

/-- `Sat::charms` (the bits are disjoint, so `|` is `+`) -/
def satCharms (s : Nat) : Nat :=
  (if 45000000000 ≤ s ∧ s < 50000000000 then charmNineball else 0)
  + (if satPalindrome s then charmPalindrome else 0)
  + (if s % 100000000 = 0 then charmCoin else 0)
  + rarityCharm s

/-- set a charm bit (idempotent `|=`) -/
def setCharm (charms bit : Nat) : Nat := if (charms / bit) % 2 = 1 then charms else charms + bit

def hasCharm (charms bit : Nat) : Bool := (charms / bit) % 2 == 1

end Ord.Index
