import OrdModel.Index.RuneSpec
/-
Executable predicates of the `runesupply` group (C08, C09), evaluated by the driver on the
IMPLEMENTATION's own dump rows:

* `conservedB`   — the conclusion of C08 as a `Bool` (supply equation per rune, no zero balance,
                   no unknown rune, no balances row on an OP_RETURN outpoint).
* `specTx`       — `Spec.allocate` applied to one transaction given the balances of the outpoints
                   it spends (a specification-level state: outpoint ↦ balances, rune ↦ entry),
                   producing the rows the transaction's outputs must hold and the burns.
-/
namespace Ord.Index.Oracle
open Ord.Index.Spec

/-- mint amount of an entry: "its mint count times its mint amount" -/
def mintAmount (e : RuneEntry) : Nat :=
  match e.terms with
  | some t => t.amount.getD 0
  | none => 0

/-- Σ over all stored rows of the balance of rune `id` -/
def supplyIn (bals : List (OutPoint × Balances)) (id : RuneId) : Nat :=
  match bals with
  | [] => 0
  | (_, row) :: rest => lk row id + supplyIn rest id

/-- C08, first sentence, for one rune -/
def suppliedB (bals : List (OutPoint × Balances)) (id : RuneId) (e : RuneEntry) : Bool :=
  supplyIn bals id + e.burned == e.premine + e.mints * mintAmount e

/-- every stored balance is positive and names an existing rune -/
def rowOkB (ents : List (RuneId × RuneEntry)) (row : Balances) : Bool :=
  row.all (fun (id, b) => decide (b > 0) && AL.contains ents id)

/-- ids of a stored row are strictly increasing (so no id occurs twice) -/
def rowSortedB : Balances → Bool
  | [] => true
  | [_] => true
  | a :: b :: rest => a.1.lt b.1 && rowSortedB (b :: rest)

/-- C08 as a Bool.  `opret o` = "outpoint `o` is an OP_RETURN output" (from the chain). -/
def conservedB (ents : List (RuneId × RuneEntry)) (bals : List (OutPoint × Balances))
    (opret : OutPoint → Bool) : Bool :=
  ents.all (fun (id, e) => suppliedB bals id e)
  && bals.all (fun (o, row) => rowOkB ents row && rowSortedB row && !row.isEmpty && !opret o)

/-! ### specification-level replay of a block on the implementation's rows -/

structure SpecState where
  /-- outpoint ↦ balances, as the implementation's previous `balances` rows say, then as
  `Spec.allocate` says -/
  cur : List (OutPoint × Balances) := []
  /-- rune ↦ entry, as the implementation's previous `rune` rows say, then with the mints /
  etchings / burns of the replayed transactions -/
  ents : List (RuneId × RuneEntry) := []
  deriving Inhabited

def insertSorted (a : RuneId × Nat) : Balances → Balances
  | [] => [a]
  | b :: rest => if a.1.lt b.1 then a :: b :: rest else b :: insertSorted a rest

def sortRow (row : Balances) : Balances := row.foldr insertSorted []

def dedupIds (ids : List RuneId) : List RuneId :=
  ids.foldl (fun acc id => if acc.contains id then acc else acc ++ [id]) []

/-- take the rows of the spent outpoints (each outpoint at most once) -/
def takeRows : List OutPoint → List (OutPoint × Balances) → List Balances → List (OutPoint × Balances) × List Balances
  | [], cur, acc => (cur, acc)
  | o :: rest, cur, acc =>
    match AL.get cur o with
    | some row => takeRows rest (AL.erase cur o) (acc ++ [row])
    | none => takeRows rest cur acc

def sumRows (rows : List Balances) (r : RuneId) : Nat :=
  match rows with
  | [] => 0
  | row :: rest => lk row r + sumRows rest r

structure TxOutcome where
  /-- per output: the row it must hold (empty = no row) -/
  rows : List (Nat × Balances)
  /-- burned per rune (zero entries included) -/
  burned : Balances
  /-- a problem that makes the replay meaningless (malformed runestone, etched flag without etching) -/
  problem : Option String
  deriving Inhabited

/-- one transaction at height `h`, index `i`: `etchedHere` says whether the implementation
created rune `h:i` (etching validity is C11's subject, not this group's) -/
def specTx (s : SpecState) (h i : Nat) (txid : Txid) (ins : List OutPoint) (outs : List Bool)
    (art : Option Artifact) (etchedHere : Bool) : SpecState × TxOutcome :=
  let (cur1, inRows) := takeRows ins s.cur []
  let msg := Message.ofArtifact art
  -- mint (R: "If the mint is open, the mint amount is added to the unallocated runes")
  let mintId : Option RuneId := match art with
    | some (.runestone _ _ m _) => m
    | some (.cenotaph _ m) => m
    | none => none
  let (ents1, mint) : List (RuneId × RuneEntry) × Option (RuneId × Nat) :=
    match mintId with
    | none => (s.ents, none)
    | some id =>
      match AL.get s.ents id with
      | none => (s.ents, none)
      | some e =>
        match e.mintable h with
        | none => (s.ents, none)
        | some a => (AL.set s.ents id { e with mints := e.mints + 1 }, some (id, a))
  -- etching
  let etchingOf : Option (Option Etching) := match art with
    | some (.runestone _ e _ _) => some e
    | _ => none
  let hasEtching : Bool := match art with
    | some (.runestone _ (some _) _ _) => true
    | some (.cenotaph (some _) _) => true
    | _ => false
  let etched : Option (RuneId × Nat) :=
    if etchedHere then
      some (⟨h, i⟩, match etchingOf with | some (some e) => e.premine.getD 0 | _ => 0)
    else none
  let ents2 := match etched with
    | none => ents1
    | some (id, p) =>
      let terms : Option Terms := match etchingOf with | some (some e) => e.terms | _ => none
      AL.set ents1 id ⟨h, 0, 0, txid, 0, 0, p, 0, 0, none, terms, 0, false⟩
  let ids := dedupIds (inRows.flatMap (·.map (·.1)) ++ (match mint with | some (id, _) => [id] | none => [])
                       ++ (match etched with | some (id, _) => [id] | none => []))
  let u0 := unallocated (sumRows inRows) mint etched
  let res : List (RuneId × Result) := ids.map (fun r => (r, Spec.allocate outs msg (etched.map (·.1)) r (u0 r)))
  let rows : List (Nat × Balances) := (List.range outs.length).map (fun v =>
    (v, sortRow (res.filterMap (fun (r, x) => if x.out v > 0 then some (r, x.out v) else none))))
  let burned : Balances := res.map (fun (r, x) => (r, x.burned))
  let cur2 := rows.foldl (fun c (v, row) => if row.isEmpty then c else AL.set c ⟨txid, v⟩ row) cur1
  let ents3 := burned.foldl (fun es (r, b) =>
    match AL.get es r with
    | some e => AL.set es r { e with burned := e.burned + b }
    | none => es) ents2
  let problem : Option String :=
    if !wellFormedB outs.length msg then some "malformed-runestone"
    else if etchedHere && !hasEtching then some "etched-without-etching"
    else if burned.any (fun (r, b) => b > 0 && !AL.contains ents2 r) then some "burn-of-unknown-rune"
    else none
  ({ cur := cur2, ents := ents3 }, ⟨rows, burned, problem⟩)

/-- what the probe could observe of one output of the transaction in the implementation's rows -/
inductive Obs where
  /-- the output is unspent at the end of the block and has this row (empty = no row) -/
  | row (r : Balances)
  /-- the output was spent later in the same block: nothing observable -/
  | unknown
  deriving Inhabited

def obsAgree (rows : List (Nat × Balances)) (obs : List (Nat × Obs)) : Bool :=
  obs.all (fun (v, o) => match o with
    | .unknown => true
    | .row r => match AL.get rows v with
      | some r' => r == r'
      | none => r.isEmpty)

/-- burns agree as maps (a zero burn and no burn are the same); `none` = not observable -/
def burnAgree (spec : Balances) (obs : Option Balances) : Bool :=
  match obs with
  | none => true
  | some o =>
    spec.all (fun (r, b) => lk o r == b) && o.all (fun (r, b) => lk spec r == b)

end Ord.Index.Oracle
