import OrdModel.Index.State
/-
Sat lookups of `/repo/src/index.rs`: `Index::find`, `Index::find_range`, `Index::list`,
`Index::rare_sat_satpoints`, `Index::rare_sat_satpoint`.

The real `find`/`find_range` iterate OUTPOINT_TO_UTXO_ENTRY in redb key order; the model scans
`st.utxo` in its own (insertion) order.  Under the partition invariant of C02 a sat is in at
most one place, so the scan order cannot be observed for `find` (theorem
`c02_find_order_irrelevant`); `find_range` returns its hits in scan order, so the harness and
the driver both sort them by `start` before comparing.
-/
namespace Ord.Index
open Outcome

/-- `Sat::height`: `epoch.starting_height + epoch_position / epoch.subsidy()` — a division by
zero (panic) for a sat at or beyond the supply (epoch 33, subsidy 0) -/
def satHeightO (s : Nat) : Outcome Nat :=
  if epochSubsidy (satEpoch s) = 0 then .panic "attempt to divide by zero" else .ok (satHeight s)

/-- the inner `for chunk in sat_ranges.chunks_exact(11)` loop of `find` -/
def findInRanges (sat : Nat) : List (Nat × Nat) → Nat → Option Nat
  | [], _ => none
  | (s, e) :: rest, offset =>
    if s ≤ sat ∧ sat < e then some (offset + sat - s)
    else findInRanges sat rest (offset + (e - s))

/-- the outer `for entry in outpoint_to_utxo_entry.iter()` loop of `find` -/
def findInUtxo (sat : Nat) : List (OutPoint × UtxoEntry) → Option SatPoint
  | [] => none
  | (op, e) :: rest =>
    match findInRanges sat e.ranges 0 with
    | some off => some ⟨op, off⟩
    | none => findInUtxo sat rest

/-- `Index::find` (sat index on) -/
def find (st : State) (sat : Nat) : Outcome (Option SatPoint) :=
  match satHeightO sat with
  | .panic s => .panic s
  | .err e => .err e
  | .ok h => if st.height ≤ h then .ok none else .ok (findInUtxo sat st.utxo)

structure FindRangeOutput where
  start : Nat
  size : Nat
  satpoint : SatPoint
  deriving Repr, Inhabited, DecidableEq

/-- the inner loop of `find_range` over one entry's ranges: `(remaining_sats, hits)`;
`remaining = 0` after a hit is the `break` (which leaves only the inner loop) -/
def findRangeEntry (rs re : Nat) (op : OutPoint) : List (Nat × Nat) → (offset remaining : Nat) →
    Outcome (Nat × List FindRangeOutput)
  | [], _, remaining => .ok (remaining, [])
  | (s, e) :: rest, offset, remaining =>
    if e > rs ∧ s < re then
      let os := max s rs
      let oe := min e re
      let hit : FindRangeOutput := ⟨os, oe - os, ⟨op, offset + os - s⟩⟩
      if remaining < oe - os then .panic "remaining_sats -= overlap_end - overlap_start"
      else if remaining - (oe - os) = 0 then .ok (0, [hit])
      else
        match findRangeEntry rs re op rest (offset + (e - s)) (remaining - (oe - os)) with
        | .ok (r, hits) => .ok (r, hit :: hits)
        | .panic x => .panic x
        | .err x => .err x
    else findRangeEntry rs re op rest (offset + (e - s)) remaining

/-- the outer loop of `find_range` -/
def findRangeUtxo (rs re : Nat) : List (OutPoint × UtxoEntry) → (remaining : Nat) →
    Outcome (List FindRangeOutput)
  | [], _ => .ok []
  | (op, e) :: rest, remaining =>
    match findRangeEntry rs re op e.ranges 0 remaining with
    | .panic x => .panic x
    | .err x => .err x
    | .ok (r, hits) =>
      match findRangeUtxo rs re rest r with
      | .ok more => .ok (hits ++ more)
      | .panic x => .panic x
      | .err x => .err x

/-- `Index::find_range(range_start, range_end)` (sat index on) -/
def findRange (st : State) (rs re : Nat) : Outcome (Option (List FindRangeOutput)) :=
  if re = 0 then .panic "range_end - 1" else
  match satHeightO (re - 1) with
  | .panic s => .panic s
  | .err e => .err e
  | .ok h =>
    if st.height < h + 1 then .ok none
    else if re < rs then .err "range end is before range start"
    else
      match findRangeUtxo rs re st.utxo (re - rs) with
      | .ok hits => .ok (some hits)
      | .panic x => .panic x
      | .err x => .err x

/-- `Index::list` -/
def list (cfg : Cfg) (st : State) (op : OutPoint) : Option (List (Nat × Nat)) :=
  if !cfg.indexSats then none else (AL.get st.utxo op).map (·.ranges)

/-- `Index::rare_sat_satpoints` (as a set of rows; the real one returns them in key order) -/
def rareSatSatpoints (st : State) : List (Nat × SatPoint) := st.sat2sp

/-- `Index::rare_sat_satpoint` -/
def rareSatSatpoint (st : State) (sat : Nat) : Option SatPoint := AL.get st.sat2sp sat

end Ord.Index
