import OrdModel.Index.Block
/-
Property group "insnum" (C05, C06, C07): the read-side views of the inscription tables
(`Index::get_inscription_entry`, `get_inscriptions_in_block`, `get_inscriptions_paginated`,
`get_inscription_ids_by_sat`, `get_children_by_sequence_number_paginated`,
`get_parents_by_sequence_number_paginated`, `get_collections_paginated` of src/index.rs) and the
executable forms of the properties' conclusions.  The executable predicates are evaluated by the
driver on the *implementation's* dump rows (oracle lines) and are what the theorems of
`Theorems/C05.lean`, `C06.lean`, `C07.lean` establish for every reachable model state.
Model file: core Lean only.
-/
namespace Ord.Index.Insnum
open Ord.Index

/-! ### Queries (src/index.rs) -/

/-- `Index::get_inscription_entry` -/
def entryById (st : State) (id : InscriptionId) : Option InsEntry :=
  match AL.get st.id2seq id with
  | none => none
  | some s => st.entries[s]?

/-- `/inscription/<number>`: `get_inscription_id_by_inscription_number` -/
def idByNumber (st : State) (n : Int) : Option InscriptionId :=
  match AL.get st.num2seq n with
  | none => none
  | some s => (st.entries[s]?).map (·.id)

/-- `Index::get_inscriptions_in_block`; `none` = the `Err` branch (missing entry) -/
def inscriptionsInBlock (st : State) (h : Nat) : Option (List InscriptionId) :=
  match AL.get st.height2lastseq h with
  | none => some []
  | some newest =>
    let oldest := match AL.get st.height2lastseq (h - 1) with | some o => o | none => 0
    (List.range' oldest (newest - oldest)).mapM (fun n => (st.entries[n]?).map (·.id))

def U32MAX : Nat := 4294967295

/-- `Index::get_inscriptions_paginated` (u32 saturating arithmetic) -/
def inscriptionsPaginated (st : State) (size index : Nat) : List InscriptionId × Bool :=
  let last := st.entries.length - 1
  let prod := if size * index > U32MAX then U32MAX else size * index
  let start := last - prod
  let end_ := start - size
  let ids := ((List.range' end_ (start - end_ + 1)).reverse.filterMap (fun n => (st.entries[n]?).map (·.id)))
  let more := decide (ids.length > size)
  (if more then ids.dropLast else ids, more)

def sortNat (l : List Nat) : List Nat := l.mergeSort (fun a b => a ≤ b)

/-- values of a pair-set multimap under one key, ascending (redb order) -/
def valuesOf (m : List (Nat × Nat)) (k : Nat) : List Nat := sortNat ((m.filter (·.1 == k)).map (·.2))

/-- ids of a list of sequence numbers; `none` = the `unwrap` on a missing entry -/
def idsOf (st : State) (seqs : List Nat) : Option (List InscriptionId) :=
  seqs.mapM (fun n => (st.entries[n]?).map (·.id))

def pageOf (st : State) (all : List Nat) (size skip : Nat) : Option (List InscriptionId × Bool) :=
  match idsOf st ((all.drop skip).take (size + 1)) with
  | none => none
  | some ids =>
    let more := decide (ids.length > size)
    some (if more then ids.dropLast else ids, more)

/-- `Index::get_inscription_ids_by_sat` -/
def idsBySat (st : State) (sat : Nat) : Option (List InscriptionId) := idsOf st (valuesOf st.sat2seq sat)

/-- `Index::get_children_by_sequence_number_paginated` -/
def childrenPaginated (st : State) (seq size page : Nat) : Option (List InscriptionId × Bool) :=
  pageOf st (valuesOf st.children seq) size (page * size)

/-- `Index::get_parents_by_sequence_number_paginated` applied to the entry's own parent list -/
def parentsPaginated (st : State) (seq size page : Nat) : Option (List InscriptionId × Bool) :=
  match st.entries[seq]? with
  | none => none
  | some e => pageOf st e.parents size (page * size)

/-- `Index::get_collections_paginated`: latest children descending, their collections ascending -/
def collectionsPaginated (st : State) (size page : Nat) : Option (List InscriptionId × Bool) :=
  let keys := (sortNat ((st.latest2coll.map (·.1)).eraseDups)).reverse
  pageOf st (keys.flatMap (fun k => valuesOf st.latest2coll k)) size (page * size)

/-! ### C05: executable conclusions -/

/-- `entries[i].seq = i` -/
def seqOkFrom : List InsEntry → Nat → Bool
  | [], _ => true
  | e :: es, i => e.seq == i && seqOkFrom es (i + 1)

/-- walking the numbers in sequence order: each is the next blessed number `b` or the next cursed
number `-(c+1)`; returns the final counters -/
def numberWalk : List Int → Nat → Nat → Option (Nat × Nat)
  | [], b, c => some (b, c)
  | n :: ns, b, c =>
    if n = (b : Int) then numberWalk ns (b + 1) c
    else if n = -((c : Int) + 1) then numberWalk ns b (c + 1)
    else none

def denseOk (st : State) : Bool :=
  seqOkFrom st.entries 0
  && numberWalk (st.entries.map (·.number)) 0 0 == some (st.blessed, st.cursed)
  && st.entries.all (fun e => hasCharm e.charms charmCursed == decide (e.number < 0))

def inverseOk (st : State) : Bool :=
  st.entries.all (fun e => AL.get st.num2seq e.number == some e.seq && AL.get st.id2seq e.id == some e.seq)
  && st.num2seq.all (fun (n, s) => match st.entries[s]? with | some e => e.number == n | none => false)
  && st.id2seq.all (fun (i, s) => match st.entries[s]? with | some e => e.id == i | none => false)
  && st.num2seq.length == st.entries.length && st.id2seq.length == st.entries.length

def jubileeOk (jubilee : Nat) (st : State) : Bool :=
  st.entries.all (fun e =>
    (decide (e.height < jubilee) || decide (e.number ≥ 0))
    && (!hasCharm e.charms charmVindicated || decide (e.height ≥ jubilee)))

/-- `txs` = (reveal txid, number of envelopes the parser finds in it, its height) -/
def idsOk (txs : List (Txid × Nat × Nat)) (st : State) : Bool :=
  st.entries.all (fun e => match txs.find? (·.1 == e.id.txid) with
    | some (_, m, h) => decide (e.id.index < m) && e.height == h
    | none => false)
  && txs.all (fun (t, _, _) =>
    let idxs := (st.entries.filter (·.id.txid == t)).map (·.id.index)
    idxs.all (· < idxs.length) && idxs.eraseDups.length == idxs.length)

/-- `(sequence number, reveal spent to fees)` of one block in sequence order: fee-spent last -/
def feeLastOk : List (Nat × Nat) → Bool
  | [] => true
  | (_, f) :: rest => decide (f ≤ 1) && (if f == 1 then rest.all (·.2 == 1) else feeLastOk rest)

/-! ### C06: executable conclusions -/

/-- all inscriptions of one sat in sequence order with their reinscription flag -/
def reinscriptionOk : List (Nat × Bool) → Bool
  | [] => true
  | _ :: rest => rest.all (·.2)

def cleanFirstOk (seqs : List Nat) (st : State) : Bool :=
  seqs.all (fun s => match st.entries[s]? with
    | some e => !hasCharm e.charms charmCursed && !hasCharm e.charms charmVindicated
        && !hasCharm e.charms charmReinscription && decide (e.number ≥ 0)
    | none => false)

/-! ### C07: executable conclusions -/

structure ChildCell where
  child : Nat
  parents : List Nat
  parentIds : List InscriptionId
  floating : List InscriptionId

def parentsOk (cells : List ChildCell) : Bool :=
  cells.all (fun c => c.parents.all (· < c.child) && c.parents.eraseDups.length == c.parents.length
    && c.parentIds.length == c.parents.length && c.parentIds.all (c.floating.contains ·))

def childrenOk (st : State) : Bool :=
  st.children.all (fun (p, c) => match st.entries[c]? with | some e => e.parents.contains p | none => false)
  && st.entries.all (fun e => e.parents.all (fun p => st.children.contains (p, e.seq)))

def maxOf : List Nat → Nat
  | [] => 0
  | a :: as => Nat.max a (maxOf as)

def latestOk (st : State) : Bool :=
  ((st.children.map (·.1)).eraseDups).all (fun p => match st.entries[p]? with
    | none => false
    | some e =>
      if e.hidden then (AL.get st.coll2latest p).isNone
      else AL.get st.coll2latest p == some (maxOf ((st.children.filter (·.1 == p)).map (·.2))))
  && st.coll2latest.all (fun (p, l) => st.latest2coll.contains (l, p) && st.children.contains (p, l))
  && st.latest2coll.all (fun (l, p) => AL.get st.coll2latest p == some l)
  && ((st.coll2latest.map (·.1)).eraseDups).length == st.coll2latest.length

end Ord.Index.Insnum
