import OrdModel.Index.Block
/-
Indexing a whole chain: `applyBlock` folded over the block list from the empty index, with the
emitted events concatenated.  `Reachable cfg st` = `st` is the index content after some chain.
(Shared by the chain-level theorems of C16, C17, C37.)
-/
namespace Ord.Index
open Outcome

/-- index `blocks` on top of `st`; events of all blocks in order -/
def runFrom (cfg : Cfg) : State → List Block → Outcome (State × List Event)
  | st, [] => .ok (st, [])
  | st, b :: bs =>
    match applyBlock cfg st b with
    | .panic s => .panic s
    | .err e => .err e
    | .ok (st1, ev1) =>
      match runFrom cfg st1 bs with
      | .panic s => .panic s
      | .err e => .err e
      | .ok (st2, ev2) => .ok (st2, ev1 ++ ev2)

/-- index a chain from the empty index -/
def run (cfg : Cfg) (chain : List Block) : Outcome (State × List Event) := runFrom cfg {} chain

def Reachable (cfg : Cfg) (st : State) : Prop := ∃ chain evs, run cfg chain = .ok (st, evs)

/-- Invariant principle: a predicate on (blocks indexed so far, state, events so far) that holds
initially and is preserved by every successful `applyBlock` holds after every successful run. -/
theorem runFrom_induct (cfg : Cfg) (P : List Block → State → List Event → Prop)
    (step : ∀ pre st evs b st' ev', P pre st evs → applyBlock cfg st b = .ok (st', ev') →
      P (pre ++ [b]) st' (evs ++ ev'))
    : ∀ (bs pre : List Block) (st : State) (evs : List Event) (st' : State) (evs' : List Event),
      P pre st evs → runFrom cfg st bs = .ok (st', evs') → P (pre ++ bs) st' (evs ++ evs') := by
  intro bs
  induction bs with
  | nil =>
    intro pre st evs st' evs' h hr
    simp only [runFrom, Outcome.ok.injEq, Prod.mk.injEq] at hr
    obtain ⟨rfl, rfl⟩ := hr
    simpa using h
  | cons b bs ih =>
    intro pre st evs st' evs' h hr
    simp only [runFrom] at hr
    split at hr
    · exact absurd hr (by simp)
    · exact absurd hr (by simp)
    · rename_i st1 ev1 hb
      split at hr
      · exact absurd hr (by simp)
      · exact absurd hr (by simp)
      · rename_i st2 ev2 hrest
        simp only [Outcome.ok.injEq, Prod.mk.injEq] at hr
        obtain ⟨rfl, rfl⟩ := hr
        have h1 := step pre st evs b st1 ev1 h hb
        have h2 := ih (pre ++ [b]) st1 (evs ++ ev1) st2 ev2 h1 hrest
        simpa [List.append_assoc] using h2

theorem run_induct (cfg : Cfg) (P : List Block → State → List Event → Prop)
    (init : P [] {} [])
    (step : ∀ pre st evs b st' ev', P pre st evs → applyBlock cfg st b = .ok (st', ev') →
      P (pre ++ [b]) st' (evs ++ ev'))
    (chain : List Block) (st : State) (evs : List Event) (h : run cfg chain = .ok (st, evs)) :
    P chain st evs := by
  have := runFrom_induct cfg P step chain [] {} [] st evs init h
  simpa using this

end Ord.Index
