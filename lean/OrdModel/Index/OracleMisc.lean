/-
Executable predicates of the `ixmisc` group (C17, C37, C16), evaluated by the driver on the
IMPLEMENTATION's own dump rows (`ix.oracle.*` request lines).  Rows arrive as text; the
predicates work on the text tokens (outpoints `txid:vout`, scripts as hex, "-" = empty) so that
no parsing step can hide a difference.
-/
namespace Ord.Index.OracleMisc

/-- the two special outpoints (`OutPoint::null()`, `unbound_outpoint()`): all-zero txid -/
def isSpecialText (op : String) : Bool :=
  op.startsWith "0000000000000000000000000000000000000000000000000000000000000000:"

/-- C17, clause 1, on rows: `addr` = rows `(script, outpoints)` of SCRIPT_PUBKEY_TO_OUTPOINT,
`utxo` = `(outpoint, script)` of every row of OUTPOINT_TO_UTXO_ENTRY.
`(script, o)` is listed ↔ `o` has a utxo entry with that script; nothing is listed twice. -/
def addrOk (addr : List (String × List String)) (utxo : List (String × String)) : Bool :=
  let listed : List (String × String) := addr.flatMap (fun (s, ops) => ops.map (fun o => (o, s)))
  listed.all (fun p => utxo.contains p)
    && utxo.all (fun p => listed.contains p)
    && listed.length == utxo.length
    && (addr.map (·.1)).eraseDups.length == addr.length

/-- C17, clause 2 and "currently unspent", on rows: `utxo` = `(outpoint, value, script)` of every
utxo row, `expected` = the outputs the chain created and has not spent (all of them: OP_RETURN,
zero-value and empty-script outputs included), `node` = `(outpoint, value)` of the node's UTXO
set (no OP_RETURN outputs, no genesis coinbase: `genesis` lists its outpoints).  Non-special utxo rows = `expected`, with equal value and script;
special rows carry the empty script; the node's set is the non-OP_RETURN part of `expected`. -/
def addrChainOk (utxo expected : List (String × String × String)) (genesis : List String)
    (node : List (String × String)) : Bool :=
  let real := utxo.filter (fun r => !isSpecialText r.1)
  let special := utxo.filter (fun r => isSpecialText r.1)
  real.all (fun r => expected.contains r)
    && expected.all (fun r => real.contains r)
    && real.length == expected.length
    && special.all (fun r => r.2.2 == "-")
    && node.all (fun (o, v) => expected.any (fun r => r.1 == o && r.2.1 == v))
    && expected.all (fun r => r.2.2.startsWith "6a" || genesis.contains r.1 || node.contains (r.1, r.2.1))

end Ord.Index.OracleMisc
