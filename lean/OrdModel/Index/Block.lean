import OrdModel.Index.Inscriptions
import OrdModel.Index.Runes
/-
`Updater::index_block` / `index_utxo_entries` followed by `commit` (src/index/updater.rs), i.e.
the index content after one more block has been indexed and committed.  This is the abstract
layer: the UTXO cache of the block is flushed at the end of the block (`flushCache`), which is
what `commit` does; independence of *when* commits happen is C12's refinement.
-/
namespace Ord.Index
open Outcome

/-- per-block UTXO cache (`utxo_cache`) for real outputs, insertion order -/
abbrev Cache := List (OutPoint × UtxoEntry)

structure BlockCtx where
  st : State
  cache : Cache := []
  coinbaseInputs : List (Nat × Nat) := []
  lostRanges : List (Nat × Nat) := []
  ins : InsCtx
  deriving Inhabited

/-- take the entries spent by a transaction: cache first, then the table (removing the
script-index row of a table-resident entry), else the node would be asked (no full UTXO index:
not modelled here) -/
def takeInputEntries (cfg : Cfg) : List TxIn → BlockCtx → List (TxIn × UtxoEntry) →
    Outcome (BlockCtx × List (TxIn × UtxoEntry))
  | [], bc, acc => .ok (bc, acc)
  | i :: rest, bc, acc =>
    match AL.get bc.cache i.prev with
    | some e => takeInputEntries cfg rest { bc with cache := AL.erase bc.cache i.prev } (acc ++ [(i, e)])
    | none =>
      match AL.get bc.st.utxo i.prev with
      | some e =>
        let st1 := { bc.st with utxo := AL.erase bc.st.utxo i.prev }
        if cfg.indexAddresses then
          if st1.script2out.contains (e.script, i.prev) then
            takeInputEntries cfg rest
              { bc with st := { st1 with script2out := st1.script2out.filter (fun x => !(x == (e.script, i.prev))) } }
              (acc ++ [(i, e)])
          else .panic "script pubkey entry not found"
        else takeInputEntries cfg rest { bc with st := st1 } (acc ++ [(i, e)])
      | none => .panic "assert!(!self.index.have_full_utxo_index())"

def setRare (txid : Txid) (m : List (Nat × SatPoint)) : List (Nat × Nat × Nat) → List (Nat × SatPoint)
  | [] => m
  | (s, vout, off) :: rest => setRare txid (AL.set m s ⟨⟨txid, vout⟩, off⟩) rest

/-- one transaction of `index_utxo_entries` -/
def indexTx (cfg : Cfg) (blk : Block) (insOn : Bool) (txOffset : Nat) (tx : Tx) (bc : BlockCtx) : Outcome BlockCtx :=
  let inputsO : Outcome (BlockCtx × List (TxIn × UtxoEntry)) :=
    if txOffset = 0 then .ok (bc, tx.inputs.map (fun i => (i, UtxoEntry.empty)))
    else takeInputEntries cfg tx.inputs bc []
  match inputsO with
  | .panic s => .panic s
  | .err e => .err e
  | .ok (bc1, inputs) =>
    let outs0 : List UtxoEntry := tx.outputs.map (fun _ => UtxoEntry.empty)
    -- sats
    let satsO : Outcome (BlockCtx × List UtxoEntry × Option (List (Nat × Nat))) :=
      if cfg.indexSats then
        let inRanges := if txOffset = 0 then bc1.coinbaseInputs else inputs.flatMap (fun (_, e) => e.ranges)
        match indexTransactionSats (tx.outputs.map (·.value)) inRanges with
        | none => .panic "insufficient inputs for transaction outputs"
        | some r =>
          let outs := (outs0.zip r.outputs).map (fun (e, rs) => { e with ranges := rs })
          let st := { bc1.st with sat2sp := setRare tx.txid bc1.st.sat2sp r.rare }
          let bc2 := if txOffset = 0 then { bc1 with st := st, lostRanges := bc1.lostRanges ++ r.leftover }
                     else { bc1 with st := st, coinbaseInputs := bc1.coinbaseInputs ++ r.leftover }
          .ok (bc2, outs, some inRanges)
      else
        .ok (bc1, (outs0.zip tx.outputs).map (fun (e, o) => { e with value := o.value }), none)
    match satsO with
    | .panic s => .panic s
    | .err e => .err e
    | .ok (bc2, outs1, inRanges) =>
      let outs2 := if cfg.indexAddresses then (outs1.zip tx.outputs).map (fun (e, o) => { e with script := o.script }) else outs1
      let insO : Outcome (BlockCtx × List UtxoEntry) :=
        if insOn then
          match indexInscriptions cfg blk.height blk.time tx inputs inRanges { st := bc2.st, ctx := bc2.ins, outs := outs2 } with
          | .panic s => .panic s
          | .err e => .err e
          | .ok ls => .ok ({ bc2 with st := ls.st, ins := ls.ctx }, ls.outs)
        else .ok (bc2, outs2)
      match insO with
      | .panic s => .panic s
      | .err e => .err e
      | .ok (bc3, outs3) =>
        let cache := (enumFrom 0 outs3).foldl (fun c (vout, e) => AL.set c ⟨tx.txid, vout⟩ e) bc3.cache
        .ok { bc3 with cache := cache }

def indexTxs (cfg : Cfg) (blk : Block) (insOn : Bool) : List (Nat × Tx) → BlockCtx → Outcome BlockCtx
  | [], bc => .ok bc
  | (i, tx) :: rest, bc =>
    match indexTx cfg blk insOn i tx bc with
    | .panic s => .panic s
    | .err e => .err e
    | .ok bc' => indexTxs cfg blk insOn rest bc'

/-- rows for the lost ranges of a block: `(sat → null outpoint, lost offset)` for rare starts -/
def lostRare (m : List (Nat × SatPoint)) : List (Nat × Nat) → Nat → List (Nat × SatPoint) × Nat
  | [], lost => (m, lost)
  | (s, e) :: rest, lost =>
    let m' := if satRare s then AL.set m s ⟨OutPoint.null, lost⟩ else m
    lostRare m' rest (lost + (e - s))

/-- `commit`: write one cache entry to the table (merging special outpoints), its script row
and its SEQUENCE_NUMBER_TO_SATPOINT rows -/
def flushEntry (cfg : Cfg) (st : State) (op : OutPoint) (e : UtxoEntry) : State :=
  let e' := if op.isSpecial then
      match AL.get st.utxo op with
      | some old => UtxoEntry.merged old e
      | none => e
    else e
  let st1 := { st with utxo := AL.set st.utxo op e' }
  let st2 := if cfg.indexAddresses then { st1 with script2out := insertUnique st1.script2out (e'.script, op) } else st1
  if cfg.indexInscriptions then
    { st2 with seq2sp := e'.ins.foldl (fun m (seq, off) => AL.set m seq ⟨op, off⟩) st2.seq2sp }
  else st2

def flushCache (cfg : Cfg) (st : State) (cache : Cache) : State :=
  cache.foldl (fun s (op, e) => flushEntry cfg s op e) st

/-- `index_utxo_entries` + the statistics it writes -/
def indexUtxoEntries (cfg : Cfg) (st : State) (blk : Block) : Outcome (State × List Event) :=
  let insOn := blk.height ≥ cfg.firstInscriptionHeight && cfg.indexInscriptions
  let coinbaseInputs :=
    if cfg.indexSats ∧ subsidy blk.height > 0 then [(startingSat blk.height, startingSat blk.height + subsidy blk.height)] else []
  let bc0 : BlockCtx :=
    { st := st, coinbaseInputs := coinbaseInputs,
      ins := { reward := subsidy blk.height, lostSats := st.lostSats, homeCount := st.home.length } }
  let order := (enumFrom 0 blk.txs).drop 1 ++ (enumFrom 0 blk.txs).take 1
  match indexTxs cfg blk insOn order bc0 with
  | .panic s => .panic s
  | .err e => .err e
  | .ok bc =>
    let st1 := if insOn then { bc.st with height2lastseq := AL.set bc.st.height2lastseq blk.height bc.st.entries.length } else bc.st
    -- lost sats of this block go to the null outpoint
    let (st2, nullNew, lostFromSats) :=
      if bc.lostRanges.isEmpty then (st1, bc.ins.nullEntry, st1.lostSats)
      else
        let (m, lost) := lostRare st1.sat2sp bc.lostRanges st1.lostSats
        let base := bc.ins.nullEntry.getD UtxoEntry.empty
        ({ st1 with sat2sp := m }, some (UtxoEntry.merged base ⟨0, bc.lostRanges, [], []⟩), lost)
    let st3 := { st2 with lostSats := if cfg.indexSats then lostFromSats else bc.ins.lostSats }
    -- commit: flush the cache
    let special : Cache :=
      (match nullNew with | some e => [(OutPoint.null, e)] | none => []) ++
      (match bc.ins.unboundEntry with | some e => [(OutPoint.unbound, e)] | none => [])
    .ok (flushCache cfg st3 (bc.cache ++ special), bc.ins.events)

/-- index one block and commit -/
def applyBlock (cfg : Cfg) (st : State) (blk : Block) : Outcome (State × List Event) :=
  let r1 : Outcome (State × List Event) :=
    if cfg.indexInscriptions || cfg.indexAddresses || cfg.indexSats then indexUtxoEntries cfg st blk
    else .ok (st, [])
  match r1 with
  | .panic s => .panic s
  | .err e => .err e
  | .ok (st1, ev1) =>
    let r2 : Outcome (State × List Event) :=
      if cfg.indexRunes && blk.height ≥ cfg.firstRuneHeight then indexRunesBlock st1 blk else .ok (st1, [])
    match r2 with
    | .panic s => .panic s
    | .err e => .err e
    | .ok (st2, ev2) =>
      .ok ({ st2 with headers := st2.headers ++ [(blk.height, blk.hash)], height := st2.height + 1 }, ev1 ++ ev2)

end Ord.Index
