import OrdModel.Index.State
/-
The ordinal-assignment algorithm of `/repo/bip.mediawiki`, transliterated at the level of
explicit lists of ordinals (one `Nat` per sat).  Nothing here is ever evaluated on real data
(a block subsidy is 5·10⁹ list elements); it is the *specification* the range-based updater
model is proved equal to (Theorems/C01.lean).

```
def subsidy(height):        return 50 * 100_000_000 >> height // 210_000
def first_ordinal(height):  start = 0; for height in range(height): start += subsidy(height); return start
def assign_ordinals(block):
  first = first_ordinal(block.height); last = first + subsidy(block.height)
  coinbase_ordinals = list(range(first, last))
  for transaction in block.transactions[1:]:
    ordinals = []
    for input in transaction.inputs: ordinals.extend(input.ordinals)
    for output in transaction.outputs:
      output.ordinals = ordinals[:output.value]; del ordinals[:output.value]
    coinbase_ordinals.extend(ordinals)
  for output in block.transaction[0].outputs:
    output.ordinals = coinbase_ordinals[:output.value]; del coinbase_ordinals[:output.value]
```
What the BIP leaves implicit is made explicit here and nowhere else: a spent output leaves the
set of outputs (`gather` erases it), `output.ordinals = …` on an outpoint that already exists
(duplicate txid) overwrites it (`place` is `AL.set`), and what is left of `coinbase_ordinals`
after the coinbase outputs is returned as the block's *unclaimed* ordinals (ord: "lost sats").
-/
namespace Ord.Index.Bip

/-- `50 * 100_000_000 >> height // 210_000` -/
def subsidy (height : Nat) : Nat := (50 * 100000000) >>> (height / 210000)

/-- `first_ordinal` -/
def firstOrdinal : Nat → Nat
  | 0 => 0
  | h + 1 => firstOrdinal h + subsidy h

abbrev Ordinals := List Nat

/-- `for output in outputs: output.ordinals = ordinals[:output.value]; del ordinals[:output.value]`
→ (per-output ordinals, what is left) -/
def assignOutputs : List Nat → Ordinals → List Ordinals × Ordinals
  | [], ords => ([], ords)
  | v :: vs, ords =>
    let r := assignOutputs vs (ords.drop v)
    (ords.take v :: r.1, r.2)

/-- one transaction: `ordinals` = the concatenated input ordinals -/
def assignTx (inputs : Ordinals) (values : List Nat) : List Ordinals × Ordinals :=
  assignOutputs values inputs

/-- ordinals of every unspent output -/
abbrev Outs := List (OutPoint × Ordinals)

/-- what the algorithm reads of a transaction -/
structure BTx where
  txid : Txid
  inputs : List OutPoint
  values : List Nat
  deriving Repr, Inhabited

/-- `for input in transaction.inputs: ordinals.extend(input.ordinals)`; the spent outputs leave
the set.  `none`: an input names no unspent output (not a valid block). -/
def gather : List OutPoint → Outs → Ordinals → Option (Outs × Ordinals)
  | [], m, acc => some (m, acc)
  | i :: rest, m, acc =>
    match AL.get m i with
    | none => none
    | some o => gather rest (AL.erase m i) (acc ++ o)

/-- `output.ordinals = …` for outputs `vout, vout+1, …` of `txid` -/
def place (txid : Txid) : List Ordinals → Nat → Outs → Outs
  | [], _, m => m
  | o :: os, vout, m => place txid os (vout + 1) (AL.set m ⟨txid, vout⟩ o)

/-- `for transaction in block.transactions[1:]` -/
def assignTxs : List BTx → Outs → Ordinals → Option (Outs × Ordinals)
  | [], m, cb => some (m, cb)
  | tx :: rest, m, cb =>
    match gather tx.inputs m [] with
    | none => none
    | some (m1, ords) =>
      let r := assignTx ords tx.values
      assignTxs rest (place tx.txid r.1 0 m1) (cb ++ r.2)

/-- `assign_ordinals(block)`: new outputs and the unclaimed ordinals of the block -/
def assignBlock (height : Nat) (coinbase : BTx) (txs : List BTx) (m : Outs) : Option (Outs × Ordinals) :=
  let first := firstOrdinal height
  let last := first + subsidy height
  match assignTxs txs m (List.range' first (last - first)) with
  | none => none
  | some (m1, cb) =>
    let r := assignOutputs coinbase.values cb
    some (place coinbase.txid r.1 0 m1, r.2)

end Ord.Index.Bip
