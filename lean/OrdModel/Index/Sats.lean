import OrdModel.Index.State
/-
`Updater::index_transaction_sats` (src/index/updater.rs): first-in-first-out assignment of the
input sat ranges to the outputs, the left-over ranges, and the SAT_TO_SATPOINT rows for
non-common range starts.
-/
namespace Ord.Index

structure FillResult where
  /-- ranges assigned to this output -/
  assigned : List (Nat × Nat)
  /-- queue after the output is filled (a split-off remainder is pushed back at the head) -/
  queue : List (Nat × Nat)
  /-- `(sat, offset within the output)` for every taken range whose first sat is not common -/
  rare : List (Nat × Nat)
  deriving Repr, Inhabited

/-- the inner `while remaining > 0` loop for one output of value `value`; `done` = sats of this
output already assigned.  `none` = `expect("insufficient inputs for transaction outputs")`. -/
def fillOutput : List (Nat × Nat) → (remaining done : Nat) → Option FillResult
  | queue, 0, _ => some ⟨[], queue, []⟩
  | [], _ + 1, _ => none
  | (s, e) :: rest, rem + 1, done =>
    let rare := if satRare s then [(s, done)] else []
    if e - s > rem + 1 then
      some ⟨[(s, s + (rem + 1))], (s + (rem + 1), e) :: rest, rare⟩
    else
      match fillOutput rest (rem + 1 - (e - s)) (done + (e - s)) with
      | none => none
      | some r => some ⟨(s, e) :: r.assigned, r.queue, rare ++ r.rare⟩

structure TxSats where
  /-- per output, its sat ranges -/
  outputs : List (List (Nat × Nat))
  leftover : List (Nat × Nat)
  /-- `(sat, vout, offset)` rows written to SAT_TO_SATPOINT -/
  rare : List (Nat × Nat × Nat)
  deriving Repr, Inhabited

def indexTransactionSatsAux : List Nat → Nat → List (Nat × Nat) → Option TxSats
  | [], _, queue => some ⟨[], queue, []⟩
  | v :: vs, vout, queue =>
    match fillOutput queue v 0 with
    | none => none
    | some r =>
      match indexTransactionSatsAux vs (vout + 1) r.queue with
      | none => none
      | some t => some ⟨r.assigned :: t.outputs, t.leftover, r.rare.map (fun (s, off) => (s, vout, off)) ++ t.rare⟩

/-- `index_transaction_sats`: `values` = output values in order, `inputs` = all input ranges
concatenated in input order. -/
def indexTransactionSats (values : List Nat) (inputs : List (Nat × Nat)) : Option TxSats :=
  indexTransactionSatsAux values 0 inputs

end Ord.Index
