import OrdModel.Index.Bip
import OrdModel.Index.Find
/-
Executable predicates of C01/C02, evaluated by the driver on the *implementation's* dump rows.

`BipR` is the BIP algorithm re-written on sat *ranges* (`takeR`/`dropR` instead of
`List.take`/`List.drop` on explicit ordinals) so that it can be run on real blocks; it is proved
equal to `Bip` under `den` in Proofs/IndexSatsBip.lean.
-/
namespace Ord.Index

abbrev Ranges := List (Nat × Nat)

/-- number of sats of a range list -/
def lenR : Ranges → Nat
  | [] => 0
  | (s, e) :: rest => (e - s) + lenR rest

/-- first `n` sats of a range list (splitting the range that straddles `n`) -/
def takeR : Nat → Ranges → Ranges
  | 0, _ => []
  | _ + 1, [] => []
  | n + 1, (s, e) :: rest =>
    if e - s > n + 1 then [(s, s + (n + 1))] else (s, e) :: takeR (n + 1 - (e - s)) rest

/-- what is left after the first `n` sats -/
def dropR : Nat → Ranges → Ranges
  | 0, rs => rs
  | _ + 1, [] => []
  | n + 1, (s, e) :: rest =>
    if e - s > n + 1 then (s + (n + 1), e) :: rest else dropR (n + 1 - (e - s)) rest

namespace BipR

abbrev Outs := List (OutPoint × Ranges)

def assignOutputs : List Nat → Ranges → List Ranges × Ranges
  | [], q => ([], q)
  | v :: vs, q =>
    let r := assignOutputs vs (dropR v q)
    (takeR v q :: r.1, r.2)

def gather : List OutPoint → Outs → Ranges → Option (Outs × Ranges)
  | [], m, acc => some (m, acc)
  | i :: rest, m, acc =>
    match AL.get m i with
    | none => none
    | some o => gather rest (AL.erase m i) (acc ++ o)

def place (txid : Txid) : List Ranges → Nat → Outs → Outs
  | [], _, m => m
  | o :: os, vout, m => place txid os (vout + 1) (AL.set m ⟨txid, vout⟩ o)

def assignTxs : List Bip.BTx → Outs → Ranges → Option (Outs × Ranges)
  | [], m, cb => some (m, cb)
  | tx :: rest, m, cb =>
    match gather tx.inputs m [] with
    | none => none
    | some (m1, q) =>
      let r := assignOutputs tx.values q
      assignTxs rest (place tx.txid r.1 0 m1) (cb ++ r.2)

/-- one block; the coinbase queue starts with the subsidy range (nothing when the subsidy is 0) -/
def assignBlock (height : Nat) (coinbase : Bip.BTx) (txs : List Bip.BTx) (m : Outs) : Option (Outs × Ranges) :=
  let first := Bip.firstOrdinal height
  let last := first + Bip.subsidy height
  match assignTxs txs m (if first < last then [(first, last)] else []) with
  | none => none
  | some (m1, cb) =>
    let r := assignOutputs coinbase.values cb
    some (place coinbase.txid r.1 0 m1, r.2)

end BipR

/-! ### C01 oracle: the implementation's dump after a run of blocks is the BIP's answer -/

structure OBlock where
  height : Nat
  coinbase : Bip.BTx
  txs : List Bip.BTx
  deriving Inhabited

/-- `Bip.firstOrdinal` by the closed form of `startingSat` is what the driver evaluates
(`Bip.firstOrdinal` itself is a 10⁵-step recursion); they are proved equal in
Proofs/IndexSatsChain.lean (`firstOrdinal_eq_startingSat`). -/
def assignBlockFast (b : OBlock) (m : BipR.Outs) : Option (BipR.Outs × Ranges) :=
  let first := startingSat b.height
  let last := first + subsidy b.height
  match BipR.assignTxs b.txs m (if first < last then [(first, last)] else []) with
  | none => none
  | some (m1, cb) =>
    let r := BipR.assignOutputs b.coinbase.values cb
    some (BipR.place b.coinbase.txid r.1 0 m1, r.2)

/-- run the blocks; unclaimed ranges are appended to the null outpoint's entry -/
def runBlocksBip : List OBlock → BipR.Outs → Option BipR.Outs
  | [], m => some m
  | b :: rest, m =>
    match assignBlockFast b m with
    | none => none
    | some (m1, unclaimed) =>
      let m2 := if unclaimed.isEmpty then m1
        else AL.set m1 OutPoint.null ((AL.get m1 OutPoint.null).getD [] ++ unclaimed)
      runBlocksBip rest m2

/-- the special outpoints exist as table rows for reasons that have nothing to do with sats
(lost / unbound inscriptions): a special row without ranges is the same as no row -/
def normRows (m : BipR.Outs) : BipR.Outs :=
  (m.filter (fun (op, rs) => !(op.isSpecial && rs.isEmpty))).mergeSort (fun a b => a.1.lt b.1 || a.1 == b.1)

def fifoOracle (blocks : List OBlock) (prev new : BipR.Outs) : Bool :=
  match runBlocksBip blocks prev with
  | none => false
  | some m => normRows m == normRows new

/-! ### C02 oracles -/

/-- ranges sorted by start form a gap-free, overlap-free chain from `lo` to `hi`, each non-empty -/
def chainFrom : Nat → Ranges → Nat → Bool
  | lo, [], hi => lo == hi
  | lo, (s, e) :: rest, hi => s == lo && s < e && chainFrom e rest hi

def sortRanges (rs : Ranges) : Ranges := rs.mergeSort (fun a b => a.1 ≤ b.1)

structure PRow where
  op : OutPoint
  /-- value of the transaction output that created the entry (from the node); for the null
  outpoint the LostSats statistic -/
  value : Nat
  ranges : Ranges
  deriving Inhabited

/-- every mined sat in exactly one place: the ranges of all rows together with the ranges
`destroyed` by duplicate txids tile `[0, startingSat height)`; every entry holds exactly its
output's value -/
def partitionOracle (height : Nat) (rows : List PRow) (destroyed : Ranges) : Bool :=
  rows.all (fun r => lenR r.ranges == r.value)
  && chainFrom 0 (sortRanges (rows.flatMap (·.ranges) ++ destroyed)) (startingSat height)

/-- offsets of the range starts of one entry -/
def rangeStarts : Ranges → Nat → List (Nat × Nat)
  | [], _ => []
  | (s, e) :: rest, off => (s, off) :: rangeStarts rest (off + (e - s))

/-- every range that starts with a non-common sat has its SAT_TO_SATPOINT row -/
def rareComplete (rows : BipR.Outs) (sat2sp : List (Nat × SatPoint)) : Bool :=
  rows.all (fun (op, rs) => (rangeStarts rs 0).all (fun (s, off) =>
    !satRare s || AL.get sat2sp s == some ⟨op, off⟩))

def locate (rows : BipR.Outs) (sat : Nat) : Option SatPoint :=
  findInUtxo sat (rows.map (fun (op, rs) => (op, (⟨0, rs, [], []⟩ : UtxoEntry))))

/-- the first SAT_TO_SATPOINT row whose sat is *not* at the reported location -/
def rareUnsound (rows : BipR.Outs) (sat2sp : List (Nat × SatPoint)) : Option (Nat × SatPoint × Option SatPoint) :=
  sat2sp.findSome? (fun (s, sp) => let l := locate rows s; if l == some sp then none else some (s, sp, l))

end Ord.Index
