import OrdModel.Index.Chain
/-
C16: what "a chain of consensus-valid blocks" means for the index model — a decidable predicate
`validChain : List Block → Bool`, written against the *chain data* only (it never mentions the
index `State` or any function of the index model), threading its own spec-level UTXO set.

Every conjunct is a named `Bool` function whose doc comment quotes the consensus rule, the
parser guarantee (`ParsedEnvelope::from_transaction`, `Runestone::decipher`) or the node
assumption (DESIGN §4) it stands for.  Where the predicate is *weaker* than consensus (it does not
ask for coinbase maturity, scripts, signatures, proof of work, block size, BIP30/34, or that
OP_RETURN outputs stay unspent) the C16 theorem is correspondingly stronger.
-/
namespace Ord.Index.Valid

/-- `MAX_MONEY`: 21 000 000 BTC in sats (consensus `MoneyRange`) -/
def maxMoney : Nat := 2100000000000000

/-- strictly fewer than `i32::MAX = 2^31 - 1` envelopes in the whole chain.  (Inscription numbers
are `i32`: `count.try_into::<i32>().unwrap()` fails at `2^31`, and `-(number + 1)` overflows one
earlier, with exactly `2^31 - 1` cursed inscriptions already indexed.) -/
def maxInscriptions : Nat := 2147483647

/-- `u128::MAX + 1` -/
def u128 : Nat := 340282366920938463463374607431768211456

/-- the spec-level UTXO set: unspent outputs with their values, in creation order -/
abbrev Utxos := List (OutPoint × Nat)

def lookup : Utxos → OutPoint → Option Nat
  | [], _ => none
  | (o, v) :: rest, op => if o == op then some v else lookup rest op

/-- remove the first entry for `op` -/
def remove : Utxos → OutPoint → Utxos
  | [], _ => []
  | (o, v) :: rest, op => if o == op then rest else (o, v) :: remove rest op

def sum : List Nat → Nat
  | [] => 0
  | v :: vs => v + sum vs

def outValues (tx : Tx) : List Nat := tx.outputs.map (·.value)

/-- what has been seen of the chain so far -/
structure VState where
  /-- number of blocks so far = height of the next block -/
  height : Nat := 0
  utxos : Utxos := []
  /-- every txid that has appeared -/
  txids : List Txid := []
  /-- number of envelopes so far (an upper bound on the number of inscriptions) -/
  envelopes : Nat := 0
  deriving Inhabited

/-! ### per-transaction rules -/

/-- Consensus (`CheckTxInputs`: "bad-txns-inputs-missingorspent", "bad-txns-prevout-null"):
every input of a non-coinbase transaction spends an output that exists and is unspent — each
spend removes it, so neither another transaction nor a later input of the same transaction can
spend it again — and no input of a non-coinbase transaction has the null previous output.
Returns the remaining UTXO set and the values spent, in input order. -/
def spendInputs : List TxIn → Utxos → Option (Utxos × List Nat)
  | [], u => some (u, [])
  | i :: rest, u =>
    if i.prev.isNull then none
    else match lookup u i.prev with
      | none => none
      | some v =>
        match spendInputs rest (remove u i.prev) with
        | none => none
        | some (u', vs) => some (u', v :: vs)

/-- Consensus ("bad-txns-in-belowout"): `Σ outputs ≤ Σ inputs` for a non-coinbase transaction. -/
def conserves (spent : List Nat) (outs : List Nat) : Bool := sum outs ≤ sum spent

/-- Consensus (`CheckTransaction`: "bad-txns-vout-toolarge", "bad-txns-txouttotal-toolarge",
`MoneyRange` of the inputs): every output value, the sum of the outputs and the sum of the spent
values are at most 21 M BTC (in particular every sum stays far below `2^64`). -/
def valuesInRange (spent : List Nat) (outs : List Nat) : Bool :=
  outs.all (· ≤ maxMoney) && sum outs ≤ maxMoney && sum spent ≤ maxMoney

/-- The all-zero txid is reserved for the null / unbound outpoints (a real txid is a SHA-256d
hash; a zero hash would need a preimage). -/
def txidNonZero (tx : Tx) : Bool := tx.txid != 0

/-- What `ParsedEnvelope::from_transaction` produces: envelopes in input order, `input` below
the number of inputs, and `offset` = position of the envelope among the envelopes of its input
(0, 1, 2, … within one input).  `prev` = `(input, offset)` of the preceding envelope. -/
def envelopesFrom (nIn : Nat) : Option (Nat × Nat) → List Envelope → Bool
  | _, [] => true
  | none, e :: rest => e.input < nIn && e.offset == 0 && envelopesFrom nIn (some (e.input, 0)) rest
  | some (i, o), e :: rest =>
    e.input < nIn &&
    ((e.input == i && e.offset == o + 1) || (i < e.input && e.offset == 0)) &&
    envelopesFrom nIn (some (e.input, e.offset)) rest

def envelopesWellFormed (tx : Tx) : Bool := envelopesFrom tx.inputs.length none tx.envelopes

/-- What `Runestone::decipher` guarantees for a non-cenotaph (`Edict::from_integers` rejects
`output > tx.output.len()` → flaw `EdictOutput` → cenotaph); amounts are `u128`. -/
def edictsInRange (tx : Tx) : Bool :=
  match tx.artifact with
  | some (.runestone edicts _ _ _) => edicts.all (fun ed => ed.output ≤ tx.outputs.length && ed.amount < u128)
  | _ => true

/-- `Runestone::decipher`: `Tag::Pointer.take` only accepts `pointer < tx.output.len()`; otherwise
the tag stays among the fields → flaw `UnrecognizedEvenTag` → cenotaph.  So a runestone's
pointer is below the number of outputs. -/
def pointerInRange (tx : Tx) : Bool :=
  match tx.artifact with
  | some (.runestone _ _ _ (some p)) => p < tx.outputs.length
  | _ => true

/-- `Runestone::decipher`: `etching.supply()` (= `premine + cap · amount`, checked) must exist,
otherwise flaw `SupplyOverflow` → cenotaph.  All integer fields are `u128`. -/
def etchingSupplyInRange (tx : Tx) : Bool :=
  match tx.artifact with
  | some (.runestone _ (some e) _ _) =>
    let cap := (e.terms.bind (·.cap)).getD 0
    let amount := (e.terms.bind (·.amount)).getD 0
    e.premine.getD 0 + cap * amount < u128
  | _ => true

/-- Node assumption (DESIGN §4: Bitcoin Core serves `getrawtransaction` / `getblockheader` for
every transaction of the chain it has served): for every input of a non-coinbase transaction the
node knows the spent transaction and the block that contains it, and that block is not above
the block being indexed. -/
def nodeAnswers (height : Nat) (tx : Tx) : Bool :=
  tx.inputs.all (fun i => match i.confHeight with | some h => h ≤ height | none => false)

/-- the stateless rules of one transaction (coinbase or not) -/
def txWellFormed (tx : Tx) : Bool :=
  txidNonZero tx && envelopesWellFormed tx && edictsInRange tx && pointerInRange tx && etchingSupplyInRange tx

/-- the outputs a transaction adds to the UTXO set: `(txid:vout, value)` for every output, in order -/
def newOutputs (txid : Txid) (outs : List Nat) : Utxos :=
  ((List.range outs.length).zip outs).map (fun (vout, v) => (⟨txid, vout⟩, v))

/-- one non-coinbase transaction: returns the UTXO set after it (inputs removed, outputs added
in order) and its fee -/
def checkTx (height : Nat) (u : Utxos) (tx : Tx) : Option (Utxos × Nat) :=
  match spendInputs tx.inputs u with
  | none => none
  | some (u', spent) =>
    let outs := outValues tx
    if txWellFormed tx && nodeAnswers height tx && conserves spent outs && valuesInRange spent outs then
      some (u' ++ newOutputs tx.txid outs, sum spent - sum outs)
    else none

/-- the non-coinbase transactions of a block in block order (a transaction may spend outputs of
an earlier transaction of the same block, never of a later one and never the block's own
coinbase, whose outputs are added only afterwards); returns the total fees -/
def checkTxs (height : Nat) : List Tx → Utxos → Nat → Option (Utxos × Nat)
  | [], u, fees => some (u, fees)
  | tx :: rest, u, fees =>
    match checkTx height u tx with
    | none => none
    | some (u', fee) => checkTxs height rest u' (fees + fee)

/-! ### per-block rules -/

/-- Consensus ("bad-cb-missing", "bad-cb-multiple", `IsCoinBase`): the first transaction of a
block is the coinbase — exactly one input, whose previous output is null.  (That no other
transaction has a null input is part of `spendInputs`.)  Its witness is either absent
("unexpected-witness" in a block without witness commitment) or exactly one 32-byte item
("bad-witness-nonce-size"), so it never carries a tapscript: no data pushes. -/
def coinbaseShape (cb : Tx) : Bool :=
  match cb.inputs with
  | [i] => i.prev.isNull && i.pushes.isEmpty
  | _ => false

/-- Consensus ("bad-cb-amount"): the coinbase pays out at most subsidy + fees; and its values are
in range. -/
def coinbaseWithinReward (height fees : Nat) (cb : Tx) : Bool :=
  sum (outValues cb) ≤ subsidy height + fees && (outValues cb).all (· ≤ maxMoney) && sum (outValues cb) ≤ maxMoney

/-- No two transactions of the chain have the same txid.  (Consensus since BIP30/BIP34 forbids a
duplicate of a transaction with unspent outputs; the two historic duplicate coinbases were
spent-less overwrites.  Excluding *all* duplicates is the simplest sufficient condition and is
what C16 is stated under here.) -/
def freshTxids : List Txid → List Txid → Option (List Txid)
  | seen, [] => some seen
  | seen, t :: rest => if seen.contains t then none else freshTxids (t :: seen) rest

/-- Block-size bound: transaction indices inside a block are `u32` (`u32::try_from(i).unwrap()` in
`index_block`, the `tx` field of a `RuneId`); a 4 MB block holds far fewer than `2^32` transactions. -/
def maxBlockTxs : Nat := 4294967296

/-- one block on top of `st` -/
def checkBlock (st : VState) (blk : Block) : Option VState :=
  match blk.txs with
  | [] => none
  | cb :: rest =>
    -- heights are consecutive from 0
    if blk.height != st.height then none
    else if !(decide (blk.txs.length ≤ maxBlockTxs)) then none
    else if !(coinbaseShape cb && txWellFormed cb) then none
    else
    match freshTxids st.txids (blk.txs.map (·.txid)) with
    | none => none
    | some txids =>
      match checkTxs blk.height rest st.utxos 0 with
      | none => none
      | some (u, fees) =>
        let envelopes := st.envelopes + sum (blk.txs.map (·.envelopes.length))
        if coinbaseWithinReward blk.height fees cb && envelopes < maxInscriptions then
          some { height := st.height + 1, utxos := u ++ newOutputs cb.txid (outValues cb),
                 txids := txids, envelopes := envelopes }
        else none

def checkChain : List Block → VState → Option VState
  | [], st => some st
  | b :: bs, st =>
    match checkBlock st b with
    | none => none
    | some st' => checkChain bs st'

/-- the chain is a sequence of consensus-valid blocks from height 0 (as far as the indexer can
tell from the data it consumes) -/
def validChain (chain : List Block) : Bool := (checkChain chain {}).isSome

end Ord.Index.Valid
