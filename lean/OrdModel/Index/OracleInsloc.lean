import OrdModel.Index.Block
/-
Group `insloc` (C03, C04): derived definitions over the index model and the executable
predicates the driver evaluates on the *implementation's* dump rows.

* `den` / `nthSat` — the sats of a range list and the executable "k-th sat".
* `allIns` / `allSeqs` — every `(outpoint, sequence number, offset)` listed in the UTXO table.
* `InsPartitioned` (C04 invariant) and its `Bool` form `insPartitionedB`.
* `OnSat` (C03 "located where its sat is") and `onSatB`; `charmsOkB` (burned / lost / unbound).
* `envelopesWF` — the well-formedness of a transaction's parsed envelope list that makes the
  updater consume every envelope (true of `ParsedEnvelope::from_transaction`: envelopes come in
  input order and name existing inputs).
-/
namespace Ord.Index.Insloc
open Ord.Index

/-- the sats of a list of ranges, in order (reasoning only) -/
def den : List (Nat × Nat) → List Nat
  | [] => []
  | (s, e) :: rest => List.range' s (e - s) ++ den rest

/-- the `k`-th sat of a list of ranges (executable) -/
def nthSat : List (Nat × Nat) → Nat → Option Nat
  | [], _ => none
  | (s, e) :: rest, k => if k < e - s then some (s + k) else nthSat rest (k - (e - s))

/-- every inscription listed in the UTXO table: `(outpoint, sequence number, offset)` -/
def allIns (utxo : List (OutPoint × UtxoEntry)) : List (OutPoint × Nat × Nat) :=
  utxo.flatMap (fun p => p.2.ins.map (fun q => (p.1, q.1, q.2)))

/-- the sequence numbers listed in the UTXO table, with multiplicity -/
def allSeqs (utxo : List (OutPoint × UtxoEntry)) : List Nat :=
  utxo.flatMap (fun p => p.2.ins.map (·.1))

/-- C04 invariant: every inscription ever created (sequence numbers `0 … n-1`,
`n = entries.length`) is listed by exactly one output or pseudo-output exactly once, the
satpoint table and the output lists say the same thing, and offsets on real outputs are below
the output's value. -/
structure InsPartitioned (cfg : Cfg) (st : State) : Prop where
  perm : (allSeqs st.utxo).Perm (List.range st.entries.length)
  sp_of_listed : ∀ o s off, (o, s, off) ∈ allIns st.utxo → AL.get st.seq2sp s = some ⟨o, off⟩
  listed_of_sp : ∀ s sp, (s, sp) ∈ st.seq2sp → (sp.outpoint, s, sp.offset) ∈ allIns st.utxo
  off_lt : ∀ o e s off, (o, e) ∈ st.utxo → o.isSpecial = false → (s, off) ∈ e.ins →
    off < e.totalValue cfg

def insPartitionedB (cfg : Cfg) (st : State) : Bool :=
  let seqs := allSeqs st.utxo
  let n := st.entries.length
  let all := allIns st.utxo
  seqs.all (fun i => decide (i < n))
  && (List.range n).all (fun i => seqs.count i == 1)
  && all.all (fun x => AL.get st.seq2sp x.2.1 == some ⟨x.1, x.2.2⟩)
  && st.seq2sp.all (fun x => all.contains (x.2.outpoint, x.1, x.2.offset))
  && st.utxo.all (fun p => p.1.isSpecial || p.2.ins.all (fun q => decide (q.2 < p.2.totalValue cfg)))

/-- C03: every inscription bound to a sat is located where the sat index has that sat -/
def OnSat (st : State) : Prop :=
  ∀ (i : Nat) (entry : InsEntry) (s : Nat), st.entries[i]? = some entry → entry.sat = some s →
    ∃ sp e, AL.get st.seq2sp i = some sp ∧ AL.get st.utxo sp.outpoint = some e ∧
      (den e.ranges)[sp.offset]? = some s

def onSatAt (st : State) (i : Nat) (entry : InsEntry) : Bool :=
  match entry.sat with
  | none => true
  | some s =>
    match AL.get st.seq2sp i with
    | none => false
    | some sp =>
      match AL.get st.utxo sp.outpoint with
      | none => false
      | some e => nthSat e.ranges sp.offset == some s

def onSatFrom (st : State) : Nat → List InsEntry → Bool
  | _, [] => true
  | i, e :: rest => onSatAt st i e && onSatFrom st (i + 1) rest

def onSatB (st : State) : Bool := onSatFrom st 0 st.entries

/-- C03 charm clauses on one inscription located at `sp`; `opret` = the OP_RETURN outputs -/
def charmsOkAt (sats : Bool) (opret : List OutPoint) (e : InsEntry) (sp : SatPoint) : Bool :=
  -- sitting in an OP_RETURN output ⇒ Burned
  (!(opret.contains sp.outpoint) || hasCharm e.charms charmBurned)
  -- Unbound charm ⇔ at the unbound pseudo-output ⇒ no sat
  && (hasCharm e.charms charmUnbound == (sp.outpoint == OutPoint.unbound))
  && (!(hasCharm e.charms charmUnbound) || e.sat.isNone)
  -- with the sat index, "no sat" happens only for unbound inscriptions
  && (!sats || (e.sat.isNone == hasCharm e.charms charmUnbound))
  -- a stored Lost charm means the null pseudo-output (or an unbound inscription whose reveal
  -- was spent to fees past the coinbase outputs: it keeps the Lost bit it was created with)
  && (!(hasCharm e.charms charmLost) || sp.outpoint.isNull || sp.outpoint == OutPoint.unbound)

def charmsOkFrom (sats : Bool) (opret : List OutPoint) (st : State) : Nat → List InsEntry → Bool
  | _, [] => true
  | i, e :: rest =>
    (match AL.get st.seq2sp i with
     | none => false
     | some sp => charmsOkAt sats opret e sp) && charmsOkFrom sats opret st (i + 1) rest

def charmsOkB (sats : Bool) (opret : List OutPoint) (st : State) : Bool :=
  charmsOkFrom sats opret st 0 st.entries

/-- what the explorer reports (`Index::inscription_info`): stored charms, plus Lost when the
inscription sits at the null pseudo-output -/
def reportedCharms (e : InsEntry) (sp : SatPoint) : Nat :=
  if sp.outpoint.isNull then setCharm e.charms charmLost else e.charms

/-- non-decreasing -/
def sortedNat : List Nat → Bool
  | [] => true
  | [_] => true
  | a :: b :: rest => decide (a ≤ b) && sortedNat (b :: rest)

/-- the parsed envelopes of a transaction come in input order and name existing inputs -/
def envelopeInputsWF (nInputs : Nat) (inputs : List Nat) : Bool :=
  sortedNat inputs && inputs.all (fun i => decide (i < nInputs))

def envelopesWF (tx : Tx) : Bool := envelopeInputsWF tx.inputs.length (tx.envelopes.map (·.input))

/-- number of envelopes in the non-coinbase transactions of a block -/
def blockEnvelopes (blk : Block) : Nat :=
  ((blk.txs.drop 1).map (fun tx => tx.envelopes.length)).sum

end Ord.Index.Insloc
