import OrdModel.Index.Runes
/-
`Spec.allocate`: how one transaction allocates runes, written FROM THE DOCUMENTATION
(/repo/docs/src/runes/specification.md, sections "Transferring", "Pointer", "Minting",
"Cenotaphs"), not from rune_updater.rs.  It is deliberately shaped differently from the code:
the code threads two hash maps (`unallocated`, `allocated[output]`) through the edict loop;
the specification below follows ONE rune id `r` at a time through the transaction as a pair
"(units still unallocated, units allocated to each output so far)" of plain numbers, and says
what every output holds and how much is burned at the end.  Edicts naming other runes do not
touch `r`'s numbers.  `Proofs/IndexRunesupply*.lean` prove that the model of the code
(`indexRunesTx`) computes exactly this for every rune id (C09), and that this conserves units
(C08).

Quoted rules (specification.md):
 R1 "Before edicts are processed, input runes, as well as minted or premined runes, if any, are
     unallocated."                                                            → `unallocated`
 R2 "Each edict decrements the unallocated balance of rune `id` and increments the balance
     allocated to transaction outputs of rune `id`."                          → `Flow.give`
 R3 "If an edict would allocate more runes than are currently unallocated, the `amount` is
     reduced to the number of currently unallocated runes."                   → `min amount un`
 R4 "ID `0:0` is used to mean the rune being etched in this transaction, if any."  → `edictRune`
 R5 "An edict with `amount` zero allocates all remaining units of rune `id`."
 R6 "An edict with `output` equal to the number of transaction outputs allocates `amount` runes
     to each non-`OP_RETURN` output in order."                                → `Flow.each`
 R7 "An edict with `amount` zero and `output` equal to the number of transaction outputs divides
     all unallocated units of rune `id` between each non-`OP_RETURN` output. … 1 additional rune
     is assigned to the first `R` non-`OP_RETURN` outputs, where `R` is the remainder …"
                                                                              → `Flow.split`
 R8 "The `Pointer` field contains the index of the output to which runes unallocated by edicts
     should be transferred. If the `Pointer` field is absent, unallocated runes are transferred
     to the first non-`OP_RETURN` output."                                    → `settle`
 R9 (property text; the docs say it only for cenotaphs and implicitly for OP_RETURN) runes with
     no eligible output, or allocated to an OP_RETURN output, are burned.      → `settle`
 R10 "All runes input to a transaction containing a cenotaph are burned. … the etched rune has
     supply zero and is unmintable. … the mint counts against the mint cap and the minted runes
     are burned. … edicts in cenotaphs are not processed"                      → `.cenotaph`
 R11 "If an edict output is greater than the number of outputs … the decoded runestone is a
     cenotaph"; "If the pointer is greater than or equal to the number of outputs, the runestone
     is a cenotaph": a *runestone* therefore has `output ≤ n` in every edict and `pointer < n`
     (`WellFormed`); the specification gives such edicts/pointers no meaning.
-/
namespace Ord.Index.Spec

/-- balance of rune `r` in a balance list; absent = 0 -/
def lk (m : Balances) (r : RuneId) : Nat := (AL.get m r).getD 0

/-- For ONE rune: units still unallocated, units allocated so far to output `v`. -/
structure Flow where
  un : Nat
  out : Nat → Nat

/-- R1: everything starts unallocated -/
def Flow.start (u : Nat) : Flow := ⟨u, fun _ => 0⟩

/-- R2: move `amt` units to output `v` -/
def Flow.give (f : Flow) (v amt : Nat) : Flow :=
  ⟨f.un - amt, fun v' => if v' = v then f.out v' + amt else f.out v'⟩

/-- indices of the non-OP_RETURN outputs in order; `outs[v] = true` means output `v` is OP_RETURN -/
def eligibleFrom : Nat → List Bool → List Nat
  | _, [] => []
  | i, opret :: rest => if opret then eligibleFrom (i + 1) rest else i :: eligibleFrom (i + 1) rest

def eligible (outs : List Bool) : List Nat := eligibleFrom 0 outs

/-- R7: the `j`-th eligible output (counting from 0) receives `q + 1` if `j < R`, else `q` -/
def splitShares (q R : Nat) : Nat → List Nat → Flow → Flow
  | _, [], f => f
  | j, v :: rest, f => splitShares q R (j + 1) rest (f.give v (if j < R then q + 1 else q))

def Flow.split (f : Flow) (dests : List Nat) : Flow :=
  if dests.isEmpty then f
  else splitShares (f.un / dests.length) (f.un % dests.length) 0 dests f

/-- R6 (+R3): `amount` to each eligible output in order, each capped by what is left -/
def Flow.each (amount : Nat) : List Nat → Flow → Flow
  | [], f => f
  | v :: rest, f => Flow.each amount rest (f.give v (min amount f.un))

/-- one edict naming this rune, in a transaction whose outputs are `outs` -/
def Flow.edict (outs : List Bool) (f : Flow) (amount output : Nat) : Flow :=
  if output = outs.length then
    if amount = 0 then f.split (eligible outs) else Flow.each amount (eligible outs) f
  else if output < outs.length then
    -- R5 / R3
    f.give output (if amount = 0 then f.un else min amount f.un)
  else f  -- R11: not a runestone; no meaning given

/-- R4: the rune an edict names -/
def edictRune (etched : Option RuneId) (ed : Edict) : Option RuneId :=
  if ed.id = ⟨0, 0⟩ then etched else some ed.id

/-- "A runestone may contain any number of edicts, which are processed in sequence." -/
def flow (outs : List Bool) (etched : Option RuneId) (r : RuneId) : List Edict → Flow → Flow
  | [], f => f
  | ed :: rest, f =>
    flow outs etched r rest (if edictRune etched ed = some r then f.edict outs ed.amount ed.output else f)

/-- what the transaction does with rune `r` -/
structure Result where
  /-- units of `r` held by output `v` after the transaction -/
  out : Nat → Nat
  /-- units of `r` burned by the transaction -/
  burned : Nat

def opReturnAt (outs : List Bool) (v : Nat) : Bool :=
  match outs[v]? with
  | some b => b
  | none => false

/-- Σ of `g v` over the OP_RETURN outputs `v` -/
def sumOpReturnFrom (g : Nat → Nat) : Nat → List Bool → Nat
  | _, [] => 0
  | i, opret :: rest => (if opret then g i else 0) + sumOpReturnFrom g (i + 1) rest

/-- R8 + R9: leftovers to the pointer, else to the first non-OP_RETURN output, else burned;
whatever sits on an OP_RETURN output is burned -/
def settle (outs : List Bool) (pointer : Option Nat) (f : Flow) : Result :=
  let dflt : Option Nat := match pointer with
    | some p => some p
    | none => (eligible outs).head?
  let f' := match dflt with
    | some v => f.give v f.un
    | none => f
  ⟨fun v => if opReturnAt outs v then 0 else f'.out v, f'.un + sumOpReturnFrom f'.out 0 outs⟩

/-- the protocol message of a transaction, as far as allocation is concerned -/
inductive Message where
  | none
  | runestone (edicts : List Edict) (pointer : Option Nat)
  | cenotaph

def Message.ofArtifact : Option Artifact → Message
  | .none => .none
  | some (.runestone edicts _ _ pointer) => .runestone edicts pointer
  | some (.cenotaph ..) => .cenotaph

/-- R11 -/
def WellFormed (nOut : Nat) : Message → Prop
  | .runestone edicts pointer => (∀ ed ∈ edicts, ed.output ≤ nOut) ∧ (∀ p, pointer = some p → p < nOut)
  | _ => True

def wellFormedB (nOut : Nat) : Message → Bool
  | .runestone edicts pointer =>
    edicts.all (fun ed => decide (ed.output ≤ nOut)) &&
    (match pointer with | some p => decide (p < nOut) | none => true)
  | _ => true

/-- R1: what is unallocated of rune `r` before the edicts: inputs, plus the mint (if the mint is
open: `mint = some (id, amount)`), plus the premine of the rune etched here (`etched = some (id,
premine)`; R10: a cenotaph's etching has supply zero, so the caller passes premine 0 there). -/
def unallocated (inputs : RuneId → Nat) (mint etched : Option (RuneId × Nat)) (r : RuneId) : Nat :=
  inputs r
  + (match mint with | some (id, a) => if id = r then a else 0 | none => 0)
  + (match etched with | some (id, p) => if id = r then p else 0 | none => 0)

/-- **The specification.**  `outs[v]` = output `v` is OP_RETURN; `etched` = id of the rune etched
by this transaction, if any; `u0` = units of `r` unallocated before the edicts (`unallocated`). -/
def allocate (outs : List Bool) (msg : Message) (etched : Option RuneId) (r : RuneId) (u0 : Nat) : Result :=
  match msg with
  | .cenotaph => ⟨fun _ => 0, u0⟩                                              -- R10
  | .none => settle outs none (Flow.start u0)
  | .runestone edicts pointer => settle outs pointer (flow outs etched r edicts (Flow.start u0))

end Ord.Index.Spec
