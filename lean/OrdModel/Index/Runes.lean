import OrdModel.Index.State
/-
`RuneUpdater::index_runes`, `mint`, `etched`, `tx_commits_to_rune`, `create_rune_entry`,
`unallocated`, `update` (src/index/updater/rune_updater.rs) and `RuneEntry::mintable`
(src/index/entry.rs).  `Lot` arithmetic panics on overflow/underflow; those sites are
`Outcome.panic` branches.  HashMap iteration order is irrelevant to the stored result (all
accumulations are commutative); the model uses insertion order.
-/
namespace Ord.Index
open Outcome

def U128 : Nat := 2 ^ 128
def U64MAX : Nat := 2 ^ 64 - 1

/-- first non-reserved... `Rune::RESERVED` -/
def RESERVED : Nat := 6402364363415443603228541259936211926

/-- `Rune::reserved(block, tx)` -/
def reservedRune (block tx : Nat) : Nat := RESERVED + (block * 4294967296 + tx)

/-- `Rune::commitment`: little-endian bytes without trailing zero bytes -/
def commitmentAux : Nat → Nat → List UInt8
  | 0, _ => []
  | fuel + 1, n => if n = 0 then [] else UInt8.ofNat (n % 256) :: commitmentAux fuel (n / 256)

def commitment (rune : Nat) : List UInt8 := commitmentAux 16 rune

abbrev Balances := List (RuneId × Nat)

/-- `*map.entry(id).or_default() += amount` with `Lot` overflow check -/
def addLot (m : Balances) (id : RuneId) (amount : Nat) : Outcome Balances :=
  let cur := (AL.get m id).getD 0
  if cur + amount < U128 then .ok (AL.set m id (cur + amount)) else .panic "lot overflow"

def saturatingAdd64 (a b : Nat) : Nat := if a + b > U64MAX then U64MAX else a + b

/-- `RuneEntry::start` -/
def RuneEntry.start (e : RuneEntry) : Option Nat :=
  match e.terms with
  | none => none
  | some t =>
    let relative := t.offsetStart.map (saturatingAdd64 e.block)
    match relative, t.heightStart with
    | some r, some a => some (max r a)
    | some r, none => some r
    | none, a => a

/-- `RuneEntry::end` -/
def RuneEntry.end_ (e : RuneEntry) : Option Nat :=
  match e.terms with
  | none => none
  | some t =>
    let relative := t.offsetEnd.map (saturatingAdd64 e.block)
    match relative, t.heightEnd with
    | some r, some a => some (min r a)
    | some r, none => some r
    | none, a => a

/-- `RuneEntry::mintable(height)`: `some amount` or `none` (any MintError) -/
def RuneEntry.mintable (e : RuneEntry) (height : Nat) : Option Nat :=
  match e.terms with
  | none => none
  | some t =>
    if (match e.start with | some s => decide (height < s) | none => false) then none
    else if (match e.end_ with | some en => decide (height ≥ en) | none => false) then none
    else if e.mints ≥ t.cap.getD 0 then none
    else some (t.amount.getD 0)

/-- `RuneUpdater::mint` -/
def mint (st : State) (height : Nat) (id : RuneId) : State × Option Nat :=
  match AL.get st.runeEntries id with
  | none => (st, none)
  | some e =>
    match e.mintable height with
    | none => (st, none)
    | some amount => ({ st with runeEntries := AL.set st.runeEntries id { e with mints := e.mints + 1 } }, some amount)

/-- `tx_commits_to_rune`: some input's tapscript pushes the commitment while spending a taproot
output (per the node) with ≥ 6 confirmations.  The Rust panics when the node does not know the
spent transaction or its block (`confHeight = none` here) — after a matching push was seen. -/
def txCommitsToRune (height : Nat) (rune : Nat) : List TxIn → Outcome Bool
  | [] => .ok false
  | i :: rest =>
    let c := commitment rune
    -- each matching push re-queries the node; the answer per input is the same, so one suffices
    if i.pushes.any (· == c) then
      if !i.taproot then txCommitsToRune height rune rest
      else match i.confHeight with
        | none => .panic "get_block_header_info(blockhash).unwrap()"
        | some h =>
          if height < h then .panic "height.checked_sub(commit_tx_height).unwrap()"
          else if height - h + 1 ≥ 6 then .ok true
          else txCommitsToRune height rune rest
    else txCommitsToRune height rune rest

/-- `RuneUpdater::etched` -/
def etched (st : State) (blk : Block) (txIndex : Nat) (tx : Tx) (art : Artifact) :
    Outcome (State × Option (RuneId × Nat)) :=
  let named : Option (Option Nat) := match art with
    | .runestone _ (some e) _ _ => some e.rune
    | .runestone _ none _ _ => none
    | .cenotaph (some r) _ => some (some r)
    | .cenotaph none _ => none
  match named with
  | none => .ok (st, none)
  | some (some rune) =>
    if rune < blk.minimumRune ∨ rune ≥ RESERVED ∨ AL.contains st.rune2id rune then .ok (st, none)
    else match txCommitsToRune blk.height rune tx.inputs with
      | .panic s => .panic s
      | .err e => .err e
      | .ok false => .ok (st, none)
      | .ok true => .ok (st, some (⟨blk.height, txIndex⟩, rune))
  | some none =>
    .ok ({ st with reservedRunes := st.reservedRunes + 1 }, some (⟨blk.height, txIndex⟩, reservedRune blk.height txIndex))

/-- `create_rune_entry` -/
def createRuneEntry (st : State) (blk : Block) (tx : Tx) (art : Artifact) (id : RuneId) (rune : Nat) :
    State × List Event :=
  let number := st.runes
  let entry : RuneEntry := match art with
    | .cenotaph .. => ⟨id.block, 0, 0, tx.txid, 0, number, 0, rune, 0, none, none, blk.time, false⟩
    | .runestone _ (some e) _ _ =>
      ⟨id.block, 0, e.divisibility.getD 0, tx.txid, 0, number, e.premine.getD 0, rune, e.spacers.getD 0,
        e.symbol, e.terms, blk.time, e.turbo⟩
    | .runestone _ none _ _ => default  -- unreachable: `etching.unwrap()` (etched = some ⇒ etching present)
  let st1 := { st with rune2id := AL.set st.rune2id rune id, txid2rune := AL.set st.txid2rune tx.txid rune,
                       runes := st.runes + 1, runeEntries := AL.set st.runeEntries id entry }
  let st2 := match AL.get st1.id2seq ⟨tx.txid, 0⟩ with
    | some seq => { st1 with seq2rune := AL.set st1.seq2rune seq id }
    | none => st1
  (st2, [.runeEtched blk.height id tx.txid])

/-- `unallocated`: take the balances of every input -/
def takeInputs : List TxIn → State → Balances → Outcome (State × Balances)
  | [], st, un => .ok (st, un)
  | i :: rest, st, un =>
    match AL.get st.balances i.prev with
    | none => takeInputs rest st un
    | some bs =>
      let st1 := { st with balances := AL.erase st.balances i.prev }
      let rec addAll : Balances → Balances → Outcome Balances
        | [], un => .ok un
        | (id, b) :: more, un =>
          match addLot un id b with
          | .ok un' => addAll more un'
          | .panic s => .panic s
          | .err e => .err e
      match addAll bs un with
      | .ok un' => takeInputs rest st1 un'
      | .panic s => .panic s
      | .err e => .err e

abbrev Allocated := List Balances

/-- the `allocate` closure: `if amount > 0 { *balance -= amount; allocated[output][id] += amount }` -/
def allocate (un : Balances) (alloc : Allocated) (id : RuneId) (amount output : Nat) :
    Outcome (Balances × Allocated) :=
  if amount = 0 then .ok (un, alloc)
  else
    let bal := (AL.get un id).getD 0
    if bal < amount then .panic "lot underflow"
    else match alloc[output]? with
      | none => .panic "allocated[output]"
      | some m => match addLot m id amount with
        | .ok m' => .ok (AL.set un id (bal - amount), alloc.set output m')
        | .panic s => .panic s
        | .err e => .err e

def allocateEach (id : RuneId) : List (Nat × Nat) → Balances → Allocated → Outcome (Balances × Allocated)
  | [], un, alloc => .ok (un, alloc)
  | (amount, output) :: rest, un, alloc =>
    match allocate un alloc id amount output with
    | .ok (un', alloc') => allocateEach id rest un' alloc'
    | .panic s => .panic s
    | .err e => .err e

/-- "distribute `amount` to each destination, capped by what is left" -/
def allocateCapped (id : RuneId) (amount : Nat) : List Nat → Balances → Allocated → Outcome (Balances × Allocated)
  | [], un, alloc => .ok (un, alloc)
  | output :: rest, un, alloc =>
    let bal := (AL.get un id).getD 0
    match allocate un alloc id (min amount bal) output with
    | .ok (un', alloc') => allocateCapped id amount rest un' alloc'
    | .panic s => .panic s
    | .err e => .err e

def enumFrom {α : Type} : Nat → List α → List (Nat × α)
  | _, [] => []
  | n, a :: as => (n, a) :: enumFrom (n + 1) as

/-- one edict -/
def applyEdict (tx : Tx) (etchedId : Option RuneId) (ed : Edict) (un : Balances) (alloc : Allocated) :
    Outcome (Balances × Allocated) :=
  let nOut := tx.outputs.length
  if ed.output > nOut then .panic "assert!(output <= tx.output.len())"
  else
    let idO : Option RuneId := if ed.id == ⟨0, 0⟩ then etchedId else some ed.id
    match idO with
    | none => .ok (un, alloc)
    | some id =>
      match AL.get un id with
      | none => .ok (un, alloc)
      | some balance =>
        if ed.output = nOut then
          let dests := (enumFrom 0 tx.outputs).filterMap (fun (i, o) => if o.opReturn then none else some i)
          if dests.isEmpty then .ok (un, alloc)
          else if ed.amount = 0 then
            let amount := balance / dests.length
            let remainder := balance % dests.length
            allocateEach id ((enumFrom 0 dests).map (fun (i, o) => (if i < remainder then amount + 1 else amount, o))) un alloc
          else allocateCapped id ed.amount dests un alloc
        else
          let amount := if ed.amount = 0 then balance else min ed.amount balance
          allocate un alloc id amount ed.output

def applyEdicts (tx : Tx) (etchedId : Option RuneId) : List Edict → Balances → Allocated → Outcome (Balances × Allocated)
  | [], un, alloc => .ok (un, alloc)
  | ed :: rest, un, alloc =>
    match applyEdict tx etchedId ed un alloc with
    | .ok (un', alloc') => applyEdicts tx etchedId rest un' alloc'
    | .panic s => .panic s
    | .err e => .err e

def addAllTo : Balances → Balances → Bool → Outcome Balances
  | [], acc, _ => .ok acc
  | (id, b) :: rest, acc, skipZero =>
    if skipZero && b == 0 then addAllTo rest acc skipZero
    else match addLot acc id b with
      | .ok acc' => addAllTo rest acc' skipZero
      | .panic s => .panic s
      | .err e => .err e

/-- sort balances by rune id (what `balances.sort()` does; ids are distinct) -/
def sortBalances (bs : Balances) : Balances :=
  bs.foldr (fun a acc =>
    let rec ins : Balances → Balances
      | [] => [a]
      | b :: rest => if a.1.lt b.1 then a :: b :: rest else b :: ins rest
    ins acc) []

/-- write the per-output balances; OP_RETURN outputs burn theirs -/
def writeOutputs (blk : Block) (tx : Tx) : List (Nat × Balances) → State → Balances → List Event →
    Outcome (State × Balances × List Event)
  | [], st, burned, evs => .ok (st, burned, evs)
  | (vout, bs) :: rest, st, burned, evs =>
    if bs.isEmpty then writeOutputs blk tx rest st burned evs
    else
      let opr := match tx.outputs[vout]? with | some o => o.opReturn | none => false
      if opr then
        match addAllTo bs burned false with
        | .ok burned' => writeOutputs blk tx rest st burned' evs
        | .panic s => .panic s
        | .err e => .err e
      else
        let sorted := sortBalances bs
        let op : OutPoint := ⟨tx.txid, vout⟩
        let evs' := evs ++ sorted.map (fun (id, b) => Event.runeTransferred b blk.height op id tx.txid)
        writeOutputs blk tx rest { st with balances := AL.set st.balances op sorted } burned evs'

/-- `index_runes` for one transaction; `blockBurned` is `self.burned` -/
def indexRunesTx (st : State) (blk : Block) (txIndex : Nat) (tx : Tx) (blockBurned : Balances) :
    Outcome (State × Balances × List Event) :=
  match takeInputs tx.inputs st [] with
  | .panic s => .panic s
  | .err e => .err e
  | .ok (st0, un0) =>
    let alloc0 : Allocated := tx.outputs.map (fun _ => [])
    -- mint, etching, edicts
    let phase1 : Outcome (State × Balances × Allocated × List Event) :=
      match tx.artifact with
      | none => .ok (st0, un0, alloc0, [])
      | some art =>
        let mintId := match art with | .runestone _ _ m _ => m | .cenotaph _ m => m
        let (st1, un1O, ev1) : State × Outcome Balances × List Event :=
          match mintId with
          | none => (st0, .ok un0, [])
          | some id =>
            match mint st0 blk.height id with
            | (s, none) => (s, .ok un0, [])
            | (s, some amount) => (s, addLot un0 id amount, [.runeMinted amount blk.height id tx.txid])
        match un1O with
        | .panic s => .panic s
        | .err e => .err e
        | .ok un1 =>
          match etched st1 blk txIndex tx art with
          | .panic s => .panic s
          | .err e => .err e
          | .ok (st2, et) =>
            let afterEdicts : Outcome (Balances × Allocated) :=
              match art with
              | .cenotaph .. => .ok (un1, alloc0)
              | .runestone edicts etching _ _ =>
                let un2O : Outcome Balances := match et with
                  | some (id, _) => addLot un1 id ((etching.bind (·.premine)).getD 0)
                  | none => .ok un1
                match un2O with
                | .panic s => .panic s
                | .err e => .err e
                | .ok un2 => applyEdicts tx (et.map (·.1)) edicts un2 alloc0
            match afterEdicts with
            | .panic s => .panic s
            | .err e => .err e
            | .ok (un3, alloc1) =>
              match et with
              | some (id, rune) =>
                let (st3, ev2) := createRuneEntry st2 blk tx art id rune
                .ok (st3, un3, alloc1, ev1 ++ ev2)
              | none => .ok (st2, un3, alloc1, ev1)
    match phase1 with
    | .panic s => .panic s
    | .err e => .err e
    | .ok (st3, un, alloc, evs) =>
      -- leftovers
      let phase2 : Outcome (Allocated × Balances) :=
        match tx.artifact with
        | some (.cenotaph ..) =>
          match addAllTo un [] false with
          | .ok b => .ok (alloc, b)
          | .panic s => .panic s
          | .err e => .err e
        | _ =>
          let pointer : Option Nat := match tx.artifact with
            | some (.runestone _ _ _ p) => p
            | _ => none
          let firstNonOpReturn := ((enumFrom 0 tx.outputs).find? (fun (_, o) => !o.opReturn)).map (·.1)
          match pointer with
          | some p =>
            if p ≥ alloc.length then .panic "assert!(pointer < allocated.len())"
            else match addAllTo un (alloc[p]?.getD []) true with
              | .ok m => .ok (alloc.set p m, [])
              | .panic s => .panic s
              | .err e => .err e
          | none =>
            match firstNonOpReturn with
            | some v =>
              match addAllTo un (alloc[v]?.getD []) true with
              | .ok m => .ok (alloc.set v m, [])
              | .panic s => .panic s
              | .err e => .err e
            | none =>
              match addAllTo un [] true with
              | .ok b => .ok (alloc, b)
              | .panic s => .panic s
              | .err e => .err e
      match phase2 with
      | .panic s => .panic s
      | .err e => .err e
      | .ok (alloc2, burned0) =>
        match writeOutputs blk tx (enumFrom 0 alloc2) st3 burned0 evs with
        | .panic s => .panic s
        | .err e => .err e
        | .ok (st4, burned, evs2) =>
          match addAllTo burned blockBurned false with
          | .panic s => .panic s
          | .err e => .err e
          | .ok bb =>
            .ok (st4, bb, evs2 ++ burned.map (fun (id, a) => Event.runeBurned a blk.height id tx.txid))

/-- `RuneUpdater::update`: flush the block's burns into the entries -/
def flushBurned : Balances → State → Outcome State
  | [], st => .ok st
  | (id, b) :: rest, st =>
    match AL.get st.runeEntries id with
    | none => .panic "id_to_entry.get(rune_id).unwrap()"
    | some e =>
      if e.burned + b ≥ U128 then .panic "entry.burned.checked_add(burned).unwrap()"
      else flushBurned rest { st with runeEntries := AL.set st.runeEntries id { e with burned := e.burned + b } }

def indexRunesBlock (st : State) (blk : Block) : Outcome (State × List Event) :=
  let rec go : List (Nat × Tx) → State → Balances → List Event → Outcome (State × Balances × List Event)
    | [], st, bb, evs => .ok (st, bb, evs)
    | (i, tx) :: rest, st, bb, evs =>
      match indexRunesTx st blk i tx bb with
      | .panic s => .panic s
      | .err e => .err e
      | .ok (st', bb', evs') => go rest st' bb' (evs ++ evs')
  match go (enumFrom 0 blk.txs) st [] [] with
  | .panic s => .panic s
  | .err e => .err e
  | .ok (st1, bb, evs) =>
    match flushBurned bb st1 with
    | .panic s => .panic s
    | .err e => .err e
    | .ok st2 => .ok (st2, evs)

end Ord.Index
