import OrdModel.Text.InscriptionId
import OrdModel.Text.Sub
import OrdModel.Text.Regex
/-
Models of the explorer query types of `/repo/src/subcommand/server/query.rs`:

  `Block`:       `s.len() == 64` ⇒ `BlockHash` else `u32` height;
  `Inscription`: INSCRIPTION_ID ⇒ `InscriptionId`; INSCRIPTION_NUMBER ⇒ `i32`; SAT_NAME ⇒ `Sat`;
                 else error;
  `Rune`:        contains `:` ⇒ `RuneId`; RUNE_NUMBER ⇒ `u64`; else `SpacedRune`.
-/
namespace Ord.Text.Query
open Ord Ord.Text

inductive Block where
  | height (h : Nat)
  | hash (h : List Char)
  deriving Repr, DecidableEq, Inhabited

def parseBlock (s : List Char) : Outcome Block :=
  if utf8Len s = 64 then
    match parseHash s with
    | some h => .ok (.hash h)
    | none => .err "hash"
  else match parseUnsigned 32 s with
    | .ok h => .ok (.height h)
    | .error e => .err ("height:" ++ e.toString)

inductive Inscription where
  | id (v : InscriptionId.Val)
  | number (n : Int)
  | sat (n : Nat)
  deriving Repr, DecidableEq, Inhabited

def parseInscription (s : List Char) : Outcome Inscription :=
  if Regex.inscriptionId s then
    match InscriptionId.parse s with
    | .ok v => .ok (.id v)
    | .err e => .err ("id:" ++ e)
    | .panic p => .panic p
  else if Regex.inscriptionNumber s then
    match parseSigned 32 s with
    | .ok n => .ok (.number n)
    | .error e => .err ("number:" ++ e.toString)
  else if Regex.satName s then
    match Sub.satFromStr s with
    | .ok n => .ok (.sat n)
    | .err e => .err e
    | .panic p => .panic p
  else .err "bad-query"

inductive Rune where
  | spaced (rune spacers : Nat)
  | id (block tx : Nat)
  | number (n : Nat)
  deriving Repr, DecidableEq, Inhabited

def parseRuneWith (fixed : Bool) (s : List Char) : Outcome Rune :=
  if s.contains ':' then
    match Sub.runeIdFromStr s with
    | .ok (b, t) => .ok (.id b t)
    | .err e => .err e
    | .panic p => .panic p
  else if Regex.runeNumber s then
    match parseUnsigned 64 s with
    | .ok n => .ok (.number n)
    | .error e => .err ("number:" ++ e.toString)
  else
    match Sub.spacedRuneFromStrWith fixed s with
    | .ok (r, sp) => .ok (.spaced r sp)
    | .err e => .err e
    | .panic p => .panic p

def parseRune (s : List Char) : Outcome Rune := parseRuneWith Ord.Generated.SpacedRuneFix.shlFixed s

end Ord.Text.Query
