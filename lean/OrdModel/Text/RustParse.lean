/-
Model of what Rust's `str::parse::<uN>()` / `str::parse::<iN>()` (`core::num::from_str_radix`,
radix 10) accepts, on `List Char`:

* empty string ⇒ `Empty`;
* a lone `+` or `-` ⇒ `InvalidDigit`;
* one optional leading `+` (and, for signed types only, `-`);
* then the digits are folded left to right: a non-ASCII-digit ⇒ `InvalidDigit`; a step that
  leaves the range of the type ⇒ `PosOverflow` / `NegOverflow` (the error of the *first*
  offending character is returned);
* no whitespace, underscores or any other character is accepted; leading zeros are.

Also the independent, grammar-level semantics used by the C31/C34 statements: `decVal` (positional
value of a digit string over unbounded `Nat`) and `Numeral` (optional `+`, one or more digits).
-/
namespace Ord.Text

inductive IntErr where
  | empty | invalid | posOverflow | negOverflow
  deriving Repr, DecidableEq, Inhabited

def IntErr.toString : IntErr → String
  | .empty => "empty" | .invalid => "invalid-digit"
  | .posOverflow => "pos-overflow" | .negOverflow => "neg-overflow"

def isDigit (c : Char) : Bool := 48 ≤ c.toNat && c.toNat ≤ 57

def digitVal (c : Char) : Nat := c.toNat - 48

/-- the unsigned loop: `acc` = result so far; `w` = bit width of the target type -/
def parseDigits (w : Nat) : Nat → List Char → Except IntErr Nat
  | acc, [] => .ok acc
  | acc, c :: cs =>
    if isDigit c then
      if acc * 10 + digitVal c < 2 ^ w then parseDigits w (acc * 10 + digitVal c) cs
      else .error .posOverflow
    else .error .invalid

/-- `s.parse::<uW>()` -/
def parseUnsigned (w : Nat) (s : List Char) : Except IntErr Nat :=
  match s with
  | [] => .error .empty
  | c :: cs =>
    if cs = [] ∧ (c = '+' ∨ c = '-') then .error .invalid
    else if c = '+' then parseDigits w 0 cs
    else parseDigits w 0 (c :: cs)

/-- the negative loop of a signed type: `acc` = magnitude so far, limit `2^(w-1)` inclusive -/
def parseDigitsNeg (w : Nat) : Nat → List Char → Except IntErr Nat
  | acc, [] => .ok acc
  | acc, c :: cs =>
    if isDigit c then
      if acc * 10 + digitVal c ≤ 2 ^ (w - 1) then parseDigitsNeg w (acc * 10 + digitVal c) cs
      else .error .negOverflow
    else .error .invalid

/-- `s.parse::<iW>()` -/
def parseSigned (w : Nat) (s : List Char) : Except IntErr Int :=
  match s with
  | [] => .error .empty
  | c :: cs =>
    if cs = [] ∧ (c = '+' ∨ c = '-') then .error .invalid
    else if c = '+' then (parseDigits (w - 1) 0 cs).map Int.ofNat
    else if c = '-' then (parseDigitsNeg w 0 cs).map (fun n => - Int.ofNat n)
    else (parseDigits (w - 1) 0 (c :: cs)).map Int.ofNat

/-! ### Grammar-level semantics (independent of the parsers above) -/

/-- positional value of a digit string, most significant first, over unbounded `Nat` -/
def decFold (acc : Nat) (ds : List Char) : Nat := ds.foldl (fun a c => a * 10 + digitVal c) acc

def decVal (ds : List Char) : Nat := decFold 0 ds

def allDigits (ds : List Char) : Bool := ds.all isDigit

/-- `s` is an unsigned decimal numeral (optional `+`, one or more ASCII digits) denoting `n` -/
def Numeral (s : List Char) (n : Nat) : Prop :=
  ∃ ds, (s = ds ∨ s = '+' :: ds) ∧ ds ≠ [] ∧ allDigits ds = true ∧ decVal ds = n

/-- executable version of `Numeral` (for oracle lines) -/
def stripPlus : List Char → List Char
  | [] => []
  | c :: cs => if c = '+' then cs else c :: cs

def numeralVal? (s : List Char) : Option Nat :=
  if stripPlus s ≠ [] ∧ allDigits (stripPlus s) then some (decVal (stripPlus s)) else none

/-- `s` is a signed decimal numeral (optional `+` or `-`, one or more digits) denoting `z` -/
def SignedNumeral (s : List Char) (z : Int) : Prop :=
  ∃ ds, ds ≠ [] ∧ allDigits ds = true ∧
    ((s = ds ∨ s = '+' :: ds) ∧ z = Int.ofNat (decVal ds) ∨ s = '-' :: ds ∧ z = - Int.ofNat (decVal ds))

def signedNumeralVal? (s : List Char) : Option Int :=
  match s with
  | '-' :: ds => if ds ≠ [] ∧ allDigits ds then some (- Int.ofNat (decVal ds)) else none
  | '+' :: ds => if ds ≠ [] ∧ allDigits ds then some (Int.ofNat (decVal ds)) else none
  | ds => if ds ≠ [] ∧ allDigits ds then some (Int.ofNat (decVal ds)) else none

/-! ### String splitting helpers shared by the text models -/

/-- `str::split_once(sep)`: split at the first occurrence -/
def splitOnce (sep : Char) : List Char → Option (List Char × List Char)
  | [] => none
  | c :: cs =>
    if c = sep then some ([], cs)
    else match splitOnce sep cs with
      | some (a, b) => some (c :: a, b)
      | none => none

/-- `str::rsplit_once(sep)`: split at the last occurrence -/
def rsplitOnce (sep : Char) (s : List Char) : Option (List Char × List Char) :=
  match splitOnce sep s.reverse with
  | some (a, b) => some (b.reverse, a.reverse)
  | none => none

/-- number of bytes of the UTF-8 encoding (`str::len`) -/
def utf8Len (s : List Char) : Nat := s.foldl (fun n c => n + c.utf8Size) 0

def isHexDigit (c : Char) : Bool :=
  isDigit c || (97 ≤ c.toNat && c.toNat ≤ 102) || (65 ≤ c.toNat && c.toNat ≤ 70)

def toLowerAscii (c : Char) : Char :=
  if 65 ≤ c.toNat ∧ c.toNat ≤ 90 then Char.ofNat (c.toNat + 32) else c

end Ord.Text

namespace Ord.Text

def isAscii (c : Char) : Bool := c.toNat < 128

/-- byte-index split of a `&str` (`&s[..n]`, `&s[n..]`): `none` when `n` is past the end or not on
a char boundary — which is a **panic** in Rust -/
def splitAtByte : Nat → List Char → Option (List Char × List Char)
  | n, [] => if n = 0 then some ([], []) else none
  | n, c :: cs =>
    if n = 0 then some ([], c :: cs)
    else if c.utf8Size ≤ n then
      match splitAtByte (n - c.utf8Size) cs with
      | some (a, b) => some (c :: a, b)
      | none => none
    else none

/-- `s.parse::<Txid>()` / `BlockHash`: exactly 64 bytes, all hex digits (either case); the
canonical rendering (Display) is the lower-cased input -/
def parseHash (s : List Char) : Option (List Char) :=
  if utf8Len s = 64 ∧ s.all isHexDigit then some (s.map toLowerAscii) else none

end Ord.Text
