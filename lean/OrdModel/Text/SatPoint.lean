import OrdModel.Basic.Outcome
import OrdModel.Text.RustParse
/-
Model of `SatPoint::from_str` (`/repo/crates/ordinals/src/sat_point.rs`) including the
`OutPoint::from_str` / `parse_vout` of rust-bitcoin 0.32 it delegates to:

  `s.rsplit_once(':')` else `Colon`;
  outpoint: `len > 75` ⇒ TooLong; not exactly one `:` ⇒ Format; `:` first or last ⇒ Format;
            txid = 64 hex bytes else Txid; vout: `len > 1` and first char `0` or `+` ⇒
            VoutNotCanonical; `parse::<u32>` else Vout;
  offset:   `parse::<u64>` else Offset.

The byte-index slices of `OutPoint::from_str` are taken at the position of an ASCII `:` found by
`find`, i.e. always on a char boundary: they are modelled by `splitOnce`.
-/
namespace Ord.Text.SatPoint
open Ord Ord.Text

structure Val where
  txid : List Char      -- lower-case hex, as displayed
  vout : Nat
  offset : Nat
  deriving Repr, DecidableEq, Inhabited

/-- `parse_vout` -/
def parseVout (v : List Char) : Except String Nat :=
  if utf8Len v > 1 ∧ (v.head? = some '0' ∨ v.head? = some '+') then .error "outpoint:vout-noncanonical"
  else match parseUnsigned 32 v with
    | .ok n => .ok n
    | .error _ => .error "outpoint:vout"

/-- `OutPoint::from_str` -/
def parseOutPoint (s : List Char) : Except String (List Char × Nat) :=
  if utf8Len s > 75 then .error "outpoint:toolong"
  else match splitOnce ':' s with
    | none => .error "outpoint:format"
    | some (a, b) =>
      if b.contains ':' then .error "outpoint:format"
      else if a = [] ∨ b = [] then .error "outpoint:format"
      else match parseHash a with
        | none => .error "outpoint:txid"
        | some t => match parseVout b with
          | .error e => .error e
          | .ok v => .ok (t, v)

/-- `SatPoint::from_str` -/
def parse (s : List Char) : Outcome Val :=
  match rsplitOnce ':' s with
  | none => .err "colon"
  | some (outpoint, offset) =>
    match parseOutPoint outpoint with
    | .error e => .err e
    | .ok (t, v) =>
      match parseUnsigned 64 offset with
      | .error e => .err ("offset:" ++ e.toString)
      | .ok o => .ok ⟨t, v, o⟩

/-- grammar-level semantics: `TXID:VOUT:OFFSET`, 64 hex digits, a canonical decimal `u32`
(digits only, no leading zero unless it is the single digit `0`), a decimal numeral `u64` -/
def Denotes (s : List Char) (v : Val) : Prop :=
  ∃ tx vs os, s = tx ++ ':' :: vs ++ ':' :: os ∧
    tx.length = 64 ∧ tx.all isHexDigit = true ∧ v.txid = tx.map toLowerAscii ∧
    vs ≠ [] ∧ allDigits vs = true ∧ (1 < vs.length → vs.head? ≠ some '0') ∧
    decVal vs = v.vout ∧ v.vout < 2 ^ 32 ∧
    Numeral os v.offset ∧ v.offset < 2 ^ 64

/-- executable check of `Denotes` for an implementation answer -/
def check (s : List Char) (v : Val) : Bool :=
  let tx := s.take 64
  match s.drop 64 with
  | ':' :: r =>
    match splitOnce ':' r with
    | some (vs, os) =>
      tx.length == 64 && tx.all isHexDigit && v.txid == tx.map toLowerAscii &&
      vs ≠ [] && allDigits vs && (vs.length ≤ 1 || vs.head? != some '0') &&
      decVal vs == v.vout && v.vout < 2 ^ 32 &&
      numeralVal? os == some v.offset && v.offset < 2 ^ 64
    | none => false
  | _ => false

end Ord.Text.SatPoint
