import OrdModel.Basic.Outcome
import OrdModel.Text.RustParse
import OrdModel.Generated.SpacedRuneFix
/-
Local, minimal models of the sub-parsers that `Outgoing::from_str` and the explorer query types
delegate to, *as reached from those callers*: `Sat::from_str` on a sat name, `Rune::from_str`,
`SpacedRune::from_str`, `RuneId::from_str`.  The authoritative models and the C31 theorems of
these parsers belong to the sat / rune work streams (`Theorems/C31Sat.lean`,
`Theorems/C31Rune.lean`); the copies here exist so that this stream's driver does not depend on
files owned by others, and are compared with the real code through `out.parse` / `qi.parse` /
`qr.parse`.
-/
namespace Ord.Text.Sub
open Ord Ord.Text

def SUPPLY : Nat := 2099999997690000

def isLower (c : Char) : Bool := 97 ≤ c.toNat && c.toNat ≤ 122
def isUpper (c : Char) : Bool := 65 ≤ c.toNat && c.toNat ≤ 90

/-- `Sat::from_name` loop (`x = x * 26 + c as u64 - 'a' as u64 + 1` in `u64`) -/
def satFromNameLoop : Nat → List Char → Outcome Nat
  | x, [] => if x ≤ SUPPLY then .ok (SUPPLY - x) else .panic "sub@SUPPLY-x"
  | x, c :: cs =>
    if isLower c then
      if 2 ^ 64 ≤ x * 26 + c.toNat then .panic "mul@x*26+c"
      else
        let x' := x * 26 + c.toNat - 97 + 1
        if x' > SUPPLY then .err "sat:name-range" else satFromNameLoop x' cs
    else .err "sat:name-character"

/-- `Sat::from_str`, name branch only (the other notations belong to the sat stream) -/
def satFromStr (s : List Char) : Outcome Nat :=
  if s.any isLower then satFromNameLoop 0 s else .err "sat:not-a-name"

/-- `Rune::from_str` -/
def runeLoop : Bool → Nat → List Char → Outcome Nat
  | _, x, [] => .ok x
  | first, x, c :: cs =>
    let x1 := if first then x else x + 1
    if 2 ^ 128 ≤ x1 then .err "rune:range"
    else if 2 ^ 128 ≤ x1 * 26 then .err "rune:range"
    else if isUpper c then
      if 2 ^ 128 ≤ x1 * 26 + (c.toNat - 65) then .err "rune:range"
      else runeLoop false (x1 * 26 + (c.toNat - 65)) cs
    else .err "rune:character"

def runeFromStr (s : List Char) : Outcome Nat := runeLoop true 0 s

/-- the char loop of `SpacedRune::from_str`: `letters` reversed.  `fixed` = the repair
`notes/fix-spaced-rune-shl.diff` is present (`checked_shl` → `Error::Rune(Range)` instead of the
unchecked `1 << k`) -/
def spacedLoopWith (fixed : Bool) : List Char → Nat → List Char → Outcome (List Char × Nat)
  | letters, spacers, [] => .ok (letters.reverse, spacers)
  | letters, spacers, c :: cs =>
    if isUpper c then spacedLoopWith fixed (c :: letters) spacers cs
    else if c = '.' ∨ c = '•' then
      if letters.length = 0 then .err "rune:leading-spacer"
      else
        let k := letters.length - 1
        if 32 ≤ k then (if fixed then .err "rune:range" else .panic "shl@1<<(rune.len()-1)")
        else if spacers.testBit k then .err "rune:double-spacer"
        else spacedLoopWith fixed letters (spacers + 2 ^ k) cs
    else .err "rune:character"

/-- `32 - spacers.leading_zeros()` -/
def bitLen (n : Nat) : Nat := if n = 0 then 0 else Nat.log2 n + 1

/-- `SpacedRune::from_str` → (rune value, spacers).  Unrepaired: `rune.len().try_into().unwrap()`
(usize → u32) is a panic branch; repaired: `.unwrap_or(u32::MAX)`. -/
def spacedRuneFromStrWith (fixed : Bool) (s : List Char) : Outcome (Nat × Nat) :=
  match spacedLoopWith fixed [] 0 s with
  | .err e => .err e
  | .panic p => .panic p
  | .ok (letters, spacers) =>
    if 2 ^ 32 ≤ letters.length ∧ !fixed then .panic "unwrap@rune.len().try_into()"
    else if bitLen spacers ≥ min letters.length (2 ^ 32 - 1) then .err "rune:trailing-spacer"
    else match runeFromStr letters with
      | .ok r => .ok (r, spacers)
      | .err e => .err e
      | .panic p => .panic p

/-- the parser as it is in /repo now: the flag is re-extracted from the source text on every run
(`tools/extractors/spaced_rune_fix.py`) -/
def spacedRuneFromStr (s : List Char) : Outcome (Nat × Nat) :=
  spacedRuneFromStrWith Ord.Generated.SpacedRuneFix.shlFixed s

/-- `RuneId::from_str` -/
def runeIdFromStr (s : List Char) : Outcome (Nat × Nat) :=
  match splitOnce ':' s with
  | none => .err "runeid:separator"
  | some (h, i) =>
    match parseUnsigned 64 h with
    | .error e => .err ("runeid:block:" ++ e.toString)
    | .ok b =>
      match parseUnsigned 32 i with
      | .error e => .err ("runeid:tx:" ++ e.toString)
      | .ok t => .ok (b, t)

end Ord.Text.Sub
