import OrdModel.Num.Decimal_fixed
import OrdModel.Text.SatPoint
import OrdModel.Text.InscriptionId
import OrdModel.Text.Sub
import OrdModel.Text.Regex
/-
Model of `Outgoing::from_str` (`/repo/src/outgoing.rs`): a cascade of anchored regex tests, each
followed by the `FromStr` of the matched alternative:

  SAT_NAME → `Sat`; SATPOINT → `SatPoint`; INSCRIPTION_ID → `InscriptionId`;
  AMOUNT → `bitcoin::Amount` (**delegated to rust-bitcoin**: the model only says that this
  alternative was taken); RUNE captures → `Decimal` (the repaired parser, `Num/Decimal_fixed.lean`,
  since `notes/fix-decimal.diff` was applied) then `SpacedRune`; otherwise `OutgoingParse`.
-/
namespace Ord.Text.Outgoing
open Ord Ord.Text

inductive Val where
  | amountDelegated
  | inscriptionId (v : InscriptionId.Val)
  | rune (value scale rune spacers : Nat)
  | sat (n : Nat)
  | satPoint (v : SatPoint.Val)
  deriving Repr, DecidableEq, Inhabited

def tag {α : Type} (t : String) (f : α → Val) : Outcome α → Outcome Val
  | .ok a => .ok (f a)
  | .err e => .err (t ++ e)
  | .panic p => .panic p

def parseWith (fixed : Bool) (s : List Char) : Outcome Val :=
  if Regex.satName s then tag "" .sat (Sub.satFromStr s)
  else if Regex.satpoint s then tag "satpoint:" .satPoint (SatPoint.parse s)
  else if Regex.inscriptionId s then tag "inscription:" .inscriptionId (InscriptionId.parse s)
  else if Regex.amount s then .ok .amountDelegated
  else match Regex.runeCaptures s with
    | some (num, name) =>
      match DecimalFixed.fromStr num with
      | .err e => .err ("rune-amount:" ++ e)
      | .panic p => .panic p
      | .ok d =>
        match Sub.spacedRuneFromStrWith fixed name with
        | .err e => .err e
        | .panic p => .panic p
        | .ok (r, sp) => .ok (.rune d.value d.scale r sp)
    | none => .err "unrecognized"

/-- `Outgoing::from_str` as it is in /repo now (`fixed` = is the SpacedRune repair present,
re-extracted from the source on every run) -/
def parse (s : List Char) : Outcome Val := parseWith Ord.Generated.SpacedRuneFix.shlFixed s

end Ord.Text.Outgoing
