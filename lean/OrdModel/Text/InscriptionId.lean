import OrdModel.Basic.Outcome
import OrdModel.Text.RustParse
/-
Model of `InscriptionId::from_str` (`/repo/src/inscriptions/inscription_id.rs`):

  a non-ASCII char anywhere ⇒ `Character`; `s.len() < 66` ⇒ `Length`;
  `txid = &s[..64]` (byte slice: panics off a char boundary);
  `separator = s.chars().nth(64).unwrap()`; `!= 'i'` ⇒ `Separator`;
  `vout = &s[65..]`; `txid.parse()` ⇒ `Txid`; `vout.parse::<u32>()` ⇒ `Index`.

The three potential panic sites are explicit branches; `parse_ne_panic` proves them unreachable
because the ASCII check comes first.
-/
namespace Ord.Text.InscriptionId
open Ord Ord.Text

structure Val where
  txid : List Char
  index : Nat
  deriving Repr, DecidableEq, Inhabited

def parse (s : List Char) : Outcome Val :=
  if s.any (fun c => !isAscii c) then .err "character"
  else if utf8Len s < 66 then .err "length"
  else match splitAtByte 64 s with
    | none => .panic "slice@&s[..TXID_LEN]"
    | some (txid, _) =>
      match s[64]? with
      | none => .panic "unwrap@s.chars().nth(TXID_LEN)"
      | some sep =>
        if sep ≠ 'i' then .err "separator"
        else match splitAtByte 65 s with
          | none => .panic "slice@&s[TXID_LEN+1..]"
          | some (_, vout) =>
            match parseHash txid with
            | none => .err "txid"
            | some t =>
              match parseUnsigned 32 vout with
              | .error e => .err ("index:" ++ e.toString)
              | .ok n => .ok ⟨t, n⟩

/-- grammar-level semantics: 64 hex digits, `i`, a decimal numeral below 2^32 -/
def Denotes (s : List Char) (v : Val) : Prop :=
  ∃ tx ix, s = tx ++ 'i' :: ix ∧ tx.length = 64 ∧ tx.all isHexDigit = true ∧
    v.txid = tx.map toLowerAscii ∧ Numeral ix v.index ∧ v.index < 2 ^ 32

def check (s : List Char) (v : Val) : Bool :=
  let tx := s.take 64
  match s.drop 64 with
  | 'i' :: ix =>
    tx.length == 64 && tx.all isHexDigit && v.txid == tx.map toLowerAscii &&
    numeralVal? ix == some v.index && v.index < 2 ^ 32
  | _ => false

end Ord.Text.InscriptionId
