import OrdModel.Text.RustParse
/-
The languages of the anchored regexes of `/repo/src/re.rs` and of the two local regexes of
`Outgoing::from_str`, as deterministic matchers on `List Char`.

Rust's `regex` crate is Unicode-aware by default: `\d` is `\p{Nd}` (71 ranges in
regex-syntax 0.8.10's `perl_decimal.rs`) and `\s` is `\p{White_Space}`; `[[:xdigit:]]`, `[0-9]`,
`[a-z]`, `[A-Z•.]` are literal classes; `^`/`$` match only at the ends of the haystack (no
multi-line flag).  The two tables below are compared **exhaustively over all Unicode scalar values**
with the real regexes on every run (`re.table.digit`, `re.table.space`).
-/
namespace Ord.Text.Regex
open Ord.Text

def decimalNumberRanges : List (Nat × Nat) :=
  [(48, 57), (1632, 1641), (1776, 1785), (1984, 1993), (2406, 2415), (2534, 2543), (2662, 2671),
   (2790, 2799), (2918, 2927), (3046, 3055), (3174, 3183), (3302, 3311), (3430, 3439), (3558, 3567),
   (3664, 3673), (3792, 3801), (3872, 3881), (4160, 4169), (4240, 4249), (6112, 6121), (6160, 6169),
   (6470, 6479), (6608, 6617), (6784, 6793), (6800, 6809), (6992, 7001), (7088, 7097), (7232, 7241),
   (7248, 7257), (42528, 42537), (43216, 43225), (43264, 43273), (43472, 43481), (43504, 43513),
   (43600, 43609), (44016, 44025), (65296, 65305), (66720, 66729), (68912, 68921), (68928, 68937),
   (69734, 69743), (69872, 69881), (69942, 69951), (70096, 70105), (70384, 70393), (70736, 70745),
   (70864, 70873), (71248, 71257), (71360, 71369), (71376, 71395), (71472, 71481), (71904, 71913),
   (72016, 72025), (72688, 72697), (72784, 72793), (73040, 73049), (73120, 73129), (73552, 73561),
   (90416, 90425), (92768, 92777), (92864, 92873), (93008, 93017), (93552, 93561), (118000, 118009),
   (120782, 120831), (123200, 123209), (123632, 123641), (124144, 124153), (124401, 124410),
   (125264, 125273), (130032, 130041)]

def whiteSpaceRanges : List (Nat × Nat) :=
  [(9, 13), (32, 32), (133, 133), (160, 160), (5760, 5760), (8192, 8202), (8232, 8233),
   (8239, 8239), (8287, 8287), (12288, 12288)]

def inRanges (rs : List (Nat × Nat)) (c : Char) : Bool := rs.any (fun r => r.1 ≤ c.toNat && c.toNat ≤ r.2)

/-- `\d` -/
def isUDigit (c : Char) : Bool := inRanges decimalNumberRanges c
/-- `\s` -/
def isUSpace (c : Char) : Bool := inRanges whiteSpaceRanges c
def isLower (c : Char) : Bool := 97 ≤ c.toNat && c.toNat ≤ 122
/-- `[A-Z•.]` -/
def isRuneChar (c : Char) : Bool := (65 ≤ c.toNat && c.toNat ≤ 90) || c == '•' || c == '.'

/-- `^[a-z]{1,11}$` -/
def satName (s : List Char) : Bool := 1 ≤ s.length && s.length ≤ 11 && s.all isLower

/-- `^[[:xdigit:]]{64}` then the rest -/
def hashPrefix (s : List Char) : Option (List Char) :=
  if 64 ≤ s.length ∧ (s.take 64).all isHexDigit then some (s.drop 64) else none

/-- `^[[:xdigit:]]{64}:\d+:\d+$` -/
def satpoint (s : List Char) : Bool :=
  match hashPrefix s with
  | some (':' :: r) =>
    let d1 := r.takeWhile isUDigit
    match r.dropWhile isUDigit with
    | ':' :: r2 => d1 ≠ [] && r2 ≠ [] && r2.all isUDigit
    | _ => false
  | _ => false

/-- `^[[:xdigit:]]{64}i\d+$` -/
def inscriptionId (s : List Char) : Bool :=
  match hashPrefix s with
  | some ('i' :: r) => r ≠ [] && r.all isUDigit
  | _ => false

/-- `^-?[0-9]{1,63}$` -/
def inscriptionNumber (s : List Char) : Bool :=
  let ds := match s with
    | '-' :: r => r
    | r => r
  1 ≤ ds.length && ds.length ≤ 63 && ds.all isDigit

/-- `^-?[0-9]+$` -/
def runeNumber (s : List Char) : Bool :=
  let ds := match s with
    | '-' :: r => r
    | r => r
  1 ≤ ds.length && ds.all isDigit

/-- `( \d+ | \.\d+ | \d+\.\d+ )` as a whole-string test -/
def numberForm (n : List Char) : Bool :=
  match splitOnce '.' n with
  | none => n ≠ [] && n.all isUDigit
  | some (a, b) => a.all isUDigit && b ≠ [] && b.all isUDigit

def isNumChar (c : Char) : Bool := isUDigit c || c == '.'

def units : List (List Char) :=
  ["bit", "btc", "cbtc", "mbtc", "msat", "nbtc", "pbtc", "sat", "satoshi", "ubtc"].map String.toList

/-- `^(\d+|\.\d+|\d+\.\d+)\ ?(bit|btc|…|ubtc)(s)?$` -/
def amount (s : List Char) : Bool :=
  let n := s.takeWhile isNumChar
  let r := s.dropWhile isNumChar
  let r := match r with
    | ' ' :: r' => r'
    | r' => r'
  numberForm n && units.any (fun u => r == u || r == u ++ ['s'])

/-- captures of `^(\d+|\.\d+|\d+\.\d+)\s*:\s*([A-Z•.]+)$` -/
def runeCaptures (s : List Char) : Option (List Char × List Char) :=
  let n := s.takeWhile isNumChar
  let r := (s.dropWhile isNumChar).dropWhile isUSpace
  match r with
  | ':' :: r' =>
    let name := r'.dropWhile isUSpace
    if numberForm n ∧ name ≠ [] ∧ name.all isRuneChar then some (n, name) else none
  | _ => none

end Ord.Text.Regex
