/-
Three-way result used wherever a property is *about* totality: `ok` a value, `err` a returned
error (mapped to a small enum/string), `panic` = what the Rust code does in the dev profile
(overflow checks on) at an `unwrap`/`expect`/`assert!`/index/arith site, named by `site`.
"Never panics" is then the theorem `f x ≠ .panic _`.
-/
namespace Ord

inductive Outcome (α : Type) where
  | ok (a : α)
  | err (e : String)
  | panic (site : String)
  deriving Repr, DecidableEq, Inhabited

namespace Outcome

def bind {α β : Type} (x : Outcome α) (f : α → Outcome β) : Outcome β :=
  match x with
  | .ok a => f a
  | .err e => .err e
  | .panic s => .panic s

instance : Monad Outcome where
  pure := .ok
  bind := bind

def isPanic {α : Type} : Outcome α → Bool
  | .panic _ => true
  | _ => false

def isOk {α : Type} : Outcome α → Bool
  | .ok _ => true
  | _ => false

/-- canonical one-token rendering for the line protocol -/
def render {α : Type} (f : α → String) : Outcome α → String
  | .ok a => s!"ok {f a}"
  | .err e => s!"err {e}"
  | .panic s => s!"panic {s}"

/-- checked unsigned arithmetic at bit width `w` (dev profile: overflow panics) -/
def addW (w : Nat) (site : String) (a b : Nat) : Outcome Nat :=
  if a + b < 2 ^ w then .ok (a + b) else .panic site

def subW (site : String) (a b : Nat) : Outcome Nat :=
  if b ≤ a then .ok (a - b) else .panic site

def mulW (w : Nat) (site : String) (a b : Nat) : Outcome Nat :=
  if a * b < 2 ^ w then .ok (a * b) else .panic site

end Outcome
end Ord
