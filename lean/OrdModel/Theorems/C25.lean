import OrdModel.Proofs.RunestoneEncipher
import OrdModel.Proofs.RunestoneFields
/-!
# C25 — Runestones round-trip and deciphering is total with the documented flaws

Property theorems only.  Model: `OrdModel/Codec/{Script,Runestone}.lean`; specification
vocabulary (`wf`, `anyMagic`, `specFlaw`, …): `OrdModel/Codec/RunestoneSpec.lean`; helper lemmas:
`OrdModel/Proofs/Runestone*.lean`.  A transaction is the list of its output scripts.
-/
namespace Ord.Runestone
open Ord Ord.Script

/-- **Totality.**  Deciphering any transaction (with fewer than 2^32 outputs — every transaction
that fits in a block) returns: no panic, no error. -/
theorem c25_decipher_total (scripts : List (List UInt8)) (hn : scripts.length < 2 ^ 32) :
    ∃ r, decipher scripts = .ok r := by
  unfold decipher
  split
  · exact ⟨_, rfl⟩
  · exact ⟨_, rfl⟩
  · split
    · exact ⟨_, rfl⟩
    · rename_i ints _
      obtain ⟨es, he⟩ := decipherInts_ok scripts.length hn ints
      rw [he]; exact ⟨_, rfl⟩

/-- **Nothing unless an output starts with OP_RETURN OP_13** (the two bytes `6a 5d`), and
something (runestone or cenotaph) whenever one does. -/
theorem c25_none_iff (scripts : List (List UInt8)) :
    decipher scripts = .ok none ↔ anyMagic scripts = false := by
  rw [← payload_none_iff]
  unfold decipher
  constructor
  · intro h
    split at h
    · assumption
    · cases h
    · split at h
      · cases h
      · split at h <;> cases h
  · intro h; simp [h]

/-- **Script-level flaws.**  The payload of the first matching output is the concatenation of its
data pushes; the first item after `OP_RETURN OP_13` that is not a data push decides the flaw:
an opcode gives `opcode`, a script error (truncated push) gives `invalidScript`. -/
theorem c25_script_flaw (pre : List (List UInt8)) (rest : List UInt8) (post : List (List UInt8))
    (hpre : anyMagic pre = false) :
    payload (pre ++ (OP_RETURN :: MAGIC_NUMBER :: rest) :: post)
      = some (pushesResult (instructions rest)) := by
  rw [payload_first pre rest post hpre, collectPushes_spec]

/-- **Flaw order.**  Whatever `decipher` returns carries exactly the first violation in the
documented order: script error / non-push opcode, bad varint, first message-structure error,
supply overflow, unrecognized flag, unrecognized even tag (an even tag left after all recognised
fields are taken); it is a runestone iff there is no violation. -/
theorem c25_flaw_order (scripts : List (List UInt8)) (hn : scripts.length < 2 ^ 32)
    (a : Artifact) (h : decipher scripts = .ok (some a)) :
    a.flaw = specFlawWith leftoverEvenTag scripts
    ∧ ((∃ r, a = .runestone r) ↔ specFlawWith leftoverEvenTag scripts = none) := by
  have key : a.flaw = specFlawWith leftoverEvenTag scripts := by
    unfold decipher at h
    unfold specFlawWith
    cases hp : payload scripts with
    | none => rw [hp] at h; cases h
    | some pl =>
      rw [hp] at h
      cases pl with
      | invalid f => injection h with h; injection h with h; subst h; rfl
      | valid p =>
        simp only at h ⊢
        cases hi : integers p with
        | error e => rw [hi] at h; injection h with h; injection h with h; subst h; rfl
        | ok ints =>
          rw [hi] at h
          simp only at h ⊢
          cases ha : decipherInts scripts.length ints with
          | ok a' =>
            rw [ha] at h; injection h with h; injection h with h; subst h
            exact (decipherInts_flaw _ hn ints _ ha).1
          | err e => rw [ha] at h; cases h
          | panic e => rw [ha] at h; cases h
  refine ⟨key, ?_⟩
  rw [← key]
  constructor
  · rintro ⟨r, rfl⟩; rfl
  · intro hf
    cases a with
    | runestone r => exact ⟨r, rfl⟩
    | cenotaph c =>
      -- a cenotaph produced by `decipher` always records a flaw
      exfalso
      unfold decipher at h
      split at h
      · cases h
      · cases h; cases hf
      · split at h
        · cases h; cases hf
        · rename_i ints _
          split at h
          · rename_i a' ha
            injection h with h; injection h with h; subst h
            obtain ⟨es, he⟩ := decipherInts_ok scripts.length hn ints
            rw [he] at ha; injection ha with ha
            unfold decipherMsg at ha
            dsimp only at ha
            split at ha
            · cases ha; cases hf
            · cases ha
          · cases h
          · cases h

/-- **Unrecognized even tag, declaratively.**  "An even tag is left over after all recognised
fields are taken" holds exactly when some even tag carries more values than `decipher` consumes
for it (`consumed`): an unknown even tag, a known one whose flag is not set, a repeated one, or
one whose value is out of range (u64 for heights/offsets, `< min(n, 2^32)` for the pointer,
a valid id for the mint pair). -/
theorem c25_even_tag_spec (n : Nat) (fs : Fields) : leftoverEvenTag n fs = specEvenTag n fs :=
  leftoverEvenTag_eq_spec n fs

/-- **Flaw order, fully declarative** (`specFlaw` uses `specEvenTag`; this is the predicate the
`runestone.oracle.flaw` lines evaluate on the implementation's answers). -/
theorem c25_flaw_order_spec (scripts : List (List UInt8)) (hn : scripts.length < 2 ^ 32)
    (a : Artifact) (h : decipher scripts = .ok (some a)) :
    a.flaw = specFlaw scripts ∧ ((∃ r, a = .runestone r) ↔ specFlaw scripts = none) := by
  have : specFlaw scripts = specFlawWith leftoverEvenTag scripts := by
    unfold specFlaw
    congr 1
    funext n fs
    exact (leftoverEvenTag_eq_spec n fs).symm
  rw [this]
  exact c25_flaw_order scripts hn a h

/-- **A cenotaph keeps the etched name and the mint** (and so does a runestone): whenever the
payload is readable, the artifact's rune name is the first `Rune` value if the etching flag is
set, and its mint is the rune id formed by the first two `Mint` values if valid — independent of
any flaw. -/
theorem c25_keeps (scripts : List (List UInt8)) (hn : scripts.length < 2 ^ 32)
    (p : List UInt8) (ints : List Nat) (hp : payload scripts = some (.valid p))
    (hi : integers p = .ok ints) :
    ∃ a, decipher scripts = .ok (some a) ∧ a.rune = specRune (fieldPairs ints)
      ∧ a.mint = specMint (fieldPairs ints) := by
  obtain ⟨es, he⟩ := decipherInts_ok scripts.length hn ints
  have := decipherInts_flaw scripts.length hn ints _ he
  exact ⟨_, by simp [decipher, hp, hi, he], this.2.1, this.2.2⟩

/-- **Round trip, script layer.**  For every payload `p` the script `encipher` builds for it
(`OP_RETURN OP_13` + one push per `chunks(u32::MAX)` chunk, never a panic) is, as the first
matching output of any transaction, read back by the payload search as exactly `p`. -/
theorem c25_roundtrip_script (p : List UInt8) (pre post : List (List UInt8))
    (hpre : anyMagic pre = false) :
    ∃ s, payloadScript p = .ok s ∧ payload (pre ++ s :: post) = some (.valid p) := by
  obtain ⟨rest, hs, hc⟩ := payloadScript_roundtrip p
  exact ⟨_, hs, by rw [payload_first pre rest post hpre, hc]⟩

/-- **Round trip, varint layer.**  Any sequence of 128-bit integers, varint-encoded and
concatenated, is split back into the same sequence. -/
theorem c25_roundtrip_varints (xs : List Nat) (h : ∀ x ∈ xs, x < 2 ^ 128) :
    integers (encodeInts xs) = .ok xs :=
  integers_encodeInts xs h

example : anyMagic [[0x6a, 0x5d, 0x00], []] = true := by decide
example : anyMagic [[0x6a], [0x6a, 0x01, 0x5d], [0x00, 0x14]] = false := by decide

end Ord.Runestone
