import OrdModel.Proofs.RunestoneEncipher
import OrdModel.Proofs.RunestoneFields
import OrdModel.Proofs.RunestoneRoundtrip
/-!
# C25 — Runestones round-trip and deciphering is total with the documented flaws

Property theorems only.  Model: `OrdModel/Codec/{Script,Runestone}.lean`; specification
vocabulary (`wf`, `anyMagic`, `specFlaw`, …): `OrdModel/Codec/RunestoneSpec.lean`; helper lemmas:
`OrdModel/Proofs/Runestone*.lean`.  A transaction is the list of its output scripts.
-/
namespace Ord.Runestone
open Ord Ord.Script

/-- **Totality.**  Deciphering any transaction (with fewer than 2^32 outputs — every transaction
that fits in a block) returns: no panic, no error. -/
theorem c25_decipher_total (scripts : List (List UInt8)) (hn : scripts.length < 2 ^ 32) :
    ∃ r, decipher scripts = .ok r := by
  unfold decipher
  split
  · exact ⟨_, rfl⟩
  · exact ⟨_, rfl⟩
  · split
    · exact ⟨_, rfl⟩
    · rename_i ints _
      obtain ⟨es, he⟩ := decipherInts_ok scripts.length hn ints
      rw [he]; exact ⟨_, rfl⟩

/-- **Nothing unless an output starts with OP_RETURN OP_13** (the two bytes `6a 5d`), and
something (runestone or cenotaph) whenever one does. -/
theorem c25_none_iff (scripts : List (List UInt8)) :
    decipher scripts = .ok none ↔ anyMagic scripts = false := by
  rw [← payload_none_iff]
  unfold decipher
  constructor
  · intro h
    split at h
    · assumption
    · cases h
    · split at h
      · cases h
      · split at h <;> cases h
  · intro h; simp [h]

/-- **Script-level flaws.**  The payload of the first matching output is the concatenation of its
data pushes; the first item after `OP_RETURN OP_13` that is not a data push decides the flaw:
an opcode gives `opcode`, a script error (truncated push) gives `invalidScript`. -/
theorem c25_script_flaw (pre : List (List UInt8)) (rest : List UInt8) (post : List (List UInt8))
    (hpre : anyMagic pre = false) :
    payload (pre ++ (OP_RETURN :: MAGIC_NUMBER :: rest) :: post)
      = some (pushesResult (instructions rest)) := by
  rw [payload_first pre rest post hpre, collectPushes_spec]

/-- **Flaw order.**  Whatever `decipher` returns carries exactly the first violation in the
documented order: script error / non-push opcode, bad varint, first message-structure error,
supply overflow, unrecognized flag, unrecognized even tag (an even tag left after all recognised
fields are taken); it is a runestone iff there is no violation. -/
theorem c25_flaw_order (scripts : List (List UInt8)) (hn : scripts.length < 2 ^ 32)
    (a : Artifact) (h : decipher scripts = .ok (some a)) :
    a.flaw = specFlawWith leftoverEvenTag scripts
    ∧ ((∃ r, a = .runestone r) ↔ specFlawWith leftoverEvenTag scripts = none) := by
  have key : a.flaw = specFlawWith leftoverEvenTag scripts := by
    unfold decipher at h
    unfold specFlawWith
    cases hp : payload scripts with
    | none => rw [hp] at h; cases h
    | some pl =>
      rw [hp] at h
      cases pl with
      | invalid f => injection h with h; injection h with h; subst h; rfl
      | valid p =>
        simp only at h ⊢
        cases hi : integers p with
        | error e => rw [hi] at h; injection h with h; injection h with h; subst h; rfl
        | ok ints =>
          rw [hi] at h
          simp only at h ⊢
          cases ha : decipherInts scripts.length ints with
          | ok a' =>
            rw [ha] at h; injection h with h; injection h with h; subst h
            exact (decipherInts_flaw _ hn ints _ ha).1
          | err e => rw [ha] at h; cases h
          | panic e => rw [ha] at h; cases h
  refine ⟨key, ?_⟩
  rw [← key]
  constructor
  · rintro ⟨r, rfl⟩; rfl
  · intro hf
    cases a with
    | runestone r => exact ⟨r, rfl⟩
    | cenotaph c =>
      -- a cenotaph produced by `decipher` always records a flaw
      exfalso
      unfold decipher at h
      split at h
      · cases h
      · cases h; cases hf
      · split at h
        · cases h; cases hf
        · rename_i ints _
          split at h
          · rename_i a' ha
            injection h with h; injection h with h; subst h
            obtain ⟨es, he⟩ := decipherInts_ok scripts.length hn ints
            rw [he] at ha; injection ha with ha
            unfold decipherMsg at ha
            dsimp only at ha
            split at ha
            · cases ha; cases hf
            · cases ha
          · cases h
          · cases h

/-- **Unrecognized even tag, declaratively.**  "An even tag is left over after all recognised
fields are taken" holds exactly when some even tag carries more values than `decipher` consumes
for it (`consumed`): an unknown even tag, a known one whose flag is not set, a repeated one, or
one whose value is out of range (u64 for heights/offsets, `< min(n, 2^32)` for the pointer,
a valid id for the mint pair). -/
theorem c25_even_tag_spec (n : Nat) (fs : Fields) : leftoverEvenTag n fs = specEvenTag n fs :=
  leftoverEvenTag_eq_spec n fs

/-- **Flaw order, fully declarative** (`specFlaw` uses `specEvenTag`; this is the predicate the
`runestone.oracle.flaw` lines evaluate on the implementation's answers). -/
theorem c25_flaw_order_spec (scripts : List (List UInt8)) (hn : scripts.length < 2 ^ 32)
    (a : Artifact) (h : decipher scripts = .ok (some a)) :
    a.flaw = specFlaw scripts ∧ ((∃ r, a = .runestone r) ↔ specFlaw scripts = none) := by
  have : specFlaw scripts = specFlawWith leftoverEvenTag scripts := by
    unfold specFlaw
    congr 1
    funext n fs
    exact (leftoverEvenTag_eq_spec n fs).symm
  rw [this]
  exact c25_flaw_order scripts hn a h

/-- **A cenotaph keeps the etched name and the mint** (and so does a runestone): whenever the
payload is readable, the artifact's rune name is the first `Rune` value if the etching flag is
set, and its mint is the rune id formed by the first two `Mint` values if valid — independent of
any flaw. -/
theorem c25_keeps (scripts : List (List UInt8)) (hn : scripts.length < 2 ^ 32)
    (p : List UInt8) (ints : List Nat) (hp : payload scripts = some (.valid p))
    (hi : integers p = .ok ints) :
    ∃ a, decipher scripts = .ok (some a) ∧ a.rune = specRune (fieldPairs ints)
      ∧ a.mint = specMint (fieldPairs ints) := by
  obtain ⟨es, he⟩ := decipherInts_ok scripts.length hn ints
  have := decipherInts_flaw scripts.length hn ints _ he
  exact ⟨_, by simp [decipher, hp, hi, he], this.2.1, this.2.2⟩

/-- **Round trip, script layer.**  For every payload `p` the script `encipher` builds for it
(`OP_RETURN OP_13` + one push per `chunks(u32::MAX)` chunk, never a panic) is, as the first
matching output of any transaction, read back by the payload search as exactly `p`. -/
theorem c25_roundtrip_script (p : List UInt8) (pre post : List (List UInt8))
    (hpre : anyMagic pre = false) :
    ∃ s, payloadScript p = .ok s ∧ payload (pre ++ s :: post) = some (.valid p) := by
  obtain ⟨rest, hs, hc⟩ := payloadScript_roundtrip p
  exact ⟨_, hs, by rw [payload_first pre rest post hpre, hc]⟩

/-- **Round trip, varint layer.**  Any sequence of 128-bit integers, varint-encoded and
concatenated, is split back into the same sequence. -/
theorem c25_roundtrip_varints (xs : List Nat) (h : ∀ x ∈ xs, x < 2 ^ 128) :
    integers (encodeInts xs) = .ok xs :=
  integers_encodeInts xs h

/-- **Round trip.**  For every runestone whose components are inside their Rust types (`typed`)
and that is well-formed for a transaction with `n` outputs (`wf`: n < 2^32; edict ids valid and
outputs ≤ n; divisibility ≤ 38, spacers ≤ MAX_SPACERS, supply fits u128; mint id valid;
pointer < n): `encipher` does not panic, and in any transaction with `n` outputs in which the
enciphered script is the first output starting with `OP_RETURN OP_13`, `decipher` returns exactly
that runestone with its edicts stably sorted by rune id — no other normalisation (`Some(0)` stays
`Some(0)`, an all-`None` etching/terms stays `Some`). -/
theorem c25_roundtrip (r : Runestone) (pre post : List (List UInt8))
    (hpre : anyMagic pre = false) (ht : r.typed = true)
    (hw : r.wf (pre.length + 1 + post.length) = true) :
    ∃ s, encipher r = .ok s ∧ decipher (pre ++ s :: post) = .ok (some (.runestone r.sorted)) := by
  obtain ⟨ints, hi, hlt, hd⟩ := encipherInts_roundtrip r _ ht hw
  obtain ⟨s, hs, hp⟩ := c25_roundtrip_script (encodeInts ints) pre post hpre
  refine ⟨s, by simp [encipher, hi, hs], ?_⟩
  have hlen : (pre ++ s :: post).length = pre.length + 1 + post.length := by
    simp only [List.length_append, List.length_cons]; omega
  simp [decipher, hp, integers_encodeInts ints hlt, hlen, hd]

/-- `encipher` never panics on a typed runestone (the `delta(..).unwrap()` is safe because the
edicts were just sorted; the single push is below 2^32 bytes by chunking). -/
theorem c25_encipher_total (r : Runestone) (ht : r.typed = true) : ∃ s, encipher r = .ok s := by
  unfold encipher encipherInts
  have hps : ∀ p, ∃ s, payloadScript p = .ok s := fun p => by
    obtain ⟨rest, h, _⟩ := payloadScript_roundtrip p
    exact ⟨_, h⟩
  cases hed : r.edicts with
  | nil => simpa using hps _
  | cons e es =>
    have htyped := ht
    simp only [Runestone.typed, Bool.and_eq_true, List.all_eq_true] at htyped
    have : ∀ (S : List Edict) (prev : RuneId), chainLe prev S → ∃ ints, edictInts prev S = .ok ints := by
      intro S
      induction S with
      | nil => intro _ _; exact ⟨[], rfl⟩
      | cons x xs ih =>
        intro prev hc
        obtain ⟨ints, hi⟩ := ih x.id hc.2
        have hle := hc.1
        simp only [RuneId.le, Bool.or_eq_true, Bool.and_eq_true, decide_eq_true_eq, beq_iff_eq] at hle
        have : ∃ b t, prev.delta x.id = some (b, t) := by
          unfold RuneId.delta
          by_cases h1 : x.id.block < prev.block
          · omega
          · by_cases h2 : x.id.block - prev.block = 0
            · have : ¬ x.id.tx < prev.tx := by omega
              simp [h1, h2, this]
            · simp [h1, h2]
        obtain ⟨b, t, hbt⟩ := this
        exact ⟨b :: t :: x.amount :: x.output :: ints, by simp [edictInts, hbt, hi]⟩
    obtain ⟨ints, hi⟩ := this (sortEdicts r.edicts) ⟨0, 0⟩ (chain_sortEdicts _)
    rw [hed] at hi
    simpa [hi] using hps _

example : anyMagic [[0x6a, 0x5d, 0x00], []] = true := by decide
example : anyMagic [[0x6a], [0x6a, 0x01, 0x5d], [0x00, 0x14]] = false := by decide

/-- non-vacuity of the round trip: a typed, well-formed runestone with unsorted, repeated edict
ids (one with `output = n`), an etching with terms, a mint and a pointer, 3 outputs -/
def exampleRunestone : Runestone :=
  ⟨[⟨⟨2, 1⟩, 5, 3⟩, ⟨⟨1, 0⟩, 7, 0⟩, ⟨⟨2, 1⟩, 9, 1⟩],
    some ⟨some 0, some 1000, some 26, some 1, some 36,
      some ⟨some 5, some 10, none, some 9, none, none⟩, true⟩,
    some ⟨1, 0⟩, some 2⟩

example : exampleRunestone.typed = true ∧ exampleRunestone.wf 3 = true := by decide
example : exampleRunestone.sorted.edicts = [⟨⟨1, 0⟩, 7, 0⟩, ⟨⟨2, 1⟩, 5, 3⟩, ⟨⟨2, 1⟩, 9, 1⟩] := by
  decide
-- flaw-order components on concrete field lists
example : specUnrecognizedFlag [(2, 9)] = true ∧ specUnrecognizedFlag [(2, 2)] = true
    ∧ specUnrecognizedFlag [(2, 7)] = false := by decide
example : specEvenTag 1 [(4, 5)] = true ∧ specEvenTag 1 [(2, 1), (4, 5)] = false
    ∧ specEvenTag 1 [(2, 1), (4, 5), (4, 6)] = true ∧ specEvenTag 1 [(22, 1)] = true
    ∧ specEvenTag 2 [(22, 1)] = false ∧ specEvenTag 1 [(3, 9), (127, 0)] = false := by decide
example : structureFlaw 1 [2, 1, 4] = some .truncatedField
    ∧ structureFlaw 1 [0, 1, 1, 5] = some .trailingIntegers
    ∧ structureFlaw 1 [0, 0, 1, 5, 0] = some .edictRuneId
    ∧ structureFlaw 1 [0, 1, 1, 5, 2] = some .edictOutput
    ∧ structureFlaw 1 [0, 1, 1, 5, 1] = none := by decide

end Ord.Runestone
