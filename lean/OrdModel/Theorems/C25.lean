import OrdModel.Proofs.RunestoneDecipher
/-!
# C25 — Runestones round-trip and deciphering is total with the documented flaws

Property theorems only.  Model: `OrdModel/Codec/{Script,Runestone}.lean`; specification
vocabulary (`wf`, `anyMagic`, `specFlaw`, …): `OrdModel/Codec/RunestoneSpec.lean`; helper lemmas:
`OrdModel/Proofs/Runestone*.lean`.  A transaction is the list of its output scripts.
-/
namespace Ord.Runestone
open Ord Ord.Script

/-- **Totality.**  Deciphering any transaction (with fewer than 2^32 outputs — every transaction
that fits in a block) returns: no panic, no error. -/
theorem c25_decipher_total (scripts : List (List UInt8)) (hn : scripts.length < 2 ^ 32) :
    ∃ r, decipher scripts = .ok r := by
  unfold decipher
  split
  · exact ⟨_, rfl⟩
  · exact ⟨_, rfl⟩
  · split
    · exact ⟨_, rfl⟩
    · rename_i ints _
      obtain ⟨es, he⟩ := decipherInts_ok scripts.length hn ints
      rw [he]; exact ⟨_, rfl⟩

/-- **Nothing unless an output starts with OP_RETURN OP_13** (the two bytes `6a 5d`), and
something (runestone or cenotaph) whenever one does. -/
theorem c25_none_iff (scripts : List (List UInt8)) :
    decipher scripts = .ok none ↔ anyMagic scripts = false := by
  rw [← payload_none_iff]
  unfold decipher
  constructor
  · intro h
    split at h
    · assumption
    · cases h
    · split at h
      · cases h
      · split at h <;> cases h
  · intro h; simp [h]

example : anyMagic [[0x6a, 0x5d, 0x00], []] = true := by decide
example : anyMagic [[0x6a], [0x6a, 0x01, 0x5d], [0x00, 0x14]] = false := by decide

end Ord.Runestone
