import OrdModel.Proofs.IndexInsloc
/-!
# C03 — Inscriptions move with the sat they were inscribed on

Property theorems only.  Model: `OrdModel/Index/{Inscriptions,Block}.lean`; derived definitions
and the executable oracle: `OrdModel/Index/OracleInsloc.lean`; lemmas:
`OrdModel/Proofs/IndexInsloc*.lean`.
-/
namespace Ord.Index.Insloc
open Ord Ord.Index

/-- `calculate_sat` returns the sat at the requested input-concatenation offset: the `k`-th sat
of the input ranges (and hits `unreachable!()` exactly when there is none). -/
theorem c03_calculate_sat (rs : List (Nat × Nat)) (k s : Nat) :
    calculateSat rs 0 k = .ok s ↔ (den rs)[k]? = some s := calculateSat_ok_iff rs k s

example : calculateSat [(10, 12), (50, 53)] 0 3 = .ok 51 := by decide

/-- The predicate the driver evaluates on the implementation's dump rows after every block
(`ix.oracle.onsat`) is exactly "every inscription bound to a sat is located where the sat index
has that sat". -/
theorem c03_oracle_sound (st : State) : onSatB st = true ↔ OnSat st := onSatB_iff st

end Ord.Index.Insloc
