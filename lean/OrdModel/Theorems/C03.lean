import OrdModel.Proofs.IndexInslocReveal
import OrdModel.Proofs.IndexLiftSatC03
import OrdModel.Proofs.IndexLiftOnSatChain
import OrdModel.Proofs.IndexLiftInsValid
/-!
# C03 — Inscriptions move with the sat they were inscribed on

Property theorems only.  Model: `OrdModel/Index/{Inscriptions,Block}.lean`; derived definitions
and the executable oracle: `OrdModel/Index/OracleInsloc.lean`; lemmas:
`OrdModel/Proofs/IndexInsloc*.lean`.

Proved here, at full strength for one transaction (any inputs, envelopes, pointers, values):
where a floating inscription lands (`c03_output_placement`), the sat of a new inscription
(`c03_new_inscription`), reveal offsets / pointers / the unbound flag (`c03_reveal`), transfers
(`c03_transfer_offset`, `c03_old_inscription`), the fee carry (`c03_fee_carry`), lost
inscriptions (`c03_lost_placement`, `c03_coinbase_lost_sats`), burned / lost / unbound charms,
and that the oracle evaluated on the implementation's dump is the stated predicate
(`c03_oracle_sound`).

The statement over reachable states of the full index model (`Index/Run.lean`) is proved in the
last section: **`c03_reachable`** — sat index on, chain hypotheses `InsLift.InsChain` (C04's:
distinct non-zero txids, no spend of a special outpoint outside a block's first transaction, every
block starts with a coinbase, heights never decrease) ⇒ `OnSat st` for the state after every
successfully indexed chain; `c03_valid_chain` for C16's `Valid.validChain`.  Its ingredients:
C01's first-in-first-out equation for `indexTransactionSats` read pointwise
(`c03_fifo_pointwise`), `reward = subsidy + Σ fees so far` (`c03_reward_invariant`),
`rangesValue (null entry) = lostSats` (`c03_null_value_invariant`), the compositions
`c03_carry_points_at_sat` / `c03_lost_points_at_sat`, C04's `InsPartitioned` for reachable states
(`c04_reachable`), and the offset-tracking lift `Proofs/IndexLiftOnSat*.lean`: the per-entry
invariant "every listed `(seq, offset)` of every table / cache / pending entry denotes
`entries[seq].sat`" through the input scan, the output loop, the fee carry, the lost placement,
the cache insert and `flushCache` (`c03_tx_step`, `c03_coinbase_step`, `c03_block_step`).
-/
namespace Ord.Index.Insloc
open Ord Ord.Index

/-- `calculate_sat` returns the sat at the requested input-concatenation offset: the `k`-th sat
of the input ranges (and hits `unreachable!()` exactly when there is none). -/
theorem c03_calculate_sat (rs : List (Nat × Nat)) (k s : Nat) :
    calculateSat rs 0 k = .ok s ↔ (den rs)[k]? = some s := calculateSat_ok_iff rs k s

example : calculateSat [(10, 12), (50, 53)] 0 3 = .ok 51 := by decide

/-- The predicate the driver evaluates on the implementation's dump rows after every block
(`ix.oracle.onsat`) is exactly "every inscription bound to a sat is located where the sat index
has that sat". -/
theorem c03_oracle_sound (st : State) : onSatB st = true ↔ OnSat st := onSatB_iff st

/-- First-in-first-out placement: a floating inscription at input-concatenation offset `k` below
the total output value lands in the output whose value interval contains `k`, at offset
`k − (value of the earlier outputs)`, and is flagged with that output's OP_RETURN-ness; whatever
is not placed lies at or beyond the total output value. -/
theorem c03_output_placement (txid : Txid) (outs : List TxOut) (fls : List Flotsam) :
    (∀ x ∈ (assignOutputs txid outs 0 0 (sortByKey (·.offset) fls) []).1,
      ∃ j o, outs[j]? = some o ∧ x.2.1 ∈ sortByKey (·.offset) fls ∧
        prefixValue outs j ≤ x.2.1.offset ∧ x.2.1.offset < prefixValue outs j + o.value ∧
        x.1 = ⟨⟨txid, j⟩, x.2.1.offset - prefixValue outs j⟩ ∧ x.2.2 = o.opReturn) ∧
    (∀ f ∈ (assignOutputs txid outs 0 0 (sortByKey (·.offset) fls) []).2.1,
      (outs.map (·.value)).sum ≤ f.offset) ∧
    ((assignOutputs txid outs 0 0 (sortByKey (·.offset) fls) []).1.map (·.2.1) ++
      (assignOutputs txid outs 0 0 (sortByKey (·.offset) fls) []).2.1).Perm fls := by
  obtain ⟨h1, h2⟩ := assignOutputs_place txid outs 0 0 (sortByKey (·.offset) fls) []
    (sortByKey_sorted _ _) (fun _ _ => Nat.zero_le _)
  obtain ⟨hc, _⟩ := assignOutputs_conserve txid outs 0 0 (sortByKey (·.offset) fls) []
  refine ⟨fun x hx => ?_, fun f hf => by simpa using (h2 f hf).2, ?_⟩
  · rcases h1 x hx with hacc | ⟨j, o, hj, hm, hlo, hhi, hsp, hop⟩
    · simp at hacc
    · exact ⟨j, o, hj, hm, by simpa using hlo, by simpa using hhi, by simpa using hsp, hop⟩
  · rw [hc]; simpa using sortByKey_perm (·.offset) fls

/-- Reveal: a new inscription floats at its pointer when the pointer is inside the outputs, else
at the start of its input; it is flagged unbound when revealed on a zero-value input or carrying
an unrecognised even field. -/
theorem c03_reveal (st : State) (jub : Bool) (txid : Txid) (i off iv totalOut : Nat)
    (envs : List Envelope) (sc sc' : ScanState)
    (h : scanNew st jub txid i off iv totalOut envs sc = .ok sc') :
    ∃ F, sc'.floating = sc.floating ++ F ∧
      ∀ f ∈ F, isNew f = true ∧ ∃ env ∈ envs, f.offset = revealOffset env off totalOut ∧
        (iv = 0 → flUnbound f = true) ∧ (env.unrecognizedEven = true → flUnbound f = true) :=
  scanNew_flotsam st jub txid i off iv totalOut envs sc sc' h

/-- Transfer: an inscription on a spent input floats at (value of the earlier inputs) + (its
offset in the spent output), remembering its sequence number and old satpoint. -/
theorem c03_transfer_offset (st : State) (prev : OutPoint) (base : Nat) (l : List (Nat × Nat))
    (sc sc' : ScanState) (h : scanOld st prev base l sc = .ok sc') :
    ∃ F, sc'.floating = sc.floating ++ F ∧
      F.map (fun f => (f.offset, f.origin)) = l.map (fun p => (base + p.2, Origin.old p.1 ⟨prev, p.2⟩)) :=
  scanOld_flotsam st prev base l sc sc' h

/-- A new inscription: its entry is appended with the next sequence number; unless it is unbound
its sat is the sat at its (pointer-adjusted) offset in the concatenated input ranges — no sat
when the sat index is off; landing in an OP_RETURN output sets Burned, landing at the null
outpoint sets Lost, and an unbound one has no sat, is charmed Unbound and is listed on the
unbound pseudo-output at offset `unbound count`, never on an output. -/
theorem c03_new_inscription (cfg : Cfg) (height time : Nat) (rs : Option (List (Nat × Nat)))
    (fl : Flotsam) (sp : SatPoint) (opr : Bool) (tgt : Target) (ls ls' : LocState)
    (hnew : isNew fl = true)
    (h : updateInscriptionLocation cfg height time rs fl sp opr tgt ls = .ok ls') :
    ∃ entry, ls'.st.entries = ls.st.entries ++ [entry] ∧ entry.seq = ls.st.entries.length ∧
      entry.id = fl.id ∧
      entry.sat = (if flUnbound fl then none else
        match rs with | none => none | some r => (den r)[fl.offset]?) ∧
      (opr = true → hasCharm entry.charms charmBurned = true) ∧
      (sp.outpoint.isNull = true → hasCharm entry.charms charmLost = true) ∧
      (flUnbound fl = true → hasCharm entry.charms charmUnbound = true ∧ entry.sat = none ∧
        ls'.outs = ls.outs ∧ ls'.ctx.nullEntry = ls.ctx.nullEntry ∧
        ls'.ctx.unboundEntry = some (pushIns (ls.ctx.unboundEntry.getD UtxoEntry.empty)
          ls.st.entries.length ls.st.unbound) ∧
        ls'.st.unbound = ls.st.unbound + 1) ∧
      (flUnbound fl = false → ∀ vout, tgt = .output vout → ∃ e, ls.outs[vout]? = some e ∧
        ls'.outs = ls.outs.set vout (pushIns e ls.st.entries.length sp.offset)) ∧
      (flUnbound fl = false → tgt = .null →
        ls'.ctx.nullEntry = some (pushIns (ls.ctx.nullEntry.getD UtxoEntry.empty)
          ls.st.entries.length sp.offset)) := by
  have spec := uil_spec cfg height time rs fl sp opr tgt ls ls' h
  have hq : flSeq ls.st.entries.length fl = ls.st.entries.length := by
    cases ho : fl.origin with
    | old s o => simp [isNew, ho] at hnew
    | new => simp [flSeq, ho]
  cases spec.entry with
  | old seq osp ho => simp [isNew, ho] at hnew
  | new _ entry happ hseq hid hsat hb hl hu =>
    have hp := spec.placed
    rw [hq] at hp
    refine ⟨entry, happ, hseq, hid, by rw [hsat]; rfl, hb, hl, ?_, ?_, ?_⟩
    · intro hub
      cases hp with
      | unbound _ houts hnull hunb hcount =>
        exact ⟨hu hub, by rw [hsat]; simp [flSat, hub], houts, hnull, hunb, hcount⟩
      | output hf => rw [hub] at hf; cases hf
      | null hf => rw [hub] at hf; cases hf
    · intro hub vout ht
      cases hp with
      | unbound hf => rw [hub] at hf; cases hf
      | output _ v e htgt hget houts => rw [ht] at htgt; cases htgt; exact ⟨e, hget, houts⟩
      | null _ htgt => rw [ht] at htgt; cases htgt
    · intro hub ht
      cases hp with
      | unbound hf => rw [hub] at hf; cases hf
      | output _ v e htgt => rw [ht] at htgt; cases htgt
      | null _ _ _ _ hnull => exact hnull

/-- A transferred inscription keeps its entry (sequence number, sat); it only gains Burned when
it lands in an OP_RETURN output; it is listed exactly where the output loop put it. -/
theorem c03_old_inscription (cfg : Cfg) (height time : Nat) (rs : Option (List (Nat × Nat)))
    (fl : Flotsam) (sp : SatPoint) (opr : Bool) (tgt : Target) (ls ls' : LocState)
    (seq : Nat) (osp : SatPoint) (ho : fl.origin = .old seq osp) (e : InsEntry)
    (he : ls.st.entries[seq]? = some e)
    (h : updateInscriptionLocation cfg height time rs fl sp opr tgt ls = .ok ls') :
    (∃ e', ls'.st.entries[seq]? = some e' ∧ e'.sat = e.sat ∧ e'.seq = e.seq ∧
      (opr = true → hasCharm e'.charms charmBurned = true) ∧ (opr = false → e' = e)) ∧
    (∀ i, i ≠ seq → ls'.st.entries[i]? = ls.st.entries[i]?) ∧
    (∀ vout, tgt = .output vout → ∃ en, ls.outs[vout]? = some en ∧
      ls'.outs = ls.outs.set vout (pushIns en seq sp.offset)) ∧
    (tgt = .null → ls'.ctx.nullEntry = some (pushIns (ls.ctx.nullEntry.getD UtxoEntry.empty) seq sp.offset)) := by
  have spec := uil_spec cfg height time rs fl sp opr tgt ls ls' h
  have hq : flSeq ls.st.entries.length fl = seq := by simp [flSeq, ho]
  have hub : flUnbound fl = false := by simp [flUnbound, ho]
  have hp := spec.placed
  rw [hq, hub] at hp
  cases spec.entry with
  | new hnew => simp [isNew, ho] at hnew
  | old s o ho' hlen hother hsame =>
    rw [ho] at ho'; cases ho'
    refine ⟨hsame e he, hother, ?_, ?_⟩
    · intro vout ht
      cases hp with
      | unbound hf => cases hf
      | output _ v en htgt hget houts => rw [ht] at htgt; cases htgt; exact ⟨en, hget, houts⟩
      | null _ htgt => rw [ht] at htgt; cases htgt
    · intro ht
      cases hp with
      | unbound hf => cases hf
      | output _ v en htgt => rw [ht] at htgt; cases htgt
      | null _ _ _ _ hnull => exact hnull

/-- Fee carry (non-coinbase transaction): a floating inscription at offset `k ≥ Σ outputs` is
saved for the coinbase at offset `reward + k − Σ outputs`, behind everything saved earlier in the
block, and the reward grows by exactly this transaction's fee `Σ inputs − Σ outputs`. -/
theorem c03_fee_carry (cfg : Cfg) (height time : Nat) (tx : Tx) (rs : Option (List (Nat × Nat)))
    (totalIn : Nat) (floating : List Flotsam) (st1 : State) (ls ls' : LocState)
    (h : placeTx cfg height time tx rs false totalIn floating st1 ls = .ok ls') :
    let r := assignOutputs tx.txid tx.outputs 0 0 (sortByKey (·.offset) floating) []
    r.2.2 = (tx.outputs.map (·.value)).sum ∧ r.2.2 ≤ totalIn ∧
    ls'.ctx.flotsam = ls.ctx.flotsam ++
      r.2.1.map (fun f => { f with offset := ls.ctx.reward + f.offset - r.2.2 }) ∧
    ls'.ctx.reward = ls.ctx.reward + (totalIn - r.2.2) ∧
    ls'.ctx.lostSats = ls.ctx.lostSats ∧
    (∀ f ∈ r.2.1, r.2.2 ≤ f.offset) :=
  placeTx_carry cfg height time tx rs totalIn floating st1 ls ls' h

/-- Lost: what the coinbase's outputs do not cover is placed at the null outpoint at offset
`lostSats + k − Σ coinbase outputs` (and `c03_new_inscription` gives it the Lost charm). -/
theorem c03_lost_placement (cfg : Cfg) (height time : Nat) (rs : Option (List (Nat × Nat))) (ov : Nat)
    (fl : Flotsam) (rest : List Flotsam) (ls ls' : LocState)
    (h : applyLost cfg height time rs ov (fl :: rest) ls = .ok ls') :
    ∃ ls1, updateInscriptionLocation cfg height time rs fl
        ⟨OutPoint.null, ls.ctx.lostSats + fl.offset - ov⟩ false .null ls = .ok ls1 ∧
      applyLost cfg height time rs ov rest ls1 = .ok ls' :=
  applyLost_cons cfg height time rs ov fl rest ls ls' h

/-- After the coinbase the lost-sat counter has grown by the unclaimed part of the reward, and no
flotsam remains saved. -/
theorem c03_coinbase_lost_sats (cfg : Cfg) (height time : Nat) (tx : Tx) (rs : Option (List (Nat × Nat)))
    (totalIn : Nat) (floating : List Flotsam) (st1 : State) (ls ls' : LocState)
    (h : placeTx cfg height time tx rs true totalIn floating st1 ls = .ok ls') :
    let out := (tx.outputs.map (·.value)).sum
    out ≤ ls.ctx.reward ∧ ls'.ctx.lostSats = ls.ctx.lostSats + (ls.ctx.reward - out) ∧
    ls'.ctx.reward = ls.ctx.reward ∧ ls'.ctx.flotsam = [] :=
  placeTx_coinbase cfg height time tx rs totalIn floating st1 ls ls' h

/-- `index_inscriptions` is the input scan followed by `placeTx` (the function the two theorems
above speak about). -/
theorem c03_index_inscriptions_is_scan_then_place (cfg : Cfg) (height time : Nat) (tx : Tx)
    (inputs : List (TxIn × UtxoEntry)) (rs : Option (List (Nat × Nat))) (ls : LocState) :
    indexInscriptions cfg height time tx inputs rs ls =
      match scanInputs cfg ls.st (height ≥ cfg.jubileeHeight) tx.txid height (txTotalOut tx) inputs 0
          { envelopes := tx.envelopes } with
      | .panic s => .panic s
      | .err e => .err e
      | .ok sc =>
        if sc.floating.any isNew ∧ sc.totalInputValue < txTotalOut tx then .panic "total_input_value - total_output_value"
        else if sc.floating.any isNew ∧ sc.idCounter = 0 then .panic "division by zero"
        else
          placeTx cfg height time tx rs (txIsCoinbase tx) sc.totalInputValue (txFloating tx sc)
            (if cfg.indexTransactions && !tx.envelopes.isEmpty then
              { ls.st with txid2tx := AL.set ls.st.txid2tx tx.txid tx.size } else ls.st) ls :=
  indexInscriptions_eq cfg height time tx inputs rs ls

/-! ## The sat-side ingredients of the reachable-state clause (Proofs/IndexLiftSat*.lean)

What the header lists as missing for `c03_reachable`, proved about the real `applyBlock` /
`indexTx` model for every configuration with the sat index on: C01's FIFO equation read
pointwise, `reward = subsidy + Σ fees so far` (as the size of the ranges queued for the
coinbase), `rangesValue (null entry) = lostSats` in every reachable state, and the two
compositions that say a carried / lost offset points at the inscription's sat.  (`den` here is
this group's `Insloc.den`; it is the same function as the sat group's, `insloc_den_eq`.)
Still open: threading these through the placement loop and `flushCache` to `OnSat` itself
(notes/C03.md). -/

/-- **FIFO, pointwise** (`index_transaction_sats`): the sat at offset `k` of the concatenated
input ranges is the sat at offset `k − (values of the earlier outputs)` of the output whose value
interval contains `k`, and what lies at or beyond the total output value is, at `k − Σ values`,
in the leftover. -/
theorem c03_fifo_pointwise (values : List Nat) (inputs : List (Nat × Nat)) (t : TxSats)
    (h : indexTransactionSats values inputs = some t) :
    (∀ j k, (hj : j < values.length) → k < values[j] →
      (den (t.outputs[j]?.getD []))[k]? = (den inputs)[(values.take j).sum + k]?) ∧
    (∀ k, (den t.leftover)[k]? = (den inputs)[values.sum + k]?) := by
  simp only [insloc_den_eq]
  exact fifo_pointwise values inputs t h

/-- **`reward = subsidy + Σ fees so far`**: after any prefix of the non-first transactions of a
block, indexed by the real `indexTx` with the inscription pass on, the inscription updater's
running reward is exactly the size of the sat ranges queued for the coinbase (the subsidy range
followed by the leftovers so far), which is the subsidy plus what the leftovers added.
(`BlockPlain`: no zero txid, no spend of a special outpoint outside the first transaction.) -/
theorem c03_reward_invariant (cfg : Cfg) (hs : cfg.indexSats = true) (st : State) (blk : Block)
    (hb : BlockPlain blk) (cbtx : Tx) (rest : List Tx) (htx : blk.txs = cbtx :: rest) (k : Nat) (bc : BlockCtx)
    (h : indexTxs cfg blk true ((enumFrom 1 rest).take k) (Sched.bc0A cfg st blk) = .ok bc) :
    bc.ins.reward = lenR bc.coinbaseInputs ∧
    lenR bc.coinbaseInputs = subsidy blk.height + (lenR bc.coinbaseInputs - subsidy blk.height) :=
  block_reward cfg hs st blk hb cbtx rest htx k bc h

/-- **`rangesValue (null entry) = lostSats`** in every reachable state of the full index model
(sat index on; `ChainPlain`: every block `BlockPlain`). -/
theorem c03_null_value_invariant (cfg : Cfg) (hs : cfg.indexSats = true) (chain : List Block)
    (hp : ChainPlain chain) (st : State) (evs : List Event) (h : run cfg chain = .ok (st, evs)) :
    rangesValue (rangesAt st.utxo OutPoint.null) = st.lostSats := by
  rw [rangesValue_eq_lenR]
  exact reachable_nullLen cfg hs chain hp st evs h

/-- **A carried inscription stays on its sat**: with `reward` as in `c03_reward_invariant`, the
offset `reward + k − Σ outputs` of `c03_fee_carry` (`k ≥ Σ outputs`) denotes, in the coinbase's
input ranges after this transaction's leftover was appended, the sat at offset `k` of the
transaction's inputs. -/
theorem c03_carry_points_at_sat (cbi : List (Nat × Nat)) (values : List Nat) (inputs : List (Nat × Nat))
    (t : TxSats) (h : indexTransactionSats values inputs = some t) (reward : Nat) (hr : reward = lenR cbi)
    (k : Nat) (hk : values.sum ≤ k) :
    (den (cbi ++ t.leftover))[reward + k - values.sum]? = (den inputs)[k]? := by
  simp only [insloc_den_eq]
  exact carry_points_at_sat cbi values inputs t h reward hr k hk

/-- **A lost inscription stays on its sat**: with `lostSats` as in `c03_null_value_invariant`,
the offset `lostSats + k − Σ coinbase outputs` of `c03_lost_placement` denotes, in the null
entry after the block's lost ranges (the coinbase's leftover) were merged in, the sat at offset
`k` of the coinbase's input ranges. -/
theorem c03_lost_points_at_sat (old : List (Nat × Nat)) (values : List Nat) (cbi : List (Nat × Nat))
    (t : TxSats) (h : indexTransactionSats values cbi = some t) (lostSats : Nat) (hl : lenR old = lostSats)
    (k : Nat) (hk : values.sum ≤ k) :
    (den (old ++ t.leftover))[lostSats + k - values.sum]? = (den cbi)[k]? := by
  simp only [insloc_den_eq]
  exact lost_points_at_sat old values cbi t h lostSats hl k hk

example : indexTransactionSats [3] [(5, 10)] = some ⟨[[(5, 8)]], [(8, 10)], []⟩ := by
  simp [indexTransactionSats, indexTransactionSatsAux, fillOutput, satRare, satThird, satEpoch, satEpochAux,
    epochStartingSat, epochSubsidy]
example : ChainPlain [] := fun _ h => by cases h

/-- Non-vacuity: on a concrete transaction (inscription 0 at offset 10 of the spent output, one
envelope, outputs 600 (OP_RETURN) + 300, fee 100) the model places the new inscription at offset
0 of output 0 on sat 5000000000, keeps inscription 0 on its sat at offset 10, charms both
Burned, and adds the fee to the reward. -/
example : exResult.isOk = true ∧ exCheck = true := ⟨exResult_ok, exCheck_true⟩

example : revealOffset { (default : Envelope) with pointer := some 700 } 5 900 = 700 ∧
    revealOffset { (default : Envelope) with pointer := some 900 } 5 900 = 5 := by decide

/-! ## The offset-tracking lift (Proofs/IndexLiftOnSat*.lean)

`OnSat` as a per-entry predicate: `OnSatLift.EntSat E e` — every `(seq, off)` listed by the UTXO
entry `e` names an existing inscription entry of `E` that is bound to a sat `s`, and the `off`-th
sat of `e`'s ranges is `s`; `OnSatLift.InsNone E ins` — everything listed has no sat.  The
mid-block invariant `OnSatLift.BMid NOld bc` says `EntSat` of every table row but the unbound
pseudo-output's (which is `InsNone`) and of every cache row, says that the flotsam saved for the
coinbase points at its sats in the ranges queued for the coinbase (whose size is the running
reward), that the pending null entry is on its sats in `NOld ++ lost ranges` (`NOld` = ranges
stored under the null outpoint, of size `lostSats`) and that the pending unbound entry is
`InsNone`. -/

open OnSatLift in
/-- **Stage (a): one transaction of `index_utxo_entries` keeps every inscription on its sat.**
A transaction that is not the block's first (non-zero txid, no special outpoint among its inputs;
sat index and inscription pass on) preserves the mid-block invariant: spent entries' inscriptions
float at `input start + offset`, the output loop puts them where the FIFO equation puts their
sats, what falls off the end is saved at `reward + k − Σ outputs`, and the new cache rows are on
their sats.  The inscription table only grows and entries keep their sat. -/
theorem c03_tx_step (cfg : Cfg) (hs : cfg.indexSats = true) (blk : Block) (i : Nat) (hi : i ≠ 0)
    (tx : Tx) (bc bc' : BlockCtx) (NOld : List (Nat × Nat))
    (h0 : tx.txid ≠ 0) (hsp : ∀ x ∈ tx.inputs, x.prev.isSpecial = false)
    (hinv : BMid NOld bc) (h : indexTx cfg blk true i tx bc = .ok bc') :
    BMid NOld bc' ∧ EntExt bc.st.entries bc'.st.entries :=
  indexTx_noncb_step cfg hs blk i hi tx bc bc' NOld h0 hsp hinv h

open OnSatLift in
/-- **Stage (a), coinbase**: the block's first transaction (first input null, indexed last with
the queued ranges as its inputs) places the scanned and the saved flotsam on its outputs or — past
its outputs — at the null outpoint at `lostSats + k − Σ outputs`, every one on its sat; the result
is what the block-end flush needs (`BEnd`). -/
theorem c03_coinbase_step (cfg : Cfg) (hs : cfg.indexSats = true) (blk : Block)
    (tx : Tx) (bc bc' : BlockCtx) (NOld : List (Nat × Nat))
    (h0 : tx.txid ≠ 0) (hcb : txIsCoinbase tx = true)
    (hinv : BMid NOld bc) (h : indexTx cfg blk true 0 tx bc = .ok bc') :
    BEnd NOld bc' ∧ EntExt bc.st.entries bc'.st.entries :=
  indexTx_cb_step cfg hs blk tx bc bc' NOld h0 hcb hinv h

open OnSatLift in
/-- the mid-block invariant is satisfiable: it holds at the start of any block on the empty index
(and, by `BMid.start`, at the start of a block on any state satisfying `UtxoSat` and `NullLen`) -/
example (cfg : Cfg) (hs : cfg.indexSats = true) (blk : Block) :
    BMid (rangesAt ({} : State).utxo OutPoint.null) (Sched.bc0A cfg {} blk) :=
  BMid.start cfg hs {} blk (fun p hp => by cases hp) nullLen_empty

open OnSatLift in
/-- **Stage (b): one block** (`index_utxo_entries` + commit + rune pass + header).  With the sat
index and the block's inscription pass on, no zero txid and no special outpoint spent outside the
first transaction (`BlockPlain`), a coinbase first, and `rangesValue (null entry) = lostSats`
before the block: if before the block every real output and the null pseudo-output list bound
inscriptions only, each on its sat, and the unbound pseudo-output lists sat-less inscriptions only
(`UtxoSat`), then so after it.
Covers the fee carry into the coinbase queue, the lost placement at `lostSats + …`, the cache
insert and the block-end flush (`merged`: ranges appended, lists appended). -/
theorem c03_block_step (cfg : Cfg) (hs : cfg.indexSats = true) (st : State) (blk : Block)
    (st' : State) (ev : List Event) (hb : BlockPlain blk)
    (hcb : ∃ cb rest, blk.txs = cb :: rest ∧ txIsCoinbase cb = true)
    (hon : Sched.insOnOf cfg blk = true) (hnl : NullLen st) (hU : UtxoSat st)
    (h : applyBlock cfg st blk = .ok (st', ev)) : UtxoSat st' :=
  applyBlock_utxoSat cfg hs st blk st' ev hb hcb hon hnl hU h

open OnSatLift in
/-- **Stage (c), per-row form**: in every reachable state (sat index on, `InsChain`) every row
`(outpoint, entry)` of the UTXO table lists only existing inscriptions; a `(seq, off)` listed by a
real output or by the null pseudo-output belongs to an inscription that *is* bound to a sat, and
that sat is the `off`-th sat of the row's ranges; what the unbound pseudo-output lists has no sat.
(In a block below the first inscription height nothing is listed at all.) -/
theorem c03_reachable_rows (cfg : Cfg) (hs : cfg.indexSats = true) (chain : List Block) (st : State)
    (evs : List Event) (hc : InsLift.InsChain chain) (h : run cfg chain = .ok (st, evs)) :
    ∀ o e, (o, e) ∈ st.utxo → ∀ seq off, (seq, off) ∈ e.ins →
      ∃ entry, st.entries[seq]? = some entry ∧
        (o ≠ OutPoint.unbound → ∃ s, entry.sat = some s ∧ (den e.ranges)[off]? = some s) ∧
        (o = OutPoint.unbound → entry.sat = none) := by
  intro o e hm seq off hin
  have hU := run_utxoSat cfg hs chain st evs hc.ok (chainPlain_of_insChain hc) h (o, e) hm
  by_cases ho : o = OutPoint.unbound
  · obtain ⟨entry, h1, h2⟩ := hU.2 ho seq off hin
    exact ⟨entry, h1, fun hn => absurd ho hn, fun _ => h2⟩
  · obtain ⟨entry, s, h1, h2, h3⟩ := hU.1 ho seq off hin
    exact ⟨entry, h1, fun _ => ⟨s, h2, by rw [insloc_den_eq]; exact h3⟩, fun hc' => absurd hc' ho⟩

/-- **C03 for every reachable state.**  After every chain (`InsLift.InsChain`: pairwise distinct
non-zero txids, no spend of the null / unbound outpoint outside a block's first transaction, every
block starts with a coinbase, heights never decrease) that the full index model (`run`:
`applyBlock` folded from the empty index; sat index on) indexes successfully, every inscription
bound to a sat is located where the sat index has that sat: its satpoint `(outpoint, offset)` in
`SEQUENCE_NUMBER_TO_SATPOINT` names a row of the UTXO table — a real output or the null outpoint —
and the `offset`-th sat of that row's ranges is the inscription's sat. -/
theorem c03_reachable (cfg : Cfg) (hs : cfg.indexSats = true) (chain : List Block) (st : State)
    (evs : List Event) (hc : InsLift.InsChain chain) (h : run cfg chain = .ok (st, evs)) : OnSat st :=
  OnSatLift.run_onSat cfg hs chain st evs hc h

/-- **Unbound inscriptions, reachable states**: with the sat index on, an inscription has no sat
exactly when it is located at the unbound pseudo-output (so every inscription on a real output or
at the null outpoint is bound, and `OnSat` says where its sat is; and whatever was revealed on a
zero-value input or with an unrecognised even field — `c03_reveal`, `c03_new_inscription` — stays
at the unbound pseudo-output without a sat). -/
theorem c03_reachable_unbound (cfg : Cfg) (hs : cfg.indexSats = true) (chain : List Block) (st : State)
    (evs : List Event) (hc : InsLift.InsChain chain) (h : run cfg chain = .ok (st, evs))
    (i : Nat) (entry : InsEntry) (hi : st.entries[i]? = some entry) :
    entry.sat = none ↔ ∃ off, AL.get st.seq2sp i = some ⟨OutPoint.unbound, off⟩ :=
  OnSatLift.run_unbound_iff cfg hs chain st evs hc h i entry hi

/-- the same for `Reachable` states, the chain being the witness -/
theorem c03_reachable_state (cfg : Cfg) (hs : cfg.indexSats = true) (st : State)
    (h : ∃ chain evs, InsLift.InsChain chain ∧ run cfg chain = .ok (st, evs)) : OnSat st := by
  obtain ⟨chain, evs, hc, hr⟩ := h
  exact c03_reachable cfg hs chain st evs hc hr

/-- **Every valid chain**: C16's chain-validity predicate implies `InsChain`, so after every
consensus-valid chain the index (sat index on, if indexing succeeds) has every bound inscription
on its sat; and the executable oracle evaluates to `true` on the model state. -/
theorem c03_valid_chain (cfg : Cfg) (hs : cfg.indexSats = true) (chain : List Block) (st : State)
    (evs : List Event) (hv : Valid.validChain chain = true) (h : run cfg chain = .ok (st, evs)) :
    OnSat st ∧ onSatB st = true :=
  let hc := (InsLift.insChain_of_validChain chain hv).1
  ⟨c03_reachable cfg hs chain st evs hc h, (onSatB_iff st).2 (c03_reachable cfg hs chain st evs hc h)⟩

/-! Non-vacuity of the lift: an inscription revealed in block 1 on the first sat of block 0's
coinbase (sat 0, output `3:0`), moved in block 2 (to `5:0`) — by a transaction that also reveals a
second inscription with an unrecognised even field, which is unbound — and spent to fees in block 3
(the coinbase pays out less than the subsidy + fee, so the first inscription lands on the null
outpoint at offset 0, whose ranges then start with sat 0).  The chain is valid, the sat index is
on, indexing succeeds, inscription 0 is bound to sat 0 and inscription 1 has no sat and sits at the
unbound pseudo-output. -/

def osCfg : Cfg :=
  { indexSats := true, indexAddresses := true, indexTransactions := false, indexInscriptions := true, indexRunes := false, firstInscriptionHeight := 1, jubileeHeight := 0, firstRuneHeight := 0 }
def osCbIn : TxIn := { prev := OutPoint.null, taproot := false, confHeight := none, pushes := [] }
def osOut (v : Nat) : TxOut := { value := v, opReturn := false, script := [1] }
def osCb (txid : Txid) (v : Nat) : Tx := { txid := txid, inputs := [osCbIn], outputs := [osOut v], envelopes := [], artifact := none, size := 0 }
def osEnv : Envelope :=
  { input := 0, offset := 0, unrecognizedEven := false, duplicateField := false, incompleteField := false, pushnum := false, stutter := false, hidden := false, gallery := false, pointerField := false, pointer := none, parents := [] }
def osSpend (txid : Txid) (prev : OutPoint) (envs : List Envelope) (outs : List TxOut) : Tx :=
  { txid := txid, inputs := [{ prev := prev, taproot := true, confHeight := some 0, pushes := [] }], outputs := outs, envelopes := envs, artifact := none, size := 0 }
def osChain : List Block :=
  [{ height := 0, time := 0, hash := 100, minimumRune := 0, txs := [osCb 1 5000000000] },
   { height := 1, time := 0, hash := 101, minimumRune := 0, txs := [osCb 2 5000000000, osSpend 3 ⟨1, 0⟩ [osEnv] [osOut 5000000000]] },
   { height := 2, time := 0, hash := 102, minimumRune := 0, txs := [osCb 4 5000000000, osSpend 5 ⟨3, 0⟩ [{ osEnv with unrecognizedEven := true }] [osOut 5000000000]] },
   { height := 3, time := 0, hash := 103, minimumRune := 0, txs := [osCb 6 5000000000, osSpend 7 ⟨5, 0⟩ [] []] }]

def osView (r : Outcome (State × List Event)) :
    Option (List (Option Nat) × Option SatPoint × Option SatPoint × Option (Nat × Nat)) :=
  match r with
  | .ok (st, _) => some (st.entries.map (·.sat), AL.get st.seq2sp 0, AL.get st.seq2sp 1,
      ((AL.get st.utxo OutPoint.null).map (·.ranges)).getD [] |>.head?)
  | _ => none

example : Valid.validChain osChain = true ∧ osCfg.indexSats = true ∧
    osView (run osCfg osChain) =
      some ([some 0, none], some ⟨OutPoint.null, 0⟩, some ⟨OutPoint.unbound, 0⟩, some (0, 5000000000)) := by
  refine ⟨by decide, rfl, by decide⟩

end Ord.Index.Insloc
