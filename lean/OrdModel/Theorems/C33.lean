import OrdModel.Proofs.RuneUnlock
import OrdModel.Generated.RuneSteps
/-!
# C33 — Rune-name unlock schedule is monotone and matches reported unlock heights

Property theorems only.  Model: `OrdModel/Num/Unlock.lean`; helper lemmas:
`OrdModel/Proofs/RuneUnlock.lean`.  `minimumAt first h` / `unlockAt first r` are
`Rune::minimum_at_height` / `Rune::unlock_height` for a chain whose first rune height is
`first`; the theorems hold for **every** `first` with `first + 210000 < 2^32` and are then
instantiated at the five networks.  Heights are `u32` values.
-/
namespace Ord.Unlock
open Ord.Rune

/-- Every network's first rune height leaves room for the schedule inside `u32`. -/
theorem c33_networks (net : Network) :
    firstRuneHeight net + 210000 < 2 ^ 32 ∧
    firstRuneHeight net = (match net with | .bitcoin => 840000 | .testnet => 2520000 | _ => 0) := by
  cases net <;> decide

/-- The table in the source text is the table of the model (regenerated from
`crates/ordinals/src/rune.rs` on every run), and so are the three constants. -/
theorem c33_table_matches_source :
    Ord.Generated.RuneSteps.steps = STEPS ∧ Ord.Generated.RuneSteps.reserved = RESERVED ∧
    Ord.Generated.RuneSteps.unlocked = UNLOCKED ∧
    HALVING / Ord.Generated.RuneSteps.intervalDivisor = INTERVAL ∧
    firstRuneHeight .bitcoin = HALVING * Ord.Generated.RuneSteps.mulBitcoin ∧
    firstRuneHeight .regtest = HALVING * Ord.Generated.RuneSteps.mulRegtest ∧
    firstRuneHeight .signet = HALVING * Ord.Generated.RuneSteps.mulSignet ∧
    firstRuneHeight .testnet = HALVING * Ord.Generated.RuneSteps.mulTestnet ∧
    firstRuneHeight .testnet4 = HALVING * Ord.Generated.RuneSteps.mulOther := by decide

/-- `STEPS` is strictly increasing and `STEPS[k]` is the first name with `k+1` letters. -/
theorem c33_steps_increasing :
    (∀ i, i < 27 → STEPS.getD i 0 < STEPS.getD (i + 1) 0) ∧
    (∀ k, k < 28 → STEPS.getD k 0 + 1 = bij (List.replicate (k + 1) 'A')) := by
  constructor <;> decide

/-- The minimum never increases as the height grows. -/
theorem c33_antitone (first h h' : Nat) (hh : h ≤ h') :
    minimumAt first h' ≤ minimumAt first h := by
  rw [minimumAt_eq, minimumAt_eq]
  exact minOff_antitone _ _ _ (by omega)

theorem c33_antitone_net (net : Network) (h h' : Nat) (hh : h ≤ h') :
    minimumAtHeight net h' ≤ minimumAtHeight net h := c33_antitone _ _ _ hh

/-- Names of thirteen or more letters are etchable at every height, in particular from the
first rune block on. -/
theorem c33_thirteen_letters (first h : Nat) (s : List Char) (hlen : 13 ≤ s.length) :
    minimumAt first h ≤ bij s - 1 := by
  have h1 : minimumAt first h ≤ stp 12 := by rw [minimumAt_eq]; exact minOff_le_top _ _
  have h2 := SpacedRune.pow_le_bijRev s.reverse
  rw [← bij_eq_bijRev, List.length_reverse] at h2
  have h3 : 26 ^ 13 ≤ 26 ^ s.length := Nat.pow_le_pow_right (by omega) hlen
  have h4 : stp 12 = 99246114928149462 := by decide
  have h5 : (26 : Nat) ^ 13 = 2481152873203736576 := by decide
  omega

/-- …while not every twelve-letter name is: at the first rune block the minimum is still
above the first twelve-letter name. -/
theorem c33_twelve_letters_locked (first : Nat) (hf : first + 210000 < 2 ^ 32) :
    bij (List.replicate 12 'A') - 1 < minimumAt first first := by
  have hb : bij (List.replicate 12 'A') - 1 = 3817158266467286 := by decide
  have hm : minimumAt first first = interp 1 := by
    rw [minimumAt_eq]
    have : min (first + 1) (2 ^ 32 - 1) = first + 1 := by omega
    rw [this]
    unfold minOff
    have h1 : ¬ (first + 1 < first) := by omega
    have h2 : ¬ (first + 1 ≥ first + 210000) := by omega
    simp only [h1, h2, if_false, Nat.add_sub_cancel_left]
  have hi : interp 1 = 99240661844911652 := by decide
  rw [hb, hm, hi]; omega

/-- Every name is etchable once the schedule completes: the minimum is 0 from height
`first + 209999` on, and not before. -/
theorem c33_complete (first : Nat) (hf : first + 210000 < 2 ^ 32) (h : Nat) :
    (first + 209999 ≤ h → minimumAt first h = 0) ∧
    (h < first + 209999 → 1 ≤ minimumAt first h) := by
  constructor
  · intro hh
    rw [minimumAt_eq]
    unfold minOff
    have h1 : ¬ (min (h + 1) (2 ^ 32 - 1) < first) := by omega
    have h2 : min (h + 1) (2 ^ 32 - 1) ≥ first + 210000 := by omega
    simp only [h1, h2, if_false, if_true]
  · intro hh
    have hanti := c33_antitone first h (first + 209998) (by omega)
    have hlast : minimumAt first (first + 209998) = 1 := by
      rw [minimumAt_eq]
      have : min (first + 209998 + 1) (2 ^ 32 - 1) = first + 209999 := by omega
      rw [this]
      unfold minOff
      have h1 : ¬ (first + 209999 < first) := by omega
      have h2 : ¬ (first + 209999 ≥ first + 210000) := by omega
      simp only [h1, h2, if_false, Nat.add_sub_cancel_left]
      decide
    omega

/-- For every non-reserved name the reported unlock height is the **first** height whose
minimum is at or below the name; reserved names have no unlock height. -/
theorem c33_unlock_least (first r : Nat) (hf : first + 210000 < 2 ^ 32) :
    (RESERVED ≤ r → unlockAt first r = none) ∧
    (r < RESERVED → ∃ H, unlockAt first r = some H ∧ H < 2 ^ 32 ∧
      minimumAt first H ≤ r ∧ ∀ h, h < H → r < minimumAt first h) := by
  constructor
  · intro hr; simp [unlockAt, hr]
  · intro hr
    have hres : ¬ (r ≥ RESERVED) := by omega
    by_cases htop : r ≥ stp 12
    · refine ⟨0, by unfold unlockAt; rw [if_neg hres, if_pos (show r ≥ STEPS.getD UNLOCKED 0 from htop)], by omega, ?_, by omega⟩
      have : minimumAt first 0 ≤ stp 12 := by rw [minimumAt_eq]; exact minOff_le_top _ _
      omega
    · have hidx := index_spec r (by omega)
      simp only at hidx
      generalize hi : STEPS.findIdx (fun s => decide (r < s)) = i at hidx
      obtain ⟨hi1, hi12, hlo, hhi⟩ := hidx
      have hcore := inverse_core (stp i - stp (i - 1)) (stp i - r) (by omega) (by omega) (by omega)
      simp only at hcore
      generalize hq : ((stp i - r) * 17500 - 1) / (stp i - stp (i - 1)) = q at hcore
      obtain ⟨hq17, hge, hlt⟩ := hcore
      have hH : unlockAt first r = some (first + (12 - i) * 17500 + q) := by
        have hi0 : ¬ (i = 0) := by omega
        simp only [unlockAt, hres, if_false, UNLOCKED, getD_steps, htop, hi, hi0, INTERVAL, hq]
      have hbound : first + (12 - i) * 17500 + q < 2 ^ 32 := by
        clear hH hq hge hlt hlo hhi htop hres hr hi
        omega
      refine ⟨_, hH, hbound, ?_, ?_⟩
      · -- the minimum at H is at or below r
        rw [minimumAt_eq]
        have ho : min (first + (12 - i) * 17500 + q + 1) (2 ^ 32 - 1) =
            first + (12 - i) * 17500 + q + 1 := by
          clear hH hq hge hlt hlo hhi htop hres hr hi
          omega
        rw [ho]
        exact minOff_at_unlock first i r q hi1 hi12 hlo hq17 hge
      · -- and above r at every earlier height
        intro h hh
        have hanti := c33_antitone first h (first + (12 - i) * 17500 + q - 1)
          (by clear hH hq hge hlt hlo hhi htop hres hr hi; omega)
        have hprev : r < minimumAt first (first + (12 - i) * 17500 + q - 1) := by
          rw [minimumAt_eq]
          have ho : min (first + (12 - i) * 17500 + q - 1 + 1) (2 ^ 32 - 1) =
              first + (12 - i) * 17500 + q := by
            clear hH hq hge hlt hlo hhi htop hres hr hi hanti
            omega
          rw [ho]
          exact minOff_before_unlock first i r q hi1 hi12 hhi hq17 hlt
        exact Nat.lt_of_lt_of_le hprev hanti

theorem c33_unlock_least_net (net : Network) (r : Nat) :
    (RESERVED ≤ r → unlockHeight r net = none) ∧
    (r < RESERVED → ∃ H, unlockHeight r net = some H ∧ H < 2 ^ 32 ∧
      minimumAtHeight net H ≤ r ∧ ∀ h, h < H → r < minimumAtHeight net h) :=
  c33_unlock_least _ r (c33_networks net).1

/-- The truncating `Nat` operations of the model never truncate, no table index is out of
range and no divisor is zero — so the model's arithmetic is the Rust arithmetic (no panic
site of `minimum_at_height` / `unlock_height` is reachable). -/
theorem c33_well_defined (first : Nat) (hf : first + 210000 < 2 ^ 32) :
    (∀ p, p < 210000 →
      1 ≤ UNLOCKED - p / INTERVAL ∧ UNLOCKED - p / INTERVAL < STEPS.length ∧
      stp (UNLOCKED - p / INTERVAL - 1) ≤ stp (UNLOCKED - p / INTERVAL) ∧
      (stp (UNLOCKED - p / INTERVAL) - stp (UNLOCKED - p / INTERVAL - 1)) * (p % INTERVAL) / INTERVAL
        ≤ stp (UNLOCKED - p / INTERVAL) ∧
      (stp (UNLOCKED - p / INTERVAL) - stp (UNLOCKED - p / INTERVAL - 1)) * (p % INTERVAL) < 2 ^ 128) ∧
    (∀ r, r < stp 12 →
      let i := STEPS.findIdx (fun s => decide (r < s))
      i < STEPS.length ∧ 1 ≤ i ∧ i ≤ UNLOCKED ∧ stp (i - 1) < stp i ∧ r < stp i ∧
      1 ≤ (stp i - r) * INTERVAL ∧ (stp i - r) * INTERVAL < 2 ^ 128 ∧
      first + (UNLOCKED - i) * INTERVAL + ((stp i - r) * INTERVAL - 1) / (stp i - stp (i - 1)) < 2 ^ 32) := by
  constructor
  · intro p hp
    simp only [UNLOCKED, INTERVAL]
    have hk : p / 17500 < 12 := by omega
    have hr : p % 17500 < 17500 := Nat.mod_lt _ (by omega)
    have b := seg_bounds (p / 17500) (p % 17500) hk hr
    have hm := steps_mono (12 - p / 17500) (by omega) 12 (by omega) (by omega)
    have hlt : stp (12 - p / 17500 - 1) < stp (12 - p / 17500) := by
      have := steps_strict (12 - p / 17500 - 1) (by omega)
      have e : 12 - p / 17500 - 1 + 1 = 12 - p / 17500 := by omega
      rw [e] at this; exact this
    have h12 : stp 12 = 99246114928149462 := by decide
    refine ⟨by omega, by rw [steps_length]; omega, by omega, ?_, ?_⟩
    · generalize stp (12 - p / 17500) = s at *
      generalize stp (12 - p / 17500 - 1) = e at *
      have hd : (s - e) * (p % 17500) / 17500 < s - e := by
        rw [Nat.div_lt_iff_lt_mul (by omega)]
        exact (Nat.mul_lt_mul_left (by omega)).mpr hr
      omega
    · generalize stp (12 - p / 17500) = s at *
      generalize stp (12 - p / 17500 - 1) = e at *
      have h1 : (s - e) * (p % 17500) ≤ (s - e) * 17500 := Nat.mul_le_mul_left _ (by omega)
      omega
  · intro r hr
    have hidx := index_spec r hr
    simp only at hidx ⊢
    generalize STEPS.findIdx (fun s => decide (r < s)) = i at hidx
    obtain ⟨hi1, hi12, hlo, hhi⟩ := hidx
    have hcore := inverse_core (stp i - stp (i - 1)) (stp i - r) (by omega) (by omega) (by omega)
    simp only at hcore
    have hm := steps_mono i (by omega) 12 (by omega) hi12
    have h12 : stp 12 = 99246114928149462 := by decide
    simp only [UNLOCKED, INTERVAL]
    refine ⟨by rw [steps_length]; omega, hi1, hi12, by omega, hhi, by omega, by omega, ?_⟩
    have := hcore.1
    omega

/-! Non-vacuity -/
example : minimumAtHeight .bitcoin 839999 = 99246114928149462 := by decide
example : minimumAtHeight .bitcoin 840000 = 99240661844911652 := by decide
example : minimumAtHeight .bitcoin 1049998 = 1 ∧ minimumAtHeight .bitcoin 1049999 = 0 := by decide
example : unlockHeight 0 .bitcoin = some 1049999 := by decide
example : unlockHeight RESERVED .signet = none := by decide
example : unlockHeight 99240661844911652 .bitcoin = some 840000 := by decide

end Ord.Unlock
