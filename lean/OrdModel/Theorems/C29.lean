import OrdModel.Proofs.SatSpecLemmas
/-!
# C29 — Sat numbering matches block heights and derived attributes

Property theorems only.  Model: `OrdModel/Num/{Epoch,Height,Sat,Degree}.lean` (the code),
`OrdModel/Num/SatSpec.lean` (specification-level definitions); helper lemmas:
`OrdModel/Proofs/Sat*.lean`.
-/
namespace Ord.C29
open Ord Ord.Epoch

/-- The subsidy ord computes for a block is the halving rule. -/
theorem c29_subsidy (h : Nat) : Height.subsidy h = SatSpec.blockSubsidy h :=
  (SatSpec.blockSubsidy_eq h).symm

/-- Consecutive numbering: block 0 starts at sat 0 and every block starts where the previous
one ended (all heights, no bound). -/
theorem c29_recurrence (h : Nat) :
    Height.startingSat 0 = 0 ∧ Height.startingSat (h + 1) = Height.startingSat h + Height.subsidy h :=
  ⟨Height.startingSat_zero, Height.startingSat_succ h⟩

/-- … hence `Height::starting_sat h` is the number of sats mined before block `h`. -/
theorem c29_mining_order (h : Nat) : Height.startingSat h = SatSpec.minedBefore h :=
  (SatSpec.minedBefore_eq h).symm

/-- Strictly increasing over the subsidy-bearing heights. -/
theorem c29_strictly_increasing (a b : Nat) (hab : a < b) (hb : b ≤ 6930000) :
    Height.startingSat a < Height.startingSat b :=
  Height.startingSat_strict a b hab hb

/-- Constant (= SUPPLY, no subsidy) from height 6 930 000 on. -/
theorem c29_constant_after (h : Nat) (hh : 6930000 ≤ h) :
    Height.startingSat h = SUPPLY ∧ Height.subsidy h = 0 :=
  ⟨Height.startingSat_const h hh, Height.subsidy_zero h hh⟩

/-- (height, offset) ↦ sat: the `k`-th sat of block `h` is below the supply and ord reports
exactly height `h`, offset `k` for it (no panic). -/
theorem c29_sat_of_height_offset (h k : Nat) (hh : h < 6930000) (hk : k < Height.subsidy h) :
    Height.startingSat h + k < SUPPLY ∧
    Sat.heightO (Height.startingSat h + k) = .ok h ∧ Sat.thirdO (Height.startingSat h + k) = .ok k := by
  obtain ⟨hlt, hH, hT, _⟩ := Sat.compose h k hh hk
  refine ⟨hlt, ?_, ?_⟩
  · rw [Sat.heightO_ok _ hlt, hH]
  · rw [Sat.thirdO_ok _ hlt, hT]

/-- sat ↦ (height, offset): every sat below the supply arises so. -/
theorem c29_height_offset_of_sat (s : Nat) (hs : s < SUPPLY) :
    ∃ h k, h < 6930000 ∧ k < Height.subsidy h ∧ s = Height.startingSat h + k ∧
      Sat.heightO s = .ok h ∧ Sat.thirdO s = .ok k := by
  obtain ⟨hsum, hk⟩ := Sat.decompose s hs
  exact ⟨Sat.heightN s, Sat.thirdN s, Sat.heightN_lt s hs, hk, hsum.symm, Sat.heightO_ok s hs, Sat.thirdO_ok s hs⟩

/-- the correspondence is one-to-one -/
theorem c29_bijection_unique (h k h' k' : Nat) (hh : h < 6930000) (hk : k < Height.subsidy h)
    (hh' : h' < 6930000) (hk' : k' < Height.subsidy h')
    (heq : Height.startingSat h + k = Height.startingSat h' + k') : h = h' ∧ k = k' := by
  obtain ⟨_, hH, hT, _⟩ := Sat.compose h k hh hk
  obtain ⟨_, hH', hT', _⟩ := Sat.compose h' k' hh' hk'
  rw [heq] at hH hT
  exact ⟨hH.symm.trans hH', hT.symm.trans hT'⟩

/-- The total: sats are numbered 0 … SUPPLY−1 and SUPPLY is everything ever mined. -/
theorem c29_supply : SatSpec.minedBefore 6930000 = SUPPLY ∧ LAST = SUPPLY - 1 := by
  rw [SatSpec.minedBefore_eq]; exact ⟨Height.startingSat_last, rfl⟩

/-- Epoch, cycle, period, degree, decimal form and position in the epoch, as ord reports them for
the `k`-th sat of block `h`, are the functions of `(h, k)` the notations are defined by. -/
theorem c29_attributes (h k : Nat) (hh : h < 6930000) (hk : k < Height.subsidy h) :
    Sat.epoch (Height.startingSat h + k) = h / 210000 ∧
    Sat.cycle (Height.startingSat h + k) = h / 1260000 ∧
    Sat.periodO (Height.startingSat h + k) = .ok (h / 2016) ∧
    Degree.ofSatO (Height.startingSat h + k) = .ok ⟨h / 1260000, h % 210000, h % 2016, k⟩ ∧
    Sat.decimalO (Height.startingSat h + k) = .ok (h, k) ∧
    Rarity.ofSatO (Height.startingSat h + k) = .ok (Rarity.ofDegree ⟨h / 1260000, h % 210000, h % 2016, k⟩) := by
  obtain ⟨hlt, hH, hT, hE⟩ := Sat.compose h k hh hk
  have e1 : Sat.heightO (Height.startingSat h + k) = .ok h := by rw [Sat.heightO_ok _ hlt, hH]
  have e2 : Sat.thirdO (Height.startingSat h + k) = .ok k := by rw [Sat.thirdO_ok _ hlt, hT]
  have e3 : Degree.ofSatO (Height.startingSat h + k) = .ok ⟨h / 1260000, h % 210000, h % 2016, k⟩ := by
    unfold Degree.ofSatO; rw [e1, e2]; rfl
  refine ⟨hE, ?_, ?_, e3, ?_, ?_⟩
  · unfold Sat.cycle CYCLE_EPOCHS; rw [hE, Nat.div_div_eq_div_mul]
  · unfold Sat.periodO; rw [e1]; rfl
  · unfold Sat.decimalO; rw [e1, e2]
  · unfold Rarity.ofSatO; rw [e3]

/-! Non-vacuity -/
example : Height.startingSat 210000 = 1050000000000000 := by decide
example : Height.subsidy 6929999 = 1 ∧ Height.subsidy 6930000 = 0 := by decide
example : Height.subsidy 420000 = 1250000000 ∧ (5 : Nat) < Height.subsidy 420000 := by decide
example : Sat.heightO SUPPLY = .panic "divzero@sat.height" := by decide

end Ord.C29
