import OrdModel.Proofs.SatSpecLemmas
import OrdModel.Proofs.SatRarityCount
import OrdModel.Proofs.SatRarityCharms
/-!
# C29 — Sat numbering matches block heights and derived attributes

Property theorems only.  Model: `OrdModel/Num/{Epoch,Height,Sat,Degree}.lean` (the code),
`OrdModel/Num/SatSpec.lean` (specification-level definitions); helper lemmas:
`OrdModel/Proofs/Sat*.lean` (rarity / supply census / charms: `Proofs/SatRarity*.lean`).
-/
namespace Ord.C29
open Ord Ord.Epoch

/-- The subsidy ord computes for a block is the halving rule. -/
theorem c29_subsidy (h : Nat) : Height.subsidy h = SatSpec.blockSubsidy h :=
  (SatSpec.blockSubsidy_eq h).symm

/-- Consecutive numbering: block 0 starts at sat 0 and every block starts where the previous
one ended (all heights, no bound). -/
theorem c29_recurrence (h : Nat) :
    Height.startingSat 0 = 0 ∧ Height.startingSat (h + 1) = Height.startingSat h + Height.subsidy h :=
  ⟨Height.startingSat_zero, Height.startingSat_succ h⟩

/-- … hence `Height::starting_sat h` is the number of sats mined before block `h`. -/
theorem c29_mining_order (h : Nat) : Height.startingSat h = SatSpec.minedBefore h :=
  (SatSpec.minedBefore_eq h).symm

/-- Strictly increasing over the subsidy-bearing heights. -/
theorem c29_strictly_increasing (a b : Nat) (hab : a < b) (hb : b ≤ 6930000) :
    Height.startingSat a < Height.startingSat b :=
  Height.startingSat_strict a b hab hb

/-- Constant (= SUPPLY, no subsidy) from height 6 930 000 on. -/
theorem c29_constant_after (h : Nat) (hh : 6930000 ≤ h) :
    Height.startingSat h = SUPPLY ∧ Height.subsidy h = 0 :=
  ⟨Height.startingSat_const h hh, Height.subsidy_zero h hh⟩

/-- (height, offset) ↦ sat: the `k`-th sat of block `h` is below the supply and ord reports
exactly height `h`, offset `k` for it (no panic). -/
theorem c29_sat_of_height_offset (h k : Nat) (hh : h < 6930000) (hk : k < Height.subsidy h) :
    Height.startingSat h + k < SUPPLY ∧
    Sat.heightO (Height.startingSat h + k) = .ok h ∧ Sat.thirdO (Height.startingSat h + k) = .ok k := by
  obtain ⟨hlt, hH, hT, _⟩ := Sat.compose h k hh hk
  refine ⟨hlt, ?_, ?_⟩
  · rw [Sat.heightO_ok _ hlt, hH]
  · rw [Sat.thirdO_ok _ hlt, hT]

/-- sat ↦ (height, offset): every sat below the supply arises so. -/
theorem c29_height_offset_of_sat (s : Nat) (hs : s < SUPPLY) :
    ∃ h k, h < 6930000 ∧ k < Height.subsidy h ∧ s = Height.startingSat h + k ∧
      Sat.heightO s = .ok h ∧ Sat.thirdO s = .ok k := by
  obtain ⟨hsum, hk⟩ := Sat.decompose s hs
  exact ⟨Sat.heightN s, Sat.thirdN s, Sat.heightN_lt s hs, hk, hsum.symm, Sat.heightO_ok s hs, Sat.thirdO_ok s hs⟩

/-- the correspondence is one-to-one -/
theorem c29_bijection_unique (h k h' k' : Nat) (hh : h < 6930000) (hk : k < Height.subsidy h)
    (hh' : h' < 6930000) (hk' : k' < Height.subsidy h')
    (heq : Height.startingSat h + k = Height.startingSat h' + k') : h = h' ∧ k = k' := by
  obtain ⟨_, hH, hT, _⟩ := Sat.compose h k hh hk
  obtain ⟨_, hH', hT', _⟩ := Sat.compose h' k' hh' hk'
  rw [heq] at hH hT
  exact ⟨hH.symm.trans hH', hT.symm.trans hT'⟩

/-- The total: sats are numbered 0 … SUPPLY−1 and SUPPLY is everything ever mined. -/
theorem c29_supply : SatSpec.minedBefore 6930000 = SUPPLY ∧ LAST = SUPPLY - 1 := by
  rw [SatSpec.minedBefore_eq]; exact ⟨Height.startingSat_last, rfl⟩

/-- Epoch, cycle, period, degree, decimal form and position in the epoch, as ord reports them for
the `k`-th sat of block `h`, are the functions of `(h, k)` the notations are defined by. -/
theorem c29_attributes (h k : Nat) (hh : h < 6930000) (hk : k < Height.subsidy h) :
    Sat.epoch (Height.startingSat h + k) = h / 210000 ∧
    Sat.cycle (Height.startingSat h + k) = h / 1260000 ∧
    Sat.periodO (Height.startingSat h + k) = .ok (h / 2016) ∧
    Degree.ofSatO (Height.startingSat h + k) = .ok ⟨h / 1260000, h % 210000, h % 2016, k⟩ ∧
    Sat.decimalO (Height.startingSat h + k) = .ok (h, k) ∧
    Rarity.ofSatO (Height.startingSat h + k) = .ok (Rarity.ofDegree ⟨h / 1260000, h % 210000, h % 2016, k⟩) := by
  exact Sat.attributes h k hh hk


/-! ## Rarity, the rarity supply table, charms -/

/-- `Sat::common` (fast path first, then the full calculation) says exactly whether the sat is
*not* the first sat of its block, i.e. whether `Sat::rarity` is `Common` — for every sat below the
supply.  The shortcut on its own never misclassifies: a sat below the start of epoch 10 that is
not a multiple of the epoch-9 subsidy (9 765 625) has a non-zero offset in its block. -/
theorem c29_common_fast_path (s : Nat) (hs : s < SUPPLY) :
    ∃ k, Sat.thirdO s = .ok k ∧
      (Sat.common s = true ↔ k ≠ 0) ∧
      (Sat.common s = true ↔ Rarity.ofSatO s = .ok .common) ∧
      (s < Epoch.startingSat 10 → ¬ Epoch.subsidy 9 ∣ s → k ≠ 0) := by
  refine ⟨Sat.thirdN s, Sat.thirdO_ok s hs, ?_, ?_, ?_⟩
  · rw [Sat.common_eq s hs]; simp
  · rw [Sat.common_eq s hs, Sat.rarityO_ok s hs, Outcome.ok.injEq,
      (SatSpec.rarity_iff (Sat.heightN s) (Sat.thirdN s)).1]
    simp
  · intro h1 h2
    rw [Epoch.subsidy_nine] at h2
    exact Sat.fast_path_sound s h1 (fun h0 => h2 (Nat.dvd_of_mod_eq_zero h0))

/-- `Rarity::from(Sat)` (the if-chain over the degree) is the documented classification of the
`k`-th sat of block `h`: common = not the first sat of its block; otherwise mythic = sat 0,
legendary = first sat of a cycle (height a multiple of 1 260 000), epic = first sat of a halving
epoch (multiple of 210 000), rare = first sat of a difficulty period (multiple of 2016), uncommon =
first sat of any other block — each class excluding the rarer ones, as in the code. -/
theorem c29_rarity_classes (h k s : Nat) (hh : h < 6930000) (hk : k < Height.subsidy h)
    (hs : s = Height.startingSat h + k) :
    Rarity.ofSatO s = .ok (SatSpec.rarity h k) ∧
    (Rarity.ofSatO s = .ok .common ↔ k ≠ 0) ∧
    (Rarity.ofSatO s = .ok .uncommon ↔ k = 0 ∧ h % 2016 ≠ 0 ∧ h % 210000 ≠ 0) ∧
    (Rarity.ofSatO s = .ok .rare ↔ k = 0 ∧ h % 2016 = 0 ∧ h % 210000 ≠ 0) ∧
    (Rarity.ofSatO s = .ok .epic ↔ k = 0 ∧ h % 210000 = 0 ∧ h % 1260000 ≠ 0) ∧
    (Rarity.ofSatO s = .ok .legendary ↔ k = 0 ∧ h % 1260000 = 0 ∧ h ≠ 0) ∧
    (Rarity.ofSatO s = .ok .mythic ↔ k = 0 ∧ h = 0) ∧
    (Rarity.ofSatO s = .ok .mythic ↔ s = 0) := by
  obtain ⟨hlt, hH, hT, _⟩ := Sat.compose h k hh hk
  rw [← hs] at hlt hH hT
  have hr := Sat.rarityO_ok s hlt
  rw [hH, hT] at hr
  obtain ⟨h1, h2, h3, h4, h5, h6⟩ := SatSpec.rarity_iff h k
  have hzero : s = 0 ↔ k = 0 ∧ h = 0 := by
    constructor
    · intro h0
      rcases Nat.eq_zero_or_pos h with hz | hp
      · subst hz; rw [Height.startingSat_zero] at hs; omega
      · have := Height.startingSat_strict 0 h hp (by omega)
        rw [Height.startingSat_zero] at this; omega
    · rintro ⟨rfl, rfl⟩; rw [hs, Height.startingSat_zero]
  rw [hr]
  simp only [Outcome.ok.injEq]
  exact ⟨trivial, h1, h2, h3, h4, h5, h6, h6.trans hzero.symm⟩

/-- The rarity supply table (`Rarity::supply`) is the census of the sats below the supply: for
every rarity `r`, the number of `s < SUPPLY` with `Sat(s).rarity() = r` is `r.supply()`.
(Counted in closed form: block by block through the (height, offset) bijection; heights below
6 930 000 by inclusion–exclusion over the multiples of 2016 / 210 000 / 1 260 000 with
`#{h < n | d ∣ h} = ⌈n/d⌉`, `SatSpec.countBelow_multiples`; nothing is enumerated.) -/
theorem c29_rarity_supply (r : Rarity) :
    SatSpec.countBelow (fun s => decide (Rarity.ofSatO s = .ok r)) SUPPLY = Rarity.supply r ∧
    ((List.range SUPPLY).filter (fun s => decide (Rarity.ofSatO s = .ok r))).length = Rarity.supply r :=
  ⟨SatSpec.supply_table_O r,
   (SatSpec.countBelow_eq_filter _ _).symm.trans (SatSpec.supply_table_O r)⟩

/-- The general counting lemma behind the table: below `n` there are `⌈n/d⌉` multiples of `d`. -/
theorem c29_count_multiples (d n : Nat) (hd : 0 < d) :
    SatSpec.countBelow (fun h => h % d == 0) n = (n + d - 1) / d ∧
    ((List.range n).filter (fun h => h % d == 0)).length = (n + d - 1) / d :=
  ⟨SatSpec.countBelow_multiples d hd n,
   (SatSpec.countBelow_eq_filter _ _).symm.trans (SatSpec.countBelow_multiples d hd n)⟩

/-- … instantiated: the 6 930 000 subsidy-bearing heights by the class of their first sat
(inclusion–exclusion over the multiples of 2016 / 210 000 / 1 260 000; lcm(2016, 210000) = 1260000). -/
theorem c29_height_census (r : Rarity) :
    SatSpec.countBelow (fun h => decide (SatSpec.rarity h 0 = r)) 6930000 =
      match r with
      | .common => 0 | .uncommon => 6926535 | .rare => 3432 | .epic => 27 | .legendary => 5
      | .mythic => 1 :=
  SatSpec.heights_table r

/-- The charms ord reports for the `k`-th sat `s` of block `h` are those implied by `(s, h, k)`:
the word is the specified one, `Sat::palindrome` does not overflow and is "the decimal digits read
the same in both directions", and bit by bit: coin ⇔ `s` is a multiple of 10^8, nineball ⇔
`h = 9`, palindrome, the rarity bit of `c29_rarity_classes`, and no other bit. -/
theorem c29_charms (h k s : Nat) (hh : h < 6930000) (hk : k < Height.subsidy h)
    (hs : s = Height.startingSat h + k) :
    Sat.charmsO s = .ok (SatSpec.charms s h k) ∧
    Sat.palindromeO s = .ok (SatSpec.isPalindrome s) ∧
    ∀ c : Charm, (SatSpec.charms s h k).testBit c.bit =
      match c with
      | .coin => decide (s % 100000000 = 0)
      | .nineball => decide (h = 9)
      | .palindrome => SatSpec.isPalindrome s
      | .uncommon => decide (SatSpec.rarity h k = .uncommon)
      | .rare => decide (SatSpec.rarity h k = .rare)
      | .epic => decide (SatSpec.rarity h k = .epic)
      | .legendary => decide (SatSpec.rarity h k = .legendary)
      | .mythic => decide (SatSpec.rarity h k = .mythic)
      | _ => false := by
  obtain ⟨hlt, hH, hT, _⟩ := Sat.compose h k hh hk
  rw [← hs] at hlt hH hT
  have hr := Sat.rarityO_ok s hlt
  rw [hH, hT] at hr
  have hp := Sat.palindromeO_ok s (Nat.lt_trans hlt (by decide))
  have hnine : Sat.nineball s = decide (h = 9) := by
    have := Sat.nineball_iff s hlt
    rw [hH] at this
    by_cases h9 : h = 9
    · simp [h9, this.2 h9]
    · have : ¬ Sat.nineball s = true := fun hc => h9 (this.1 hc)
      simp [h9, this]
  have hcoin : Sat.coin s = decide (s % 100000000 = 0) := by
    have := Sat.coin_iff s
    by_cases hc : s % 100000000 = 0
    · simp [hc, this.2 hc]
    · have : ¬ Sat.coin s = true := fun hx => hc (this.1 hx)
      simp [hc, this]
  have hw := Sat.charmsOf_eq_spec s h k
  refine ⟨?_, hp, ?_⟩
  · rw [Sat.charmsO_of s _ _ hp hr, hw]
  · intro c
    rw [← hw, Sat.charmsOf_testBit, hnine, hcoin]
    cases c <;> rfl

/-! Non-vacuity -/
example : Height.startingSat 210000 = 1050000000000000 := by decide
example : Height.subsidy 6929999 = 1 ∧ Height.subsidy 6930000 = 0 := by decide
example : Height.subsidy 420000 = 1250000000 ∧ (5 : Nat) < Height.subsidy 420000 := by decide
example : Sat.heightO SUPPLY = .panic "divzero@sat.height" := by decide


/-! non-vacuity for the rarity / charm clauses: both paths of `common`, every class, the table
sums to the supply, charm words of concrete sats -/
-- fast path taken (not a multiple of 9765625), slow path in an early epoch (a common multiple of
-- 9765625), slow path beyond epoch 9, and first sats of blocks
example : Sat.common 1 = true ∧ Sat.common 9765625 = true ∧ Sat.common 2099999997689999 = false ∧
    Sat.common 2098000000000000 = true ∧ Sat.common 5000000000 = false ∧ Sat.common 0 = false := by
  decide
example : (1 : Nat) < Epoch.startingSat 10 ∧ ¬ Epoch.subsidy 9 ∣ 1 := by decide
example : Rarity.ofSatO 0 = .ok .mythic ∧ Rarity.ofSatO 1 = .ok .common ∧
    Rarity.ofSatO 5000000000 = .ok .uncommon ∧
    Rarity.ofSatO (Height.startingSat 2016) = .ok .rare ∧
    Rarity.ofSatO (Height.startingSat 210000) = .ok .epic ∧
    Rarity.ofSatO (Height.startingSat 1260000) = .ok .legendary := by decide
example : (Rarity.all.map Rarity.supply).sum = SUPPLY := by decide
example : SatSpec.countBelow (fun h => h % 7 == 0) 15 = 3 ∧ (15 + 7 - 1) / 7 = 3 := by decide
-- sat 0: coin + mythic + palindrome; first sat of block 9: coin + nineball + uncommon
example : Sat.charmsO 0 = .ok (2 ^ 0 + 2 ^ 11 + 2 ^ 13) ∧
    Sat.charmsO 45000000000 = .ok (2 ^ 0 + 2 ^ 5 + 2 ^ 9) ∧ Sat.charmsO 45000000054 = .ok (2 ^ 5 + 2 ^ 13) := by
  decide

end Ord.C29
