import OrdModel.Proofs.Settings
/-!
# C36 — settings follow flag > ORD_ environment variable > config file > built-in default

Property theorems only.  Model: `OrdModel/Settings.lean`; helper lemmas:
`OrdModel/Proofs/Settings.lean`; `G.*` = the tables regenerated from `/repo/src/settings.rs` and
`/repo/src/chain.rs` on every run (`OrdModel/Generated/SettingsOr.lean`).

Part A ties the *source text* to the model: every field of the Rust struct is a model field, and
the combinator / flag source / environment getter / default rule that the source text shows for
it is the one the model implements.  Part B is the property over the model, quantified over every
field (`Field`), every option record, every environment, every file system.
-/
namespace Ord.Settings

/-! ## A. obligations over the generated tables -/

/-- The Rust struct and the model have the same fields, in the same order, under the same names. -/
theorem c36_gen_fields :
    (∀ f, ofG (toG f) = f) ∧ (∀ g, toG (ofG g) = g) ∧ G.allF.map ofG = Field.all ∧
    (∀ g, (ofG g).name = g.rustName) := by
  refine ⟨fun f => by cases f <;> rfl, fun g => by cases g <;> rfl, by decide, fun g => by cases g <;> rfl⟩

/-- `Settings::or`: every field is listed once; its combinator is the one its Rust type calls for
(`Option<_>` ↦ `self.f.or(source.f)`, `bool` ↦ `self.f || source.f`, the id set ↦ union), with
`self` first; and the Rust type has the shape the model gives the field. -/
theorem c36_gen_or_table :
    G.orTable.map (·.1) = G.allF ∧ G.fieldTypes.map (·.1) = G.allF ∧
    (∀ e ∈ G.orTable, e.2.2 = true ∧ (G.fieldTypes.lookup e.1).map expectedComb = some e.2.1) ∧
    (∀ e ∈ G.fieldTypes, kindOfTy e.2 = (ofG e.1).kind) := by
  decide

/-- The model's `or` does, for every field, what the generated table entry says. -/
theorem c36_gen_or_model (a b : Settings) (f : Field) :
    ∃ c, G.orTable.lookup (toG f) = some (c, true) ∧ combOfG c = some f.kind.comb ∧
      (a.or b).get f = f.kind.comb.apply (a.get f) (b.get f) := by
  refine ⟨expectedComb ((G.fieldTypes.lookup (toG f)).getD .bool), ?_, ?_, or_get a b f⟩ <;>
    cases f <;> decide

/-- `Settings::from_options`: no entry has an unrecognised shape; exactly `hidden`, `http_port`,
`server_url` have no global flag; exactly `chain` is resolved from several flags. -/
theorem c36_gen_options_table :
    G.optionsTable.map (·.1) = G.allF ∧ (∀ e ∈ G.optionsTable, e.2 ≠ .other) ∧
    (G.optionsTable.filter (·.2 = .noFlag)).map (·.1) = [.hidden, .httpPort, .serverUrl] ∧
    (G.optionsTable.filter (·.2 = .chainFlags)).map (·.1) = [.chain] := by
  decide

/-- … and the model agrees: flags never set the three flag-less fields, and `chain` comes from
`--signet`, `--regtest`, `--testnet`, `--testnet4`, `--chain` in that order. -/
theorem c36_gen_options_model (o : Options) :
    (fromOptions o).hidden = none ∧ (fromOptions o).httpPort = none ∧ (fromOptions o).serverUrl = none ∧
    (fromOptions o).chain =
      if o.signet then some .signet else if o.regtest then some .regtest
      else if o.testnet then some .testnet else if o.testnet4 then some .testnet4 else o.chainArgument := by
  refine ⟨rfl, rfl, rfl, ?_⟩
  simp only [fromOptions, chainFromFlags, thenSome]
  cases o.signet <;> cases o.regtest <;> cases o.testnet <;> cases o.testnet4 <;> simp

/-- `Settings::from_env`: every field reads the variable named after it (upper-cased) with the
getter its Rust type calls for. -/
theorem c36_gen_env_table :
    G.envTable.map (·.1) = G.allF ∧ G.envKeysAreUpperFieldNames = true ∧
    (∀ e ∈ G.envTable, (G.fieldTypes.lookup e.1).map expectedGetter = some e.2.1) ∧
    (∀ f, (G.envTable.lookup (toG f)).map (·.2) = some f.envKey) := by
  refine ⟨by decide, by decide, by decide, fun f => by cases f <;> decide⟩

/-- The model's `fromEnv` does, for every field, what the generated table entry says: the value
of the field is what the listed getter makes of the variable `ORD_<FIELD>`. -/
theorem c36_gen_env_model (env : EnvMap) (e : Settings) (h : fromEnv env = .ok e) (f : Field) :
    ∃ g, G.envTable.lookup (toG f) = some (g, f.envKey) ∧
      getterSem g (env f.envKey) = some (e.get f) :=
  fromEnv_ok env e h f

/-- `from_env` only fails because some field's variable does not parse, and the error names it. -/
theorem c36_gen_env_errors (env : EnvMap) (err : Err) (h : fromEnv env = .error err) :
    ∃ f g, G.envTable.lookup (toG f) = some (g, f.envKey) ∧ err = .envParse f.envKey ∧
      getterSem g (env f.envKey) = none :=
  fromEnv_error env err h

/-- `Settings::merge` combines the sources in the order options, environment, config file, defaults. -/
theorem c36_gen_source_order : G.sourceOrder = [.options, .env, .config, .defaults] := by decide

/-- The chain-dependent constants of `chain.rs` are the model's. -/
theorem c36_gen_chain_tables :
    G.rpcPorts = Chain.all.map (fun c => (chToG c, c.defaultRpcPort)) ∧
    G.dataDirSuffix = Chain.all.map (fun c => (chToG c, c.dirSuffix)) ∧
    G.chainNames = Chain.all.map (fun c => (chToG c, c.name)) := by
  decide

/-- `Settings::or_defaults`: what the source text does with each field, as a statement about the
model's result `r` for input `s`. -/
def defaultsClause (p : Params) (s r : Settings) (f : Field) : G.Dflt → Prop
  | .keep => r.get f = s.get f
  | .const n => r.get f = .opt (some ((s.getOpt f).getD (.num n)))
  | .erase => r.get f = .opt none
  | .derived =>
    if f = .dataDir then
      ∃ d, resolveDataDir p s = .ok d ∧ r.dataDir = some ((s.chain.getD .mainnet).joinWithDataDir d)
    else r.getOpt f = (s.getOpt f).or (defaultOf p r f) ∧ (r.getOpt f).isSome
  | .rpcUrl => r.getOpt f = (s.getOpt f).or (defaultOf p r f) ∧ (r.getOpt f).isSome
  | .memQuarter => r.getOpt f = some ((s.getOpt f).getD (.num p.memQuarter))
  | .other => False

/-- The model's `orDefaults` does, for every field, what the generated table entry says (the
constants 12 / 5000 / 2 / 10 are read from the source text). -/
theorem c36_gen_defaults_model (p : Params) (s r : Settings) (h : s.orDefaults p = .ok r) (f : Field) :
    ∃ d, G.defaultsTable.lookup (toG f) = some d ∧ defaultsClause p s r f d := by
  obtain ⟨bdd, dd0, hb, hd, rfl⟩ := orDefaults_ok p s r h
  cases f
  case bitcoinDataDir =>
    refine ⟨.derived, by decide, ?_⟩
    simp only [resolveBitcoinDataDir] at hb
    cases h1 : s.bitcoinDataDir <;> cases h2 : p.homeDir <;>
      simp_all [defaultsClause, fillDefaults, Settings.getOpt, Settings.get, defaultOf]
  case cookieFile =>
    refine ⟨.derived, by decide, ?_⟩
    cases h1 : s.cookieFile <;>
      simp_all [defaultsClause, fillDefaults, Settings.getOpt, Settings.get, defaultOf]
  case index =>
    refine ⟨.derived, by decide, ?_⟩
    cases h1 : s.index <;>
      simp_all [defaultsClause, fillDefaults, Settings.getOpt, Settings.get, defaultOf]
  case chain =>
    refine ⟨.derived, by decide, ?_⟩
    cases h1 : s.chain <;>
      simp_all [defaultsClause, fillDefaults, Settings.getOpt, Settings.get, defaultOf]
  case dataDir =>
    exact ⟨.derived, by decide, by simp [defaultsClause, fillDefaults, hd]⟩
  case bitcoinRpcUrl =>
    refine ⟨.rpcUrl, by decide, ?_⟩
    cases h1 : s.bitcoinRpcUrl <;>
      simp_all [defaultsClause, fillDefaults, Settings.getOpt, Settings.get, defaultOf]
  case indexCacheSize =>
    refine ⟨.memQuarter, by decide, ?_⟩
    cases h1 : s.indexCacheSize <;>
      simp_all [defaultsClause, fillDefaults, Settings.getOpt, Settings.get]
  case bitcoinRpcLimit =>
    refine ⟨.const 12, by decide, ?_⟩
    cases h1 : s.bitcoinRpcLimit <;> simp_all [defaultsClause, fillDefaults, Settings.getOpt, Settings.get]
  case commitInterval =>
    refine ⟨.const 5000, by decide, ?_⟩
    cases h1 : s.commitInterval <;> simp_all [defaultsClause, fillDefaults, Settings.getOpt, Settings.get]
  case maxSavepoints =>
    refine ⟨.const 2, by decide, ?_⟩
    cases h1 : s.maxSavepoints <;> simp_all [defaultsClause, fillDefaults, Settings.getOpt, Settings.get]
  case savepointInterval =>
    refine ⟨.const 10, by decide, ?_⟩
    cases h1 : s.savepointInterval <;> simp_all [defaultsClause, fillDefaults, Settings.getOpt, Settings.get]
  case config => exact ⟨.erase, by decide, by simp [defaultsClause, fillDefaults, Settings.get]⟩
  case configDir => exact ⟨.erase, by decide, by simp [defaultsClause, fillDefaults, Settings.get]⟩
  all_goals exact ⟨.keep, by decide, by simp [defaultsClause, fillDefaults, Settings.get]⟩

/-! ## B. the property over the model -/

/-- Combinator semantics, option-valued field: the first source wins if it has a value. -/
theorem c36_or_opt (a b : Settings) (f : Field) (h : f.kind = .opt) :
    (a.or b).getOpt f = (a.getOpt f).or (b.getOpt f) := by
  have := or_get a b f
  rw [get_opt _ f h, get_opt a f h, get_opt b f h, h] at this
  simpa [Kind.comb, Comb.apply] using this

/-- Combinator semantics, switch: on iff either source has it on. -/
theorem c36_or_switch (a b : Settings) (f : Field) (h : f.kind = .switch) :
    (a.or b).getSwitch f = (a.getSwitch f || b.getSwitch f) := by
  have := or_get a b f
  rw [get_switch _ f h, get_switch a f h, get_switch b f h, h] at this
  simpa [Kind.comb, Comb.apply] using this

/-- Combinator semantics, id set: always `Some`, members are exactly the members of both sources. -/
theorem c36_or_set (a b : Settings) (f : Field) (h : f.kind = .set) :
    (∃ l, (a.or b).get f = .set (some l)) ∧
    ∀ i, i ∈ (a.or b).getSet f ↔ i ∈ a.getSet f ∨ i ∈ b.getSet f := by
  cases f <;> simp [Field.kind] at h
  refine ⟨⟨_, rfl⟩, fun i => ?_⟩
  simp [getSet_hidden, Settings.or]

/-- The three sources combined in `merge`'s order, before defaults — every field. -/
theorem c36_sources_combined (fl en cf : Settings) (f : Field) :
    ((fl.or en).or cf).get f =
      match f.kind with
      | .opt => .opt (firstSome [fl.getOpt f, en.getOpt f, cf.getOpt f])
      | .switch => .switch (fl.getSwitch f || en.getSwitch f || cf.getSwitch f)
      | .set => .set (some (fl.getSet f ++ en.getSet f ++ cf.getSet f)) := by
  cases f <;>
    simp [Field.kind, Settings.get, Settings.getOpt, Settings.getSwitch, Settings.getSet, Settings.or,
      firstSome3, map_or'] <;>
    cases fl.hidden <;> cases en.hidden <;> cases cf.hidden <;> simp

/-- What a successful `merge` is made of: the environment parsed, a config file chosen and read
(or none), the three sources `or`-ed in the order flags, environment, file, then defaults. -/
theorem c36_merge_decompose (p : Params) (fs : FileSystem) (o : Options) (env : EnvMap) (r : Settings)
    (h : merge p fs o env = .ok r) :
    ∃ e path c, fromEnv env = .ok e ∧ configPath p fs ((fromOptions o).or e) = .ok path ∧
      loadConfig fs path = .ok c ∧ (((fromOptions o).or e).or c).orDefaults p = .ok r :=
  let ⟨e, path, c, h1, h2, h3, h4, _⟩ := merge_ok p fs o env r h
  ⟨e, path, c, h1, h2, h3, h4⟩

/-- **C36.**  Whenever `merge` succeeds, *every* field of the result satisfies the precedence
predicate `fieldSpec` with respect to the flag settings, the parsed environment and the config
file that was read: an option-valued field is the first present of (flag, env, file), else the
built-in default; a switch is on iff any source sets it; `hidden` is the union. -/
theorem c36_precedence (p : Params) (fs : FileSystem) (o : Options) (env : EnvMap) (r : Settings)
    (h : merge p fs o env = .ok r) :
    ∃ e path c, fromEnv env = .ok e ∧ configPath p fs ((fromOptions o).or e) = .ok path ∧
      loadConfig fs path = .ok c ∧ ∀ f, fieldSpec p (fromOptions o) e c r f = true :=
  let ⟨e, path, c, h1, h2, h3, h4, _⟩ := merge_ok p fs o env r h
  ⟨e, path, c, h1, h2, h3, fun f => orDefaults_fieldSpec p _ e c r h4 f⟩

/-- The predicate is not weak: it determines every option-valued field and every switch of the
result (and, by `c36_hidden_union`, the members of `hidden`). -/
theorem c36_spec_determines (p : Params) (fl en cf r r' : Settings)
    (h : ∀ f, fieldSpec p fl en cf r f = true) (h' : ∀ f, fieldSpec p fl en cf r' f = true)
    (f : Field) (hf : f.kind ≠ .set) : r.get f = r'.get f := by
  have hc : r.chain = r'.chain := by
    have a := h .chain; have b := h' .chain
    simp only [fieldSpec, Field.kind, Settings.getOpt, Settings.get, defaultOf, beq_iff_eq] at a b
    exact map_chain_inj (a.trans b.symm)
  have hb : r.bitcoinDataDir = r'.bitcoinDataDir := by
    have a := h .bitcoinDataDir; have b := h' .bitcoinDataDir
    simp only [fieldSpec, Field.kind, Settings.getOpt, Settings.get, defaultOf, beq_iff_eq] at a b
    exact map_text_inj (a.trans b.symm)
  have hd : r.dataDir = r'.dataDir := by
    have a := h .dataDir; have b := h' .dataDir
    simp only [fieldSpec, Field.kind, beq_iff_eq] at a b
    rw [a, b, hc]
  have a := h f; have b := h' f
  cases f <;> simp [Field.kind] at hf <;>
    simp only [fieldSpec, Field.kind, Settings.getOpt, Settings.getSwitch, Settings.get, defaultOf, beq_iff_eq, hc, hb, hd] at a b ⊢ <;>
    first
      | exact congrArg _ (a.trans b.symm)
      | (rw [a, b])
      | skip

/-- fields whose winning value is passed through unchanged (all option-valued fields except the
two consumed by `merge` and `data_dir`, which gets the chain directory appended) -/
def Field.plain (f : Field) : Bool :=
  f.kind == .opt && f != .config && f != .configDir && f != .dataDir

/-- Reading of `fieldSpec`: the winner among the sources is the result. -/
theorem c36_explicit_value_wins (p : Params) (fl en cf r : Settings) (f : Field) (v : Val)
    (hf : f.plain = true) (hs : fieldSpec p fl en cf r f = true)
    (hv : firstSome [fl.getOpt f, en.getOpt f, cf.getOpt f] = some v) :
    r.getOpt f = some v := by
  cases f <;> simp [Field.plain, Field.kind] at hf <;>
    simp [fieldSpec, Field.kind, hv] at hs <;> exact hs

/-- A flag beats everything. -/
theorem c36_flag_wins (p : Params) (fl en cf r : Settings) (f : Field) (v : Val)
    (hf : f.plain = true) (hs : fieldSpec p fl en cf r f = true) (hv : fl.getOpt f = some v) :
    r.getOpt f = some v :=
  c36_explicit_value_wins p fl en cf r f v hf hs (by simp [firstSome, hv])

/-- Without a flag, the environment variable beats the config file. -/
theorem c36_env_wins (p : Params) (fl en cf r : Settings) (f : Field) (v : Val)
    (hf : f.plain = true) (hs : fieldSpec p fl en cf r f = true)
    (h0 : fl.getOpt f = none) (hv : en.getOpt f = some v) :
    r.getOpt f = some v :=
  c36_explicit_value_wins p fl en cf r f v hf hs (by simp [firstSome, h0, hv])

/-- Without flag and environment variable, the config file is used. -/
theorem c36_file_wins (p : Params) (fl en cf r : Settings) (f : Field) (v : Val)
    (hf : f.plain = true) (hs : fieldSpec p fl en cf r f = true)
    (h0 : fl.getOpt f = none) (h1 : en.getOpt f = none) (hv : cf.getOpt f = some v) :
    r.getOpt f = some v :=
  c36_explicit_value_wins p fl en cf r f v hf hs (by simp [firstSome, h0, h1, hv])

/-- With no source, the built-in default. -/
theorem c36_default_used (p : Params) (fl en cf r : Settings) (f : Field)
    (hf : f.plain = true) (hs : fieldSpec p fl en cf r f = true)
    (h0 : fl.getOpt f = none) (h1 : en.getOpt f = none) (h2 : cf.getOpt f = none) :
    r.getOpt f = defaultOf p r f := by
  cases f <;> simp [Field.plain, Field.kind] at hf <;>
    simp [fieldSpec, Field.kind, firstSome, h0, h1, h2] at hs <;> exact hs

/-- A switch is on iff any source sets it. -/
theorem c36_switch_any (p : Params) (fl en cf r : Settings) (f : Field)
    (hf : f.kind = .switch) (hs : fieldSpec p fl en cf r f = true) :
    r.getSwitch f = (fl.getSwitch f || en.getSwitch f || cf.getSwitch f) := by
  simpa [fieldSpec, hf] using hs

/-- `hidden` is the union of all sources. -/
theorem c36_hidden_union (p : Params) (fl en cf r : Settings)
    (hs : fieldSpec p fl en cf r .hidden = true) (i : InscriptionId) :
    i ∈ r.getSet .hidden ↔ i ∈ fl.getSet .hidden ∨ i ∈ en.getSet .hidden ∨ i ∈ cf.getSet .hidden := by
  simp only [fieldSpec, Field.kind, Bool.and_eq_true, List.all_eq_true, Bool.or_eq_true,
    List.contains_iff_mem, List.mem_append] at hs
  constructor
  · intro h
    rcases hs.1.2 i h with (h | h) | h <;> simp [h]
  · intro h
    apply hs.2 i
    rcases h with h | h | h <;> simp [h]

/-- `data_dir`: the winning value (else `dirs::data_dir()/ord`) with the chain directory appended. -/
theorem c36_data_dir (p : Params) (fl en cf r : Settings)
    (hs : fieldSpec p fl en cf r .dataDir = true) :
    r.dataDir =
      (((fl.dataDir.or en.dataDir).or cf.dataDir).or (p.dataDir.map (joinRel · "ord"))).map
        (r.chain.getD .mainnet).joinWithDataDir := by
  simp only [fieldSpec, Field.kind, firstSome3, Settings.getOpt, Settings.get, beq_iff_eq] at hs
  rw [hs]
  cases fl.dataDir <;> cases en.dataDir <;> cases cf.dataDir <;> simp

/-- Which config file `merge` reads: `--config`, else `ORD_CONFIG`, else `ord.yaml` (if it exists)
in the first of `--config-dir`, `ORD_CONFIG_DIR`, `--data-dir`, `ORD_DATA_DIR`, default data dir. -/
theorem c36_config_route (p : Params) (fs : FileSystem) (fl en : Settings) (path : Option String)
    (h : configPath p fs (fl.or en) = .ok path) :
    match firstSome [fl.config, en.config] with
    | some c => path = some c
    | none =>
      ∃ dir, (match firstSome [fl.configDir, en.configDir, fl.dataDir, en.dataDir] with
              | some d => dir = d
              | none => defaultDataDir p = .ok dir) ∧
        path = if (fs (joinRel dir "ord.yaml")).exists then some (joinRel dir "ord.yaml") else none := by
  unfold configPath at h
  have hcfg : (fl.or en).config = fl.config.or en.config := rfl
  rw [hcfg] at h
  cases h1 : fl.config <;> cases h2 : en.config <;> simp only [h1, h2, firstSome, Option.or] at h ⊢
  · cases hd : configSearchDir p (fl.or en) with
    | error e => simp [hd] at h
    | ok dir =>
      simp only [hd, Except.ok.injEq, thenSome] at h
      exact ⟨dir, configSearchDir_ok p fl en dir hd, h.symm⟩
  all_goals (injection h with h; exact h.symm)

/-- A malformed environment variable makes `merge` fail even if a flag would override it
(documented behaviour; the precedence statements above are about successful merges). -/
theorem c36_env_error_blocks (p : Params) (fs : FileSystem) (o : Options) (env : EnvMap) (e : Err)
    (h : fromEnv env = .error e) : merge p fs o env = .error e := by
  simp [merge, h]

/-- `Settings::load` is `merge` on the `ORD_`-prefixed part of the process environment. -/
theorem c36_load (p : Params) (fs : FileSystem) (o : Options) (vars : List (String × String)) :
    load p fs o vars = merge p fs o (loadEnv vars) := rfl

/-- … where the value of key `K` is that of the last variable named exactly `ORD_K`. -/
theorem c36_load_env (vars : List (String × String)) (key : String) :
    loadEnv vars key = (vars.reverse.find? (fun kv => decide (kv.1 = "ORD_" ++ key))).map (·.2) :=
  loadEnv_eq vars key

/-! ## non-vacuity -/

section Examples

def exParams : Params := ⟨some "/h", some "/h/.local/share", 1000⟩
def exFile : Settings := { commitInterval := some 7, chain := some .signet, indexSats := true }
def exFs : FileSystem := fun path => if path = "/c.yaml" then .ok exFile else .absent
def exOpts : Options := { regtest := true, config := some "/c.yaml", indexRunes := true }
def exEnv : EnvMap := fun k => if k = "COMMIT_INTERVAL" then some "9" else if k = "CHAIN" then some "testnet" else none

/-- flag `--regtest` beats `ORD_CHAIN=testnet` beats `chain: signet`; `ORD_COMMIT_INTERVAL=9` beats
`commit_interval: 7`; the switches are the disjunction; defaults follow the resolved chain -/
example : ∃ r, merge exParams exFs exOpts exEnv = .ok r ∧ r.chain = some .regtest ∧
    r.commitInterval = some 9 ∧ r.indexSats = true ∧ r.indexRunes = true ∧ r.indexAddresses = false ∧
    r.maxSavepoints = some 2 ∧ r.config = none := by
  refine ⟨_, rfl, ?_⟩
  decide

/-- the result of the example merge, for the examples below -/
def exResult : Settings := match merge exParams exFs exOpts exEnv with | .ok r => r | .error _ => {}
def exEnvSettings : Settings := match fromEnv exEnv with | .ok e => e | .error _ => {}

-- hypotheses of `c36_precedence` and of its corollaries are met by the example, non-trivially:
example : merge exParams exFs exOpts exEnv = .ok exResult := rfl
example : ∀ f ∈ Field.all, fieldSpec exParams (fromOptions exOpts) exEnvSettings exFile exResult f = true := by decide
-- a flag wins (`chain`), the environment wins (`commit_interval`), the file wins … nothing here; a default is used
example : (fromOptions exOpts).getOpt .chain = some (.chain .regtest) ∧ exEnvSettings.getOpt .chain = some (.chain .testnet) ∧
    exFile.getOpt .chain = some (.chain .signet) ∧ exResult.getOpt .chain = some (.chain .regtest) := by decide
example : (fromOptions exOpts).getOpt .commitInterval = none ∧ exEnvSettings.getOpt .commitInterval = some (.num 9) ∧
    exFile.getOpt .commitInterval = some (.num 7) ∧ exResult.getOpt .commitInterval = some (.num 9) := by decide
example : exResult.getOpt .bitcoinRpcUrl = some (.text "127.0.0.1:18443") ∧
    exResult.getOpt .cookieFile = some (.text "/h/.bitcoin/regtest/.cookie") ∧
    exResult.getOpt .dataDir = some (.text "/h/.local/share/ord/regtest") ∧
    exResult.getOpt .index = some (.text "/h/.local/share/ord/regtest/index.redb") := by decide
-- the file wins when neither flag nor variable is given
example : ∃ r, merge exParams exFs { config := some "/c.yaml" } (fun _ => none) = .ok r ∧
    r.chain = some .signet ∧ r.commitInterval = some 7 ∧ r.bitcoinRpcUrl = some "127.0.0.1:38332" :=
  ⟨_, rfl, by decide⟩
-- hidden: union of environment and file, duplicates irrelevant
def idA : InscriptionId := ⟨"aa", 0⟩
def idB : InscriptionId := ⟨"bb", 1⟩
example : fieldSpec exParams {} { hidden := some [idA] } { hidden := some [idB, idA] }
    { hidden := some [idA, idB, idA] } .hidden = true := by decide
example : fieldSpec exParams {} { hidden := some [idA] } { hidden := some [idB, idA] }
    { hidden := some [idA] } .hidden = false := by decide
-- config lookup route: `ORD_CONFIG_DIR` is searched before `--data-dir`
example : configPath exParams (fun p => if p = "/e/ord.yaml" ∨ p = "/d/ord.yaml" then .ok {} else .absent)
    (Settings.or { dataDir := some "/d" } { configDir := some "/e" }) = .ok (some "/e/ord.yaml") := by rfl
-- `Settings::load` only looks at `ORD_`-prefixed variables (the last assignment counts)
example : loadEnv [("ORD_CHAIN", "signet"), ("ORDX_CHAIN", "regtest"), ("HOME", "/h"), ("ORD_CHAIN", "testnet4")] "CHAIN"
    = some "testnet4" := by decide
example : loadEnv [("ORDX_CHAIN", "regtest"), ("ord_CHAIN", "regtest")] "CHAIN" = none := by decide
example : (Field.all.filter Field.plain).length = 17 := by decide
example : G.orTable.length = 27 ∧ (G.orTable.filter (·.2.1 = .boolOr)).length = 6 ∧
    (G.orTable.filter (·.2.1 = .setUnion)).length = 1 := by decide
example : fromEnv (fun k => if k = "HTTP_PORT" then some "65536" else none) = .error (.envParse "HTTP_PORT") := by
  rfl
-- a malformed variable blocks the merge although the flag would override it
example : merge exParams exFs { exOpts with commitInterval := some 3 }
    (fun k => if k = "COMMIT_INTERVAL" then some "x" else none) = .error (.envParse "COMMIT_INTERVAL") := by rfl

end Examples

end Ord.Settings
