import OrdModel.Proofs.BuilderFull6
/-!
# C20 — ordinal-aware sends never misdirect or burn inscriptions; never panic

Property theorems only.  Model: `OrdModel/Wallet/Builder.lean` (`build` =
`TransactionBuilder::build_transaction`); helper lemmas: `OrdModel/Proofs/Builder*.lean`.

The theorems of the safety part hold for **every** fee function and dust function (`Env`), every
wallet state, request and target — no hypothesis at all.  The "never panics" clause is false of
the code: `c20_no_panic_fails_*` exhibit one concrete wallet state per panic site (each replayed
on the real builder by `corpus/C20/build.*.txt`).
-/
namespace Ord.Builder
open Ord Ord.Outcome

/-! ## Safety: what a returned transaction satisfies -/

/-- (a) The outgoing sat exists, its outpoint is spent exactly once, exactly one output pays the
recipient, and that output begins exactly at the outgoing sat's position in the concatenation
of the inputs: the outgoing sat is the first sat of the single recipient output (and the
output is non-empty). -/
theorem c20_outgoing_first_sat_of_recipient (env : Env) (w : Wallet) (r : Request) (tx : Tx)
    (h : build env w r = .ok tx) : PostA w r tx := by
  obtain ⟨s6, amount, hf, _, _, _, ha, hoff⟩ := build_ok_decompose h
  obtain ⟨_, h1, h2, h3, h4, _⟩ := buildFinal_ok hf
  exact ⟨by rw [inVal_of_lookup ha]; exact hoff, h1, h2, h3, h4⟩

/-- (c) No runic, locked or other inscribed output is spent besides the outgoing one: every
input other than the outgoing outpoint is a wallet UTXO that `select_cardinal_utxo` admits. -/
theorem c20_inputs_cardinal (env : Env) (w : Wallet) (r : Request) (tx : Tx)
    (h : build env w r = .ok tx) : PostC w r tx := by
  obtain ⟨s6, amount, hf, hin, _⟩ := build_ok_decompose h
  obtain ⟨rfl, _⟩ := buildFinal_ok hf
  exact hin

/-- (b) No other inscription goes to the recipient or into fees: every inscribed satpoint other
than the outgoing one that sits on a spent outpoint lands strictly before the recipient output,
i.e. inside an earlier output — which by (d) pays a change address. -/
theorem c20_other_inscriptions_stay (env : Env) (w : Wallet) (r : Request) (tx : Tx)
    (h : build env w r = .ok tx) : PostB w r tx := by
  have hA := c20_outgoing_first_sat_of_recipient env w r tx h
  have hC := c20_inputs_cardinal env w r tx h
  obtain ⟨s6, amount, _, _, _, hi, _, _⟩ := build_ok_decompose h
  intro sp hsp hmem hne
  have h1 : sp.1 = r.outgoing.1 := by
    rcases hC sp.1 hmem with h1 | ⟨_, hc⟩
    · exact h1
    · exfalso
      have : w.inscriptions.any (fun x => x.1 == sp.1) = true :=
        List.any_eq_true.2 ⟨sp, hsp, by simp⟩
      simp [isCardinal, this] at hc
  have h2 : sp.2 ≠ r.outgoing.2 := fun h2 => hne (Prod.ext h1 h2)
  have := inscriptionCheck_ok _ _ _ hi sp (List.mem_reverse.2 hsp) h1 h2
  rw [hA.2.2.2.1, h1]
  omega

/-- (d) Every output other than the recipient's is wallet change. -/
theorem c20_outputs_change_or_recipient (env : Env) (w : Wallet) (r : Request) (tx : Tx)
    (h : build env w r = .ok tx) : PostD r tx := by
  obtain ⟨s6, _, hf, _⟩ := build_ok_decompose h
  exact (buildFinal_ok hf).2.2.2.2.2.1

/-- (e) No output is below the dust value of its script. -/
theorem c20_no_dust (env : Env) (w : Wallet) (r : Request) (tx : Tx)
    (h : build env w r = .ok tx) : PostE env tx := by
  obtain ⟨s6, _, hf, _⟩ := build_ok_decompose h
  exact (buildFinal_ok hf).2.2.2.2.2.2.1

/-- (f) `Value(v)`: the recipient receives at least `v` (and at most `v` + the larger change
dust value + the fee of one extra output); `Postage`: at most `MAX_POSTAGE` + the fee of one extra
output; `ExactPostage(p)`: at most `p` + the fee of one extra output. -/
theorem c20_recipient_value (env : Env) (w : Wallet) (r : Request) (tx : Tx)
    (h : build env w r = .ok tx) : PostF env r tx := by
  obtain ⟨s6, _, hf, _⟩ := build_ok_decompose h
  exact (buildFinal_ok hf).2.2.2.2.2.2.2.1

/-- (g) The fee paid (inputs − outputs) is exactly the fee rate applied to the estimated
signed size. -/
theorem c20_fee_exact (env : Env) (w : Wallet) (r : Request) (tx : Tx)
    (h : build env w r = .ok tx) : PostG env w tx := by
  obtain ⟨s6, _, hf, _⟩ := build_ok_decompose h
  exact (buildFinal_ok hf).2.2.2.2.2.2.2.2

/-! ## Concrete wallet states (also used for non-vacuity) -/

def p2tr (i : Nat) : Script := { id := i, len := 34, opReturn := false, addr := true }
/-- the bare `OP_RETURN` script of `ord wallet burn` -/
def burnScript : Script := { id := 0, len := 1, opReturn := true, addr := false }
/-- a witness-v2 address with a 40-byte program (42-byte script) -/
def wit42 (i : Nat) : Script := { id := i, len := 42, opReturn := false, addr := true }
def dustOf (s : Script) : Nat := if s.opReturn then 0 else if s.len = 42 then 354 else 330
/-- `FeeRate(num/den).fee(n)`: `n·num/den` rounded half away from zero -/
def feeRat (num den : Nat) (n : Nat) : Nat := (2 * num * n + den) / (2 * den)
def envR (num den : Nat) : Env := { fee := feeRat num den, dust := dustOf }
def req (rcp : Script) (out : Nat × Nat) (t : Target) (c0 : Script := p2tr 1) : Request :=
  { outgoing := out, recipient := rcp, change0 := c0, change1 := p2tr 2, target := t }
def wal (am : List (Nat × Nat)) (ins : List (Nat × Nat) := []) : Wallet :=
  { amounts := am, inscriptions := ins, locked := [], runic := [] }

/-- non-vacuity of the safety theorems: a send of the inscription at offset 1000 of a 30 000 sat
UTXO that also carries an inscription at offset 100: padding output 1000 (keeps the other
inscription), recipient 10 000, change. -/
example : build (envR 1 1) (wal [(0, 30000), (1, 5000)] [(0, 100), (0, 1000)]) (req (p2tr 0) (0, 1000) .postage)
    = .ok { inputs := [0], outputs := [(p2tr 2, 1000), (p2tr 0, 10000), (p2tr 1, 18803)] } := by decide

/-- … and one that needs coin selection (two inputs) -/
example : build (envR 1 1) (wal [(0, 400), (1, 5000), (2, 700)] [(2, 0)]) (req (p2tr 0) (0, 0) (.value 2000))
    = .ok { inputs := [0, 1], outputs := [(p2tr 0, 2000), (p2tr 2, 3188)] } := by decide

/-! ## "It never panics" is false: one witness per panic site

Each is the wallet state of a `corpus/C20/build.*.txt` line (fee rates 1, 1000, 0.5, 0, 2.5,
0.01 sat/vB, whose real `FeeRate::fee` tables equal `feeRat` — checked by the corpus line
`builder.oracle.feeformula`). -/

/-- outgoing UTXO of value 0: `Error::OutOfRange(_, amount - 1)` underflows -/
theorem c20_no_panic_fails_sub_overflow :
    build (envR 1 1) (wal [(0, 0)]) (req (p2tr 0) (0, 0) .postage)
      = .panic "sub-overflow@select_outgoing" := by decide

/-- `deduct_fee`: `total_output_amount.checked_sub(fee).unwrap()` — the 57-vbyte per-input fee
estimate of `add_value` is below the real 57.5, so at 1000 sat/vB the selected inputs cannot pay -/
theorem c20_no_panic_fails_unwrap_deduct_fee :
    build (envR 1000 1) (wal [(1, 1299), (5, 80469), (7, 88294)]) (req (p2tr 0) (5, 0) (.value 546))
      = .panic "unwrap-none@deduct_fee" := by decide

theorem c20_no_panic_fails_dust :
    build (envR 1000 1) (wal [(0, 328), (3, 20191), (7, 169001)]) (req (p2tr 0) (0, 0) .postage)
      = .panic "inv:all_outputs_are_above_dust_limit" := by decide

/-- `ExactPostage(20000)` from a 20 183 sat UTXO at 0.5 sat/vB: the 127 sat excess is too small
to become a change output and larger than the tolerated slop -/
theorem c20_no_panic_fails_excess_postage :
    build (envR 1 2) (wal [(0, 20183)]) (req (p2tr 0) (0, 0) (.exact 20000))
      = .panic "inv:excess_postage_is_stripped" := by decide

/-- burning (`OP_RETURN` recipient skips the dust check) with a zero target -/
theorem c20_no_panic_fails_zero_burn :
    build (envR 0 1) (wal [(8, 546)]) (req burnScript (8, 0) (.exact 0))
      = .panic "inv:outgoing_sat_is_sent_to_recipient" := by decide

theorem c20_no_panic_fails_consume_sat :
    build (envR 1000 1) (wal [(2, 110327), (8, 19998), (12, 154997)] [(8, 2226), (8, 16554)])
        (req (p2tr 0) (8, 16554) .postage)
      = .panic "inv:deducting_fee_does_not_consume_sat" := by decide

/-- a change address whose output is larger than `ADDITIONAL_OUTPUT_VBYTES` (43) assumes -/
theorem c20_no_panic_fails_last_output :
    build (envR 1000 1) (wal [(0, 280002)]) (req (p2tr 0) (0, 68660) .postage (wit42 1))
      = .panic "inv:last_output_can_pay_fee" := by decide

/-- `Value(10000)`: the recipient ends up below the requested value -/
theorem c20_no_panic_fails_value_below_target :
    build (envR 5 2) (wal [(5, 10420), (8, 1)] [(8, 0)]) (req (p2tr 0) (8, 0) (.value 10000))
      = .panic "unwrap-none@build.value" := by decide

/-- rounding: `fee(111) + fee(43) < fee(154)` at 0.01 sat/vB -/
theorem c20_no_panic_fails_value_above_target :
    build (envR 1 100) (wal [(0, 662)]) (req (p2tr 0) (0, 0) (.value 330))
      = .panic "inv:output_equals_target_value" := by decide

/-! ## Partial no-panic results

`c20_no_panic_partial` for the whole pipeline is not proved (notes/C20.md).  Proved: the first
three stages (`select_outgoing`, `align_outgoing`, `pad_alignment_output`) cannot panic under
`WF12` (outgoing UTXO non-empty *or* the sub-overflow repair present; values are u64; inscription
offsets + dust do not overflow) and a no-overflow bound for padding. -/

theorem c20_no_panic_partial_stages123 (env : Env) (w : Wallet) (r : Request) (wf : WF12 env w r)
    (hv : ∀ u v, w.amounts.lookup u = some v → env.dust r.change0 + v < U64) (s : String) :
    stages123 env w r ≠ .panic s := by
  unfold stages123
  simp only [bind_def]
  intro h
  rcases bind_eq_panic.1 h with h | ⟨_, _, h⟩
  · exact precheck_no_panic env r s h
  rcases bind_eq_panic.1 h with h | ⟨s1, h1, h⟩
  · exact selectOutgoing_no_panic wf s h
  rcases bind_eq_panic.1 h with h | ⟨s2, h2, h⟩
  · exact alignOutgoing_no_panic wf h1 s h
  · exact padAlignmentOutput_no_panic wf hv h1 h2 s h

/-- Stages 1–4 never panic when, in addition, the wallet total is below 2^64 (the budget
invariant `outputs + unused utxos ≤ wallet total` excludes every `Amount` overflow, the
selection loops terminate within their fuel, no `unwrap`/index site is reachable).  No
hypothesis on the fee function at all. -/
theorem c20_no_panic_partial_stages1234 (env : Env) (w : Wallet) (r : Request) (wf : WF12 env w r)
    (hv : ∀ u v, w.amounts.lookup u = some v → env.dust r.change0 + v < U64)
    (htot : walletTotal w < U64) (s : String) :
    stages1234 env w r ≠ .panic s := by
  unfold stages1234
  simp only [bind_def]
  intro h
  rcases bind_eq_panic.1 h with h | ⟨s3, h3, h⟩
  · exact c20_no_panic_partial_stages123 env w r wf hv s h
  · unfold stages123 at h3
    simp only [bind_def] at h3
    obtain ⟨_, _, h3⟩ := bind_eq_ok.1 h3
    obtain ⟨s1, h1, h3⟩ := bind_eq_ok.1 h3
    obtain ⟨s2, h2, h3⟩ := bind_eq_ok.1 h3
    exact addValue_no_panic env w r s htot s3 (inv_after_stage3 wf h1 h2 h3) h

example : walletTotal (wal [(0, 30000), (1, 5000)] [(0, 100), (0, 1000)]) < U64 := by decide

/-- the hypotheses are satisfiable on the non-vacuity wallet above, and there the three stages
do real work (alignment output, no padding needed) -/
example : WF12 (envR 1 1) (wal [(0, 30000), (1, 5000)] [(0, 100), (0, 1000)]) (req (p2tr 0) (0, 1000) .postage) :=
  ⟨Or.inr (by decide), by decide, by decide⟩

/-! ## `c20_no_panic_partial`: the whole pipeline

Hypotheses: `WF` (well-formedness of the wallet abstraction: what a `BTreeMap` of `u64` amounts
and real change addresses satisfy anyway, plus "outgoing UTXO non-empty or repaired") and
`Funded`: the state produced by `add_value` satisfies the funding conditions `Cond`
(`Proofs/BuilderFull5.lean`), one field per remaining panic class.  Under them
`build_transaction` returns a transaction whenever `add_value` is reached and succeeds, and
never panics.  `c20_cond_*` below show on the `_fails` witnesses that each field is needed. -/

structure WF (env : Env) (w : Wallet) (r : Request) : Prop extends WF12 env w r where
  /-- `amounts` is a map -/
  keys_nodup : (w.amounts.map (·.1)).Nodup
  /-- the wallet total fits in a `u64` (total supply is below 2^51 sat) -/
  total_u64 : walletTotal w < U64
  /-- padding an alignment output cannot overflow -/
  pad_no_overflow : ∀ u v, w.amounts.lookup u = some v → env.dust r.change0 + v < U64
  /-- change scripts come from addresses: never `OP_RETURN` -/
  change0_not_opreturn : r.change0.opReturn = false
  change1_not_opreturn : r.change1.opReturn = false

/-- the funding conditions hold for the state `add_value` produces (`pre` = alignment output if
any, `R` = recipient output value, `c` = the change script `strip_value` would use) -/
def Funded (env : Env) (w : Wallet) (r : Request) : Prop :=
  ∀ s4 pre R c us, stages1234 env w r = .ok s4 → s4.outputs = pre ++ [(r.recipient, R)] →
    s4.unused = c :: us → Cond env r s4.inputs.length pre R c

/-- `build_transaction` = stages 1–4 followed by stages 5–7 -/
theorem build_eq (env : Env) (w : Wallet) (r : Request) :
    build env w r = Outcome.bind (stages1234 env w r) (tail567 env w r) := by
  unfold build stages1234 stages123 tail567
  simp only [bind_def]
  cases precheck env r <;> simp only [Outcome.bind]
  cases selectOutgoing env w r (initial w r) <;> simp only [Outcome.bind]
  rename_i s1
  cases alignOutgoing w r s1 <;> simp only [Outcome.bind]
  rename_i s2
  cases padAlignmentOutput env w r s2 <;> simp only [Outcome.bind]

/-- Under `WF` and `Funded`, once `add_value` has succeeded the remaining stages
(`strip_value`, `deduct_fee`, `build` with all its assertions) succeed. -/
theorem c20_ok_after_add_value (env : Env) (w : Wallet) (r : Request) (wf : WF env w r)
    (hf : Funded env w r) (s4 : St) (h4 : stages1234 env w r = .ok s4) :
    ∃ tx, build env w r = .ok tx := by
  have h4' := h4
  unfold stages1234 stages123 at h4
  simp only [bind_def] at h4
  obtain ⟨s3, h123, h4⟩ := bind_eq_ok.1 h4
  obtain ⟨_, hpre, h123⟩ := bind_eq_ok.1 h123
  obtain ⟨s1, h1, h123⟩ := bind_eq_ok.1 h123
  obtain ⟨s2, h2, h3⟩ := bind_eq_ok.1 h123
  have hd := precheck_distinct hpre wf.change0_not_opreturn wf.change1_not_opreturn
  obtain ⟨g, amount, ha, hoff⟩ := good_after_stage4 wf.toWF12 wf.keys_nodup hd.2.2 h1 h2 h3 h4
  obtain ⟨tx, htx⟩ := tail567_ok g wf.keys_nodup wf.total_u64 ha hoff hd.1 hd.2.1 hd.2.2
    (fun pre R c us ho hu => hf s4 pre R c us h4' ho hu)
  exact ⟨tx, by rw [build_eq, h4']; exact htx⟩

/-- **`build_transaction` never panics** under `WF` and `Funded`. -/
theorem c20_no_panic_partial (env : Env) (w : Wallet) (r : Request) (wf : WF env w r)
    (hf : Funded env w r) (s : String) : build env w r ≠ .panic s := by
  intro h
  have h' := h
  rw [build_eq] at h'
  rcases bind_eq_panic.1 h' with h4 | ⟨s4, h4, _⟩
  · exact c20_no_panic_partial_stages1234 env w r wf.toWF12 wf.pad_no_overflow wf.total_u64 s h4
  · obtain ⟨tx, htx⟩ := c20_ok_after_add_value env w r wf hf s4 h4
    rw [htx] at h; simp at h

/-! ### Each field of `Cond` is needed

For every `_fails` witness: `Funded` is false, and the decided fields of `Cond` on the state
after `add_value` (`condBits`, order: strip_no_overflow, slop_no_overflow, fee_lt_value,
change_pays_fee, target_pos, postage_cap, value_reached, value_not_above, no_dust).  Five
witnesses violate exactly one field; when the fee exceeds the recipient value (`fee_lt_value`
false) the fields about `R − fee` are false too (truncated subtraction). -/

theorem not_funded_of_bits {env : Env} {w : Wallet} {r : Request} {s4 : St} {pre : List TxOut}
    {R : Nat} {c : Script} {us : List Script} (h4 : stages1234 env w r = .ok s4)
    (ho : s4.outputs = pre ++ [(r.recipient, R)]) (hu : s4.unused = c :: us)
    (hb : condBits env r s4.inputs.length pre R c ≠ List.replicate 9 true) : ¬ Funded env w r :=
  fun hf => hb ((cond_iff_bits _ _ _ _ _ _).1 (hf s4 pre R c us h4 ho hu))

theorem c20_cond_needed_fee_lt_value_unwrap :
    ¬ Funded (envR 1000 1) (wal [(1, 1299), (5, 80469), (7, 88294)]) (req (p2tr 0) (5, 0) (.value 546)) ∧
    condBits (envR 1000 1) (req (p2tr 0) (5, 0) (.value 546)) 2 [] 168763 (p2tr 2)
      = [true, true, false, true, true, true, false, true, false] :=
  ⟨not_funded_of_bits (s4 := ⟨[1], [5, 7], [(p2tr 0, 168763)], [p2tr 2, p2tr 1]⟩) (pre := []) (by decide) rfl rfl
    (by decide), by decide⟩

theorem c20_cond_needed_fee_lt_value_consume_sat :
    ¬ Funded (envR 1000 1) (wal [(2, 110327), (8, 19998), (12, 154997)] [(8, 2226), (8, 16554)])
        (req (p2tr 0) (8, 16554) .postage) ∧
    condBits (envR 1000 1) (req (p2tr 0) (8, 16554) .postage) 3 [(p2tr 2, 16554)] 268768 (p2tr 1)
      = [true, true, false, true, true, true, true, true, false] :=
  ⟨not_funded_of_bits (s4 := ⟨[], [8, 12, 2], [(p2tr 2, 16554), (p2tr 0, 268768)], [p2tr 1]⟩)
    (pre := [(p2tr 2, 16554)]) (by decide) rfl rfl (by decide), by decide⟩

theorem c20_cond_needed_change_pays_fee :
    ¬ Funded (envR 1000 1) (wal [(0, 280002)]) (req (p2tr 0) (0, 68660) .postage (wit42 1)) ∧
    condBits (envR 1000 1) (req (p2tr 0) (0, 68660) .postage (wit42 1)) 1 [(p2tr 2, 68660)] 211342 (wit42 1)
      = [true, true, true, false, true, true, true, true, false] :=
  ⟨not_funded_of_bits (s4 := ⟨[], [0], [(p2tr 2, 68660), (p2tr 0, 211342)], [wit42 1]⟩)
    (pre := [(p2tr 2, 68660)]) (by decide) rfl rfl (by decide), by decide⟩

theorem c20_cond_needed_target_pos :
    ¬ Funded (envR 0 1) (wal [(8, 546)]) (req burnScript (8, 0) (.exact 0)) ∧
    condBits (envR 0 1) (req burnScript (8, 0) (.exact 0)) 1 [] 546 (p2tr 2)
      = [true, true, true, true, false, true, true, true, true] :=
  ⟨not_funded_of_bits (s4 := ⟨[], [8], [(burnScript, 546)], [p2tr 2, p2tr 1]⟩) (pre := []) (by decide) rfl rfl
    (by decide), by decide⟩

theorem c20_cond_needed_postage_cap :
    ¬ Funded (envR 1 2) (wal [(0, 20183)]) (req (p2tr 0) (0, 0) (.exact 20000)) ∧
    condBits (envR 1 2) (req (p2tr 0) (0, 0) (.exact 20000)) 1 [] 20183 (p2tr 2)
      = [true, true, true, true, true, false, true, true, true] :=
  ⟨not_funded_of_bits (s4 := ⟨[], [0], [(p2tr 0, 20183)], [p2tr 2, p2tr 1]⟩) (pre := []) (by decide) rfl rfl
    (by decide), by decide⟩

theorem c20_cond_needed_value_reached :
    ¬ Funded (envR 5 2) (wal [(5, 10420), (8, 1)] [(8, 0)]) (req (p2tr 0) (8, 0) (.value 10000)) ∧
    condBits (envR 5 2) (req (p2tr 0) (8, 0) (.value 10000)) 2 [] 10421 (p2tr 2)
      = [true, true, true, true, true, true, false, true, true] :=
  ⟨not_funded_of_bits (s4 := ⟨[], [8, 5], [(p2tr 0, 10421)], [p2tr 2, p2tr 1]⟩) (pre := []) (by decide) rfl rfl
    (by decide), by decide⟩

theorem c20_cond_needed_value_not_above :
    ¬ Funded (envR 1 100) (wal [(0, 662)]) (req (p2tr 0) (0, 0) (.value 330)) ∧
    condBits (envR 1 100) (req (p2tr 0) (0, 0) (.value 330)) 1 [] 662 (p2tr 2)
      = [true, true, true, true, true, true, true, false, true] :=
  ⟨not_funded_of_bits (s4 := ⟨[], [0], [(p2tr 0, 662)], [p2tr 2, p2tr 1]⟩) (pre := []) (by decide) rfl rfl
    (by decide), by decide⟩

theorem c20_cond_needed_no_dust :
    ¬ Funded (envR 1000 1) (wal [(0, 328), (3, 20191), (7, 169001)]) (req (p2tr 0) (0, 0) .postage) ∧
    condBits (envR 1000 1) (req (p2tr 0) (0, 0) .postage) 2 [] 169329 (p2tr 2)
      = [true, true, true, true, true, true, true, true, false] :=
  ⟨not_funded_of_bits (s4 := ⟨[3], [0, 7], [(p2tr 0, 169329)], [p2tr 2, p2tr 1]⟩) (pre := []) (by decide) rfl rfl
    (by decide), by decide⟩

/-- a monotone step fee function (no real `FeeRate` behaves like this below the total supply):
only used to show that the two overflow side conditions are needed -/
def feeStep (k big : Nat) (n : Nat) : Nat := if n ≤ k then 0 else big
def envStep (k big : Nat) : Env := { fee := feeStep k big, dust := dustOf }

theorem feeStep_mono (k big : Nat) : ∀ a b, a ≤ b → feeStep k big a ≤ feeStep k big b := by
  intro a b h
  unfold feeStep
  split <;> split <;> omega

/-- `strip_no_overflow` is needed: `dust + fee(vsize + 43)` overflows an `Amount` -/
theorem c20_cond_needed_strip_no_overflow :
    build (envStep 111 (2^64 - 1)) (wal [(0, 30000)]) (req (p2tr 0) (0, 0) .postage)
      = .panic "amount-add@strip_value" ∧
    condBits (envStep 111 (2^64 - 1)) (req (p2tr 0) (0, 0) .postage) 1 [] 30000 (p2tr 2)
      = [false, true, true, true, true, false, true, true, true] := by decide

/-- `slop_no_overflow` is needed: `MAX_POSTAGE + fee(43)` overflows an `Amount` -/
theorem c20_cond_needed_slop_no_overflow :
    build (envStep 42 (2^64 - 20000)) (wal [(0, 2^64 - 1)]) (req burnScript (0, 0) .postage)
      = .panic "amount-add@build.slop" ∧
    condBits (envStep 42 (2^64 - 20000)) (req burnScript (0, 0) .postage) 1 [] (2^64 - 1) (p2tr 2)
      = [true, false, true, true, true, true, true, true, true] := by decide

/-! ### Non-vacuity of `c20_no_panic_partial`: `WF` and `Funded` hold on the sample wallet -/

theorem lookup_mem_values : ∀ (l : List (Nat × Nat)) (u v : Nat), l.lookup u = some v → v ∈ l.map (·.2) := by
  intro l
  induction l with
  | nil => intro u v h; simp [List.lookup] at h
  | cons x rest ih =>
    intro u v h
    simp only [List.lookup] at h
    split at h
    · simp only [Option.some.injEq] at h; simp [h]
    · simp only [List.map_cons, List.mem_cons]; exact Or.inr (ih u v h)

example : WF (envR 1 1) (wal [(0, 30000), (1, 5000)] [(0, 100), (0, 1000)]) (req (p2tr 0) (0, 1000) .postage) :=
  { toWF12 := ⟨Or.inr (by decide), by decide, by decide⟩
    keys_nodup := by decide
    total_u64 := by decide
    pad_no_overflow := by
      intro u v h
      have := lookup_mem_values _ _ _ h
      simp only [wal, List.map_cons, List.map_nil, List.mem_cons, List.not_mem_nil, or_false] at this
      rcases this with rfl | rfl <;> decide
    change0_not_opreturn := rfl
    change1_not_opreturn := rfl }

example : Funded (envR 1 1) (wal [(0, 30000), (1, 5000)] [(0, 100), (0, 1000)]) (req (p2tr 0) (0, 1000) .postage) := by
  intro s4 pre R c us h4 ho hu
  have hs : stages1234 (envR 1 1) (wal [(0, 30000), (1, 5000)] [(0, 100), (0, 1000)]) (req (p2tr 0) (0, 1000) .postage)
      = .ok ⟨[1], [0], [(p2tr 2, 1000), (p2tr 0, 29000)], [p2tr 1]⟩ := by decide
  rw [hs] at h4
  simp only [Outcome.ok.injEq] at h4
  subst h4
  simp only [List.cons.injEq] at hu
  obtain ⟨rfl, rfl⟩ := hu
  have hsplit : [(p2tr 2, 1000), (p2tr 0, 29000)] = [(p2tr 2, 1000)] ++ [((req (p2tr 0) (0, 1000) .postage).recipient, 29000)] := rfl
  rw [hsplit] at ho
  obtain ⟨rfl, hx⟩ := List.append_inj' ho rfl
  simp only [List.cons.injEq, Prod.mk.injEq, and_true, true_and] at hx
  subst hx
  exact (cond_iff_bits _ _ _ _ _ _).2 (by decide)

/-! ## Observation: `ExactPostage(p)` bounds the recipient value only from above

Clause (f) of the property reads "at least the requested value (or, for postage, no more than the
postage cap plus one output's fee)": for the two postage targets it is an upper bound, which
`c20_recipient_value` proves.  It is *not* a lower bound: when `add_value` has to add inputs, its
57-vbyte estimate per input (real: 57.5) makes the recipient output fall short of `p`; `build`
asserts only `≤ p + slop` and the dust limit for this target.  So the observation is consistent
with the property's wording (no violation of C20), and is recorded with a witness (replayed on the
real builder by `corpus/C20/build.exact-postage-underpay.txt`). -/

/-- `ExactPostage(10000)` at 1000 sat/vB from UTXOs 100 000 and 78 001: the transaction is
returned and the recipient receives 9 001 sat -/
theorem c20_exact_postage_may_underpay :
    build (envR 1000 1) (wal [(0, 100000), (1, 78001)]) (req (p2tr 0) (0, 0) (.exact 10000))
      = .ok { inputs := [0, 1], outputs := [(p2tr 0, 9001)] } := by decide

/-- what *is* guaranteed from below for every target: the recipient output is not dust (e) and
is non-empty (a) -/
theorem c20_recipient_lower_bound (env : Env) (w : Wallet) (r : Request) (tx : Tx)
    (h : build env w r = .ok tx) : ∀ o ∈ tx.outputs, o.1 = r.recipient → env.dust o.1 ≤ o.2 :=
  fun o ho _ => c20_no_dust env w r tx h o ho

/-! ## The two proposed repairs (`notes/fix-C20-*.diff`), as flags of the model -/

def envFixed (num den : Nat) : Env := { envR num den with fixes := { subOverflow := true, zeroBurn := true } }

/-- with `amount.saturating_sub(1)` the zero-value witness is an ordinary error -/
theorem c20_fixed_sub_overflow :
    build (envFixed 1 1) (wal [(0, 0)]) (req (p2tr 0) (0, 0) .postage) = .err "OutOfRange" := by decide

/-- with the zero-target check a zero burn is refused for every wallet state -/
theorem c20_fixed_zero_burn (env : Env) (w : Wallet) (r : Request) (hfix : env.fixes.zeroBurn = true)
    (hc : r.change0 ≠ r.change1) (hop : r.recipient.opReturn = true)
    (ht : r.target = .value 0 ∨ r.target = .exact 0) : build env w r = .err "Dust" := by
  unfold build
  simp [precheck, hc, hop, hfix, ht, Outcome.bind]

example : build (envFixed 0 1) (wal [(8, 546)]) (req burnScript (8, 0) (.exact 0)) = .err "Dust" := by decide

/-- all witnesses use monotone fee functions -/
theorem feeRat_mono (num den : Nat) : ∀ a b, a ≤ b → feeRat num den a ≤ feeRat num den b := by
  intro a b h
  unfold feeRat
  apply Nat.div_le_div_right
  have := Nat.mul_le_mul_left (2 * num) h
  omega

end Ord.Builder
