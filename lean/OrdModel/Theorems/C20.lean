import OrdModel.Wallet.Builder
/-! # C20 — ordinal-aware sends (stub; theorems follow) -/
namespace Ord.Builder

theorem c20_stub : vsize 1 [] = 68 := by decide

end Ord.Builder
