import OrdModel.Proofs.TextDecimal
import OrdModel.Proofs.TextDecimalFixed
/-!
# C34 — Displayed rune amounts parse back to the same amount

Property theorems only.  Model: `OrdModel/Num/Decimal.lean` (`src/decimal.rs`, as it is),
`OrdModel/Num/Pile.lean` (number part of `Pile`'s Display); lemmas:
`OrdModel/Proofs/TextDigits.lean`, `OrdModel/Proofs/TextDecimal.lean`.

Clause 1 (print → parse → convert is the identity) holds in full.
Clause 2 (`to_integer` is exact or reports excess precision / overflow) holds in full for every
`Decimal` value; composed with **parsing of arbitrary decimal strings** it is false on the
unchanged tree (`from_str` accepts `1.+5` as 1.05 and panics on overflowing strings — the C31
decimal findings), so that composition is stated `_partial` with the guard explicit and the
failure is witnessed by `c34_parse_convert_exact_fails`.
-/
namespace Ord.Decimal
open Ord Ord.Text

/-- sequencing of `from_str` and `to_integer` as the callers do (`s.parse::<Decimal>()?.to_integer(d)`) -/
def parseToInteger (s : List Char) (d : Nat) : Outcome Nat :=
  match fromStr s with
  | .ok dec => toInteger dec d
  | .err e => .err e
  | .panic p => .panic p

/-- **Clause 1.** For every `u128` amount and every divisibility `0..=38`, the number `Pile`
prints parses back, at that divisibility, to the same amount. -/
theorem c34_print_parse_roundtrip (a d : Nat) (ha : a < 2 ^ 128) (hd : d ≤ 38) :
    ∃ s, Pile.printNumber a d = .ok s ∧ parseToInteger s d = .ok a := by
  have hp := pow_le_U128 hd
  obtain ⟨s, dec, h1, h2, h3, h4⟩ := fromStr_printScaled a d ha hp
  refine ⟨s, ?_, ?_⟩
  · unfold Pile.printNumber
    have : ¬ U128 ≤ 10 ^ d := by omega
    simp only [this, if_false, h1]
  · unfold parseToInteger
    rw [h2]
    unfold toInteger
    have c1 : ¬ d < dec.scale := by omega
    have hle : 10 ^ (d - dec.scale) ≤ 10 ^ d := Nat.pow_le_pow_right (by omega) (by omega)
    have c2 : ¬ U128 ≤ 10 ^ (d - dec.scale) := by omega
    have c3 : ¬ U128 ≤ a := by unfold U128; omega
    simp only [c1, c2, c3, if_false, h4]

/-- the printed number itself denotes `a / 10^d` in the independent grammar semantics -/
theorem c34_printed_denotes (a d : Nat) (ha : a < 2 ^ 128) (hd : d ≤ 38) :
    ∃ s num den, Pile.printNumber a d = .ok s ∧ Denotes s num den ∧ num * 10 ^ d = a * 10 ^ den := by
  have hp := pow_le_U128 hd
  obtain ⟨s, dec, h1, h2, h3, h4⟩ := fromStr_printScaled a d ha hp
  have hprint : Pile.printNumber a d = .ok s := by
    unfold Pile.printNumber
    have : ¬ U128 ≤ 10 ^ d := by omega
    simp only [this, if_false, h1]
  -- the printed fraction never starts with `+`: it is made of digits
  have hg : FractionUnsigned s := by
    intro i f hs hplus
    unfold printScaled at h1
    dsimp only at h1
    split at h1
    · simp only [Outcome.ok.injEq] at h1
      subst h1
      rw [splitOnce_of_not_mem _ (dot_not_mem_natDigits _)] at hs; cases hs
    · split at h1
      · rename_i f' w' hs'
        simp only [Outcome.ok.injEq] at h1
        subst h1
        rw [splitOnce_append _ _ (dot_not_mem_natDigits _)] at hs
        simp only [Option.some.injEq, Prod.mk.injEq] at hs
        obtain ⟨_, rfl⟩ := hs
        have hdig : allDigits (padZeros w' (natDigits f')) = true := by
          unfold padZeros
          rw [allDigits_append, allDigits_replicate_zero, (natDigits_spec f').1]; rfl
        cases hpz : padZeros w' (natDigits f') with
        | nil => rw [hpz] at hplus; simp at hplus
        | cons c cs =>
          rw [hpz] at hplus hdig
          simp at hplus; subst hplus
          rw [allDigits_cons] at hdig; simp [isDigit_plus] at hdig
      · cases h1
      · cases h1
  obtain ⟨num, den, hden, hv, _, _⟩ := fromStr_ok_denotes h2 hg
  refine ⟨s, num, den, hprint, hden, ?_⟩
  -- value · 10^den = num · 10^scale and value · 10^(d − scale) = a
  have hds : d = dec.scale + (d - dec.scale) := by omega
  rw [← h4, hds, Nat.pow_add]
  have : d - dec.scale + dec.scale - dec.scale = d - dec.scale := by omega
  simp only [Nat.add_sub_cancel_left]
  generalize 10 ^ (d - dec.scale) = K at *
  generalize 10 ^ dec.scale = S at *
  generalize 10 ^ den = D at *
  grind

/-- **Clause 2a.** `to_integer` never panics. -/
theorem c34_to_integer_total (dec : Dec) (d : Nat) (site : String) : toInteger dec d ≠ .panic site := by
  unfold toInteger
  repeat' split
  all_goals simp

/-- **Clause 2b.** An accepted conversion is exact: `v = value · 10^(d − scale)`, i.e.
`v / 10^d = value / 10^scale` with no rounding, and `v` fits in 128 bits. -/
theorem c34_to_integer_exact (dec : Dec) (d v : Nat) (h : toInteger dec d = .ok v) :
    dec.scale ≤ d ∧ v * 10 ^ dec.scale = dec.value * 10 ^ d ∧ v < 2 ^ 128 := by
  unfold toInteger at h
  split at h
  · cases h
  · split at h
    · cases h
    · split at h
      · cases h
      · rename_i h1 _ h3
        simp only [Outcome.ok.injEq] at h; subst h
        refine ⟨by omega, ?_, by unfold U128 at h3; omega⟩
        have : d = (d - dec.scale) + dec.scale := by omega
        conv => rhs; rw [this, Nat.pow_add]
        rw [Nat.mul_assoc]

/-- **Clause 2c.** Every rejection is one of the three documented errors and is justified:
excess precision only when the scale exceeds the divisibility, out-of-range only when the exact
result (or the power of ten needed to form it) does not fit in 128 bits. -/
theorem c34_to_integer_errors (dec : Dec) (d : Nat) (e : String) (h : toInteger dec d = .err e) :
    (e = "excessive precision" ∧ d < dec.scale) ∨
    (e = "divisibility out of range" ∧ dec.scale ≤ d ∧ 2 ^ 128 ≤ 10 ^ (d - dec.scale)) ∨
    (e = "amount out of range" ∧ dec.scale ≤ d ∧ 2 ^ 128 ≤ dec.value * 10 ^ (d - dec.scale)) := by
  unfold toInteger at h
  split at h
  · rename_i h1; simp only [Outcome.err.injEq] at h; exact Or.inl ⟨h.symm, h1⟩
  · split at h
    · rename_i h1 h2; simp only [Outcome.err.injEq] at h
      exact Or.inr (Or.inl ⟨h.symm, by omega, h2⟩)
    · split at h
      · rename_i h1 _ h3; simp only [Outcome.err.injEq] at h
        exact Or.inr (Or.inr ⟨h.symm, by omega, h3⟩)
      · cases h

/-- within the property's range of divisibilities (`0..=38`) and for scales a parse can produce,
`divisibility out of range` cannot occur: the only rejections are excess precision and
amount overflow -/
theorem c34_to_integer_errors_in_range (dec : Dec) (d : Nat) (hd : d ≤ 38) (e : String)
    (h : toInteger dec d = .err e) :
    (e = "excessive precision" ∧ d < dec.scale) ∨
    (e = "amount out of range" ∧ dec.scale ≤ d ∧ 2 ^ 128 ≤ dec.value * 10 ^ (d - dec.scale)) := by
  rcases c34_to_integer_errors dec d e h with h1 | ⟨_, _, h2⟩ | h3
  · exact Or.inl h1
  · have := pow_le_U128 (d := d - dec.scale) (by omega)
    unfold U128 at this; omega
  · exact Or.inr h3

/-- **Clause 2, composed with parsing — partial.**  Guard: the fractional part does not start
with `+` (`FractionUnsigned`).  Then whatever `from_str` accepts is a decimal of the grammar
denoting `num / 10^den`, and a successful conversion yields exactly `num / 10^den · 10^d`. -/
theorem c34_parse_convert_exact_partial (s : List Char) (d v : Nat) (hg : FractionUnsigned s)
    (h : parseToInteger s d = .ok v) :
    ∃ num den, Denotes s num den ∧ v * 10 ^ den = num * 10 ^ d ∧ v < 2 ^ 128 := by
  unfold parseToInteger at h
  cases hf : fromStr s with
  | err e => simp [hf] at h
  | panic e => simp [hf] at h
  | ok dec =>
    simp only [hf] at h
    obtain ⟨num, den, hden, hv, _, _⟩ := fromStr_ok_denotes hf hg
    obtain ⟨hsc, hex, hlt⟩ := c34_to_integer_exact dec d v h
    refine ⟨num, den, hden, ?_, hlt⟩
    -- v·10^scale = value·10^d, value·10^den = num·10^scale  ⟹  v·10^den = num·10^d
    have hpos : 0 < 10 ^ dec.scale := Nat.pow_pos (by omega)
    apply Nat.eq_of_mul_eq_mul_right hpos
    calc v * 10 ^ den * 10 ^ dec.scale = (v * 10 ^ dec.scale) * 10 ^ den := by grind
      _ = (dec.value * 10 ^ den) * 10 ^ d := by rw [hex]; grind
      _ = num * 10 ^ d * 10 ^ dec.scale := by rw [hv]; grind

/-- **Clause 2, composed with parsing — the full statement is false of the unchanged code.**
`"1.+5"` is not a decimal of the grammar, yet it is accepted (as 105/100) and converts to 105 at
divisibility 2. -/
theorem c34_parse_convert_exact_fails :
    parseToInteger "1.+5".toList 2 = .ok 105 ∧ ¬ ∃ num den, Denotes "1.+5".toList num den := by
  refine ⟨by decide, ?_⟩
  rintro ⟨num, den, h⟩
  have := (denotation?_iff _ num den).2 h
  revert this
  have : denotation? "1.+5".toList = none := by decide
  rw [this]; simp

/-- and a panic instead of an overflow error: `u128::MAX` followed by `.5` -/
theorem c34_parse_convert_total_fails :
    parseToInteger "340282366920938463463374607431768211455.5".toList 1 =
      .panic "mul@integer*10^scale" := by decide


/-! ## After `notes/fix-decimal.diff` (model `Num/Decimal_fixed.lean`): the full statements -/

def parseToIntegerFixed (s : List Char) (d : Nat) : Outcome Nat :=
  match DecimalFixed.fromStr s with
  | .ok dec => toInteger dec d
  | .err e => .err e
  | .panic p => .panic p

/-- clause 1 for the repaired parser -/
theorem c34_print_parse_roundtrip_fixed (a d : Nat) (ha : a < 2 ^ 128) (hd : d ≤ 38) :
    ∃ s, Pile.printNumber a d = .ok s ∧ parseToIntegerFixed s d = .ok a := by
  have hp := pow_le_U128 hd
  obtain ⟨s, dec, h1, h2, h3, h4⟩ := DecimalFixed.fromStr_printScaled a d ha hp
  refine ⟨s, ?_, ?_⟩
  · unfold Pile.printNumber
    have : ¬ U128 ≤ 10 ^ d := by omega
    simp only [this, if_false, h1]
  · unfold parseToIntegerFixed
    rw [h2]
    unfold toInteger
    have c1 : ¬ d < dec.scale := by omega
    have hle : 10 ^ (d - dec.scale) ≤ 10 ^ d := Nat.pow_le_pow_right (by omega) (by omega)
    have c2 : ¬ U128 ≤ 10 ^ (d - dec.scale) := by omega
    have c3 : ¬ U128 ≤ a := by unfold U128; omega
    simp only [c1, c2, c3, if_false, h4]

/-- clause 2 composed with parsing, **full** (every string), for the repaired parser: never a
panic; a successful conversion is exactly the denoted number of base units -/
theorem c34_parse_convert_exact_fixed (s : List Char) (d : Nat) :
    (∀ site, parseToIntegerFixed s d ≠ .panic site) ∧
    (∀ v, parseToIntegerFixed s d = .ok v →
      ∃ num den, Denotes s num den ∧ v * 10 ^ den = num * 10 ^ d ∧ v < 2 ^ 128) := by
  constructor
  · intro site
    unfold parseToIntegerFixed
    cases hf : DecimalFixed.fromStr s with
    | err e => simp
    | panic p => exact absurd hf (DecimalFixed.fromStr_ne_panic s p)
    | ok dec => exact c34_to_integer_total dec d site
  · intro v h
    unfold parseToIntegerFixed at h
    cases hf : DecimalFixed.fromStr s with
    | err e => simp [hf] at h
    | panic e => simp [hf] at h
    | ok dec =>
      simp only [hf] at h
      obtain ⟨num, den, hden, hv, _, _⟩ := DecimalFixed.fromStr_ok_denotes hf
      obtain ⟨hsc, hex, hlt⟩ := c34_to_integer_exact dec d v h
      refine ⟨num, den, hden, ?_, hlt⟩
      have hpos : 0 < 10 ^ dec.scale := Nat.pow_pos (by omega)
      apply Nat.eq_of_mul_eq_mul_right hpos
      calc v * 10 ^ den * 10 ^ dec.scale = (v * 10 ^ dec.scale) * 10 ^ den := by grind
        _ = (dec.value * 10 ^ den) * 10 ^ d := by rw [hex]; grind
        _ = num * 10 ^ d * 10 ^ dec.scale := by rw [hv]; grind

/-! Non-vacuity -/
example : Pile.printNumber 1100 3 = .ok "1.1".toList := by
  simp [Pile.printNumber, printScaled, stripZeros, padZeros, natDigits, digitChar, U128]
example : parseToInteger "1.1".toList 3 = .ok 1100 := by decide
example : Pile.printNumber (2 ^ 128 - 1) 38 = .ok "3.40282366920938463463374607431768211455".toList := by
  simp [Pile.printNumber, printScaled, stripZeros, padZeros, natDigits, digitChar, U128]
example : parseToInteger "3.40282366920938463463374607431768211455".toList 38 = .ok (2 ^ 128 - 1) := by decide
example : toInteger ⟨1, 1⟩ 0 = .err "excessive precision" := by decide
example : toInteger ⟨2 ^ 128 - 1, 0⟩ 1 = .err "amount out of range" := by decide
example : toInteger ⟨0, 0⟩ 255 = .err "divisibility out of range" := by decide
example : FractionUnsigned "123.456".toList := by
  intro i f h; have : splitOnce '.' "123.456".toList = some ("123".toList, "456".toList) := by decide
  rw [this] at h; simp only [Option.some.injEq, Prod.mk.injEq] at h; obtain ⟨_, rfl⟩ := h; decide
example : parseToInteger "123.456".toList 6 = .ok 123456000 := by decide
example : parseToIntegerFixed "123.456".toList 6 = .ok 123456000 := by decide
example : parseToIntegerFixed "1.+5".toList 2 = .err "invalid digit found in string" := by decide

end Ord.Decimal
