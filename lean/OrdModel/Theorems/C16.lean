import OrdModel.Index.Run
import OrdModel.Index.Valid
import OrdModel.Index.PanicSitesExpected
import OrdModel.Generated.PanicSites
/-
C16 — indexing a valid chain never fails.  Property statements only; lemmas are in
`OrdModel/Proofs/IndexMiscNoPanic*.lean`, the validity predicate in `OrdModel/Index/Valid.lean`.
-/
namespace Ord.Index
open Outcome

/-- Generated obligation: the inventory of potential failure sites re-derived from the source
text of /repo on this run equals the inventory the model was written against (each entry of
which is annotated with its model `panic` branch in `PanicSitesExpected.lean`). -/
theorem c16_gen_panic_sites : PanicSites.sites = PanicSitesExpected.expected := by rfl

end Ord.Index
