import OrdModel.Proofs.IndexMiscNoPanicChain
import OrdModel.Proofs.IndexMiscNoPanicSats
import OrdModel.Proofs.IndexMiscNoPanicInputs
import OrdModel.Proofs.IndexMiscNoPanicLift
import OrdModel.Proofs.IndexMiscNoPanicAll
import OrdModel.Proofs.IndexLiftNoPanicChain
import OrdModel.Index.PanicSitesExpected
import OrdModel.Generated.PanicSites
/-
C16 — indexing a valid chain never fails.  Property statements only; lemmas are in
`OrdModel/Proofs/IndexMiscNoPanic*.lean` (structural walk, rune side) and
`OrdModel/Proofs/IndexLiftNoPanic*.lean` (the lift: mid-block invariants and chain induction for the
sat / address / inscription pass), the validity predicate in `OrdModel/Index/Valid.lean`.

Full statement, PROVED below as `c16_no_failure` (and `c16_no_failure_isOk`):

  theorem c16_no_failure (chain : List Block) (h : Valid.validChain chain = true) (cfg : Cfg) :
      (∀ s, run cfg chain ≠ .panic s) ∧ (∀ e, run cfg chain ≠ .err e)

The older theorems are kept (names are listed in checks/C16.json): the `_partial` ones state what
was known before the lift (rune-only configurations; every configuration up to the 13 sites of
`utxoResidualSites`); `c16_no_failure_partial2` restates the every-configuration theorem with the
residual list of the lift, which is empty.
-/
namespace Ord.Index
open Outcome

/-- Generated obligation: the inventory of potential failure sites re-derived from the source
text of /repo on this run equals the inventory the model was written against (each entry of
which is annotated with its model `panic` branch in `PanicSitesExpected.lean`). -/
theorem c16_gen_panic_sites : PanicSites.sites = PanicSitesExpected.expected := by rfl

/-- One transaction through the rune updater, **any** index state: if the transaction satisfies
the stateless rules of `validChain` (edict outputs and pointer in range as `Runestone::decipher`
guarantees, node answers present), `index_runes` returns no error and can panic only at a
supply-conservation site. -/
theorem c16_rune_tx_partial (st : State) (blk : Block) (txIndex : Nat) (tx : Tx) (burned : Balances)
    (h : RuneSafe blk.height tx) :
    (∀ e, indexRunesTx st blk txIndex tx burned ≠ .err e) ∧
    (∀ s, indexRunesTx st blk txIndex tx burned = .panic s → s ∈ runeResidualSites) :=
  have w := indexRunesTx_within st blk txIndex tx burned h.1 h.2.1 h.2.2
  ⟨fun _ => w.not_err, fun _ hs => w.panic_mem hs⟩

/-- `_partial`: only for configurations in which inscriptions, sats and addresses are not indexed
(`applyBlock` then runs the rune updater only), and up to the three C08 sites. -/
theorem c16_no_failure_runes_partial (chain : List Block) (h : Valid.validChain chain = true)
    (cfg : Cfg) (hcfg : cfg.runesOnly) :
    (∀ e, run cfg chain ≠ .err e) ∧
    (∀ s, run cfg chain = .panic s → s ∈ runeResidualSites) :=
  have w := runFrom_runesOnly_within cfg hcfg chain {} (validChain_runeSafe chain h)
  ⟨fun _ => w.not_err, fun _ hs => w.panic_mem hs⟩

/-- A valid chain satisfies the hypotheses of the rune lift (C08 at chain level): blocks consecutive
from height 0 with at most 2^32 transactions, no txid twice, every etching's supply in range. -/
theorem c16_validChain_lotChainOK (chain : List Block) (h : Valid.validChain chain = true) :
    RuneLift.LotChainOK chain := validChain_lotChainOK chain h

/-- **FULL for rune-only configurations**: with only the rune index on, indexing a valid chain
neither returns an error nor panics.  (`c16_no_failure_runes_partial` leaves the three
supply-conservation sites; the rune lift `RuneLift.run_noLot_runesOnly` — C08 conservation in
every reachable state — excludes them.) -/
theorem c16_no_failure_runes (chain : List Block) (h : Valid.validChain chain = true)
    (cfg : Cfg) (hcfg : cfg.runesOnly) :
    (∀ e, run cfg chain ≠ .err e) ∧ (∀ s, run cfg chain ≠ .panic s) := by
  obtain ⟨he, hp⟩ := c16_no_failure_runes_partial chain h cfg hcfg
  refine ⟨he, fun s hs => ?_⟩
  have hmem := hp s hs
  have hno := RuneLift.run_noLot_runesOnly cfg hcfg chain (validChain_lotChainOK chain h) s hs
  exact hno (RuneLift.lotSites_eq ▸ hmem)

/-- The sat / address / inscription pass of one block — **any** state, block and configuration, no
validity hypothesis: never an `err`, and a panic only at one of the 13 sites of
`utxoResidualSites`. -/
theorem c16_utxo_pass_partial (cfg : Cfg) (st : State) (blk : Block) :
    (∀ e, indexUtxoEntries cfg st blk ≠ .err e) ∧
    (∀ s, indexUtxoEntries cfg st blk = .panic s → s ∈ utxoResidualSites) :=
  have w := indexUtxoEntries_U cfg st blk
  ⟨fun _ => w.not_err, fun _ hs => w.panic_mem hs⟩

/-- **Every configuration, `_partial`**: indexing a valid chain never returns an error, and can
panic only at a failure site of the sat / address / inscription pass (`utxoResidualSites`, 13
strings, each named with the invariant it needs in `Proofs/IndexMiscNoPanic.lean`).  The rune pass
of every block of a valid chain is proved to succeed (C08 lift + the stateless rules). -/
theorem c16_no_failure_partial (chain : List Block) (h : Valid.validChain chain = true) (cfg : Cfg) :
    (∀ e, run cfg chain ≠ .err e) ∧
    (∀ s, run cfg chain = .panic s → s ∈ utxoResidualSites) :=
  have w := run_U cfg chain h
  ⟨fun _ => w.not_err, fun _ hs => w.panic_mem hs⟩

/-- **What is left of C16, as one named hypothesis**: the full statement for a configuration follows
from `UtxoPassOk cfg chain` — the sat / address / inscription pass does not panic on the next block
from the state reached by indexing the blocks before it.  (Everything else — the rune pass of every
block, and the absence of errors — is proved from `validChain`.) -/
theorem c16_no_failure_of_utxo_pass (chain : List Block) (h : Valid.validChain chain = true) (cfg : Cfg)
    (hu : UtxoPassOk cfg chain) :
    (∀ s, run cfg chain ≠ .panic s) ∧ (∀ e, run cfg chain ≠ .err e) :=
  run_no_failure_of_utxoPassOk cfg chain h hu

/-- the hypothesis is satisfiable: on the example chain with every index on -/
example : (run ⟨true, true, true, true, true, 0, 0, 0⟩ [⟨0, 0, 11, 0,
    [⟨1, [⟨OutPoint.null, false, none, []⟩], [⟨5000000000, false, []⟩], [], none, 100⟩]⟩]).isOk = true := by decide

/-! ### the full statement (lift of the sat / address / inscription pass) -/

/-- **The first pass never fails on the next block of a valid chain**: for every configuration that
runs it (at least one of the inscription / address / sat indexes on), every split
`chain = pre ++ b :: suf` of a valid chain and every state reached by indexing `pre`,
`index_utxo_entries` on `b` does not panic — the hypothesis `UtxoPassOk` of
`c16_no_failure_of_utxo_pass`, discharged.  All 13 sites of `utxoResidualSites` are excluded: the two
`takeInputEntries` sites and `insufficient inputs` by the UTXO/value correspondence with
`Valid.spendInputs` / `conserves`, the three subtractions by `conserves` / `coinbaseWithinReward`,
`calculate_sat` by the offset bounds of new flotsam, the five entry lookups by `IdsOK` and the bound
on listed sequence numbers, the `i32` count by the envelope budget `< 2^31 - 1`. -/
theorem c16_utxo_pass_ok (chain : List Block) (h : Valid.validChain chain = true) (cfg : Cfg)
    (hcfg : NoPanic.FirstPassOn cfg) : UtxoPassOk cfg chain :=
  NoPanic.utxoPassOk_of_validChain cfg hcfg chain h

/-- The invariant behind it, for every reachable state of a valid chain: every output unspent
according to `validChain`'s own UTXO set is in the UTXO table with its value (sat ranges or stored
value) and, with the address index on, its script row; every listed sequence number and every
`id2seq` row points at an existing inscription entry; cursed + blessed ≤ envelopes seen. -/
theorem c16_boundary_invariant (chain : List Block) (cfg : Cfg) (hcfg : NoPanic.FirstPassOn cfg)
    (st : State) (evs : List Event) (hrun : run cfg chain = .ok (st, evs))
    (vs : Valid.VState) (hv : Valid.checkChain chain {} = some vs) : NoPanic.Bnd cfg vs st :=
  NoPanic.run_bnd cfg hcfg chain st evs hrun vs hv

/-- **C16, FULL, every configuration**: indexing a chain accepted by `validChain` neither panics nor
returns an error. -/
theorem c16_no_failure (chain : List Block) (h : Valid.validChain chain = true) (cfg : Cfg) :
    (∀ s, run cfg chain ≠ .panic s) ∧ (∀ e, run cfg chain ≠ .err e) := by
  by_cases hcfg : NoPanic.FirstPassOn cfg
  · exact c16_no_failure_of_utxo_pass chain h cfg (c16_utxo_pass_ok chain h cfg hcfg)
  · obtain ⟨he, hp⟩ := c16_no_failure_runes chain h cfg (NoPanic.runesOnly_of_not_firstPass cfg hcfg)
    exact ⟨hp, he⟩

/-- the same as a `Bool`: the run is `ok` -/
theorem c16_no_failure_isOk (chain : List Block) (h : Valid.validChain chain = true) (cfg : Cfg) :
    (run cfg chain).isOk = true := by
  obtain ⟨hp, he⟩ := c16_no_failure chain h cfg
  cases hr : run cfg chain with
  | ok r => rfl
  | err e => exact absurd hr (he e)
  | panic s => exact absurd hr (hp s)

/-- `c16_no_failure_partial` with the residual list of the lift — which is empty -/
theorem c16_no_failure_partial2 (chain : List Block) (h : Valid.validChain chain = true) (cfg : Cfg) :
    (∀ e, run cfg chain ≠ .err e) ∧
    (∀ s, run cfg chain = .panic s → s ∈ NoPanic.remainingSites) :=
  ⟨(c16_no_failure chain h cfg).2, fun s hs => absurd hs ((c16_no_failure chain h cfg).1 s)⟩

theorem c16_remaining_sites : NoPanic.remainingSites = [] := rfl

/-- Clause (b), all inputs: `index_transaction_sats` never hits `expect("insufficient inputs for
transaction outputs")` when the outputs claim at most the value of the input ranges. -/
theorem c16_sats_sufficient (values : List Nat) (ranges : List (Nat × Nat))
    (h : values.sum ≤ rangesValue ranges) : indexTransactionSats values ranges ≠ none := by
  obtain ⟨t, ht⟩ := indexTransactionSatsAux_some values 0 ranges h
  simp [indexTransactionSats, ht]

example : indexTransactionSats [3, 4] [(10, 12), (20, 30)] ≠ none :=
  c16_sats_sufficient _ _ (by decide)
/-- the hypothesis is needed: outputs above the input value do hit the `expect` -/
example : indexTransactionSats [3, 4] [(10, 12), (20, 24)] = none := by decide

/-- Clause (e), all inputs: `calculate_sat`'s `unreachable!()` is not reached (and nothing else
fails) when the offset lies inside the input ranges. -/
theorem c16_calculate_sat_ok (ranges : List (Nat × Nat)) (offset : Nat) (h : offset < rangesValue ranges) :
    (∀ s, calculateSat ranges 0 offset ≠ .panic s) ∧ (∀ e, calculateSat ranges 0 offset ≠ .err e) := by
  obtain ⟨n, hn⟩ := calculateSat_ok ranges 0 offset (Nat.zero_le _) (by omega)
  rw [hn]
  exact ⟨fun _ => by simp, fun _ => by simp⟩

example : calculateSat [(10, 12), (20, 30)] 0 5 = .ok 23 := by decide
/-- the hypothesis is needed -/
example : calculateSat [(10, 12)] 0 2 = .panic "calculate_sat: unreachable!()" := by decide

/-- Clause (c), all inputs: taking the spent entries of a transaction fails neither at
`assert!(!have_full_utxo_index())` nor at `panic!("script pubkey entry … not found")` when every
input is in the cache or in the table (with its address row when the address index is on) and
the transaction spends no outpoint twice.  The address-row hypothesis is the C17 rows invariant. -/
theorem c16_take_inputs_ok (cfg : Cfg) (ins : List TxIn) (bc : BlockCtx) (h : InputsPresent cfg bc ins) :
    (∀ s, takeInputEntries cfg ins bc [] ≠ .panic s) ∧ (∀ e, takeInputEntries cfg ins bc [] ≠ .err e) := by
  obtain ⟨r, hr⟩ := takeInputEntries_ok cfg ins bc [] h
  rw [hr]
  exact ⟨fun _ => by simp, fun _ => by simp⟩

def exampleBc : BlockCtx :=
  { st := { utxo := [(⟨7, 0⟩, ⟨5, [], [1], []⟩)], script2out := [([1], ⟨7, 0⟩)] },
    cache := [(⟨8, 1⟩, ⟨3, [], [], []⟩)], ins := default }

def addrCfg : Cfg := ⟨false, true, false, false, false, 0, 0, 0⟩

example : InputsPresent addrCfg exampleBc [⟨⟨8, 1⟩, false, none, []⟩, ⟨⟨7, 0⟩, false, none, []⟩] := by
  refine ⟨by decide, ?_⟩
  intro i hi
  simp only [List.mem_cons, List.not_mem_nil, or_false] at hi
  rcases hi with rfl | rfl
  · left; exact ⟨_, rfl⟩
  · right; exact ⟨rfl, _, rfl, fun _ => by decide⟩

/-- the hypotheses are needed: an absent input, and a table entry without its address row -/
example : takeInputEntries addrCfg [⟨⟨9, 9⟩, false, none, []⟩] exampleBc [] =
    .panic "assert!(!self.index.have_full_utxo_index())" := by rfl
example : takeInputEntries addrCfg [⟨⟨7, 0⟩, false, none, []⟩]
    { exampleBc with st := { exampleBc.st with script2out := [] } } [] = .panic "script pubkey entry not found" := by rfl
/-! ### non-vacuity -/

/-- a three-block chain: block 1 holds a transaction that spends the genesis coinbase, carries an
envelope and a runestone with an (unnamed) etching, a premine, an edict and a pointer; block 2
spends one of its outputs again with a mint and a split edict -/
def exampleChain : List Block :=
  let cb (txid : Nat) (v : Nat) : Tx :=
    ⟨txid, [⟨OutPoint.null, false, none, []⟩], [⟨v, false, []⟩], [], none, 100⟩
  let env : Envelope := ⟨0, 0, false, false, false, false, false, false, false, false, none, []⟩
  let etching : Etching := ⟨some 2, some 1000, none, none, none, some ⟨some 10, some 5, none, none, none, none⟩, false⟩
  [ ⟨0, 0, 11, 0, [cb 1 5000000000]⟩,
    ⟨1, 1, 12, 0, [cb 2 5000000500,
      ⟨3, [⟨⟨1, 0⟩, true, some 0, [[1, 2]]⟩], [⟨4999999000, false, []⟩, ⟨0, true, []⟩, ⟨500, false, []⟩], [env],
        some (.runestone [⟨⟨0, 0⟩, 300, 2⟩, ⟨⟨0, 0⟩, 0, 3⟩] (some etching) none (some 0)), 200⟩]⟩,
    ⟨2, 2, 13, 0, [cb 4 5000000000,
      ⟨5, [⟨⟨3, 2⟩, false, some 1, []⟩], [⟨250, false, []⟩, ⟨250, false, []⟩], [],
        some (.runestone [⟨⟨1, 1⟩, 7, 2⟩] none (some ⟨1, 1⟩) none), 150⟩]⟩ ]

def runesOnlyCfg : Cfg := ⟨false, false, false, false, true, 0, 0, 0⟩

/-- the hypothesis of the C16 theorems is satisfiable by a chain with an inscription and runestones -/
theorem c16_validChain_nonvacuous : Valid.validChain exampleChain = true := by decide

example : runesOnlyCfg.runesOnly := ⟨rfl, rfl, rfl⟩

/-- … and the model indexes it (runes on) without failing -/
example : (run runesOnlyCfg exampleChain).isOk = true := by decide

def allCfg : Cfg := ⟨true, true, true, true, true, 0, 0, 0⟩

/-- … and with every index on -/
example : (run allCfg exampleChain).isOk = true := by decide

/-- the full theorem applies to the example chain under every configuration; `allCfg` runs the first
pass, `runesOnlyCfg` does not (both branches of `c16_no_failure` are inhabited) -/
example (cfg : Cfg) : (run cfg exampleChain).isOk = true :=
  c16_no_failure_isOk exampleChain c16_validChain_nonvacuous cfg
example : NoPanic.FirstPassOn allCfg := rfl
example : ¬ NoPanic.FirstPassOn runesOnlyCfg := by unfold NoPanic.FirstPassOn; decide

/-- every transaction of the example satisfies the per-transaction hypothesis -/
example : ∀ b ∈ exampleChain, ∀ tx ∈ b.txs, RuneSafe b.height tx :=
  validChain_runeSafe exampleChain c16_validChain_nonvacuous

/-- the validity predicate is not trivially true: a double spend, an overspend, an edict beyond
the outputs and a missing node answer are each rejected -/
example : Valid.validChain (exampleChain ++ [⟨3, 3, 14, 0,
    [⟨6, [⟨OutPoint.null, false, none, []⟩], [⟨1, false, []⟩], [], none, 100⟩,
     ⟨7, [⟨⟨3, 2⟩, false, some 1, []⟩], [], [], none, 100⟩]⟩]) = false := by decide
example : Valid.validChain [⟨0, 0, 11, 0,
    [⟨1, [⟨OutPoint.null, false, none, []⟩], [⟨5000000001, false, []⟩], [], none, 100⟩]⟩] = false := by decide
example : Valid.validChain [⟨0, 0, 11, 0,
    [⟨1, [⟨OutPoint.null, false, none, []⟩], [⟨1, false, []⟩], [],
      some (.runestone [⟨⟨0, 0⟩, 1, 2⟩] none none none), 100⟩]⟩] = false := by decide

end Ord.Index
