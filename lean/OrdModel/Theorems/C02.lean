import OrdModel.Proofs.IndexSatsPartition
import OrdModel.Proofs.IndexSatsArith
import OrdModel.Proofs.IndexSatsRange
import OrdModel.Proofs.IndexSatsBlock
import OrdModel.Proofs.IndexSatsTx
import OrdModel.Index.Run
import OrdModel.Proofs.IndexSatsWitness
import OrdModel.Proofs.IndexLiftSatBlock
import OrdModel.Proofs.IndexLiftSatExactChain
import OrdModel.Proofs.IndexLiftSatRare
import OrdModel.Proofs.IndexLiftSatRowsChain
import OrdModel.Proofs.IndexLiftSatRange
/-!
# C02 — every mined sat is in exactly one place and all sat lookups agree

Property theorems only.  Models: `OrdModel/Index/Find.lean` (`Index::find`, `find_range`, `list`,
`rare_sat_satpoints`), `OrdModel/Index/Block.lean` (the updater).  The invariant is
`SatsPartitioned` (Proofs/IndexSatsPartition.lean): the ordinals denoted by the ranges of all
table entries (null outpoint included) are pairwise distinct, all mined, all ranges non-empty;
`SatsPartitionedExact` adds "… and they are all of `0 … startingSat height - 1`" (chains without
duplicate txids).  `SatAt u s ⟨outpoint, offset⟩` = sat `s` is the `offset`-th sat of the entry
stored under `outpoint`.

Status (see notes/C02.md): the lookup clauses are proved for *every* state satisfying the
invariant; the invariant itself is proved for the empty index and checked on the implementation's
own table after every block by `partitionOracle`, whose soundness with respect to the invariant
is `c02_partition_oracle_sound`; its preservation by the real `applyBlock` and hence its validity
in every reachable state of the full index model is proved for EVERY configuration with the sat
index on (`c02_reachable_partitioned`; the sat frame of the inscription and rune updaters is
`c02_sat_frame_inscriptions` / `c02_sat_frame_runes`, Proofs/IndexLiftSat*.lean).  The older
`…_partial` versions (inscription and rune indexes off) are kept as corollaries.
-/
namespace Ord.Index
open Outcome

/-! ## `find` -/

/-- On a partitioned table, `find` answers exactly the place of every mined sat:
`find s = some p` iff `s` is the sat at `p`.  (`hh`: the sat's block is indexed, which is what
`find` checks first; `hs`: the sat is below the supply, beyond it `Sat::height` divides by zero.) -/
theorem c02_find_exact (st : State) (inv : SatsPartitioned st) (sat : Nat) (p : SatPoint)
    (hs : epochSubsidy (satEpoch sat) ≠ 0) (hh : satHeight sat < st.height) :
    find st sat = .ok (some p) ↔ SatAt st.utxo sat p := by
  have hn : ¬ st.height ≤ satHeight sat := by omega
  simp only [find, satHeightO, hs, if_false, hn, Outcome.ok.injEq]
  exact findInUtxo_iff inv.nodup p

/-- The full equivalence, with no side condition on the sat: on a partitioned state `find`
answers `some p` exactly for the sat sitting at `p` — every sat of the partition is mined
(`SatsPartitioned.mined`), hence below the supply and of an indexed height, so `find`'s height
check lets it through. -/
theorem c02_find_iff (st : State) (inv : SatsPartitioned st) (sat : Nat) (p : SatPoint) :
    find st sat = .ok (some p) ↔ SatAt st.utxo sat p := by
  constructor
  · intro h
    simp only [find, satHeightO] at h
    split at h
    · cases h
    · cases h
    · split at h
      · cases h
      · simp only [Outcome.ok.injEq] at h; exact findInUtxo_sound h
  · intro h
    obtain ⟨e, hm, hs⟩ := h
    have hmem : sat ∈ allSats st.utxo := mem_allSats.mpr ⟨_, e, hm, List.mem_of_getElem? hs⟩
    obtain ⟨h1, h2⟩ := satHeight_lt_of_lt_startingSat sat st.height (inv.mined sat hmem)
    exact (c02_find_exact st inv sat p h1 h2).mpr ⟨e, hm, hs⟩

/-- … and `none` iff the sat is in no entry (destroyed by a duplicate txid). -/
theorem c02_find_none (st : State) (sat : Nat)
    (hs : epochSubsidy (satEpoch sat) ≠ 0) (hh : satHeight sat < st.height) :
    find st sat = .ok none ↔ sat ∉ allSats st.utxo := by
  have hn : ¬ st.height ≤ satHeight sat := by omega
  simp only [find, satHeightO, hs, if_false, hn, Outcome.ok.injEq]
  exact findInUtxo_none

/-- Without duplicate txids every mined sat is found (and, by `c02_find_iff`, at its place). -/
theorem c02_find_mined_found (st : State) (inv : SatsPartitionedExact st) (sat : Nat)
    (h : sat < startingSat st.height) : ∃ p, find st sat = .ok (some p) ∧ SatAt st.utxo sat p := by
  have hmem : sat ∈ allSats st.utxo := inv.perm.mem_iff.mpr (List.mem_range.mpr h)
  cases hf : findInUtxo sat st.utxo with
  | none => exact absurd hmem (findInUtxo_none.mp hf)
  | some p =>
    have hat := findInUtxo_sound hf
    exact ⟨p, (c02_find_iff st inv.toSatsPartitioned sat p).mpr hat, hat⟩

/-- Sats of blocks not yet indexed are reported as not found. -/
theorem c02_find_unmined (st : State) (sat : Nat)
    (hs : epochSubsidy (satEpoch sat) ≠ 0) (hh : st.height ≤ satHeight sat) :
    find st sat = .ok none := by
  simp [find, satHeightO, hs, hh]

/-- `find` never panics below the supply. -/
theorem c02_find_total (st : State) (sat : Nat) (hs : epochSubsidy (satEpoch sat) ≠ 0) :
    ∃ r, find st sat = .ok r := by
  simp only [find, satHeightO, hs, if_false]
  split <;> exact ⟨_, rfl⟩

/-- The real `find` scans the table in redb key order, the model in insertion order: on a table
without duplicate sats the scan order cannot be observed. -/
theorem c02_find_order_irrelevant (st : State) (inv : SatsPartitioned st) (sat : Nat)
    (u : List (OutPoint × UtxoEntry)) (hu : u.Perm st.utxo) :
    findInUtxo sat u = findInUtxo sat st.utxo :=
  findInUtxo_perm hu ((allSats_perm hu).nodup_iff.mpr inv.nodup)

/-- A sat has at most one place. -/
theorem c02_place_unique (st : State) (inv : SatsPartitioned st) (sat : Nat) (p q : SatPoint)
    (hp : SatAt st.utxo sat p) (hq : SatAt st.utxo sat q) : p = q := by
  have h1 := findInUtxo_complete inv.nodup hp
  have h2 := findInUtxo_complete inv.nodup hq
  rw [h1] at h2; exact Option.some.inj h2

/-! ## `find_range` -/

/-- Every hit `find_range` returns is a genuine overlap: `size` consecutive sats starting at
`start`, inside the requested range, sitting at consecutive offsets of the reported satpoint;
the sizes never exceed the requested length.  (`_partial`: this is the soundness half, on every
state; the completeness half is `c02_find_range_complete` / `c02_find_range_mined_covered`.) -/
theorem c02_find_range_sound_partial (st : State) (rs re : Nat) (hits : List FindRangeOutput)
    (h : findRange st rs re = .ok (some hits)) :
    rs ≤ re ∧ (hits.map (·.size)).sum ≤ re - rs ∧ ∀ x ∈ hits, HitAt rs re st.utxo x := by
  simp only [findRange] at h
  split at h
  · cases h
  · split at h
    · cases h
    · cases h
    · split at h
      · cases h
      · split at h
        · cases h
        · rename_i hle
          split at h
          · rename_i hs hrec
            simp only [Outcome.ok.injEq, Option.some.injEq] at h
            subst h
            have hle' : rs ≤ re := by omega
            obtain ⟨h1, h2⟩ := findRangeUtxo_sound rs re hle' st.utxo (re - rs) hs hrec
            exact ⟨hle', h1, h2⟩
          · cases h
          · cases h

/-- **Completeness of `find_range`** on every partitioned table (every reachable state,
`c02_reachable_partitioned`): for a request whose last sat is of an indexed height, `find_range`
does not trip over its `remaining_sats` accounting (the `-=` never underflows, the `break` skips
nothing) and the sizes of the hits it returns add up to the number of table sats inside the
request.  With soundness (`c02_find_range_sound_partial`: every hit is a genuine overlap, inside
the request, at the reported satpoint) this is "all overlaps are returned". -/
theorem c02_find_range_complete (st : State) (inv : SatsPartitioned st) (rs re : Nat) (hle : rs ≤ re)
    (h0 : re ≠ 0) (hs : epochSubsidy (satEpoch (re - 1)) ≠ 0) (hh : satHeight (re - 1) < st.height) :
    ∃ hits, findRange st rs re = .ok (some hits) ∧
      (hits.map (·.size)).sum = ((allSats st.utxo).filter (fun x => decide (rs ≤ x ∧ x < re))).length ∧
      ∀ x ∈ hits, HitAt rs re st.utxo x := by
  obtain ⟨hits, hf, hsum⟩ := findRange_complete st inv rs re hle h0 hs hh
  exact ⟨hits, hf, hsum, (c02_find_range_sound_partial st rs re hits hf).2.2⟩

/-- … and on an exactly partitioned table (chains without duplicate txids,
`c02_reachable_exact`) a non-empty request of mined sats is covered completely: the sizes of the
hits add up to the length of the request. -/
theorem c02_find_range_mined_covered (st : State) (inv : SatsPartitionedExact st) (rs re : Nat) (hlt : rs < re)
    (hm : re ≤ startingSat st.height) :
    ∃ hits, findRange st rs re = .ok (some hits) ∧ (hits.map (·.size)).sum = re - rs ∧
      ∀ x ∈ hits, HitAt rs re st.utxo x := by
  obtain ⟨hits, hf, hsum⟩ := findRange_exact st inv rs re hlt hm
  exact ⟨hits, hf, hsum, (c02_find_range_sound_partial st rs re hits hf).2.2⟩

/-- A range reaching into a block that is not indexed yet is reported as not found. -/
theorem c02_find_range_unmined (st : State) (rs re : Nat) (h0 : re ≠ 0)
    (hs : epochSubsidy (satEpoch (re - 1)) ≠ 0) (hh : st.height ≤ satHeight (re - 1)) :
    findRange st rs re = .ok none := by
  have : st.height < satHeight (re - 1) + 1 := by omega
  simp [findRange, h0, satHeightO, hs, this]

/-! ## `list` -/

/-- `list` returns exactly the ranges of the entry (and nothing without the sat index). -/
theorem c02_list (cfg : Cfg) (st : State) (op : OutPoint) (rs : Ranges) :
    list cfg st op = some rs ↔ cfg.indexSats = true ∧ ∃ e, AL.get st.utxo op = some e ∧ e.ranges = rs := by
  unfold list
  cases cfg.indexSats <;> simp

/-! ## the partition oracle evaluated on the implementation's table -/

/-- If `partitionOracle height rows []` answers `true` for a table's rows then the table is
partitioned exactly: the sats of all rows are a permutation of `0 … startingSat height - 1`, no
sat occurs twice, every range is non-empty and every entry holds exactly its output's value. -/
theorem c02_partition_oracle_sound (height : Nat) (rows : List PRow)
    (h : partitionOracle height rows [] = true) :
    (den (rows.flatMap (·.ranges))).Perm (List.range (startingSat height)) ∧
    (den (rows.flatMap (·.ranges))).Nodup ∧ WF (rows.flatMap (·.ranges)) ∧
    ∀ r ∈ rows, (den r.ranges).length = r.value := by
  simp only [partitionOracle, List.append_nil, Bool.and_eq_true, List.all_eq_true, beq_iff_eq] at h
  obtain ⟨hv, hc⟩ := h
  obtain ⟨h1, h2, h3⟩ := chainFrom_sorted_perm hc
  exact ⟨h1, h2, h3, fun r hr => by rw [den_length]; exact hv r hr⟩

/-! ## preservation -/

/-- The empty index is partitioned. -/
theorem c02_initial : SatsPartitionedExact ({} : State) := satsPartitioned_empty

/-- **Sat frame, inscription updater**: `index_inscriptions` for one transaction (with
everything under it: `update_inscription_location`, parent links, lost / carried flotsam)
changes neither OUTPOINT_TO_UTXO_ENTRY, SAT_TO_SATPOINT, the height nor the LostSats statistic,
leaves value / sat ranges / script of the output entries it is handed alone (it only pushes
`(sequence number, offset)` pairs), and never gives the special-outpoint entries of the block
sat ranges. -/
theorem c02_sat_frame_inscriptions (cfg : Cfg) (height time : Nat) (tx : Tx) (inputs : List (TxIn × UtxoEntry))
    (ir : Option (List (Nat × Nat))) (ls ls' : LocState)
    (h : indexInscriptions cfg height time tx inputs ir ls = .ok ls') :
    ls'.st.utxo = ls.st.utxo ∧ ls'.st.sat2sp = ls.st.sat2sp ∧ ls'.st.height = ls.st.height ∧
    ls'.st.lostSats = ls.st.lostSats ∧ ls'.outs.map (·.ranges) = ls.outs.map (·.ranges) ∧
    (NoRanges ls.ctx → NoRanges ls'.ctx) := by
  have f := indexInscriptions_satSame _ _ _ _ _ _ _ _ h
  exact ⟨f.utxo, f.sat2sp, f.height, f.lostSats,
    map_ranges_of_base (indexInscriptions_frame _ _ _ _ _ _ _ _ h).2.2.1,
    indexInscriptions_noRanges _ _ _ _ _ _ _ _ h⟩

/-- **Sat frame, rune updater**: `index_runes` over a whole block touches none of them. -/
theorem c02_sat_frame_runes (st : State) (blk : Block) (st' : State) (evs : List Event)
    (h : indexRunesBlock st blk = .ok (st', evs)) :
    st'.utxo = st.utxo ∧ st'.sat2sp = st.sat2sp ∧ st'.height = st.height ∧ st'.lostSats = st.lostSats := by
  have f := indexRunesBlock_satSame _ _ _ h
  exact ⟨f.utxo, f.sat2sp, f.height, f.lostSats⟩

/-- **The invariant holds in every reachable state of the full index model** — after every
prefix of every chain the indexer accepts (any transactions, same-block spends, underpaying
coinbases, duplicate txids, inscriptions, runes), for every configuration with the sat index on
(inscription / rune / address / transaction indexes on or off, any first-inscription and
first-rune heights).  The proof goes through the real `applyBlock`: `takeInputEntries`,
`indexTransactionSats`, the inscription pass (frame), the cache writes (`AL.set`, which may
displace), the coinbase last, lost ranges merged into the null outpoint together with the lost
inscriptions, `flushCache`, the rune pass (frame). -/
theorem c02_reachable_partitioned (cfg : Cfg) (hs : cfg.indexSats = true)
    (chain : List Block) (hc : ChainHeights chain) (st : State) (evs : List Event)
    (h : run cfg chain = .ok (st, evs)) : SatsPartitioned st ∧ st.height = chain.length :=
  reachable_partition_full cfg hs chain hc st evs h

/-- … hence in every such state `find` is exact. -/
theorem c02_reachable_find (cfg : Cfg) (hs : cfg.indexSats = true)
    (chain : List Block) (hc : ChainHeights chain) (st : State) (evs : List Event)
    (h : run cfg chain = .ok (st, evs)) (sat : Nat) (p : SatPoint) :
    find st sat = .ok (some p) ↔ SatAt st.utxo sat p :=
  c02_find_iff st (reachable_partition_full cfg hs chain hc st evs h).1 sat p

/-- One block step of the same (any state satisfying the invariant, not only reachable ones). -/
theorem c02_block_preserves_partition (cfg : Cfg) (hs : cfg.indexSats = true) (st : State) (blk : Block)
    (st' : State) (evs : List Event) (hh : blk.height = st.height) (inv : SatsPartitioned st)
    (h : applyBlock cfg st blk = .ok (st', evs)) : SatsPartitioned st' ∧ st'.height = st.height + 1 :=
  applyBlock_partition_full cfg hs st blk st' evs hh inv h

/-- **Exact partition**: on a chain without duplicate txids (`ChainFresh`: every block has a
coinbase, txids are non-zero, pairwise distinct and never reused) nothing is ever displaced,
so in every reachable state the sats held by the table — null outpoint included — are not only
pairwise distinct but *all* of `0 … startingSat height − 1`: a permutation of the sats mined so
far.  Any configuration with the sat index on. -/
theorem c02_reachable_exact (cfg : Cfg) (hs : cfg.indexSats = true)
    (chain : List Block) (hc : ChainHeights chain) (hf : ChainFresh [] chain) (st : State) (evs : List Event)
    (h : run cfg chain = .ok (st, evs)) :
    (allSats st.utxo).Nodup ∧ (allSats st.utxo).Perm (List.range (startingSat st.height)) ∧
    WF (allRanges st.utxo) ∧ st.height = chain.length := by
  obtain ⟨inv, hl⟩ := reachable_exact cfg hs chain hc hf st evs h
  exact ⟨inv.nodup, inv.perm, inv.wf, hl⟩

/-- … hence every sat mined so far is found, at its place, and no other. -/
theorem c02_reachable_find_mined (cfg : Cfg) (hs : cfg.indexSats = true)
    (chain : List Block) (hc : ChainHeights chain) (hf : ChainFresh [] chain) (st : State) (evs : List Event)
    (h : run cfg chain = .ok (st, evs)) (sat : Nat) (hm : sat < startingSat st.height) :
    ∃ p, find st sat = .ok (some p) ∧ SatAt st.utxo sat p ∧ ∀ q, SatAt st.utxo sat q → q = p := by
  obtain ⟨inv, _⟩ := reachable_exact cfg hs chain hc hf st evs h
  obtain ⟨p, h1, h2⟩ := c02_find_mined_found st inv sat hm
  exact ⟨p, h1, h2, fun q hq => c02_place_unique st inv.toSatsPartitioned sat q p hq h2⟩

/-- One block step of the exact invariant: fresh txids, nothing displaced. -/
theorem c02_block_preserves_exact (cfg : Cfg) (hs : cfg.indexSats = true) (st : State) (blk : Block)
    (seen : List Txid) (st' : State) (evs : List Event) (hh : blk.height = st.height)
    (inv : SatsPartitionedExact st) (hprov : TblProv seen st.utxo) (hb : BlockFresh seen blk)
    (h : applyBlock cfg st blk = .ok (st', evs)) :
    SatsPartitionedExact st' ∧ TblProv (blk.txs.map (·.txid) ++ seen) st'.utxo :=
  let r := applyBlock_exact cfg hs st blk seen st' evs hh inv hprov hb h
  ⟨r.1, r.2.1⟩

/-- (kept for the record: the earlier version with the inscription and rune indexes off; now a
corollary of `c02_reachable_partitioned`) -/
theorem c02_reachable_partitioned_partial (cfg : Cfg) (hs : cfg.indexSats = true)
    (_hi : cfg.indexInscriptions = false) (_hr : cfg.indexRunes = false)
    (chain : List Block) (hc : ChainHeights chain) (st : State) (evs : List Event)
    (h : run cfg chain = .ok (st, evs)) : SatsPartitioned st ∧ st.height = chain.length :=
  c02_reachable_partitioned cfg hs chain hc st evs h

/-- (corollary of `c02_reachable_find`) -/
theorem c02_reachable_find_partial (cfg : Cfg) (hs : cfg.indexSats = true)
    (_hi : cfg.indexInscriptions = false) (_hr : cfg.indexRunes = false)
    (chain : List Block) (hc : ChainHeights chain) (st : State) (evs : List Event)
    (h : run cfg chain = .ok (st, evs)) (sat : Nat) (p : SatPoint) :
    find st sat = .ok (some p) ↔ SatAt st.utxo sat p :=
  c02_reachable_find cfg hs chain hc st evs h sat p

/-- (corollary of `c02_block_preserves_partition`) -/
theorem c02_block_preserves_partition_partial (cfg : Cfg) (hs : cfg.indexSats = true)
    (_hi : cfg.indexInscriptions = false) (_hr : cfg.indexRunes = false) (st : State) (blk : Block)
    (st' : State) (evs : List Event) (hh : blk.height = st.height) (inv : SatsPartitioned st)
    (h : applyBlock cfg st blk = .ok (st', evs)) : SatsPartitioned st' ∧ st'.height = st.height + 1 :=
  c02_block_preserves_partition cfg hs st blk st' evs hh inv h

/-- One transaction permutes sats: the ordinals of its outputs, in order, followed by the
leftover are the ordinals of its inputs; so distinctness, minedness and non-emptiness of the
ranges carry over from the spent entries to the created ones.  (`_partial`: this is the
per-transaction step of the invariant; its lifting through `indexTx`/`applyBlock` is
`c02_block_preserves_partition`.) -/
theorem c02_tx_permutes_sats_partial (values : List Nat) (inputs : Ranges) (hq : WF inputs)
    (hn : (den inputs).Nodup) (bound : Nat) (hb : ∀ s ∈ den inputs, s < bound) (t : TxSats)
    (h : indexTransactionSats values inputs = some t) :
    den (t.outputs.flatten ++ t.leftover) = den inputs ∧
    (den (t.outputs.flatten ++ t.leftover)).Nodup ∧
    (∀ s ∈ den (t.outputs.flatten ++ t.leftover), s < bound) ∧
    WF (t.outputs.flatten ++ t.leftover) ∧
    t.outputs.map lenR = values := by
  rw [indexTransactionSats_spec] at h
  split at h
  · rename_i hv
    cases h
    have hd := assignOutputsR_flatten_den values inputs
    obtain ⟨w1, w2⟩ := assignOutputsR_WF values inputs hq
    refine ⟨hd, by rw [hd]; exact hn, by rw [hd]; exact hb, ?_, assignOutputsR_lens values inputs hv⟩
    apply WF_append.mpr
    refine ⟨?_, w2⟩
    intro r hr
    obtain ⟨o, ho, hro⟩ := List.mem_flatten.mp hr
    exact w1 o ho r hro
  · cases h

/-! ## the rare-sat table -/

/-- The SAT_TO_SATPOINT rows a transaction writes are exactly the non-common range starts of its
outputs with their offsets (`_partial`: per transaction; that rows written earlier stay correct
is *false* under duplicate txids, next theorem). -/
theorem c02_rare_rows_tx_partial (values : List Nat) (inputs : Ranges) (t : TxSats)
    (h : indexTransactionSats values inputs = some t) : t.rare = rareRows t.outputs 0 := by
  rw [indexTransactionSats_spec] at h
  split at h
  · cases h; rfl
  · cases h

/-- The only non-common sat of a block's subsidy is its first sat. -/
theorem c02_rare_sat_in_block (h s : Nat) (h1 : startingSat h ≤ s) (h2 : s < startingSat (h + 1)) :
    satRare s = true ↔ s = startingSat h := satRare_in_block h s h1 h2

/-- **Ranges are only split, never merged**: in every reachable state (any chain the indexer
accepts, any configuration with the sat index on) every sat range of every entry lies inside the
subsidy range of a single block. -/
theorem c02_reachable_ranges_in_block (cfg : Cfg) (hs : cfg.indexSats = true)
    (chain : List Block) (hc : ChainHeights chain) (st : State) (evs : List Event)
    (h : run cfg chain = .ok (st, evs)) :
    ∀ r ∈ allRanges st.utxo, ∃ b, startingSat b ≤ r.1 ∧ r.2 ≤ startingSat (b + 1) :=
  (reachable_inBlk cfg hs chain hc st evs h).2

/-- … **so a non-common sat always starts a range**: if the non-common sat `s` sits at satpoint
`p` then the entry at `p.outpoint` has a range starting with `s` at offset `p.offset` — exactly
the `(sat, offset)` pair for which the updater writes (`c02_rare_rows_tx_partial`) and the oracle
`rare_complete` checks the SAT_TO_SATPOINT row. -/
theorem c02_reachable_rare_starts_range (cfg : Cfg) (hs : cfg.indexSats = true)
    (chain : List Block) (hc : ChainHeights chain) (st : State) (evs : List Event)
    (h : run cfg chain = .ok (st, evs)) (s : Nat) (p : SatPoint) (hat : SatAt st.utxo s p)
    (hr : satRare s = true) :
    ∃ e, (p.outpoint, e) ∈ st.utxo ∧ (s, p.offset) ∈ rareOf e.ranges 0 := by
  obtain ⟨e, hm, hse⟩ := hat
  have hall := (reachable_inBlk cfg hs chain hc st evs h).2
  have hae : AllInBlk e.ranges := by
    intro r hr'
    apply hall r
    simp only [allRanges, List.mem_flatMap]
    exact ⟨(p.outpoint, e), hm, hr'⟩
  have := rare_starts_range e.ranges hae 0 p.offset s hse hr
  refine ⟨e, hm, ?_⟩
  simp only [rareOf, List.mem_filter]
  exact ⟨by simpa using this, hr⟩

/-- **Rare-sat table, completeness — every reachable state**, duplicate txids included: a
non-common sat that sits at satpoint `p` is reported at `p` by `rare_sat_satpoint`.  (Chain
hypothesis `ChainPlain`: no all-zero txid, and only a block's first transaction may name the
null / unbound outpoint as an input — otherwise LostSats and the null entry drift apart and the
offsets of lost rare sats are wrong.)  Proof: every entry's non-common range starts have their
rows (`RowsInv`, carried through `indexTx`'s `setRare`, the lost-range rows and the commit; rows
of other entries are untouched because no sat is in two places), and a non-common sat starts a
range (`c02_reachable_rare_starts_range`). -/
theorem c02_reachable_rare_complete (cfg : Cfg) (hs : cfg.indexSats = true)
    (chain : List Block) (hc : ChainHeights chain) (hp : ChainPlain chain) (st : State) (evs : List Event)
    (h : run cfg chain = .ok (st, evs)) (s : Nat) (p : SatPoint) (hat : SatAt st.utxo s p)
    (hr : satRare s = true) : rareSatSatpoint st s = some p := by
  obtain ⟨e, hm, hso⟩ := c02_reachable_rare_starts_range cfg hs chain hc st evs h s p hat hr
  have := (reachable_rows cfg hs chain hc hp st evs h).rows p.outpoint e hm s p.offset hso
  simpa [rareSatSatpoint] using this

/-- **The rare-sat clause** for every reachable state of a chain without duplicate txids: for a
non-common sat mined so far, the rare-sat table and the partition (hence `find`, `c02_find_iff`)
report the same place — `rare_sat_satpoint s = some p` iff `s` is the sat at `p`.  (Under
duplicate txids the "only if" direction is false: next theorem.) -/
theorem c02_reachable_rare_sat_clause (cfg : Cfg) (hs : cfg.indexSats = true)
    (chain : List Block) (hc : ChainHeights chain) (hf : ChainFresh [] chain) (hp : ChainPlain chain)
    (st : State) (evs : List Event) (h : run cfg chain = .ok (st, evs))
    (s : Nat) (hm : s < startingSat st.height) (hr : satRare s = true) (p : SatPoint) :
    rareSatSatpoint st s = some p ↔ SatAt st.utxo s p := by
  constructor
  · intro hrow
    obtain ⟨inv, _⟩ := reachable_exact cfg hs chain hc hf st evs h
    obtain ⟨p0, _, hat0⟩ := c02_find_mined_found st inv s hm
    have := c02_reachable_rare_complete cfg hs chain hc hp st evs h s p0 hat0 hr
    rw [hrow] at this
    cases this
    exact hat0
  · intro hat
    exact c02_reachable_rare_complete cfg hs chain hc hp st evs h s p hat hr

set_option maxRecDepth 100000 in
/-- **Finding** (the rare-sat clause is false under duplicate txids).  Blocks 1 and 2 carry
identical coinbases (txid 7).  After block 2 the first sat of block 1, 5000000000 (uncommon),
is destroyed — `find` answers `none`, output `7:0` holds block 2's subsidy — but the rare-sat
table still reports it at `7:0:0`: a stale SAT_TO_SATPOINT row survives the overwrite. -/
theorem c02_rare_table_stale_fails :
    (stateAfter satsOnlyCfg dupCoinbaseChain).map (fun st =>
      (rareSatSatpoint st 5000000000, find st 5000000000, list satsOnlyCfg st ⟨7, 0⟩)) =
    some (some ⟨⟨7, 0⟩, 0⟩, .ok none, some [(10000000000, 15000000000)]) := by
  decide

/-! ## Non-vacuity -/

example : ChainHeights dupCoinbaseChain := by
  intro i hi
  have : i = 0 ∨ i = 1 ∨ i = 2 := by simp [dupCoinbaseChain] at hi; omega
  rcases this with rfl | rfl | rfl <;> rfl
example : satsOnlyCfg.indexSats = true ∧ satsOnlyCfg.indexInscriptions = false ∧ satsOnlyCfg.indexRunes = false := by decide

/-- every index on: the hypotheses of `c02_reachable_partitioned` are satisfiable with the
inscription, rune, address and transaction indexes all enabled (the chain is accepted) -/
def allOnCfg : Cfg := ⟨true, true, true, true, true, 0, 0, 0⟩
set_option maxRecDepth 100000 in
example : allOnCfg.indexSats = true ∧ (stateAfter allOnCfg dupCoinbaseChain).isSome = true := by decide

/-- the first two blocks of the witness chain have distinct non-zero txids (the third repeats 7) -/
example : ChainFresh [] (dupCoinbaseChain.take 2) := by
  refine ⟨⟨?_, ?_, ?_, ?_⟩, ⟨?_, ?_, ?_, ?_⟩, trivial⟩ <;> simp [dupCoinbaseChain, coinbaseTx]

example : SatsPartitioned ({} : State) := satsPartitioned_empty.toSatsPartitioned
example : partitionOracle 1 [⟨⟨1, 0⟩, 5000000000, [(0, 5000000000)]⟩] [] = true := by
  simp [partitionOracle, lenR, sortRanges, chainFrom, startingSat, epochStartingSat, subsidy, List.mergeSort]
example : findInUtxo 7 [(⟨1, 0⟩, ⟨0, [(0, 5)], [], []⟩), (⟨1, 1⟩, ⟨0, [(5, 10)], [], []⟩)] = some ⟨⟨1, 1⟩, 2⟩ := by
  simp [findInUtxo, findInRanges]

end Ord.Index
