import OrdModel.Proofs.IndexInsnumDedup
/-
C07 — parent/child provenance cannot be forged.
Model: `linkParents` (the `for parent in parents` loop of `update_inscription_location`) and the
`parents.retain(...)` filter of `index_inscriptions` (OrdModel/Index/Inscriptions.lean).

Proved: what the parent loop records (`c07_parents_recorded`): exactly the purported parents that
are already in `id_to_sequence_number`, in order; each recorded parent's sequence number is smaller
than the child's (`c07_parent_lt`, from the C05 invariant: the child's own entry and id are written
only after the loop); the children table gains exactly the pairs (parent, child) for the recorded
parents (`c07_children_iff_partial`); the `retain` filter (named `dedupParents`, equal to the model's
local definition by `rfl`: `c07_retain_is_model`) leaves a duplicate-free list of purported parents
that are ids of the transaction's floating list (`c07_retain_filter`).  NOT proved (see
notes/C07.md): the latest-child tables and the lift to reachable states.
-/
namespace Ord.Index.C07
open Ord.Index Ord.Index.Insnum Ord.Outcome

/-- the parent loop records exactly the purported parents known to `id_to_sequence_number` -/
theorem c07_parents_recorded (seq : Nat) (ps : List InscriptionId) (st st' : State) (ids' : List InscriptionId)
    (seqs' : List Nat) (h : linkParents seq ps st [] [] = .ok (st', ids', seqs')) :
    seqs' = ps.filterMap (fun p => AL.get st.id2seq p) ∧
    ids' = ps.filter (fun p => (AL.get st.id2seq p).isSome) := by
  obtain ⟨h1, h2, _⟩ := linkParents_spec seq ps st [] [] st' ids' seqs' h
  exact ⟨by simpa using h1, by simpa using h2⟩

/-- every recorded parent has a smaller sequence number than the child (whose sequence number is
`entries.length`, allocated before the loop, its entry and id written after it) -/
theorem c07_parent_lt (ps : List InscriptionId) (st st' : State) (ids' : List InscriptionId) (seqs' : List Nat)
    (hinv : Inv5T (tabs st))
    (h : linkParents st.entries.length ps st [] [] = .ok (st', ids', seqs')) :
    ∀ p ∈ seqs', p < st.entries.length := by
  obtain ⟨h1, _⟩ := c07_parents_recorded _ ps st st' ids' seqs' h
  intro p hp
  rw [h1] at hp
  obtain ⟨q, _, hq⟩ := List.mem_filterMap.1 hp
  obtain ⟨e, he, _⟩ := hinv.id_bwd q p hq
  exact (List.getElem?_eq_some_iff.1 he).1

/-- a purported parent equal to the child's own id is not recorded unless an EARLIER inscription
already has that id (excluded by the C05 freshness hypothesis) -/
theorem c07_self_parent_not_recorded (seq : Nat) (self : InscriptionId) (st st' : State) (ids' : List InscriptionId)
    (seqs' : List Nat) (hself : AL.get st.id2seq self = none)
    (h : linkParents seq [self] st [] [] = .ok (st', ids', seqs')) : seqs' = [] ∧ ids' = [] := by
  obtain ⟨h1, h2⟩ := c07_parents_recorded _ _ _ _ _ _ h
  simp [hself] at h1 h2
  exact ⟨h1, h2⟩

/-- the children table gains exactly the pairs (recorded parent, child) -/
theorem c07_children_iff_partial (seq : Nat) (ps : List InscriptionId) (st st' : State) (ids' : List InscriptionId)
    (seqs' : List Nat) (h : linkParents seq ps st [] [] = .ok (st', ids', seqs')) (x : Nat × Nat) :
    x ∈ st'.children ↔ x ∈ st.children ∨ (x.2 = seq ∧ x.1 ∈ seqs') := by
  obtain ⟨h1, _, h3, h4, h5⟩ := linkParents_spec seq ps st [] [] st' ids' seqs' h
  constructor
  · intro hx
    rcases h3 x hx with hx | ⟨hx, p, hp, hps⟩
    · exact Or.inl hx
    · refine Or.inr ⟨hx, ?_⟩
      rw [h1]
      simp only [List.nil_append]
      exact List.mem_filterMap.2 ⟨p, hp, hps⟩
  · rintro (hx | ⟨hx, hm⟩)
    · exact h4 x hx
    · rw [h1] at hm
      simp only [List.nil_append] at hm
      obtain ⟨p, hp, hps⟩ := List.mem_filterMap.1 hm
      have := h5 p hp x.1 hps
      rw [← hx] at this
      exact this

/-- `index_inscriptions` is literally the model function with the retain filter named -/
theorem c07_retain_is_model (cfg : Cfg) (height time : Nat) (tx : Tx) (inputs : List (TxIn × UtxoEntry))
    (inputRanges : Option (List (Nat × Nat))) (ls : LocState) :
    indexInscriptions cfg height time tx inputs inputRanges ls = indexInscriptions' cfg height time tx inputs inputRanges ls :=
  indexInscriptions_eq cfg height time tx inputs inputRanges ls

/-- the parents handed to `update_inscription_location` have no repeats and each is both a
purported parent and the id of an inscription spent or revealed by the transaction
(`potential` = ids of the floating list) -/
theorem c07_retain_filter (potential ps : List InscriptionId) :
    (dedupParents potential ps).Nodup ∧ (∀ x ∈ dedupParents potential ps, x ∈ ps ∧ x ∈ potential) :=
  dedupParents_spec potential ps

example : dedupParents [⟨7, 0⟩, ⟨8, 0⟩] [⟨7, 0⟩, ⟨9, 0⟩, ⟨7, 0⟩, ⟨8, 0⟩] = [⟨7, 0⟩, ⟨8, 0⟩] := by decide

/-! non-vacuity: a parent known to the table is linked, an unknown one is not -/
example : ∃ st', linkParents 1 [⟨7, 0⟩, ⟨9, 0⟩]
    { entries := [⟨0, 0, 1, false, ⟨7, 0⟩, 0, [], none, 0, 0⟩], id2seq := [(⟨7, 0⟩, 0)] } [] [] = .ok (st', [⟨7, 0⟩], [0]) :=
  ⟨_, rfl⟩

end Ord.Index.C07
