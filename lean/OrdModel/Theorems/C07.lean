import OrdModel.Proofs.IndexInsnumDedup
import OrdModel.Proofs.IndexLiftInsTabs
import OrdModel.Proofs.IndexLiftProvenanceSeq
/-
C07 — parent/child provenance cannot be forged.
Model: `linkParents` (the `for parent in parents` loop of `update_inscription_location`) and the
`parents.retain(...)` filter of `index_inscriptions` (OrdModel/Index/Inscriptions.lean).

Proved: what the parent loop records (`c07_parents_recorded`): exactly the purported parents that
are already in `id_to_sequence_number`, in order; each recorded parent's sequence number is smaller
than the child's (`c07_parent_lt`, from the C05 invariant: the child's own entry and id are written
only after the loop); the children table gains exactly the pairs (parent, child) for the recorded
parents (`c07_children_iff_partial`); the `retain` filter (named `dedupParents`, equal to the model's
local definition by `rfl`: `c07_retain_is_model`) leaves a duplicate-free list of purported parents
that are ids of the transaction's floating list (`c07_retain_filter`).  Lifted to every reachable
state of the full index model, with NO hypothesis on the chain (`Proofs/IndexLiftInsTabs.lean`:
any predicate on the inscription tables preserved by `update_inscription_location` holds after
every chain): the latest-child tables (`c07_latest_child_reachable`: `coll2latest p` = max child
of a visible parent, none for a hidden one; the two tables inverse) and the children table ⇔ the
entries' parent lists, parents older than children (`c07_children_reachable`).
PROVENANCE on every reachable state (`Proofs/IndexLiftProvenance{,Tx,Chain,Seq}.lean`):
`c07_provenance_reachable` — NO hypothesis on the chain — every children row `(p, c)` has a witness
transaction in the chain (block, position, and the block context the model has just before it,
computed from the chain prefix) that is the reveal transaction of `c` (id `(txid, j)`, `c` not
existing before it) and such that the id of `p` is the id of an inscription listed on a UTXO entry
of a non-null input of that transaction (cache or table, as they are just before it) or one of
the ids the transaction reveals.  `c07_provenance_reachable_seq` — chains with pairwise distinct
txids (C05's hypothesis) — the same with the parent's SEQUENCE NUMBER: `p` itself is listed on such
an input, or `p` was created by (not before) that transaction, and `p < c`.  A duplicate-txid
chain on which the sequence-number form fails (the id form holds) is evaluated at the end of the
file.  The proof threads a relation `W parentId childId n` through `update_inscription_location`
(children rows), the saved fee-spent flotsam (a new inscription paid as fee is created at the
coinbase, with the parents filtered in ITS reveal transaction) and the scan + `retain` filter.
-/
namespace Ord.Index.C07
open Ord.Index Ord.Index.Insnum Ord.Outcome

/-- the parent loop records exactly the purported parents known to `id_to_sequence_number` -/
theorem c07_parents_recorded (seq : Nat) (ps : List InscriptionId) (st st' : State) (ids' : List InscriptionId)
    (seqs' : List Nat) (h : linkParents seq ps st [] [] = .ok (st', ids', seqs')) :
    seqs' = ps.filterMap (fun p => AL.get st.id2seq p) ∧
    ids' = ps.filter (fun p => (AL.get st.id2seq p).isSome) := by
  obtain ⟨h1, h2, _⟩ := linkParents_spec seq ps st [] [] st' ids' seqs' h
  exact ⟨by simpa using h1, by simpa using h2⟩

/-- every recorded parent has a smaller sequence number than the child (whose sequence number is
`entries.length`, allocated before the loop, its entry and id written after it) -/
theorem c07_parent_lt (ps : List InscriptionId) (st st' : State) (ids' : List InscriptionId) (seqs' : List Nat)
    (hinv : Inv5T (tabs st))
    (h : linkParents st.entries.length ps st [] [] = .ok (st', ids', seqs')) :
    ∀ p ∈ seqs', p < st.entries.length := by
  obtain ⟨h1, _⟩ := c07_parents_recorded _ ps st st' ids' seqs' h
  intro p hp
  rw [h1] at hp
  obtain ⟨q, _, hq⟩ := List.mem_filterMap.1 hp
  obtain ⟨e, he, _⟩ := hinv.id_bwd q p hq
  exact (List.getElem?_eq_some_iff.1 he).1

/-- a purported parent equal to the child's own id is not recorded unless an EARLIER inscription
already has that id (excluded by the C05 freshness hypothesis) -/
theorem c07_self_parent_not_recorded (seq : Nat) (self : InscriptionId) (st st' : State) (ids' : List InscriptionId)
    (seqs' : List Nat) (hself : AL.get st.id2seq self = none)
    (h : linkParents seq [self] st [] [] = .ok (st', ids', seqs')) : seqs' = [] ∧ ids' = [] := by
  obtain ⟨h1, h2⟩ := c07_parents_recorded _ _ _ _ _ _ h
  simp [hself] at h1 h2
  exact ⟨h1, h2⟩

/-- the children table gains exactly the pairs (recorded parent, child) -/
theorem c07_children_iff_partial (seq : Nat) (ps : List InscriptionId) (st st' : State) (ids' : List InscriptionId)
    (seqs' : List Nat) (h : linkParents seq ps st [] [] = .ok (st', ids', seqs')) (x : Nat × Nat) :
    x ∈ st'.children ↔ x ∈ st.children ∨ (x.2 = seq ∧ x.1 ∈ seqs') := by
  obtain ⟨h1, _, h3, h4, h5⟩ := linkParents_spec seq ps st [] [] st' ids' seqs' h
  constructor
  · intro hx
    rcases h3 x hx with hx | ⟨hx, p, hp, hps⟩
    · exact Or.inl hx
    · refine Or.inr ⟨hx, ?_⟩
      rw [h1]
      simp only [List.nil_append]
      exact List.mem_filterMap.2 ⟨p, hp, hps⟩
  · rintro (hx | ⟨hx, hm⟩)
    · exact h4 x hx
    · rw [h1] at hm
      simp only [List.nil_append] at hm
      obtain ⟨p, hp, hps⟩ := List.mem_filterMap.1 hm
      have := h5 p hp x.1 hps
      rw [← hx] at this
      exact this

/-- `index_inscriptions` is literally the model function with the retain filter named -/
theorem c07_retain_is_model (cfg : Cfg) (height time : Nat) (tx : Tx) (inputs : List (TxIn × UtxoEntry))
    (inputRanges : Option (List (Nat × Nat))) (ls : LocState) :
    indexInscriptions cfg height time tx inputs inputRanges ls = indexInscriptions' cfg height time tx inputs inputRanges ls :=
  indexInscriptions_eq cfg height time tx inputs inputRanges ls

/-- the parents handed to `update_inscription_location` have no repeats and each is both a
purported parent and the id of an inscription spent or revealed by the transaction
(`potential` = ids of the floating list) -/
theorem c07_retain_filter (potential ps : List InscriptionId) :
    (dedupParents potential ps).Nodup ∧ (∀ x ∈ dedupParents potential ps, x ∈ ps ∧ x ∈ potential) :=
  dedupParents_spec potential ps

/-! ## Every reachable state (no hypothesis on the chain) -/

/-- **Latest-child tables on reachable states**: for a visible parent with at least one child,
`coll2latest` holds the largest child sequence number; a hidden parent has no row; every
`coll2latest` row has its mirror row in `latest2coll` and is a `children` row; every
`latest2coll` row is the mirror of the `coll2latest` row; `coll2latest` has no duplicate key. -/
theorem c07_latest_child_reachable (cfg : Cfg) (chain : List Block) (st : State) (evs : List Event)
    (h : run cfg chain = .ok (st, evs)) :
    (∀ (p : Nat) (e : InsEntry), st.entries[p]? = some e → e.hidden = false → (∃ c, (p, c) ∈ st.children) →
      AL.get st.coll2latest p = some (maxOf ((st.children.filter (·.1 == p)).map (·.2)))) ∧
    (∀ (p : Nat) (e : InsEntry), st.entries[p]? = some e → e.hidden = true → AL.get st.coll2latest p = none) ∧
    (∀ p l, AL.get st.coll2latest p = some l → (l, p) ∈ st.latest2coll ∧ (p, l) ∈ st.children) ∧
    (∀ l p, (l, p) ∈ st.latest2coll → AL.get st.coll2latest p = some l) ∧
    (AL.keys st.coll2latest).Nodup := by
  have i : InsLift.LInvT (tabs st) := InsLift.run_tabsP InsLift.linv_stable InsLift.linv_empty cfg chain st evs h
  exact ⟨i.latest, i.hiddenNone, i.fwd, i.bwd, i.keys⟩

/-- **Children ⇔ parents on reachable states**: `(p, c)` is a row of the children table iff `p` is
in the parent list of entry `c`; every parent has an entry and is older than the child. -/
theorem c07_children_reachable (cfg : Cfg) (chain : List Block) (st : State) (evs : List Event)
    (h : run cfg chain = .ok (st, evs)) :
    (∀ p c, (p, c) ∈ st.children ↔ ∃ e : InsEntry, st.entries[c]? = some e ∧ p ∈ e.parents) ∧
    (∀ p c, (p, c) ∈ st.children → p < c ∧ c < st.entries.length ∧ ∃ e : InsEntry, st.entries[p]? = some e) := by
  have i : InsLift.LInvT (tabs st) := InsLift.run_tabsP InsLift.linv_stable InsLift.linv_empty cfg chain st evs h
  have j : InsLift.CInvT (tabs st) := InsLift.run_tabsP InsLift.cinv_stable InsLift.cinv_empty cfg chain st evs h
  refine ⟨fun p c => ⟨j.ofChild p c, ?_⟩, fun p c hm => ⟨i.lt p c hm, i.bound p c hm, i.parentEntry p c hm⟩⟩
  rintro ⟨e, he, hp⟩
  exact j.ofParent c e he p hp

/-- **Provenance on reachable states** (no hypothesis on the chain): after ANY chain the index
model indexes successfully, for every row `(p, c)` of the children table (equivalently, by
`c07_children_reachable`, every `p` in the parent list of entry `c`) there is a transaction `tx` in
a block `b` of the chain — `chain = pre ++ b :: post`, `tx` at position `i` of `b`, indexed `k`-th
in the updater's order `blockOrder` (coinbase last), from the block context `bc` the model reaches
from the chain prefix `pre` and the `k` transactions before it — such that
* `tx` is the reveal transaction of the child: the child's id is `(tx.txid, j)` with `j` below the
  number of envelopes of `tx`, and the child's sequence number did not exist before `tx`;
* the parent's id is the id of an inscription SPENT by `tx` — `tx` is not the block's first
  transaction, and a non-null previous output of `tx` holds, in the block's UTXO cache or in the
  UTXO table as they are just before `tx`, an entry listing a sequence number `q` whose inscription
  entry has that id — or the id of an inscription REVEALED by `tx` (`(tx.txid, j')`, `j'` below the
  number of envelopes);
* the parent is older than the child.
(`blockOrder`, `insOnOf`, `bc0A` are the names `Sched.indexUtxoEntries_eq` gives to the order, the
inscription switch and the initial block context of the model's `indexUtxoEntries`.) -/
theorem c07_provenance_reachable (cfg : Cfg) (chain : List Block) (st : State) (evs : List Event)
    (h : run cfg chain = .ok (st, evs)) (p c : Nat) (hpc : (p, c) ∈ st.children) :
    ∃ (ep ec : InsEntry), st.entries[p]? = some ep ∧ st.entries[c]? = some ec ∧ p < c ∧
    ∃ (pre : List Block) (b : Block) (post : List Block) (k i : Nat) (tx : Tx) (bc : BlockCtx),
      chain = pre ++ b :: post ∧ (Sched.blockOrder b)[k]? = some (i, tx) ∧
      (∃ (st0 : State) (ev0 : List Event), run cfg pre = .ok (st0, ev0) ∧
        indexTxs cfg b (Sched.insOnOf cfg b) ((Sched.blockOrder b).take k) (Sched.bc0A cfg st0 b) = .ok bc) ∧
      Sched.insOnOf cfg b = true ∧ (∃ bc', indexTx cfg b (Sched.insOnOf cfg b) i tx bc = .ok bc') ∧
      (ec.id.txid = tx.txid ∧ ec.id.index < tx.envelopes.length) ∧ bc.st.entries.length ≤ c ∧
      ((i ≠ 0 ∧ ∃ inp ∈ tx.inputs, inp.prev.isNull = false ∧
          ∃ e : UtxoEntry, ((inp.prev, e) ∈ bc.cache ∨ (inp.prev, e) ∈ bc.st.utxo) ∧
            ∃ (q off : Nat) (en : InsEntry), (q, off) ∈ e.ins ∧ bc.st.entries[q]? = some en ∧ en.id = ep.id) ∨
       (ep.id.txid = tx.txid ∧ ep.id.index < tx.envelopes.length)) := by
  have i : InsLift.LInvT (tabs st) := InsLift.run_tabsP InsLift.linv_stable InsLift.linv_empty cfg chain st evs h
  obtain ⟨ep, ec, h1, h2, pre, b, post, k, i', tx, bc, w1, w2, w3, w4, w5, w6, w7, w8⟩ :=
    (Prov.run_pinv cfg chain st evs h).prov p c hpc
  exact ⟨ep, ec, h1, h2, i.lt p c hpc, pre, b, post, k, i', tx, bc, w1, w2, w3, w4, w5, w6, w8, w7⟩

/-- **Provenance on reachable states, sequence-number form**: if the txids of the chain are
pairwise distinct (BIP 30; the hypothesis of C05, under which inscription ids are injective), the
parent `p` ITSELF — not merely an inscription with the same id — is listed on a UTXO entry held at a
non-null previous output of the child's reveal transaction just before that transaction, or `p`
was created by that transaction (its id carries the transaction's txid and its sequence number did
not exist before the transaction) with a smaller sequence number than the child.  Without the
hypothesis only the id form `c07_provenance_reachable` holds (see the duplicate-txid example at
the end of this file). -/
theorem c07_provenance_reachable_seq (cfg : Cfg) (chain : List Block) (st : State) (evs : List Event)
    (hnd : (Sched.chainTxids chain).Nodup)
    (h : run cfg chain = .ok (st, evs)) (p c : Nat) (hpc : (p, c) ∈ st.children) :
    ∃ (ep ec : InsEntry), st.entries[p]? = some ep ∧ st.entries[c]? = some ec ∧ p < c ∧
    ∃ (pre : List Block) (b : Block) (post : List Block) (k i : Nat) (tx : Tx) (bc : BlockCtx),
      chain = pre ++ b :: post ∧ (Sched.blockOrder b)[k]? = some (i, tx) ∧
      (∃ (st0 : State) (ev0 : List Event), run cfg pre = .ok (st0, ev0) ∧
        indexTxs cfg b (Sched.insOnOf cfg b) ((Sched.blockOrder b).take k) (Sched.bc0A cfg st0 b) = .ok bc) ∧
      Sched.insOnOf cfg b = true ∧ (∃ bc', indexTx cfg b (Sched.insOnOf cfg b) i tx bc = .ok bc') ∧
      (ec.id.txid = tx.txid ∧ ec.id.index < tx.envelopes.length) ∧ bc.st.entries.length ≤ c ∧
      ((i ≠ 0 ∧ ∃ inp ∈ tx.inputs, inp.prev.isNull = false ∧
          ∃ e : UtxoEntry, ((inp.prev, e) ∈ bc.cache ∨ (inp.prev, e) ∈ bc.st.utxo) ∧ ∃ off : Nat, (p, off) ∈ e.ins) ∨
       ((ep.id.txid = tx.txid ∧ ep.id.index < tx.envelopes.length) ∧ bc.st.entries.length ≤ p)) := by
  have i : InsLift.LInvT (tabs st) := InsLift.run_tabsP InsLift.linv_stable InsLift.linv_empty cfg chain st evs h
  obtain ⟨ep, ec, h1, h2, pre, b, post, k, i', tx, bc, w1, w2, w3, w4, w5, w6, w7, w8⟩ :=
    Prov.run_provenance_seq cfg chain st evs hnd h p c hpc
  exact ⟨ep, ec, h1, h2, i.lt p c hpc, pre, b, post, k, i', tx, bc, w1, w2, w3, w4, w5, w6, w7, w8⟩

example : dedupParents [⟨7, 0⟩, ⟨8, 0⟩] [⟨7, 0⟩, ⟨9, 0⟩, ⟨7, 0⟩, ⟨8, 0⟩] = [⟨7, 0⟩, ⟨8, 0⟩] := by decide

/-! non-vacuity: a parent known to the table is linked, an unknown one is not -/
example : ∃ st', linkParents 1 [⟨7, 0⟩, ⟨9, 0⟩]
    { entries := [⟨0, 0, 1, false, ⟨7, 0⟩, 0, [], none, 0, 0⟩], id2seq := [(⟨7, 0⟩, 0)] } [] [] = .ok (st', [⟨7, 0⟩], [0]) :=
  ⟨_, rfl⟩

/-! non-vacuity of the reachable-state theorems: a parent revealed in block 1 (output `3:0`) is
spent by the reveal of a child naming it in block 2; the chain is indexed successfully and the
three parent/child tables get their rows -/

def pcCfg : Cfg :=
  { indexSats := false, indexAddresses := false, indexTransactions := false, indexInscriptions := true, indexRunes := false, firstInscriptionHeight := 0, jubileeHeight := 0, firstRuneHeight := 0 }
def pcCbIn : TxIn := { prev := OutPoint.null, taproot := false, confHeight := none, pushes := [] }
def pcOut : TxOut := { value := 5000000000, opReturn := false, script := [] }
def pcCb (txid : Txid) : Tx := { txid := txid, inputs := [pcCbIn], outputs := [pcOut], envelopes := [], artifact := none, size := 0 }
def pcEnv (parents : List InscriptionId) : Envelope :=
  { input := 0, offset := 0, unrecognizedEven := false, duplicateField := false, incompleteField := false, pushnum := false, stutter := false, hidden := false, gallery := false, pointerField := false, pointer := none, parents := parents }
def pcReveal (txid : Txid) (prev : OutPoint) (parents : List InscriptionId) : Tx :=
  { txid := txid, inputs := [{ prev := prev, taproot := true, confHeight := some 0, pushes := [] }], outputs := [pcOut], envelopes := [pcEnv parents], artifact := none, size := 0 }
def pcB0 : Block := { height := 0, time := 0, hash := 100, minimumRune := 0, txs := [pcCb 1] }
def pcB1 : Block := { height := 1, time := 0, hash := 101, minimumRune := 0, txs := [pcCb 2, pcReveal 3 ⟨1, 0⟩ []] }
def pcB2 : Block := { height := 2, time := 0, hash := 102, minimumRune := 0, txs := [pcCb 4, pcReveal 5 ⟨3, 0⟩ [⟨3, 0⟩, ⟨9, 9⟩]] }

def pcTables (r : Outcome (State × List Event)) : Option (List (Nat × Nat) × List (Nat × Nat) × List (Nat × Nat)) :=
  match r with
  | .ok (st, _) => some (st.children, st.coll2latest, st.latest2coll)
  | _ => none

example : pcTables (run pcCfg [pcB0, pcB1, pcB2]) = some ([(0, 1)], [(0, 1)], [(1, 0)]) := by decide

/-! non-vacuity of the provenance theorems on the same chain: the run succeeds, the children row
`(0, 1)` exists, the chain's txids are pairwise distinct, and — evaluated on the state after
blocks 0 and 1, i.e. just before the child's reveal transaction `5` (first in the indexing order of
block 2) — the previous output `3:0` of that transaction holds an entry listing sequence number 0,
whose inscription entry has the id `3i0` the child names: a really spent parent -/

theorem pcRun : ∃ st evs, run pcCfg [pcB0, pcB1, pcB2] = .ok (st, evs) ∧ (0, 1) ∈ st.children := by
  have hT : pcTables (run pcCfg [pcB0, pcB1, pcB2]) = some ([(0, 1)], [(0, 1)], [(1, 0)]) := by decide
  cases hr : run pcCfg [pcB0, pcB1, pcB2] with
  | panic s => rw [hr] at hT; cases hT
  | err s => rw [hr] at hT; cases hT
  | ok r =>
    obtain ⟨st, evs⟩ := r
    rw [hr] at hT
    simp only [pcTables, Option.some.injEq, Prod.mk.injEq] at hT
    exact ⟨st, evs, rfl, by rw [hT.1]; exact List.mem_cons_self⟩

example : (Sched.chainTxids [pcB0, pcB1, pcB2]).Nodup := by decide

def pcSpentParent : Bool :=
  match run pcCfg [pcB0, pcB1] with
  | .ok (st0, _) =>
    (match AL.get st0.utxo ⟨3, 0⟩ with
     | some e => e.ins.any (fun x => x.1 == 0)
     | none => false) &&
    (st0.entries[0]?.map (·.id) == some ⟨3, 0⟩) &&
    ((Sched.blockOrder pcB2)[0]?.map (fun x => (x.1, x.2.txid)) == some (1, 5))
  | _ => false

example : pcSpentParent = true := by decide

/-- the conclusion of `c07_provenance_reachable_seq`, instantiated -/
example : ∃ st evs, run pcCfg [pcB0, pcB1, pcB2] = .ok (st, evs) ∧ ∃ (ep ec : InsEntry),
    st.entries[0]? = some ep ∧ st.entries[1]? = some ec ∧ 0 < 1 := by
  obtain ⟨st, evs, hr, hpc⟩ := pcRun
  obtain ⟨ep, ec, h1, h2, h3, _⟩ := c07_provenance_reachable_seq pcCfg _ st evs (by decide) hr 0 1 hpc
  exact ⟨st, evs, hr, ep, ec, h1, h2, h3⟩

/-! why the sequence-number form needs distinct txids: block 2' repeats the txid `3` of block 1's
reveal (impossible on Bitcoin since BIP 30).  Its envelope names `3i0` — its own id, on its own
floating list — and `id_to_sequence_number` still maps `3i0` to the OLD inscription 0, which this
transaction neither spends (its only input `2:0` holds no inscription) nor creates: the row
`(0, 1)` is recorded.  The id form `c07_provenance_reachable` covers it (the parent's id `3i0` is
an id revealed by the transaction). -/

def pcB2dup : Block := { height := 2, time := 0, hash := 102, minimumRune := 0, txs := [pcCb 4, pcReveal 3 ⟨2, 0⟩ [⟨3, 0⟩]] }

def pcDupNothingSpent : Bool :=
  match run pcCfg [pcB0, pcB1] with
  | .ok (st0, _) =>
    (match AL.get st0.utxo ⟨2, 0⟩ with
     | some e => e.ins.isEmpty
     | none => false) && st0.entries.length == 1
  | _ => false

example : pcTables (run pcCfg [pcB0, pcB1, pcB2dup]) = some ([(0, 1)], [(0, 1)], [(1, 0)]) := by decide
example : pcDupNothingSpent = true := by decide

end Ord.Index.C07
