import OrdModel.Proofs.IndexMiscAddrSpend
/-
C17 — the address index lists exactly the unspent outputs of each script.

Model: `OrdModel/Index/Block.lean` (`takeInputEntries` = the input loop of
`Updater::index_utxo_entries` with its `script_pubkey_to_outpoint.remove`, `indexTx` = caching of
the output entries, `flushEntry`/`flushCache` = `Updater::commit`), run over whole chains by
`OrdModel/Index/Run.lean`.  Statements are about every committed state `st` reached by
`run cfg chain` with the address index on (`cfg.indexAddresses`) and a chain without duplicate
txids (`NoDupTxids`, the property's own exclusion; it also excludes the all-zero txid of the two
special outpoints).  No bound on the number of blocks, transactions, inputs or outputs.

The two special outpoints (lost sats, unbound inscriptions) are entries of OUTPOINT_TO_UTXO_ENTRY
with the empty script and are listed under the empty script like any other entry: the statement
is about the table, and `c17_special_rows` says exactly which rows are theirs.
-/
namespace Ord.Index

/-- Clause 1: `(script, o)` is a row of SCRIPT_PUBKEY_TO_OUTPOINT exactly when `o` has an entry in
OUTPOINT_TO_UTXO_ENTRY (i.e. is unspent) whose script is `script`. -/
theorem c17_address_index_exact (cfg : Cfg) (ha : cfg.indexAddresses = true) (chain : List Block)
    (st : State) (evs : List Event) (hnd : NoDupTxids chain) (hrun : run cfg chain = .ok (st, evs)) :
    ∀ (script : List UInt8) (o : OutPoint),
      (script, o) ∈ st.script2out ↔ ∃ e, AL.get st.utxo o = some e ∧ e.script = script :=
  (run_table cfg ha chain st evs hnd hrun).exact

/-- … and no row is stored twice, no outpoint has two entries. -/
theorem c17_no_duplicate_rows (cfg : Cfg) (ha : cfg.indexAddresses = true) (chain : List Block)
    (st : State) (evs : List Event) (hnd : NoDupTxids chain) (hrun : run cfg chain = .ok (st, evs)) :
    st.script2out.Nodup ∧ (st.utxo.map (·.1)).Nodup :=
  ⟨(run_table cfg ha chain st evs hnd hrun).rows, (run_table cfg ha chain st evs hnd hrun).nodup⟩

/-- Clause 2: every entry of a real outpoint carries the script and the value of the output of
the transaction that created it (value = the stored value, or the total of the stored sat ranges
when the sat index is on); entries of the special outpoints carry the empty script. -/
theorem c17_entries_match_creating_tx (cfg : Cfg) (ha : cfg.indexAddresses = true) (chain : List Block)
    (st : State) (evs : List Event) (hnd : NoDupTxids chain) (hrun : run cfg chain = .ok (st, evs)) :
    EntriesMatch cfg chain st := by
  intro o e he
  have T := run_table cfg ha chain st evs hnd hrun
  exact ⟨T.special o e he, T.real o e he⟩

/-- Corollary (what `get_address_info` returns): an outpoint listed for `script` is an output of a
transaction of the chain that pays `script`, with the recorded value — or one of the two special
outpoints, which are listed under the empty script only. -/
theorem c17_listed_outputs (cfg : Cfg) (ha : cfg.indexAddresses = true) (chain : List Block)
    (st : State) (evs : List Event) (hnd : NoDupTxids chain) (hrun : run cfg chain = .ok (st, evs))
    (script : List UInt8) (o : OutPoint) (h : (script, o) ∈ st.script2out) :
    (o.isSpecial = true ∧ script = []) ∨
    (o.isSpecial = false ∧ ∃ out e, CreatedBy chain o out ∧ out.script = script ∧
      AL.get st.utxo o = some e ∧ e.totalValue cfg = out.value) := by
  have T := run_table cfg ha chain st evs hnd hrun
  obtain ⟨e, he, hs⟩ := (T.exact script o).1 h
  cases hsp : o.isSpecial with
  | true => exact Or.inl ⟨rfl, by rw [← hs]; exact T.special o e he hsp⟩
  | false =>
    obtain ⟨out, hc, h1, h2⟩ := T.real o e he hsp
    exact Or.inr ⟨rfl, out, e, hc, by rw [← h1, hs], he, h2⟩

/-- The rows of the special outpoints: exactly `([], o)` for each special outpoint that has an entry. -/
theorem c17_special_rows (cfg : Cfg) (ha : cfg.indexAddresses = true) (chain : List Block)
    (st : State) (evs : List Event) (hnd : NoDupTxids chain) (hrun : run cfg chain = .ok (st, evs))
    (o : OutPoint) (hsp : o.isSpecial = true) (script : List UInt8) :
    (script, o) ∈ st.script2out ↔ script = [] ∧ (AL.get st.utxo o).isSome = true := by
  have T := run_table cfg ha chain st evs hnd hrun
  rw [T.exact script o]
  constructor
  · rintro ⟨e, he, hs⟩
    exact ⟨by rw [← hs]; exact T.special o e he hsp, by simp [he]⟩
  · rintro ⟨hs, hsome⟩
    cases he : AL.get st.utxo o with
    | none => simp [he] at hsome
    | some e => exact ⟨e, rfl, by rw [hs]; exact T.special o e he hsp⟩

/-- "Currently unspent": a real outpoint has an entry in OUTPOINT_TO_UTXO_ENTRY exactly when the
chain created it (it is output `o.vout` of the transaction with txid `o.txid`) and no transaction of
the chain spends it (`SpentBy`: an input of any transaction other than the first of its block — the
indexer does not look at the inputs of the coinbase). -/
theorem c17_utxo_domain_is_unspent (cfg : Cfg) (ha : cfg.indexAddresses = true) (chain : List Block)
    (st : State) (evs : List Event) (hnd : NoDupTxids chain) (hrun : run cfg chain = .ok (st, evs))
    (o : OutPoint) (hsp : o.isSpecial = false) :
    (AL.get st.utxo o).isSome = true ↔ (∃ out, CreatedBy chain o out) ∧ ¬ SpentBy chain o := by
  have T := run_table cfg ha chain st evs hnd hrun
  have Sp := run_spend cfg ha chain st evs hnd hrun
  constructor
  · intro h
    cases he : AL.get st.utxo o with
    | none => simp [he] at h
    | some e =>
      obtain ⟨out, hc, _, _⟩ := T.real o e he hsp
      refine ⟨⟨out, hc⟩, fun hs => ?_⟩
      have := (Sp.gone o ((mem_spentList chain o).2 hs) hsp).1
      rw [he] at this; cases this
  · rintro ⟨⟨out, tx, htx, h1, h2⟩, hns⟩
    have hv : o.vout < tx.outputs.length := by
      rcases Nat.lt_or_ge o.vout tx.outputs.length with h | h
      · exact h
      · rw [List.getElem?_eq_none h] at h2; cases h2
    have ho : (⟨tx.txid, o.vout⟩ : OutPoint) = o := by cases o; simp_all
    rcases Sp.present tx htx o.vout hv with hp | hp | hp
    · rw [ho] at hp; exact absurd ((mem_spentList chain o).1 hp) hns
    · rw [ho] at hp; exact hp
    · simp [AL.get] at hp

/-- The headline statement: the outpoints listed for `script` are exactly the outputs paying to
`script` that the chain created and has not spent (real outpoints; the special ones: `c17_special_rows`). -/
theorem c17_listed_iff_unspent_output (cfg : Cfg) (ha : cfg.indexAddresses = true) (chain : List Block)
    (st : State) (evs : List Event) (hnd : NoDupTxids chain) (hrun : run cfg chain = .ok (st, evs))
    (script : List UInt8) (o : OutPoint) (hsp : o.isSpecial = false) :
    (script, o) ∈ st.script2out ↔ (∃ out, CreatedBy chain o out ∧ out.script = script) ∧ ¬ SpentBy chain o := by
  have T := run_table cfg ha chain st evs hnd hrun
  have hdom := c17_utxo_domain_is_unspent cfg ha chain st evs hnd hrun o hsp
  have huniq : ∀ out out', CreatedBy chain o out → CreatedBy chain o out' → out = out' := by
    rintro out out' ⟨tx, htx, h1, h2⟩ ⟨tx', htx', h1', h2'⟩
    have : tx = tx' := by
      have hn := hnd.1
      simp only [chainTxids] at hn
      exact eq_of_nodup_txids hn htx htx' (h1.trans h1'.symm)
    subst this
    rw [h2] at h2'; exact Option.some.inj h2'
  rw [T.exact script o]
  constructor
  · rintro ⟨e, he, hs⟩
    obtain ⟨out, hc, h1, _⟩ := T.real o e he hsp
    have := hdom.1 (by simp [he])
    exact ⟨⟨out, hc, by rw [← h1, hs]⟩, this.2⟩
  · rintro ⟨⟨out, hc, hs⟩, hns⟩
    have := hdom.2 ⟨⟨out, hc⟩, hns⟩
    cases he : AL.get st.utxo o with
    | none => simp [he] at this
    | some e =>
      obtain ⟨out', hc', h1, _⟩ := T.real o e he hsp
      have := huniq out out' hc hc'
      exact ⟨e, rfl, by rw [h1, ← this, hs]⟩

/-- One block step, as used by C16: the invariant is preserved by every successful `applyBlock`
whose transactions have fresh, non-zero txids. -/
theorem c17_block_step (cfg : Cfg) (ha : cfg.indexAddresses = true) (pre : List Tx) (st : State) (blk : Block)
    (r : State × List Event) (T : TableInv cfg pre st)
    (hfresh : ∀ tx ∈ blk.txs, tx.txid ∉ pre.map (·.txid) ∧ tx.txid ≠ 0)
    (h : applyBlock cfg st blk = .ok r) : TableInv cfg (pre ++ blk.txs) r.1 :=
  applyBlock_table cfg ha pre st blk r T hfresh h

/-! Non-vacuity: a three-block chain (scripts reused, a spend in the block after creation, an
OP_RETURN and an empty-script output) satisfies the hypotheses, and its address index is not empty. -/

def c17CfgEx : Cfg := ⟨false, true, false, false, false, 0, 0, 0⟩

def c17ChainEx : List Block :=
  let cb (txid value : Nat) : Tx := ⟨txid, [⟨OutPoint.null, false, none, []⟩], [⟨value, false, [0x51]⟩], [], none, 60⟩
  [ ⟨0, 0, 100, 0, [cb 1 5000000000]⟩,
    ⟨1, 1, 101, 0, [cb 2 5000000000,
      ⟨3, [⟨⟨1, 0⟩, false, some 0, []⟩], [⟨1000, false, [0x51]⟩, ⟨0, true, [0x6a]⟩, ⟨4000, false, []⟩], [], none, 80⟩]⟩,
    ⟨2, 2, 102, 0, [cb 4 5000000000, ⟨5, [⟨⟨3, 0⟩, false, some 1, []⟩, ⟨⟨3, 2⟩, false, some 1, []⟩], [⟨5000, false, [0x52]⟩], [], none, 90⟩]⟩ ]

example : NoDupTxids c17ChainEx := by unfold NoDupTxids; decide


example : (match run c17CfgEx c17ChainEx with
    | .ok (st, _) => st.script2out
    | _ => []) =
    [([0x6a], ⟨3, 1⟩), ([0x51], ⟨2, 0⟩), ([0x52], ⟨5, 0⟩), ([0x51], ⟨4, 0⟩)] := by decide

#print axioms c17_address_index_exact
#print axioms c17_no_duplicate_rows
#print axioms c17_entries_match_creating_tx
#print axioms c17_listed_outputs
#print axioms c17_special_rows
#print axioms c17_block_step
#print axioms c17_utxo_domain_is_unspent
#print axioms c17_listed_iff_unspent_output

end Ord.Index
