import OrdModel.Proofs.IndexMiscReplayBalances
/-
C37 — index events replay to the indexed state.

`replay cfg events chain` (OrdModel/Index/Replay.lean) folds the emitted events into inscription
locations, charms, ids, the unbound counter, rune existence, mint counts, burned totals and
output balances; `project cfg st` reads the same out of the index tables.  Full statement:

  theorem c37_replay (h : run cfg chain = .ok (st, evs)) (valid chain) :
      ∀ component, (replay cfg evs chain).component ≈ (project cfg st).component     (as maps)

Proved here, for every configuration:
* with no validity hypothesis: rune existence (`c37_rune_entries`, as lists), mint counts
  (`c37_mints`, as maps), the per-block step `c37_rune_block_step`, the per-transaction balance step
  `c37_balances_tx_step` (fresh txid only), and `c37_utxo_pass_emits_no_rune_event`;
* for chains of consecutive blocks (heights 0,1,2,…, ≤ 2^32 transactions each) without a repeated
  txid (`RuneLift.SupplyChainOK`): burned totals (`c37_burned`, absent = 0), output balances
  (`c37_balances`, as lists) and that no balance event is left unclaimed (`c37_no_leftover`).
The inscription components (locations, charms, ids, unbound counter) are checked on every run by
the oracle line `ix.oracle.replay` on the implementation's own events and tables; see
notes/C37.md for what their proofs need.
-/
namespace Ord.Index

/-- One block of rune indexing: if the replayed rune list / mint counts agree with the entries
before the block, then after replaying the block's events they agree with the entries after it
(every `runeEntries` write of `index_runes` sits next to the event that mirrors it; the
end-of-block burn flush does not touch existence or `mints`). -/
theorem c37_rune_block_step (c : List Block) (rs : ReplayState) (st st' : State) (blk : Block) (evs : List Event)
    (h : RInv rs st) (hb : indexRunesBlock st blk = .ok (st', evs)) :
    RInv (evs.foldl (applyEvent c) rs) st' :=
  indexRunesBlock_rinv c h blk st' evs hb

/-- Rune existence: after any successfully indexed chain the runes announced by `RuneEtched`
events, in order, are exactly the keys of the rune entry table, in table order. -/
theorem c37_rune_entries (cfg : Cfg) (chain : List Block) (st : State) (evs : List Event)
    (h : run cfg chain = .ok (st, evs)) :
    (replay cfg evs chain).runes = (project cfg st).runes :=
  (run_rinv chain cfg (.inl (utxoPassFrame cfg)) chain st evs h).runes

/-- Mint counts: for every rune id, the number of `RuneMinted` events since its (last)
`RuneEtched` event is the `mints` field of its entry; ids without an entry have no count. -/
theorem c37_mints (cfg : Cfg) (chain : List Block) (st : State) (evs : List Event)
    (h : run cfg chain = .ok (st, evs)) (id : RuneId) :
    AL.get (replay cfg evs chain).mints id = AL.get (project cfg st).mints id := by
  have := (run_rinv chain cfg (.inl (utxoPassFrame cfg)) chain st evs h).mints id
  show AL.get (evs.foldl (applyEvent chain) {}).mints id = AL.get (st.runeEntries.map _) id
  rw [this]
  exact (AL.get_map_val (fun e : RuneEntry => e.mints) st.runeEntries id).symm

/-- Burned totals: for every rune id, the sum of the amounts of its `RuneBurned` events equals the
`burned` field of its entry (absent = 0 on both sides), after every successfully indexed chain of
consecutive blocks (heights 0, 1, 2, …, at most 2^32 transactions each) in which no txid occurs
twice.  (The index adds a block's burns to the entries at the end of the block, so this is a
statement about committed states, which is what `run` produces.) -/
theorem c37_burned (cfg : Cfg) (chain : List Block) (st : State) (evs : List Event)
    (h : run cfg chain = .ok (st, evs)) (hc : RuneLift.SupplyChainOK chain) (id : RuneId) :
    (AL.get (replay cfg evs chain).burned id).getD 0 = (AL.get (project cfg st).burned id).getD 0 := by
  have := run_binv chain cfg chain st evs h hc id
  show (AL.get (evs.foldl (applyEvent chain) {}).burned id).getD 0 = (AL.get (st.runeEntries.map _) id).getD 0
  rw [AL.get_map_val (fun e : RuneEntry => e.burned) st.runeEntries id]
  exact this

/-- Output balances: replaying the rune events transaction by transaction (erase the rows of the
transaction's inputs, then apply its `RuneTransferred` events) reproduces the balance table —
the same rows in the same order, not just the same map — after every successfully indexed chain of
consecutive blocks in which no txid occurs twice. -/
theorem c37_balances (cfg : Cfg) (chain : List Block) (st : State) (evs : List Event)
    (h : run cfg chain = .ok (st, evs)) (hc : RuneLift.SupplyChainOK chain) :
    (replay cfg evs chain).balances = (project cfg st).balances := by
  show (replayBalances cfg evs chain).1 = st.balances
  rw [run_bal cfg chain st evs h hc]

/-- … and every rune event that is not a `RuneBurned` is claimed by the transaction of the chain
whose txid it carries (no event is left over). -/
theorem c37_no_leftover (cfg : Cfg) (chain : List Block) (st : State) (evs : List Event)
    (h : run cfg chain = .ok (st, evs)) (hc : RuneLift.SupplyChainOK chain) :
    (replay cfg evs chain).leftover = (project cfg st).leftover := by
  show (replayBalances cfg evs chain).2.length = 0
  rw [run_bal cfg chain st evs h hc]
  rfl

/-- One transaction of the rune pass (no chain hypothesis beyond a fresh txid): its balance events
all carry its txid, and `replayBalTx` turns the table before into the table after. -/
theorem c37_balances_tx_step (st : State) (blk : Block) (i : Nat) (tx : Tx) (bb : Balances) (st' : State)
    (bb' : Balances) (evs : List Event) (hx : indexRunesTx st blk i tx bb = .ok (st', bb', evs))
    (hfresh : ∀ v, AL.get st.balances ⟨tx.txid, v⟩ = none) :
    (∀ e ∈ evs.filter isBalEvent, ofTx tx.txid e = true) ∧
    ∀ tail, (∀ e ∈ tail, ofTx tx.txid e = false) →
      replayBalTx (st.balances, evs.filter isBalEvent ++ tail) tx = (st'.balances, tail) :=
  indexRunesTx_bal st blk i tx bb st' bb' evs hx hfresh

/-- The inscription / UTXO pass of a block is invisible on the rune side: it leaves the rune
entries and balances alone and emits only inscription events (events without a txid field). -/
theorem c37_utxo_pass_emits_no_rune_event (cfg : Cfg) (st : State) (blk : Block) (st1 : State) (ev1 : List Event)
    (h : indexUtxoEntries cfg st blk = .ok (st1, ev1)) :
    st1.runeEntries = st.runeEntries ∧ st1.balances = st.balances ∧ ∀ e ∈ ev1, evTxid e = none :=
  ⟨(indexUtxoEntries_rsame cfg st blk st1 ev1 h).1.1, (indexUtxoEntries_rsame cfg st blk st1 ev1 h).1.2,
   (indexUtxoEntries_rsame cfg st blk st1 ev1 h).2⟩

/-! ### non-vacuity: an index (runes only, to keep the example small) over a three-block chain with an etching (reserved name,
open mint terms) and a mint of it succeeds, emits `RuneEtched`, `RuneTransferred`, `RuneMinted`, `RuneTransferred`
(premine 7 + mint 3 = 10 moved to one output), `RuneBurned` (the 10 units sent to an
OP_RETURN-only transaction); the chain satisfies `SupplyChainOK`, and the replay reproduces the projection -/

def exCfg : Cfg := ⟨false, false, false, false, true, 0, 0, 0⟩

def exChain : List Block :=
  [ ⟨0, 0, 0, 0,
      [⟨11, [⟨OutPoint.null, false, none, []⟩], [⟨50, false, []⟩], [], none, 0⟩,
       ⟨12, [⟨⟨11, 0⟩, false, none, []⟩], [⟨50, false, []⟩, ⟨0, true, []⟩], [],
         some (.runestone [] (some ⟨none, some 7, none, none, none, some ⟨some 3, some 2, none, none, none, none⟩, false⟩) none none), 0⟩]⟩,
    ⟨1, 0, 0, 0,
      [⟨21, [⟨OutPoint.null, false, none, []⟩], [⟨50, false, []⟩], [], none, 0⟩,
       ⟨22, [⟨⟨12, 0⟩, false, none, []⟩], [⟨0, true, []⟩, ⟨50, false, []⟩], [],
         some (.runestone [] none (some ⟨0, 1⟩) none), 0⟩]⟩,
    ⟨2, 0, 0, 0,
      [⟨31, [⟨OutPoint.null, false, none, []⟩], [⟨50, false, []⟩], [], none, 0⟩,
       ⟨32, [⟨⟨22, 1⟩, false, none, []⟩], [⟨0, true, []⟩], [], none, 0⟩]⟩ ]

example : RuneLift.SupplyChainOK exChain := by
  refine ⟨?_, by decide⟩
  intro i hi
  have : i = 0 ∨ i = 1 ∨ i = 2 := by simp [exChain] at hi; omega
  rcases this with rfl | rfl | rfl <;> simp [exChain]

example : (match run exCfg exChain with
    | .ok (st, evs) =>
      (evs.length, (replay exCfg evs exChain).runes, (replay exCfg evs exChain).mints,
        (project exCfg st).mints, (replay exCfg evs exChain).agrees (project exCfg st))
    | _ => (0, [], [], [], false)) = (5, [⟨0, 1⟩], [(⟨0, 1⟩, 1)], [(⟨0, 1⟩, 1)], true) := by decide

example : (match run exCfg exChain with
    | .ok (st, evs) => ((replay exCfg evs exChain).burned, (project exCfg st).burned, st.balances.length)
    | _ => ([], [], 1)) = ([(⟨0, 1⟩, 10)], [(⟨0, 1⟩, 10)], 0) := by decide

/-- after the first two blocks the 10 units sit on output 1 of transaction 22 -/
example : (match run exCfg (exChain.take 2) with
    | .ok (st, evs) => ((replay exCfg evs (exChain.take 2)).balances, st.balances)
    | _ => ([], [])) = ([(⟨22, 1⟩, [(⟨0, 1⟩, 10)])], [(⟨22, 1⟩, [(⟨0, 1⟩, 10)])]) := by decide

#print axioms c37_rune_block_step
#print axioms c37_rune_entries
#print axioms c37_mints
#print axioms c37_burned
#print axioms c37_balances
#print axioms c37_no_leftover
#print axioms c37_balances_tx_step
#print axioms c37_utxo_pass_emits_no_rune_event

end Ord.Index
