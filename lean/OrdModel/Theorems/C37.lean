import OrdModel.Proofs.IndexMiscReplayBalances
import OrdModel.Proofs.IndexLiftDischargeC37Chain
import OrdModel.Proofs.IndexLiftInsValid
import OrdModel.Proofs.IndexMiscNoPanicLift
/-
C37 — index events replay to the indexed state.

`replay cfg events chain` (OrdModel/Index/Replay.lean) folds the emitted events into inscription
locations, charms, ids, the unbound counter, rune existence, mint counts, burned totals and
output balances; `project cfg st` reads the same out of the index tables.  Full statement:

  theorem c37_replay (h : run cfg chain = .ok (st, evs)) (valid chain) :
      ∀ component, (replay cfg evs chain).component ≈ (project cfg st).component     (as maps)

Proved here, for every configuration:
* with no validity hypothesis: rune existence (`c37_rune_entries`, as lists), mint counts
  (`c37_mints`, as maps), the per-block step `c37_rune_block_step`, the per-transaction balance step
  `c37_balances_tx_step` (fresh txid only), and `c37_utxo_pass_emits_no_rune_event`;
* for chains of consecutive blocks (heights 0,1,2,…, ≤ 2^32 transactions each) without a repeated
  txid (`RuneLift.SupplyChainOK`): burned totals (`c37_burned`, absent = 0), output balances
  (`c37_balances`, as lists) and that no balance event is left unclaimed (`c37_no_leftover`).
* for chains satisfying C04's chain hypotheses (`InsLift.InsChain`: pairwise distinct non-zero
  txids, no special-outpoint spend outside a block's first transaction, coinbase-first blocks,
  non-decreasing heights): the inscription components — locations (`c37_inscription_locations`),
  charms (`c37_charms_at_creation`: the charms of the `InscriptionCreated` event, plus the burned
  bit for a transfer into an OP_RETURN output), ids (`c37_ids`) and the unbound counter
  (`c37_unbound_counter`), all as maps; per-step lemma `c37_uil_event_mirrors_write`.
`c37_replay` — **the full statement**: for every `Valid.validChain` chain (C16's predicate, which
implies both sets of chain hypotheses) every component of `replay` agrees with `project`;
`c37_replay_agrees`: the executable predicate the oracle line `ix.oracle.replay` evaluates is `true`.
-/
namespace Ord.Index

/-- One block of rune indexing: if the replayed rune list / mint counts agree with the entries
before the block, then after replaying the block's events they agree with the entries after it
(every `runeEntries` write of `index_runes` sits next to the event that mirrors it; the
end-of-block burn flush does not touch existence or `mints`). -/
theorem c37_rune_block_step (c : List Block) (rs : ReplayState) (st st' : State) (blk : Block) (evs : List Event)
    (h : RInv rs st) (hb : indexRunesBlock st blk = .ok (st', evs)) :
    RInv (evs.foldl (applyEvent c) rs) st' :=
  indexRunesBlock_rinv c h blk st' evs hb

/-- Rune existence: after any successfully indexed chain the runes announced by `RuneEtched`
events, in order, are exactly the keys of the rune entry table, in table order. -/
theorem c37_rune_entries (cfg : Cfg) (chain : List Block) (st : State) (evs : List Event)
    (h : run cfg chain = .ok (st, evs)) :
    (replay cfg evs chain).runes = (project cfg st).runes :=
  (run_rinv chain cfg (.inl (utxoPassFrame cfg)) chain st evs h).runes

/-- Mint counts: for every rune id, the number of `RuneMinted` events since its (last)
`RuneEtched` event is the `mints` field of its entry; ids without an entry have no count. -/
theorem c37_mints (cfg : Cfg) (chain : List Block) (st : State) (evs : List Event)
    (h : run cfg chain = .ok (st, evs)) (id : RuneId) :
    AL.get (replay cfg evs chain).mints id = AL.get (project cfg st).mints id := by
  have := (run_rinv chain cfg (.inl (utxoPassFrame cfg)) chain st evs h).mints id
  show AL.get (evs.foldl (applyEvent chain) {}).mints id = AL.get (st.runeEntries.map _) id
  rw [this]
  exact (AL.get_map_val (fun e : RuneEntry => e.mints) st.runeEntries id).symm

/-- Burned totals: for every rune id, the sum of the amounts of its `RuneBurned` events equals the
`burned` field of its entry (absent = 0 on both sides), after every successfully indexed chain of
consecutive blocks (heights 0, 1, 2, …, at most 2^32 transactions each) in which no txid occurs
twice.  (The index adds a block's burns to the entries at the end of the block, so this is a
statement about committed states, which is what `run` produces.) -/
theorem c37_burned (cfg : Cfg) (chain : List Block) (st : State) (evs : List Event)
    (h : run cfg chain = .ok (st, evs)) (hc : RuneLift.SupplyChainOK chain) (id : RuneId) :
    (AL.get (replay cfg evs chain).burned id).getD 0 = (AL.get (project cfg st).burned id).getD 0 := by
  have := run_binv chain cfg chain st evs h hc id
  show (AL.get (evs.foldl (applyEvent chain) {}).burned id).getD 0 = (AL.get (st.runeEntries.map _) id).getD 0
  rw [AL.get_map_val (fun e : RuneEntry => e.burned) st.runeEntries id]
  exact this

/-- Output balances: replaying the rune events transaction by transaction (erase the rows of the
transaction's inputs, then apply its `RuneTransferred` events) reproduces the balance table —
the same rows in the same order, not just the same map — after every successfully indexed chain of
consecutive blocks in which no txid occurs twice. -/
theorem c37_balances (cfg : Cfg) (chain : List Block) (st : State) (evs : List Event)
    (h : run cfg chain = .ok (st, evs)) (hc : RuneLift.SupplyChainOK chain) :
    (replay cfg evs chain).balances = (project cfg st).balances := by
  show (replayBalances cfg evs chain).1 = st.balances
  rw [run_bal cfg chain st evs h hc]

/-- … and every rune event that is not a `RuneBurned` is claimed by the transaction of the chain
whose txid it carries (no event is left over). -/
theorem c37_no_leftover (cfg : Cfg) (chain : List Block) (st : State) (evs : List Event)
    (h : run cfg chain = .ok (st, evs)) (hc : RuneLift.SupplyChainOK chain) :
    (replay cfg evs chain).leftover = (project cfg st).leftover := by
  show (replayBalances cfg evs chain).2.length = 0
  rw [run_bal cfg chain st evs h hc]
  rfl

/-- One transaction of the rune pass (no chain hypothesis beyond a fresh txid): its balance events
all carry its txid, and `replayBalTx` turns the table before into the table after. -/
theorem c37_balances_tx_step (st : State) (blk : Block) (i : Nat) (tx : Tx) (bb : Balances) (st' : State)
    (bb' : Balances) (evs : List Event) (hx : indexRunesTx st blk i tx bb = .ok (st', bb', evs))
    (hfresh : ∀ v, AL.get st.balances ⟨tx.txid, v⟩ = none) :
    (∀ e ∈ evs.filter isBalEvent, ofTx tx.txid e = true) ∧
    ∀ tail, (∀ e ∈ tail, ofTx tx.txid e = false) →
      replayBalTx (st.balances, evs.filter isBalEvent ++ tail) tx = (st'.balances, tail) :=
  indexRunesTx_bal st blk i tx bb st' bb' evs hx hfresh

/-- The inscription / UTXO pass of a block is invisible on the rune side: it leaves the rune
entries and balances alone and emits only inscription events (events without a txid field). -/
theorem c37_utxo_pass_emits_no_rune_event (cfg : Cfg) (st : State) (blk : Block) (st1 : State) (ev1 : List Event)
    (h : indexUtxoEntries cfg st blk = .ok (st1, ev1)) :
    st1.runeEntries = st.runeEntries ∧ st1.balances = st.balances ∧ ∀ e ∈ ev1, evTxid e = none :=
  ⟨(indexUtxoEntries_rsame cfg st blk st1 ev1 h).1.1, (indexUtxoEntries_rsame cfg st blk st1 ev1 h).1.2,
   (indexUtxoEntries_rsame cfg st blk st1 ev1 h).2⟩

/-! ## The inscription components (`Proofs/IndexLiftDischargeC37*.lean`)

SEQUENCE_NUMBER_TO_SATPOINT is written at commit time from the `(sequence number, offset)` lists
of the flushed UTXO entries, not where the event is emitted.  The proof tracks, through a block,
that every sequence number announced by an event is *listed* (in an output entry being built, the
UTXO cache, the pending null / unbound entry) at the satpoint the replay holds for it, or is in
flight (scanned off a spent input, or saved for the coinbase); at the commit C04's invariant
(`Insloc.c04_reachable`: "`seq2sp i = (o, off)` ⇔ `(i, off)` listed in entry `o`") turns the
listing into the committed row. -/

/-- **Per-step lemma: each `update_inscription_location` emits its event next to the table write
it mirrors.**  One call appends exactly one event, naming the sequence number that is pushed
(`flSeq`: the old one, or the next free one for a new inscription).  Replaying that event
* keeps ids, charms and the unbound counter equal to the entry table (`EInv`): a creation appends
  the entry with the event's id and charms; a transfer sets the burned bit exactly when the
  destination is an OP_RETURN output of the chain (`opr`), which is what `replay` looks up;
* sets the replayed location of that sequence number to the satpoint `lc` where the
  `(sequence number, offset)` pair is pushed — an output entry of this transaction `t`, the null
  entry, or the unbound entry at the running unbound counter — and no other listing changes. -/
theorem c37_uil_event_mirrors_write (c : List Block) (cfg : Cfg) (height time : Nat)
    (ir : Option (List (Nat × Nat))) (fl : Flotsam) (sp : SatPoint) (opr : Bool) (tgt : Target)
    (ls ls' : LocState) (t : Txid)
    (h : updateInscriptionLocation cfg height time ir fl sp opr tgt ls = .ok ls')
    (htgt : ∀ v, tgt = .output v → sp.outpoint = ⟨t, v⟩) (hnull : tgt = .null → sp.outpoint = OutPoint.null)
    (hopr : opr = isOpReturnOut c sp.outpoint)
    (rs : ReplayState) (hE : ReplayIns.EInv rs ls.st) :
    ∃ ev lc, ls'.ctx.events = ls.ctx.events ++ [ev] ∧
      ReplayIns.evSeq ev = some (Insloc.flSeq ls.st.entries.length fl) ∧
      ReplayIns.EInv (applyEvent c rs ev) ls'.st ∧
      (applyEvent c rs ev).loc = AL.set rs.loc (Insloc.flSeq ls.st.entries.length fl) lc ∧
      (∀ o s off, ReplayIns.lsListed t ls' o s off ↔
        (ReplayIns.lsListed t ls o s off ∨
          (o = lc.outpoint ∧ s = Insloc.flSeq ls.st.entries.length fl ∧ off = lc.offset))) ∧
      ls'.ctx.flotsam = ls.ctx.flotsam :=
  ReplayIns.uil_event c cfg height time ir fl sp opr tgt ls ls' t h htgt hnull hopr rs hE

/-- the chain-level invariant behind the four theorems below -/
theorem c37_inscription_invariant (cfg : Cfg) (chain : List Block) (st : State) (evs : List Event)
    (h : run cfg chain = .ok (st, evs)) (hc : InsLift.InsChain chain) :
    ReplayIns.RInvIns (evs.foldl (applyEvent chain) {}) st :=
  ReplayIns.run_replayIns chain cfg (ReplayIns.isOpReturnOut_null chain hc.cond.txidsNonzero) chain st evs h hc.ok
    (ReplayIns.findTx_of_nodup chain hc.cond.txidsDistinct)

/-- **Inscription locations**: replaying the `InscriptionCreated` / `InscriptionTransferred`
events (an unbound creation is located at `unbound_outpoint():k`, `k` = number of unbound creations
before it) reproduces SEQUENCE_NUMBER_TO_SATPOINT, as a map, after every successfully indexed chain
satisfying C04's chain hypotheses. -/
theorem c37_inscription_locations (cfg : Cfg) (chain : List Block) (st : State) (evs : List Event)
    (h : run cfg chain = .ok (st, evs)) (hc : InsLift.InsChain chain) (seq : Nat) :
    AL.get (replay cfg evs chain).loc seq = AL.get (project cfg st).loc seq :=
  (c37_inscription_invariant cfg chain st evs h hc).loc seq

/-- **Charms**: the charms carried by the `InscriptionCreated` event of a sequence number, with the
burned bit OR-ed in when a later `InscriptionTransferred` moves it into an OP_RETURN output of the
chain, are the charms of its entry. -/
theorem c37_charms_at_creation (cfg : Cfg) (chain : List Block) (st : State) (evs : List Event)
    (h : run cfg chain = .ok (st, evs)) (hc : InsLift.InsChain chain) (seq : Nat) :
    AL.get (replay cfg evs chain).charms seq = AL.get (project cfg st).charms seq := by
  have := (c37_inscription_invariant cfg chain st evs h hc).einv.charms seq
  show AL.get (evs.foldl (applyEvent chain) {}).charms seq =
    AL.get ((enumFrom 0 st.entries).map (fun p => (p.1, p.2.charms))) seq
  rw [this, ReplayIns.get_enumFrom_map]
  simp

/-- **Ids**: the id announced at creation is the id of the entry with that sequence number. -/
theorem c37_ids (cfg : Cfg) (chain : List Block) (st : State) (evs : List Event)
    (h : run cfg chain = .ok (st, evs)) (hc : InsLift.InsChain chain) (seq : Nat) :
    AL.get (replay cfg evs chain).ids seq = AL.get (project cfg st).ids seq := by
  have := (c37_inscription_invariant cfg chain st evs h hc).einv.ids seq
  show AL.get (evs.foldl (applyEvent chain) {}).ids seq =
    AL.get ((enumFrom 0 st.entries).map (fun p => (p.1, p.2.id))) seq
  rw [this, ReplayIns.get_enumFrom_map]
  simp

/-- **The unbound counter**: the number of `InscriptionCreated` events without a location is
`Statistic::UnboundInscriptions`. -/
theorem c37_unbound_counter (cfg : Cfg) (chain : List Block) (st : State) (evs : List Event)
    (h : run cfg chain = .ok (st, evs)) (hc : InsLift.InsChain chain) :
    (replay cfg evs chain).unbound = (project cfg st).unbound :=
  (c37_inscription_invariant cfg chain st evs h hc).einv.unbound

/-- **C37, every component, every valid chain.**  For every configuration and every chain accepted
by C16's validity predicate, if indexing succeeds then replaying the emitted events reproduces the
inscription locations, charms, ids (as maps), the unbound counter, the set of runes (as a list, in
etching order), the mint counts (as a map), the burned totals (absent = 0), and the output balances
(the same rows in the same order), with no rune event left unattributed. -/
theorem c37_replay (cfg : Cfg) (chain : List Block) (st : State) (evs : List Event)
    (h : run cfg chain = .ok (st, evs)) (hv : Valid.validChain chain = true) :
    (∀ seq, AL.get (replay cfg evs chain).loc seq = AL.get (project cfg st).loc seq) ∧
    (∀ seq, AL.get (replay cfg evs chain).charms seq = AL.get (project cfg st).charms seq) ∧
    (∀ seq, AL.get (replay cfg evs chain).ids seq = AL.get (project cfg st).ids seq) ∧
    (replay cfg evs chain).unbound = (project cfg st).unbound ∧
    (replay cfg evs chain).runes = (project cfg st).runes ∧
    (∀ id, AL.get (replay cfg evs chain).mints id = AL.get (project cfg st).mints id) ∧
    (∀ id, (AL.get (replay cfg evs chain).burned id).getD 0 = (AL.get (project cfg st).burned id).getD 0) ∧
    (replay cfg evs chain).balances = (project cfg st).balances ∧
    (replay cfg evs chain).leftover = (project cfg st).leftover :=
  let hc := (InsLift.insChain_of_validChain chain hv).1
  let hs := (validChain_lotChainOK chain hv).ok
  ⟨c37_inscription_locations cfg chain st evs h hc, c37_charms_at_creation cfg chain st evs h hc,
   c37_ids cfg chain st evs h hc, c37_unbound_counter cfg chain st evs h hc,
   c37_rune_entries cfg chain st evs h, c37_mints cfg chain st evs h, c37_burned cfg chain st evs h hs,
   c37_balances cfg chain st evs h hs, c37_no_leftover cfg chain st evs h hs⟩

/-- … hence the executable predicate the oracle line `ix.oracle.replay` evaluates on the
implementation's own events and tables (`ReplayState.agrees`: every table compared as a map) is
`true` of the model's events and tables after every valid chain. -/
theorem c37_replay_agrees (cfg : Cfg) (chain : List Block) (st : State) (evs : List Event)
    (h : run cfg chain = .ok (st, evs)) (hv : Valid.validChain chain = true) :
    (replay cfg evs chain).agrees (project cfg st) = true := by
  obtain ⟨h1, h2, h3, h4, h5, h6, h7, h8, h9⟩ := c37_replay cfg chain st evs h hv
  exact ReplayIns.agrees_of_components _ _ h1 h2 h3 h4 h5 h6 h7 h8 h9

/-! ### non-vacuity: an index (runes only, to keep the example small) over a three-block chain with an etching (reserved name,
open mint terms) and a mint of it succeeds, emits `RuneEtched`, `RuneTransferred`, `RuneMinted`, `RuneTransferred`
(premine 7 + mint 3 = 10 moved to one output), `RuneBurned` (the 10 units sent to an
OP_RETURN-only transaction); the chain satisfies `SupplyChainOK`, and the replay reproduces the projection -/

def exCfg : Cfg := ⟨false, false, false, false, true, 0, 0, 0⟩

def exChain : List Block :=
  [ ⟨0, 0, 0, 0,
      [⟨11, [⟨OutPoint.null, false, none, []⟩], [⟨50, false, []⟩], [], none, 0⟩,
       ⟨12, [⟨⟨11, 0⟩, false, none, []⟩], [⟨50, false, []⟩, ⟨0, true, []⟩], [],
         some (.runestone [] (some ⟨none, some 7, none, none, none, some ⟨some 3, some 2, none, none, none, none⟩, false⟩) none none), 0⟩]⟩,
    ⟨1, 0, 0, 0,
      [⟨21, [⟨OutPoint.null, false, none, []⟩], [⟨50, false, []⟩], [], none, 0⟩,
       ⟨22, [⟨⟨12, 0⟩, false, none, []⟩], [⟨0, true, []⟩, ⟨50, false, []⟩], [],
         some (.runestone [] none (some ⟨0, 1⟩) none), 0⟩]⟩,
    ⟨2, 0, 0, 0,
      [⟨31, [⟨OutPoint.null, false, none, []⟩], [⟨50, false, []⟩], [], none, 0⟩,
       ⟨32, [⟨⟨22, 1⟩, false, none, []⟩], [⟨0, true, []⟩], [], none, 0⟩]⟩ ]

example : RuneLift.SupplyChainOK exChain := by
  refine ⟨?_, by decide⟩
  intro i hi
  have : i = 0 ∨ i = 1 ∨ i = 2 := by simp [exChain] at hi; omega
  rcases this with rfl | rfl | rfl <;> simp [exChain]

example : (match run exCfg exChain with
    | .ok (st, evs) =>
      (evs.length, (replay exCfg evs exChain).runes, (replay exCfg evs exChain).mints,
        (project exCfg st).mints, (replay exCfg evs exChain).agrees (project exCfg st))
    | _ => (0, [], [], [], false)) = (5, [⟨0, 1⟩], [(⟨0, 1⟩, 1)], [(⟨0, 1⟩, 1)], true) := by decide

example : (match run exCfg exChain with
    | .ok (st, evs) => ((replay exCfg evs exChain).burned, (project exCfg st).burned, st.balances.length)
    | _ => ([], [], 1)) = ([(⟨0, 1⟩, 10)], [(⟨0, 1⟩, 10)], 0) := by decide

/-- after the first two blocks the 10 units sit on output 1 of transaction 22 -/
example : (match run exCfg (exChain.take 2) with
    | .ok (st, evs) => ((replay exCfg evs (exChain.take 2)).balances, st.balances)
    | _ => ([], [])) = ([(⟨22, 1⟩, [(⟨0, 1⟩, 10)])], [(⟨22, 1⟩, [(⟨0, 1⟩, 10)])]) := by decide


/-! ### non-vacuity, inscription components: a valid chain that reveals an inscription (block 1, output
`3:0`), moves it into an OP_RETURN output (block 2: `5:0`, burned bit set by the transfer), reveals
an unbound one (block 3: unrecognized even field) and reveals a third on a sat that goes to fees in a
block whose coinbase does not claim them (block 4: lost at creation, `null:0`).  Indexing succeeds,
four inscription events are emitted, and the replay reproduces the tables. -/

def insCfg : Cfg :=
  { indexSats := true, indexAddresses := false, indexTransactions := false, indexInscriptions := true, indexRunes := false, firstInscriptionHeight := 0, jubileeHeight := 0, firstRuneHeight := 0 }
def iCbIn : TxIn := { prev := OutPoint.null, taproot := false, confHeight := none, pushes := [] }
def iOut (v : Nat) : TxOut := { value := v, opReturn := false, script := [1] }
def iCb (txid : Txid) (v : Nat) : Tx := { txid := txid, inputs := [iCbIn], outputs := [iOut v], envelopes := [], artifact := none, size := 0 }
def iEnv (unrec : Bool) : Envelope :=
  { input := 0, offset := 0, unrecognizedEven := unrec, duplicateField := false, incompleteField := false, pushnum := false, stutter := false, hidden := false, gallery := false, pointerField := false, pointer := none, parents := [] }
def iSpend (txid : Txid) (prev : OutPoint) (envs : List Envelope) (outs : List TxOut) : Tx :=
  { txid := txid, inputs := [{ prev := prev, taproot := true, confHeight := some 0, pushes := [] }], outputs := outs, envelopes := envs, artifact := none, size := 0 }
def insChain : List Block :=
  [ { height := 0, time := 0, hash := 100, minimumRune := 0, txs := [iCb 1 5000000000] },
    { height := 1, time := 0, hash := 101, minimumRune := 0, txs := [iCb 2 5000000000, iSpend 3 ⟨1, 0⟩ [iEnv false] [iOut 5000000000]] },
    { height := 2, time := 0, hash := 102, minimumRune := 0,
      txs := [iCb 4 5000000000, iSpend 5 ⟨3, 0⟩ [] [{ value := 1, opReturn := true, script := [] }, iOut 4999999999]] },
    { height := 3, time := 0, hash := 103, minimumRune := 0, txs := [iCb 6 5000000000, iSpend 7 ⟨5, 1⟩ [iEnv true] [iOut 4999999999]] },
    { height := 4, time := 0, hash := 104, minimumRune := 0, txs := [iCb 8 5000000000, iSpend 9 ⟨7, 0⟩ [iEnv false] []] } ]

example : Valid.validChain insChain = true := by decide

example : (match run insCfg insChain with
    | .ok (st, evs) =>
      (evs.length, (replay insCfg evs insChain).loc, st.seq2sp, (replay insCfg evs insChain).unbound,
        (replay insCfg evs insChain).agrees (project insCfg st))
    | _ => (0, [], [], 0, false)) =
    (4, [(0, ⟨⟨5, 0⟩, 0⟩), (1, ⟨OutPoint.unbound, 0⟩), (2, ⟨OutPoint.null, 0⟩)],
      [(0, ⟨⟨5, 0⟩, 0⟩), (1, ⟨OutPoint.unbound, 0⟩), (2, ⟨OutPoint.null, 0⟩)], 1, true) := by
  decide

/-- charms: the burned bit (4096) of inscription 0 comes from the transfer into the OP_RETURN output
(its creation event does not carry it); unbound (256) + vindicated (1024) of 1 and lost (16) of 2 come
from their creation events; the other bits are sat charms -/
example : (match run insCfg insChain with
    | .ok (st, evs) => ((replay insCfg evs insChain).charms, (project insCfg st).charms)
    | _ => ([], [])) =
    ([(0, 14337), (1, 1280), (2, 8208)], [(0, 14337), (1, 1280), (2, 8208)]) := by
  decide

#print axioms c37_rune_block_step
#print axioms c37_rune_entries
#print axioms c37_mints
#print axioms c37_burned
#print axioms c37_balances
#print axioms c37_no_leftover
#print axioms c37_balances_tx_step
#print axioms c37_utxo_pass_emits_no_rune_event
#print axioms c37_uil_event_mirrors_write
#print axioms c37_inscription_locations
#print axioms c37_charms_at_creation
#print axioms c37_ids
#print axioms c37_unbound_counter
#print axioms c37_replay
#print axioms c37_replay_agrees

end Ord.Index
