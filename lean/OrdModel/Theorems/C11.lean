import OrdModel.Proofs.IndexRunemintEtch
import OrdModel.Proofs.IndexRunemintCommit
/-!
# C11 — Only valid etchings create runes, with unique names, IDs and numbers

Property theorems only.  Model: `OrdModel/Index/Runes.lean` (`etched`, `txCommitsToRune`,
`createRuneEntry`, `reservedRune`, `commitment`, `indexRunesTx`, `indexRunesBlock`) and
`OrdModel/Index/Block.lean` (`applyBlock`); documented conditions written declaratively:
`OrdModel/Index/OracleRunemint.lean`; helper lemmas: `OrdModel/Proofs/IndexRunemint*.lean`.

`TxIn.taproot` / `TxIn.confHeight` are the node's answers about the spent output
(`getrawtransaction`, `getblockheader`): the theorems are relative to them being truthful.
-/
namespace Ord.Index.Runemint
open Ord.Index

/-- **Named etchings.**  For an artifact (runestone or cenotaph) whose etching names `rune`,
`etched` yields a rune iff the name is at or above the block's minimum, below `RESERVED`, not
yet in `rune2id`, and the commitment check succeeds; the id is `(block height, tx index)`, the
name is the etched one, and `etched` itself leaves the state unchanged. -/
theorem c11_etched_named_iff (st st' : State) (blk : Block) (t : Nat) (tx : Tx) (art : Artifact)
    (rune : Nat) (he : etchingOf art = some (some rune)) (id : RuneId) (r : Nat) :
    etched st blk t tx art = .ok (st', some (id, r)) ↔
      (st' = st ∧ id = ⟨blk.height, t⟩ ∧ r = rune ∧ blk.minimumRune ≤ rune ∧ rune < RESERVED ∧
        AL.get st.rune2id rune = none ∧ txCommitsToRune blk.height rune tx.inputs = .ok true) := by
  rw [etched_named st blk t tx art rune he]
  by_cases hbad : rune < blk.minimumRune ∨ rune ≥ RESERVED ∨ AL.contains st.rune2id rune = true
  · rw [if_pos hbad]
    constructor
    · intro h; simp at h
    · rintro ⟨_, _, _, h1, h2, h3, _⟩
      rcases hbad with h | h | h
      · omega
      · omega
      · simp [AL.contains, h3] at h
  · rw [if_neg hbad]
    have hb : blk.minimumRune ≤ rune ∧ rune < RESERVED ∧ AL.get st.rune2id rune = none := by
      refine ⟨by omega, by omega, ?_⟩
      cases hg : AL.get st.rune2id rune with
      | none => rfl
      | some v => exact absurd (Or.inr (Or.inr (by simp [AL.contains, hg]))) hbad
    cases hc : txCommitsToRune blk.height rune tx.inputs with
    | panic s => simp
    | err e => simp
    | ok b =>
      cases b with
      | false => simp
      | true =>
        simp only [Outcome.ok.injEq, Prod.mk.injEq, Option.some.injEq]
        constructor
        · rintro ⟨rfl, rfl, rfl⟩; exact ⟨rfl, rfl, rfl, hb.1, hb.2.1, hb.2.2, trivial⟩
        · rintro ⟨rfl, rfl, rfl, _⟩; exact ⟨rfl, rfl, rfl⟩

/-- **Commitment, soundness** (no assumption): if the check succeeds, some input's tapscript
pushes `commitment rune` and the node says that input spends a taproot output of a transaction
confirmed at height `c ≤ h` with `h − c + 1 ≥ 6` confirmations. -/
theorem c11_commit_sound (h rune : Nat) (ins : List TxIn)
    (hr : txCommitsToRune h rune ins = .ok true) :
    ∃ i ∈ ins, commitment rune ∈ i.pushes ∧ i.taproot = true ∧
      ∃ c, i.confHeight = some c ∧ c ≤ h ∧ h - c + 1 ≥ 6 :=
  txCommits_true h rune ins hr

/-- **Commitment, exact characterisation.**  When the node knows the block of every spent
transaction and none lies above the block being indexed (`NodeSane`; otherwise the Rust panics
on `unwrap`), the check never panics and answers exactly the documented condition. -/
theorem c11_commit_iff (h rune : Nat) (ins : List TxIn) (hs : NodeSane h ins) :
    (txCommitsToRune h rune ins = .ok true ↔
      ∃ i ∈ ins, commitment rune ∈ i.pushes ∧ i.taproot = true ∧
        ∃ c, i.confHeight = some c ∧ c ≤ h ∧ h - c + 1 ≥ 6) ∧
    (txCommitsToRune h rune ins = .ok false ∨ txCommitsToRune h rune ins = .ok true) := by
  rw [txCommits_eq h rune ins hs]
  constructor
  · have := commitOk_iff h rune ins
    unfold inputCommits at this
    rw [← this]; simp
  · cases commitOk h rune (ins.map factsOf) <;> simp

/-- five confirmations are not enough, six are -/
example : txCommitsToRune 10 300 [⟨⟨1, 0⟩, true, some 6, [commitment 300]⟩] = .ok false := by decide
example : txCommitsToRune 10 300 [⟨⟨1, 0⟩, true, some 5, [commitment 300]⟩] = .ok true := by decide
example : txCommitsToRune 10 300 [⟨⟨1, 0⟩, false, some 1, [commitment 300]⟩] = .ok false := by decide

/-- **Unnamed etchings.**  An unnamed etching in a runestone gets the reserved name of its
`(height, tx index)` (and bumps the reserved-runes statistic); an artifact without an etching —
which is all that is left of an *unnamed etching in a cenotaph*, since a cenotaph only keeps a
name — creates nothing and leaves the state unchanged. -/
theorem c11_etched_unnamed (st : State) (blk : Block) (t : Nat) (tx : Tx) :
    (∀ eds e m p, e.rune = none →
      etched st blk t tx (.runestone eds (some e) m p) =
        .ok ({ st with reservedRunes := st.reservedRunes + 1 },
             some (⟨blk.height, t⟩, reservedRune blk.height t))) ∧
    (∀ m, etched st blk t tx (.cenotaph none m) = .ok (st, none)) ∧
    (∀ eds m p, etched st blk t tx (.runestone eds none m p) = .ok (st, none)) := by
  refine ⟨?_, ?_, ?_⟩
  · intro eds e m p he
    exact etched_unnamed st blk t tx _ (by simp [etchingOf, he])
  · intro m; exact etched_none st blk t tx _ rfl
  · intro eds m p; exact etched_none st blk t tx _ rfl

/-- **Reserved names** never collide with named runes (`≥ RESERVED` vs `< RESERVED`) nor with
each other: `reserved` is injective in `(block, tx)` for 32-bit transaction indices. -/
theorem c11_reserved_names (b t b' t' : Nat) (ht : t < 2 ^ 32) (ht' : t' < 2 ^ 32) :
    RESERVED ≤ reservedRune b t ∧ (reservedRune b t = reservedRune b' t' → b = b' ∧ t = t') :=
  ⟨reservedRune_ge b t, reservedRune_inj b t b' t' (by simpa using ht) (by simpa using ht')⟩

example : reservedRune 840000 7 = RESERVED + (840000 * 2 ^ 32 + 7) := by decide

/-- **Commitment bytes.**  What `etched` looks for in the tapscript is the C32 commitment: the
rune's little-endian bytes without trailing zero bytes (value = rune, ≤ 16 bytes, last byte
non-zero — `c32_commitment`, and the only such string — `c32_commitment_unique`). -/
theorem c11_commitment (n : Nat) (hn : n < 2 ^ 128) :
    commitment n = Ord.Rune.commitment n ∧
    Ord.Rune.leValue (commitment n) = n ∧ (commitment n).length ≤ 16 ∧
      ∀ b, (commitment n).getLast? = some b → b.toNat ≠ 0 := by
  have h := commitment_eq_c32 n hn
  refine ⟨h, ?_⟩
  rw [h]
  have h256 : n < 256 ^ 16 := by
    have : (256 : Nat) ^ 16 = 2 ^ 128 := by decide
    omega
  refine ⟨?_, ?_, Ord.Rune.stripZeros_getLast _⟩
  · rw [Ord.Rune.commitment, Ord.Rune.leValue_stripZeros, Ord.Rune.leValue_leBytes 16 n h256]
  · have := Ord.Rune.stripZeros_length_le (Ord.Rune.leBytes 16 n)
    rw [Ord.Rune.leBytes_length] at this
    exact this

example : commitment 65536 = [0, 0, 1] := by decide

end Ord.Index.Runemint
