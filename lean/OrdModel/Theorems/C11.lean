import OrdModel.Proofs.IndexRunemintChain
import OrdModel.Proofs.IndexRunemintCommit
import OrdModel.Proofs.IndexLiftRuneFrame
/-!
# C11 — Only valid etchings create runes, with unique names, IDs and numbers

Property theorems only.  Model: `OrdModel/Index/Runes.lean` (`etched`, `txCommitsToRune`,
`createRuneEntry`, `reservedRune`, `commitment`, `indexRunesTx`, `indexRunesBlock`) and
`OrdModel/Index/Block.lean` (`applyBlock`); documented conditions written declaratively:
`OrdModel/Index/OracleRunemint.lean`; helper lemmas: `OrdModel/Proofs/IndexRunemint*.lean`.

`TxIn.taproot` / `TxIn.confHeight` are the node's answers about the spent output
(`getrawtransaction`, `getblockheader`): the theorems are relative to them being truthful.
-/
namespace Ord.Index.Runemint
open Ord.Index

/-- **Named etchings.**  For an artifact (runestone or cenotaph) whose etching names `rune`,
`etched` yields a rune iff the name is at or above the block's minimum, below `RESERVED`, not
yet in `rune2id`, and the commitment check succeeds; the id is `(block height, tx index)`, the
name is the etched one, and `etched` itself leaves the state unchanged. -/
theorem c11_etched_named_iff (st st' : State) (blk : Block) (t : Nat) (tx : Tx) (art : Artifact)
    (rune : Nat) (he : etchingOf art = some (some rune)) (id : RuneId) (r : Nat) :
    etched st blk t tx art = .ok (st', some (id, r)) ↔
      (st' = st ∧ id = ⟨blk.height, t⟩ ∧ r = rune ∧ blk.minimumRune ≤ rune ∧ rune < RESERVED ∧
        AL.get st.rune2id rune = none ∧ txCommitsToRune blk.height rune tx.inputs = .ok true) :=
  etched_named_iff st st' blk t tx art rune he id r

/-- **Commitment, soundness** (no assumption): if the check succeeds, some input's tapscript
pushes `commitment rune` and the node says that input spends a taproot output of a transaction
confirmed at height `c ≤ h` with `h − c + 1 ≥ 6` confirmations. -/
theorem c11_commit_sound (h rune : Nat) (ins : List TxIn)
    (hr : txCommitsToRune h rune ins = .ok true) :
    ∃ i ∈ ins, commitment rune ∈ i.pushes ∧ i.taproot = true ∧
      ∃ c, i.confHeight = some c ∧ c ≤ h ∧ h - c + 1 ≥ 6 :=
  txCommits_true h rune ins hr

/-- **Commitment, exact characterisation.**  When the node knows the block of every spent
transaction and none lies above the block being indexed (`NodeSane`; otherwise the Rust panics
on `unwrap`), the check never panics and answers exactly the documented condition. -/
theorem c11_commit_iff (h rune : Nat) (ins : List TxIn) (hs : NodeSane h ins) :
    (txCommitsToRune h rune ins = .ok true ↔
      ∃ i ∈ ins, commitment rune ∈ i.pushes ∧ i.taproot = true ∧
        ∃ c, i.confHeight = some c ∧ c ≤ h ∧ h - c + 1 ≥ 6) ∧
    (txCommitsToRune h rune ins = .ok false ∨ txCommitsToRune h rune ins = .ok true) := by
  rw [txCommits_eq h rune ins hs]
  constructor
  · have := commitOk_iff h rune ins
    unfold inputCommits at this
    rw [← this]; simp
  · cases commitOk h rune (ins.map factsOf) <;> simp

/-- five confirmations are not enough, six are -/
example : txCommitsToRune 10 300 [⟨⟨1, 0⟩, true, some 6, [commitment 300]⟩] = .ok false := by decide
example : txCommitsToRune 10 300 [⟨⟨1, 0⟩, true, some 5, [commitment 300]⟩] = .ok true := by decide
example : txCommitsToRune 10 300 [⟨⟨1, 0⟩, false, some 1, [commitment 300]⟩] = .ok false := by decide

/-- **Unnamed etchings.**  An unnamed etching in a runestone gets the reserved name of its
`(height, tx index)` (and bumps the reserved-runes statistic); an artifact without an etching —
which is all that is left of an *unnamed etching in a cenotaph*, since a cenotaph only keeps a
name — creates nothing and leaves the state unchanged. -/
theorem c11_etched_unnamed (st : State) (blk : Block) (t : Nat) (tx : Tx) :
    (∀ eds e m p, e.rune = none →
      etched st blk t tx (.runestone eds (some e) m p) =
        .ok ({ st with reservedRunes := st.reservedRunes + 1 },
             some (⟨blk.height, t⟩, reservedRune blk.height t))) ∧
    (∀ m, etched st blk t tx (.cenotaph none m) = .ok (st, none)) ∧
    (∀ eds m p, etched st blk t tx (.runestone eds none m p) = .ok (st, none)) := by
  refine ⟨?_, ?_, ?_⟩
  · intro eds e m p he
    exact etched_unnamed st blk t tx _ (by simp [etchingOf, he])
  · intro m; exact etched_none st blk t tx _ rfl
  · intro eds m p; exact etched_none st blk t tx _ rfl

/-- **Reserved names** never collide with named runes (`≥ RESERVED` vs `< RESERVED`) nor with
each other: `reserved` is injective in `(block, tx)` for 32-bit transaction indices. -/
theorem c11_reserved_names (b t b' t' : Nat) (ht : t < 2 ^ 32) (ht' : t' < 2 ^ 32) :
    RESERVED ≤ reservedRune b t ∧ (reservedRune b t = reservedRune b' t' → b = b' ∧ t = t') :=
  ⟨reservedRune_ge b t, reservedRune_inj b t b' t' (by simpa using ht) (by simpa using ht')⟩

example : reservedRune 840000 7 = RESERVED + (840000 * 2 ^ 32 + 7) := by decide

/-- **Commitment bytes.**  What `etched` looks for in the tapscript is the C32 commitment: the
rune's little-endian bytes without trailing zero bytes (value = rune, ≤ 16 bytes, last byte
non-zero — `c32_commitment`, and the only such string — `c32_commitment_unique`). -/
theorem c11_commitment (n : Nat) (hn : n < 2 ^ 128) :
    commitment n = Ord.Rune.commitment n ∧
    Ord.Rune.leValue (commitment n) = n ∧ (commitment n).length ≤ 16 ∧
      ∀ b, (commitment n).getLast? = some b → b.toNat ≠ 0 := by
  have h := commitment_eq_c32 n hn
  refine ⟨h, ?_⟩
  rw [h]
  have h256 : n < 256 ^ 16 := by
    have : (256 : Nat) ^ 16 = 2 ^ 128 := by decide
    omega
  refine ⟨?_, ?_, Ord.Rune.stripZeros_getLast _⟩
  · rw [Ord.Rune.commitment, Ord.Rune.leValue_stripZeros, Ord.Rune.leValue_leBytes 16 n h256]
  · have := Ord.Rune.stripZeros_length_le (Ord.Rune.leBytes 16 n)
    rw [Ord.Rune.leBytes_length] at this
    exact this

example : commitment 65536 = [0, 0, 1] := by decide


/-! ### in the context of a block and a chain (`RInv`, `ValidEtching`, `etchedName` are defined in
`Proofs/IndexRunemintInv.lean`; `ValidEtching st blk tx art` is the disjunction of the documented
conditions: unnamed runestone etching, or named with `minimum ≤ name < RESERVED`, name not in
`rune2id`, commitment check true; never for an artifact without (named) etching) -/

/-- **A rune entry appears at `(H, t)` iff transaction `t` carries a valid etching.**  While
block `H` is indexed (`RInv st H t`), after transaction `t`: either its artifact has a valid
etching — then the entry with id `(H, t)` exists, has the etched (or reserved) name, the next
rune number `st.runes`, zero mints, this transaction as etching, `rune2id` maps the name back to
`(H, t)` and the rune count is one higher — or it has none, and then no entry `(H, t)` exists
and count and `rune2id` are unchanged.  (Entries of other ids are not created or removed:
`c10_tx_mint_counter`.) -/
theorem c11_tx_creates_iff {st : State} {H t : Nat} (hinv : RInv st H t) (blk : Block) (tx : Tx)
    (bb : Balances) (st' : State) (bb' : Balances) (evs : List Event) (hH : blk.height = H)
    (ht : t < 2 ^ 32) (hr : indexRunesTx st blk t tx bb = .ok (st', bb', evs)) :
    ((∃ e, AL.get st'.runeEntries ⟨H, t⟩ = some e) ↔ ∃ art, tx.artifact = some art ∧ ValidEtching st blk tx art) ∧
    (∀ art, tx.artifact = some art → ValidEtching st blk tx art →
      st'.runes = st.runes + 1 ∧
      ∃ e, AL.get st'.runeEntries ⟨H, t⟩ = some e ∧ e.rune = etchedName blk t art ∧ e.number = st.runes ∧
        e.mints = 0 ∧ e.etching = tx.txid ∧ AL.get st'.rune2id e.rune = some ⟨H, t⟩) ∧
    ((∀ art, tx.artifact = some art → ¬ ValidEtching st blk tx art) →
      st'.runes = st.runes ∧ st'.rune2id = st.rune2id) := by
  rcases (tx_step hinv blk tx bb st' bb' evs hH (by simpa using ht) hr).2.2 with
    ⟨art, ha, hv, hn, e, he⟩ | ⟨hnv, hnone, hn, hr2⟩
  · refine ⟨⟨fun _ => ⟨art, ha, hv⟩, fun _ => ⟨e, he.1⟩⟩, ?_, ?_⟩
    · intro art' ha' _
      have : art' = art := by rw [ha] at ha'; exact (Option.some.inj ha').symm
      subst this
      exact ⟨hn, e, he⟩
    · intro hnv; exact absurd hv (hnv art ha)
  · refine ⟨⟨fun ⟨e, he⟩ => by rw [hnone] at he; simp at he, fun ⟨art, ha, hv⟩ => absurd hv (hnv art ha)⟩, ?_, ?_⟩
    · intro art ha hv; exact absurd hv (hnv art ha)
    · intro _; exact ⟨hn, hr2⟩

/-- the conditions, spelled out -/
example (st : State) (blk : Block) (tx : Tx) (eds : List Edict) (e : Etching) (m : Option RuneId) (p : Option Nat)
    (rune : Nat) (he : e.rune = some rune) :
    ValidEtching st blk tx (.runestone eds (some e) m p) ↔
      (blk.minimumRune ≤ rune ∧ rune < RESERVED ∧ AL.get st.rune2id rune = none ∧
        txCommitsToRune blk.height rune tx.inputs = .ok true) := by
  simp [ValidEtching, etchingOf, he]

example (st : State) (blk : Block) (tx : Tx) (m : Option RuneId) : ¬ ValidEtching st blk tx (.cenotaph none m) := by
  simp [ValidEtching, etchingOf]

/-- **Unique names, ids and numbers in every reachable state** of a chain of consecutive blocks:
an entry's id is `(etching block, 32-bit tx index)` with block below the current height;
`rune2id` and `runeEntries` are mutually inverse (so names are unique); numbers are
`0, 1, …, runes − 1` in creation order and `runes` counts the entries; a name is below `RESERVED`
or is the reserved name of its own id.  `_partial`: assumes `FrameOK cfg` (the sat /
inscription / address part of a block leaves the rune tables alone; unconditional for a
rune-only index, `c11_tables_rune_only`). -/
theorem c11_tables_partial (cfg : Cfg) (hfr : FrameOK cfg) (chain : List Block) (st : State)
    (evs : List Event) (hr : run cfg chain = .ok (st, evs)) (hc : ChainOK chain) :
    (∀ id e, AL.get st.runeEntries id = some e →
      e.block = id.block ∧ id.block < chain.length ∧ id.tx < 2 ^ 32 ∧
      AL.get st.rune2id e.rune = some id ∧
      (e.rune < RESERVED ∨ e.rune = reservedRune id.block id.tx)) ∧
    (∀ r id, AL.get st.rune2id r = some id → ∃ e, AL.get st.runeEntries id = some e ∧ e.rune = r) ∧
    (∀ id id' e e', AL.get st.runeEntries id = some e → AL.get st.runeEntries id' = some e' →
      e.rune = e'.rune → id = id') ∧
    st.runeEntries.map (fun p => p.2.number) = List.range st.runes ∧
    st.runeEntries.length = st.runes := by
  have hinv := run_inv cfg hfr chain st evs hr hc
  refine ⟨?_, hinv.bwd, ?_, hinv.numbers, ?_⟩
  · intro id e hg
    obtain ⟨h1, h2, h3⟩ := hinv.ids id e hg
    refine ⟨h1, ?_, by simpa using h2, hinv.fwd id e hg, hinv.names id e hg⟩
    unfold idBefore at h3; omega
  · intro id id' e e' hg hg' hrune
    have h1 := hinv.fwd id e hg
    have h2 := hinv.fwd id' e' hg'
    rw [hrune, h2] at h1
    exact (Option.some.inj h1).symm
  · have := congrArg List.length hinv.numbers
    simpa using this

/-- **Unique names, ids and numbers — every configuration, every reachable state** of a chain of
consecutive blocks (all combinations of the sat / inscription / address / rune indexes).
FULL: the frame hypothesis of `c11_tables_partial` is proved for every `cfg`
(`RuneLift.frameOK`, Proofs/IndexLiftRuneFrame.lean: `indexUtxoEntries` leaves `runeEntries`,
`rune2id`, `runes`, `reservedRunes`, `txid2rune`, `balances`, `seq2rune` unchanged). -/
theorem c11_tables (cfg : Cfg) (chain : List Block) (st : State)
    (evs : List Event) (hr : run cfg chain = .ok (st, evs)) (hc : ChainOK chain) :
    (∀ id e, AL.get st.runeEntries id = some e →
      e.block = id.block ∧ id.block < chain.length ∧ id.tx < 2 ^ 32 ∧
      AL.get st.rune2id e.rune = some id ∧
      (e.rune < RESERVED ∨ e.rune = reservedRune id.block id.tx)) ∧
    (∀ r id, AL.get st.rune2id r = some id → ∃ e, AL.get st.runeEntries id = some e ∧ e.rune = r) ∧
    (∀ id id' e e', AL.get st.runeEntries id = some e → AL.get st.runeEntries id' = some e' →
      e.rune = e'.rune → id = id') ∧
    st.runeEntries.map (fun p => p.2.number) = List.range st.runes ∧
    st.runeEntries.length = st.runes :=
  c11_tables_partial cfg (RuneLift.frameOK cfg) chain st evs hr hc

/-- the table invariant `RInv` itself in every reachable state of every configuration (what the
chain-level C08 proof builds on) -/
theorem c11_rinv (cfg : Cfg) (chain : List Block) (st : State) (evs : List Event)
    (hr : run cfg chain = .ok (st, evs)) (hc : ChainOK chain) : RInv st chain.length 0 :=
  run_inv cfg (RuneLift.frameOK cfg) chain st evs hr hc

theorem c11_tables_rune_only (cfg : Cfg)
    (hcfg : cfg.indexInscriptions = false ∧ cfg.indexAddresses = false ∧ cfg.indexSats = false)
    (chain : List Block) (st : State) (evs : List Event) (hr : run cfg chain = .ok (st, evs))
    (hc : ChainOK chain) :
    (∀ id id' e e', AL.get st.runeEntries id = some e → AL.get st.runeEntries id' = some e' →
      e.rune = e'.rune → id = id') ∧
    st.runeEntries.map (fun p => p.2.number) = List.range st.runes :=
  let h := c11_tables_partial cfg (Or.inl (by simp [hcfg.1, hcfg.2.1, hcfg.2.2])) chain st evs hr hc
  ⟨h.2.2.1, h.2.2.2.1⟩

/-- **One block step, unconditionally**: `indexRunesBlock` preserves the table invariant. -/
theorem c11_block_preserves {st : State} {H : Nat} (hinv : RInv st H 0) (blk : Block) (st' : State)
    (evs : List Event) (hH : blk.height = H) (hlen : blk.txs.length ≤ 2 ^ 32)
    (hr : indexRunesBlock st blk = .ok (st', evs)) : RInv st' (H + 1) 0 :=
  block_inv hinv blk st' evs hH (by simpa using hlen) hr

end Ord.Index.Runemint
