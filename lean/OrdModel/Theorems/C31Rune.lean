import OrdModel.Proofs.RuneName
import OrdModel.Proofs.RuneSpaced
import OrdModel.Proofs.RuneIdParse
/-!
# C31 (rune part) — `Rune::from_str`, `SpacedRune::from_str`, `RuneId::from_str` are total and
accept a string only if it denotes the returned value

Property theorems only (imported by `Theorems/C31.lean`).  Models:
`OrdModel/Num/{RuneName,SpacedRune,RuneId}.lean`; every checked operation of the Rust code is an
`err` branch, every unchecked one (`1 << k` on `u32`, `usize → u32` `unwrap`) a `panic` branch.

Grammar semantics over unbounded `Nat`:
* a rune name is a non-empty `[A-Z]+`; it denotes `bij s − 1` (bijective base 26);
* a spaced rune is a name with single spacers (`•` or `.`) between letters; it denotes the
  name's rune and the mask with bit `i` set iff a spacer follows letter `i`
  (`normalize s = interleave sp 0 letters`);
* a rune id is `<uint>:<uint>` with `<uint>` = optional `+`, then one or more ASCII digits
  (what Rust's `u64::from_str` / `u32::from_str` accept), denoting the decimal values.
-/
namespace Ord.C31Rune
open Ord

/-! ## `Rune::from_str` -/

/-- never panics -/
theorem c31_rune_total (s : List Char) (p : String) : Rune.parse s ≠ .panic p :=
  Rune.parseLoop_ne_panic s true 0 p

/-- accepted exactly when the string is a name whose value fits in 128 bits — with the value
it denotes — or the empty string (accepted as rune 0: recorded, see notes/C31Rune.md) -/
theorem c31_rune_sound (s : List Char) (v : Nat) :
    Rune.parse s = .ok v ↔
      (s = [] ∧ v = 0) ∨
      (s ≠ [] ∧ (∀ c ∈ s, Rune.isUpper c = true) ∧ Rune.bij s = v + 1 ∧ v < 2 ^ 128) :=
  Rune.parse_ok_iff s v

/-- a name whose value does not fit is rejected (never accepted by overflow) -/
theorem c31_rune_no_overflow (s : List Char) (hne : s ≠ []) (hbig : 2 ^ 128 < Rune.bij s) (v : Nat) :
    Rune.parse s ≠ .ok v := by
  intro h
  rcases (Rune.parse_ok_iff s v).mp h with ⟨h0, _⟩ | ⟨_, _, hb, hv⟩
  · exact hne h0
  · unfold Rune.U128 at hv; omega

/-! ## `SpacedRune::from_str`

`SpacedRune.parseWith false` is the code before `notes/fix-spaced-rune-shl.diff`, `parseWith true` the
repaired code; `SpacedRune.parse = parseWith Generated.SpacedRuneFix.shlFixed` is whichever the
source text currently contains (re-extracted on every run). -/

/-- **Failed before the repair**: a spacer after 33 letters shifts a `u32` by 32 — a panic in the
dev profile (replayed on the real code: corpus/C31/runeparse.spaced-shl.txt). -/
theorem c31_spaced_total_fails :
    SpacedRune.parseWith false (List.replicate 33 'A' ++ ['.', 'A']) = .panic "shl" := by decide

/-- either variant never panics on inputs with at most 32 letters (any other characters, any length) -/
theorem c31_spaced_total_partial (fx : Bool) (s : List Char)
    (h : (s.filter Rune.isUpper).length ≤ 32) (p : String) : SpacedRune.parseWith fx s ≠ .panic p := by
  unfold SpacedRune.parseWith
  cases hl : SpacedRune.parseLoopWith fx [] 0 s with
  | panic q => exact absurd hl (SpacedRune.parseLoop_ne_panic fx s [] 0 q (by simpa using h))
  | err e => simp
  | ok r =>
    obtain ⟨letters, sp⟩ := r
    have hlet := SpacedRune.parseLoop_letters fx s [] 0 letters sp hl
    simp only [List.reverse_nil, List.nil_append] at hlet
    have hlen : ¬ (fx = false ∧ letters.length ≥ 2 ^ 32) := by rw [hlet]; intro ⟨_, h'⟩; omega
    simp only [hlen, if_false]
    split
    · simp
    · cases hr : Rune.parse letters with
      | ok v => simp
      | err e => simp
      | panic q => exact absurd hr (c31_rune_total letters q)

/-- **the repaired parser is total**: it never panics, on any string -/
theorem c31_spaced_total_fixed (s : List Char) (p : String) : SpacedRune.parseWith true s ≠ .panic p := by
  unfold SpacedRune.parseWith
  cases hl : SpacedRune.parseLoopWith true [] 0 s with
  | panic q => exact absurd hl (SpacedRune.parseLoop_fixed_ne_panic s [] 0 q)
  | err e => simp
  | ok r =>
    obtain ⟨letters, sp⟩ := r
    simp only [Bool.true_eq_false, false_and, if_false]
    split
    · simp
    · cases hr : Rune.parse letters with
      | ok v => simp
      | err e => simp
      | panic q => exact absurd hr (c31_rune_total letters q)

/-- …so the parser as it currently is in /repo is total as soon as the extractor sees the repair -/
theorem c31_spaced_total_current (hfix : Ord.Generated.SpacedRuneFix.shlFixed = true)
    (s : List Char) (p : String) : SpacedRune.parse s ≠ .panic p := by
  unfold SpacedRune.parse; rw [hfix]; exact c31_spaced_total_fixed s p

/-- the repaired parser answers `err range` on the former panic witness, and differs from the
unchanged one only where that one panics -/
theorem c31_spaced_fixed_witness :
    SpacedRune.parseWith true (List.replicate 33 'A' ++ ['.', 'A']) = .err "range" := by decide

/-- accepted (by either variant) only if the string denotes the returned rune and spacers -/
theorem c31_spaced_sound (fx : Bool) (s : List Char) (r sp : Nat)
    (h : SpacedRune.parseWith fx s = .ok (r, sp)) :
    s.filter Rune.isUpper ≠ [] ∧
    Rune.bij (s.filter Rune.isUpper) = r + 1 ∧ r < 2 ^ 128 ∧
    sp < 2 ^ ((s.filter Rune.isUpper).length - 1) ∧
    SpacedRune.normalize s = SpacedRune.interleave sp 0 (s.filter Rune.isUpper) :=
  SpacedRune.parse_ok fx s r sp h

/-- conversely, every string of letters and spacers that denotes a rune fitting 128 bits and a
mask below the last letter is accepted (by either variant) with exactly that rune and mask -/
theorem c31_spaced_complete (fx : Bool) (s : List Char) (r sp : Nat)
    (hchars : ∀ c ∈ s, Rune.isUpper c = true ∨ SpacedRune.isSpacer c = true)
    (hne : s.filter Rune.isUpper ≠ []) (hb : Rune.bij (s.filter Rune.isUpper) = r + 1)
    (hr : r < 2 ^ 128) (hsp : sp < 2 ^ ((s.filter Rune.isUpper).length - 1))
    (hnorm : SpacedRune.normalize s = SpacedRune.interleave sp 0 (s.filter Rune.isUpper)) :
    SpacedRune.parseWith fx s = .ok (r, sp) :=
  SpacedRune.parse_complete fx s r sp hchars hne hb hr hsp hnorm

/-! ## `RuneId::from_str` -/

/-- never panics -/
theorem c31_id_total (s : List Char) (p : String) : RuneId.parse s ≠ .panic p := by
  unfold RuneId.parse
  split
  · simp
  · rename_i h i _
    cases hb : RuneId.parseUInt 64 h with
    | panic q => exact absurd hb (RuneId.parseUInt_ne_panic _ _ _)
    | err e => simp
    | ok b =>
      cases ht : RuneId.parseUInt 32 i with
      | panic q => exact absurd ht (RuneId.parseUInt_ne_panic _ _ _)
      | err e => simp
      | ok t => simp

/-- accepted exactly when the string is `<uint>:<uint>` (split at the first colon) with the
block fitting `u64` and the tx fitting `u32` — with the values it denotes -/
theorem c31_id_sound (s : List Char) (b t : Nat) :
    RuneId.parse s = .ok (b, t) ↔
      ∃ h i, s = h ++ ':' :: i ∧ ':' ∉ h ∧ RuneId.denotesUInt h b ∧ RuneId.denotesUInt i t ∧
        b < 2 ^ 64 ∧ t < 2 ^ 32 := by
  constructor
  · intro hp
    unfold RuneId.parse at hp
    split at hp
    · cases hp
    · rename_i h i hsplit
      obtain ⟨hs, hn⟩ := RuneId.splitColon_some s h i hsplit
      cases hb : RuneId.parseUInt 64 h with
      | panic q => rw [hb] at hp; cases hp
      | err e => rw [hb] at hp; cases hp
      | ok b' =>
        rw [hb] at hp
        cases ht : RuneId.parseUInt 32 i with
        | panic q => rw [ht] at hp; cases hp
        | err e => rw [ht] at hp; cases hp
        | ok t' =>
          rw [ht] at hp
          simp only [Outcome.ok.injEq, Prod.mk.injEq] at hp
          obtain ⟨rfl, rfl⟩ := hp
          obtain ⟨d1, l1⟩ := RuneId.parseUInt_ok 64 h _ hb
          obtain ⟨d2, l2⟩ := RuneId.parseUInt_ok 32 i _ ht
          exact ⟨h, i, hs, hn, d1, d2, l1, l2⟩
  · rintro ⟨h, i, rfl, hn, d1, d2, l1, l2⟩
    unfold RuneId.parse
    rw [RuneId.splitColon_append h i hn]
    simp only [RuneId.parseUInt_complete 64 h b d1 l1, RuneId.parseUInt_complete 32 i t d2 l2]

/-- recorded: `RuneId::from_str` does not apply `RuneId::new`'s rule (block 0 ⇒ tx 0), and a
leading `+` is accepted on both halves -/
theorem c31_id_recorded :
    RuneId.parse "0:5".toList = .ok (0, 5) ∧ RuneId.parse "+1:+2".toList = .ok (1, 2) ∧
    RuneId.parse "-1:2".toList = .err "block invalid" ∧
    RuneId.parse "18446744073709551616:0".toList = .err "block overflow" ∧
    RuneId.parse "0:4294967296".toList = .err "tx overflow" := by decide

/-! Non-vacuity -/
example : Rune.parse "AB".toList = .ok 27 := by decide
example : Rune.parse "A1".toList = .err "character 49" := by decide
example : SpacedRune.parseWith false "A.B•C".toList = .ok (730, 3) := by decide
example : SpacedRune.parseWith true "A..B".toList = .err "double" := by decide
example : SpacedRune.parseWith true ".A".toList = .err "leading" := by decide
example : SpacedRune.parseWith false "A.".toList = .err "trailing" := by decide
example : SpacedRune.parseWith true [] = .err "trailing" := by decide
example : SpacedRune.parseWith false (List.replicate 32 'A' ++ ['.', 'A']) = .err "range" := by decide
example : RuneId.parse "840000:1".toList = .ok (840000, 1) := by decide
example : RuneId.parse "1".toList = .err "separator" := by decide

end Ord.C31Rune
