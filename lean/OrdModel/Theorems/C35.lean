import OrdModel.Proofs.Entry
import OrdModel.Proofs.EntryUtxo
/-!
# C35 — Index storage encodings read back what was written

Property theorems only; models in `OrdModel/Codec/Entry.lean` and `OrdModel/Codec/UtxoEntry.lean`,
helper lemmas in `OrdModel/Proofs/Entry.lean` and `OrdModel/Proofs/EntryUtxo.lean`.

Hashes are byte lists (32 bytes in every well-formed value); integer-typed fields are `Nat`/`Int`
with their Rust widths as hypotheses where a width matters.  rust-bitcoin's consensus
(de)serialisation and redb's tuple serialisation are in the trusted base: the theorems about
`Header`/`OutPoint`/`SatPoint`/`Txid` are about the modelled byte layout, which the
correspondence harness compares byte-for-byte with the real encoders.
-/
namespace Ord.Entry

/-! ## Sat ranges (`impl Entry for SatRange`) -/

theorem c35_sat_range_roundtrip (r : Nat × Nat) (h : satRangeGuard r) :
    ∃ bs, satRangeStore r = .ok bs ∧ bs.length = 11 ∧ satRangeLoad bs = r := by
  obtain ⟨h1, h2, h3⟩ := h
  refine ⟨leBytes 11 (r.1 ||| ((r.2 - r.1) <<< 51)), ?_, by simp, ?_⟩
  · unfold satRangeStore; simp [Nat.not_lt.mpr h2]
  · rw [satRangeLoad_leBytes, pack_eq_add _ _ h1]
    have c : (2 : Nat) ^ 51 = 2251799813685248 := by decide
    have d : (2 : Nat) ^ 37 = 137438953472 := by decide
    rw [c, d] at *
    ext <;> simp <;> omega

theorem c35_sat_range_guard_of_supply (r : Nat × Nat) (h1 : r.1 ≤ r.2) (h2 : r.2 ≤ supply)
    (h3 : r.2 - r.1 ≤ maxSubsidy) : satRangeGuard r ∧ r.2 - r.1 < 2 ^ 33 := by
  unfold satRangeGuard supply maxSubsidy at *
  have c : (2 : Nat) ^ 51 = 2251799813685248 := by decide
  have d : (2 : Nat) ^ 37 = 137438953472 := by decide
  have e : (2 : Nat) ^ 33 = 8589934592 := by decide
  rw [c, d, e]; omega

theorem c35_sat_range_store_panics_iff (r : Nat × Nat) :
    (∃ s, satRangeStore r = .panic s) ↔ r.2 < r.1 := by
  unfold satRangeStore
  split <;> simp [*]

/-- outside the guard: what is read back, for every pair of u64 with start ≤ end -/
theorem c35_sat_range_general (r : Nat × Nat) (h : r.1 ≤ r.2) :
    ∃ bs, satRangeStore r = .ok bs ∧
      satRangeLoad bs =
        let n := r.1 ||| ((r.2 - r.1) <<< 51)
        (n % 2 ^ 51, n % 2 ^ 51 + n / 2 ^ 51 % 2 ^ 37) := by
  refine ⟨leBytes 11 (r.1 ||| ((r.2 - r.1) <<< 51)), ?_, ?_⟩
  · unfold satRangeStore; simp [Nat.not_lt.mpr h]
  · rw [satRangeLoad_leBytes]

theorem c35_sat_range_outside_guard_fails :
    satRangeStore (2 ^ 51, 2 ^ 51 + 1) = .ok (leBytes 11 (2^51 ||| (1 <<< 51))) ∧
    satRangeLoad (leBytes 11 (2^51 ||| (1 <<< 51))) = (0, 1) := by
  constructor
  · unfold satRangeStore; simp
  · rw [satRangeLoad_leBytes]; decide


theorem c35_header_roundtrip (h : Header) (wf : h.wf) :
    (headerStore h).length = 80 ∧ headerLoad (headerStore h) = h := by
  obtain ⟨v1, v2, hp, hm, ht, hb, hn⟩ := wf
  have p4 : (256 : Nat) ^ 4 = 2 ^ 32 := by decide
  constructor
  · simp [headerStore, hp, hm]
  · cases h with
    | mk version prev merkle time bits nonce =>
      simp only at *
      have hv : (leBytes 4 (i32Bits version)).length = 4 := by simp
      have s : headerStore ⟨version, prev, merkle, time, bits, nonce⟩ =
          leBytes 4 (i32Bits version) ++ (prev ++ (merkle ++ (leBytes 4 time ++ (leBytes 4 bits ++ leBytes 4 nonce)))) := by
        simp [headerStore]
      unfold headerLoad
      rw [s]
      congr
      · rw [take_append_len _ _ 4 hv, leVal_leBytes_of_lt _ _ (i32Bits_lt _)]
        exact i32OfBits_i32Bits _ v1 v2
      · rw [drop_append_len _ _ 4 hv, take_append_len _ _ 32 hp]
      · rw [drop_append_add _ _ 4 32 hv, drop_append_len _ _ 32 hp, take_append_len _ _ 32 hm]
      · rw [drop_append_add _ _ 4 64 hv, drop_append_add _ _ 32 32 hp, drop_append_len _ _ 32 hm,
          take_append_len _ _ 4 (by simp), leVal_leBytes_of_lt _ _ (by omega)]
      · rw [drop_append_add _ _ 4 68 hv, drop_append_add _ _ 32 36 hp, drop_append_add _ _ 32 4 hm,
          drop_append_len _ _ 4 (by simp),
          take_append_len _ _ 4 (by simp), leVal_leBytes_of_lt _ _ (by omega)]
      · rw [drop_append_add _ _ 4 72 hv, drop_append_add _ _ 32 40 hp, drop_append_add _ _ 32 8 hm,
          drop_append_add _ _ 4 4 (by simp), drop_append_len _ _ 4 (by simp),
          List.take_of_length_le (by simp), leVal_leBytes_of_lt _ _ (by omega)]

theorem c35_outpoint_roundtrip (o : OutPoint) (wf : o.wf) :
    (outPointStore o).length = 36 ∧ outPointLoad (outPointStore o) = o := by
  obtain ⟨ht, hv⟩ := wf
  have p4 : (256 : Nat) ^ 4 = 2 ^ 32 := by decide
  cases o with
  | mk txid vout =>
    simp only at *
    constructor
    · simp [outPointStore, ht]
    · unfold outPointLoad outPointStore
      congr
      · exact take_append_len _ _ 32 ht
      · rw [drop_append_len _ _ 32 ht, List.take_of_length_le (by simp),
          leVal_leBytes_of_lt _ _ (by omega)]

theorem c35_satpoint_roundtrip (s : SatPoint) (wf : s.wf) :
    (satPointStore s).length = 44 ∧ satPointLoad (satPointStore s) = s := by
  obtain ⟨ho, hoff⟩ := wf
  have p8 : (256 : Nat) ^ 8 = 2 ^ 64 := by decide
  obtain ⟨hl, hr⟩ := c35_outpoint_roundtrip s.outpoint ho
  cases s with
  | mk outpoint offset =>
    simp only at *
    constructor
    · simp [satPointStore, hl]
    · unfold satPointLoad satPointStore
      congr
      · rw [take_append_len _ _ 36 hl]; exact hr
      · rw [drop_append_len _ _ 36 hl, List.take_of_length_le (by simp),
          leVal_leBytes_of_lt _ _ (by omega)]

theorem c35_txid_roundtrip (t : List UInt8) : txidLoad (txidStore t) = t := rfl

theorem c35_inscription_id_roundtrip (i : InscriptionId) (h : i.txid.length = 32) :
    inscriptionIdLoad (inscriptionIdStore i) = i := by
  cases i with
  | mk txid index =>
    simp only at h
    unfold inscriptionIdLoad inscriptionIdStore
    congr
    simp only
    rw [leBytes_leVal' 16 _ (by simp [h]), leBytes_leVal' 16 _ (by simp [h]), List.take_append_drop]

theorem c35_inscription_id_value_bounds (i : InscriptionId) (h : i.txid.length = 32) :
    (inscriptionIdStore i).1 < 2 ^ 128 ∧ (inscriptionIdStore i).2.1 < 2 ^ 128 := by
  have p : (256 : Nat) ^ 16 = 2 ^ 128 := by decide
  unfold inscriptionIdStore
  have a := leVal_lt (i.txid.take 16)
  have b := leVal_lt (i.txid.drop 16)
  have la : (i.txid.take 16).length = 16 := by simp [h]
  have lb : (i.txid.drop 16).length = 16 := by simp [h]
  rw [la] at a; rw [lb] at b
  simp only; omega

theorem c35_rune_id_roundtrip (i : RuneId) : runeIdLoad (runeIdStore i) = i := rfl
theorem c35_rune_roundtrip (r : Nat) : runeLoad (runeStore r) = r := rfl

theorem c35_rune_entry_roundtrip (e : RuneEntry) (h : e.etching.length = 32) :
    runeEntryLoad (runeEntryStore e) = e := by
  cases e with
  | mk block burned divisibility etching mints number premine rune spacers symbol terms timestamp turbo =>
    simp only at h
    unfold runeEntryLoad runeEntryStore
    congr
    · simp only
      have ht : (etching.drop 16).take 16 = etching.drop 16 :=
        List.take_of_length_le (by simp [h])
      rw [ht, leBytes_leVal' 16 _ (by simp [h]), leBytes_leVal' 16 _ (by simp [h]),
        List.take_append_drop]
    · cases terms <;> simp [termsLoad_termsStore]

theorem c35_inscription_entry_roundtrip (e : InscriptionEntry) (h : e.id.txid.length = 32) :
    inscriptionEntryLoad (inscriptionEntryStore e) = e := by
  cases e with
  | mk charms fee height hidden id inscriptionNumber parents sat sequenceNumber timestamp =>
    simp only at h
    unfold inscriptionEntryLoad inscriptionEntryStore
    congr
    · exact c35_inscription_id_roundtrip id h
    · cases sat <;> simp


end Ord.Entry

namespace Ord.Utxo
open Ord.Entry

/-! ## Output entries (`UtxoEntryBuf` / `UtxoEntry::parse`) -/

/-- For every flag combination and every entry (any number of ranges — the concatenated 11-byte
chunks —, any script bytes, any inscriptions, any value) the pushes the updater performs succeed
(no `assert!` of the builder fires) and produce exactly the documented layout. -/
theorem c35_utxo_build (f : Flags) (e : Entry) (hr : f.sats = true → e.ranges.length % 11 = 0) :
    build f e = .ok (layout f e) :=
  build_eq_layout f e hr

/-- `parse (build e)` returns what was written, for every flag combination: the sat range bytes
(sat index) or the value (no sat index), the script (address index) and the raw inscription bytes
(inscription index); no `unwrap`, conversion, checked arithmetic or slice index of `parse` panics.
`hlen`: the entry fits in memory (lengths are `usize`). -/
theorem c35_utxo_parse_build (f : Flags) (e : Entry) (bs : List UInt8)
    (hv : e.value < 2 ^ 64) (hr : f.sats = true → e.ranges.length % 11 = 0)
    (hb : build f e = .ok bs) (hlen : bs.length < 2 ^ 64) :
    parse f bs = .ok (view f e) := by
  rw [build_eq_layout f e hr] at hb
  injection hb with hb
  subst hb
  exact parse_layout f e hv hr hlen

/-- … and `parse_inscriptions` on it returns the inscription list that was pushed. -/
theorem c35_utxo_inscriptions_roundtrip (f : Flags) (e : Entry) (hi : f.inscriptions = true)
    (h : ∀ i ∈ e.inscriptions, i.1 < 2 ^ 32 ∧ i.2 < 2 ^ 64) :
    parseInscriptions (view f e) = .ok e.inscriptions := by
  simp only [parseInscriptions, view, hi, if_true]
  exact parseInscriptionList_encode _ h

/-- Without the inscription index the list is absent (`parse_inscriptions` would `unwrap` a
`None`): the flag decides, not the bytes. -/
theorem c35_utxo_inscriptions_absent (f : Flags) (e : Entry) (hi : f.inscriptions = false) :
    parseInscriptions (view f e) = .panic "none" := by
  simp [parseInscriptions, view, hi]

end Ord.Utxo
