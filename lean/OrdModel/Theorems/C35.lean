import OrdModel.Proofs.Entry
import OrdModel.Proofs.EntryUtxo
/-!
# C35 — Index storage encodings read back what was written

Property theorems only; models in `OrdModel/Codec/Entry.lean` and `OrdModel/Codec/UtxoEntry.lean`,
helper lemmas in `OrdModel/Proofs/Entry.lean` and `OrdModel/Proofs/EntryUtxo.lean`.

Hashes are byte lists (32 bytes in every well-formed value); integer-typed fields are `Nat`/`Int`
with their Rust widths as hypotheses where a width matters.  rust-bitcoin's consensus
(de)serialisation and redb's tuple serialisation are in the trusted base: the theorems about
`Header`/`OutPoint`/`SatPoint`/`Txid` are about the modelled byte layout, which the
correspondence harness compares byte-for-byte with the real encoders.
-/
namespace Ord.Entry

/-! ## Sat ranges (`impl Entry for SatRange`) -/

/-- Inside the packing's guard (`start < 2^51`, `start ≤ end`, `end - start < 2^37`) a range
stores to 11 bytes that load back to the same range. -/
theorem c35_sat_range_roundtrip (r : Nat × Nat) (h : satRangeGuard r) :
    ∃ bs, satRangeStore r = .ok bs ∧ bs.length = 11 ∧ satRangeLoad bs = r :=
  satRangeStore_ok r h

example : satRangeGuard (2099999992690000, 2099999997690000) := by decide

/-- Every range inside the supply that is no longer than a block subsidy is inside the guard
(with room: the length even fits the 33 bits the source comment mentions). -/
theorem c35_sat_range_guard_of_supply (r : Nat × Nat) (h1 : r.1 ≤ r.2) (h2 : r.2 ≤ supply)
    (h3 : r.2 - r.1 ≤ maxSubsidy) : satRangeGuard r ∧ r.2 - r.1 < 2 ^ 33 := by
  unfold satRangeGuard supply maxSubsidy at *
  have c : (2 : Nat) ^ 51 = 2251799813685248 := by decide
  have d : (2 : Nat) ^ 37 = 137438953472 := by decide
  have e : (2 : Nat) ^ 33 = 8589934592 := by decide
  rw [c, d, e]; omega

/-- So the clause of the property as stated: every sat range inside the supply, no longer than a
block subsidy, reads back equal to what was written. -/
theorem c35_sat_range_supply_roundtrip (r : Nat × Nat) (h1 : r.1 ≤ r.2) (h2 : r.2 ≤ supply)
    (h3 : r.2 - r.1 ≤ maxSubsidy) :
    ∃ bs, satRangeStore r = .ok bs ∧ bs.length = 11 ∧ satRangeLoad bs = r :=
  satRangeStore_ok r (c35_sat_range_guard_of_supply r h1 h2 h3).1

example : (0 : Nat) ≤ 5000000000 ∧ 5000000000 ≤ supply ∧ 5000000000 - 0 ≤ maxSubsidy := by
  unfold supply maxSubsidy; decide

/-- `store` panics (checked `-`, dev profile) exactly on reversed ranges; it has no other failure. -/
theorem c35_sat_range_store_panics_iff (r : Nat × Nat) :
    (∃ s, satRangeStore r = .panic s) ↔ r.2 < r.1 := by
  unfold satRangeStore
  split <;> simp [*]

/-- Outside the guard nothing is asserted by the code: for *every* `start ≤ end` the bytes written
are the low 88 bits of `start | (end-start) << 51`, and what is read back is that number's low 51
bits and the following 37 bits — a silent truncation / bit mixing when `start ≥ 2^51` or
`end - start ≥ 2^37`. -/
theorem c35_sat_range_general (r : Nat × Nat) (h : r.1 ≤ r.2) :
    ∃ bs, satRangeStore r = .ok bs ∧
      satRangeLoad bs =
        let n := r.1 ||| ((r.2 - r.1) <<< 51)
        (n % 2 ^ 51, n % 2 ^ 51 + n / 2 ^ 51 % 2 ^ 37) := by
  refine ⟨leBytes 11 (r.1 ||| ((r.2 - r.1) <<< 51)), ?_, ?_⟩
  · unfold satRangeStore; simp [Nat.not_lt.mpr h]
  · rw [satRangeLoad_leBytes]

/-- Witness that the guard is needed (not reachable inside the supply): `(2^51, 2^51+1)` is stored
without complaint and reads back as `(0, 1)`. -/
theorem c35_sat_range_outside_guard_fails :
    satRangeStore (2 ^ 51, 2 ^ 51 + 1) = .ok (leBytes 11 (2^51 ||| (1 <<< 51))) ∧
    satRangeLoad (leBytes 11 (2^51 ||| (1 <<< 51))) = (0, 1) := by
  constructor
  · unfold satRangeStore; simp
  · rw [satRangeLoad_leBytes]; decide


/-! ## Consensus layouts (`Header`, `OutPoint`, `SatPoint`, `Txid`)

The theorems are about the modelled byte layout (which the harness compares byte-for-byte with
rust-bitcoin's encoders on every run); rust-bitcoin itself is trusted. -/

/-- Every header (any i32 version, any two 32-byte hashes, any u32 time / bits / nonce) stores to
80 bytes that load back to the same header. -/
theorem c35_header_roundtrip (h : Header) (wf : h.wf) :
    (headerStore h).length = 80 ∧ headerLoad (headerStore h) = h :=
  header_roundtrip h wf

example : Header.wf ⟨-1, List.replicate 32 0xff, List.replicate 32 7, 4294967295, 0, 1⟩ := by
  unfold Header.wf; decide

/-- Every outpoint (32-byte txid, u32 vout) stores to 36 bytes that load back equal. -/
theorem c35_outpoint_roundtrip (o : OutPoint) (wf : o.wf) :
    (outPointStore o).length = 36 ∧ outPointLoad (outPointStore o) = o :=
  outpoint_roundtrip o wf

/-- Every satpoint (outpoint, u64 offset) stores to 44 bytes that load back equal. -/
theorem c35_satpoint_roundtrip (s : SatPoint) (wf : s.wf) :
    (satPointStore s).length = 44 ∧ satPointLoad (satPointStore s) = s :=
  satpoint_roundtrip s wf

example : SatPoint.wf ⟨⟨List.replicate 32 0, 4294967295⟩, 18446744073709551615⟩ := by
  unfold SatPoint.wf OutPoint.wf; decide

theorem c35_txid_roundtrip (t : List UInt8) : txidLoad (txidStore t) = t := rfl

/-! ## Tuple-valued entries -/

/-- `InscriptionId` ↔ `(u128, u128, u32)`: every id (32-byte txid, any index) reads back. -/
theorem c35_inscription_id_roundtrip (i : InscriptionId) (h : i.txid.length = 32) :
    inscriptionIdLoad (inscriptionIdStore i) = i :=
  inscription_id_roundtrip i h

/-- … and the two halves written are genuine u128 values (nothing is cut by the column type). -/
theorem c35_inscription_id_value_bounds (i : InscriptionId) (h : i.txid.length = 32) :
    (inscriptionIdStore i).1 < 2 ^ 128 ∧ (inscriptionIdStore i).2.1 < 2 ^ 128 :=
  inscription_id_value_bounds i h

theorem c35_rune_id_roundtrip (i : RuneId) : runeIdLoad (runeIdStore i) = i := rfl
theorem c35_rune_roundtrip (r : Nat) : runeLoad (runeStore r) = r := rfl

/-- Every rune entry — any integers, any 32-byte etching txid, symbol `None`/`Some`, terms `None`
or `Some` with each of its six optional fields absent or present — reads back equal. -/
theorem c35_rune_entry_roundtrip (e : RuneEntry) (h : e.etching.length = 32) :
    runeEntryLoad (runeEntryStore e) = e :=
  rune_entry_roundtrip e h

example : (⟨1, 2, 3, List.replicate 32 9, 4, 5, 6, 7, 8, some 0x1F9FF,
    some ⟨some 1, none, (some 2, none), (none, some 3)⟩, 10, true⟩ : RuneEntry).etching.length = 32 := by
  decide

/-- Every inscription entry (any charms, fee, height, number incl. negative, any number of
parents, sat `None`/`Some`) reads back equal. -/
theorem c35_inscription_entry_roundtrip (e : InscriptionEntry) (h : e.id.txid.length = 32) :
    inscriptionEntryLoad (inscriptionEntryStore e) = e :=
  inscription_entry_roundtrip e h

end Ord.Entry

namespace Ord.Utxo
open Ord.Entry

/-! ## Output entries (`UtxoEntryBuf` / `UtxoEntry::parse`) -/

/-- For every flag combination and every entry (any number of ranges — the concatenated 11-byte
chunks —, any script bytes, any inscriptions, any value) the pushes the updater performs succeed
(no `assert!` of the builder fires) and produce exactly the documented layout. -/
theorem c35_utxo_build (f : Flags) (e : Entry) (hr : f.sats = true → e.ranges.length % 11 = 0) :
    build f e = .ok (layout f e) :=
  build_eq_layout f e hr

/-- `parse (build e)` returns what was written, for every flag combination: the sat range bytes
(sat index) or the value (no sat index), the script (address index) and the raw inscription bytes
(inscription index); no `unwrap`, conversion, checked arithmetic or slice index of `parse` panics.
`hlen`: the entry fits in memory (lengths are `usize`). -/
theorem c35_utxo_parse_build (f : Flags) (e : Entry) (bs : List UInt8)
    (hv : f.sats = false → e.value < 2 ^ 64) (hr : f.sats = true → e.ranges.length % 11 = 0)
    (hb : build f e = .ok bs) (hlen : bs.length < 2 ^ 64) :
    parse f bs = .ok (view f e) := by
  rw [build_eq_layout f e hr] at hb
  injection hb with hb
  subst hb
  exact parse_layout f e hv hr hlen

/-- Beyond the updater's own order: EVERY push sequence the builder accepts (its state machine
and flag asserts let through; `push_inscriptions` with raw bytes included) yields bytes that
`parse` reads back without panicking, returning the pushed ranges or value, the pushed script,
and the concatenation of the pushed inscription bytes.  (`hv`: `push_value` takes a u64.) -/
theorem c35_builder_sound (f : Flags) (ops : List Op) (bs : List UInt8)
    (h : runOps f ops = .ok bs) (hv : ∀ v, Op.value v ∈ ops → v < 2 ^ 64)
    (hlen : bs.length < 2 ^ 64) :
    ∃ (e : Entry) (raw : List UInt8),
      parse f bs = .ok ⟨if f.sats then .ranges e.ranges else .value e.value,
                        if f.addresses then some e.script else none,
                        if f.inscriptions then some raw else none⟩ ∧
      (f.sats = false → Op.value e.value ∈ ops) ∧ (f.inscriptions = false → raw = []) := by
  obtain ⟨e, raw, hb, hr, hraw, hval⟩ := runOps_shape f ops bs h
  subst hb
  exact ⟨e, raw, parse_parts f e raw (fun hs => hv _ (hval hs)) hr hlen, hval, hraw⟩

example : runOps ⟨true, false, true⟩ [.satRanges [], .inscriptions [1, 0, 0, 0, 5], .inscription 2 300] =
    .ok [0, 1, 0, 0, 0, 5, 2, 0, 0, 0, 0xAC, 0x02] := by
  have e0 : Varint.encode 0 = [0] := by rw [Varint.encode]; simp
  have e300 : Varint.encode 300 = [0xAC, 0x02] := by
    rw [Varint.encode]; simp; rw [Varint.encode]; simp
  simp [runOps, applyOps, applyOp, pushSatRanges, pushInscriptions, pushInscription, advance,
    Buf.new, asRef, encodeInscription, leBytes, e0, e300]

/-- … and `parse_inscriptions` on it returns the inscription list that was pushed. -/
theorem c35_utxo_inscriptions_roundtrip (f : Flags) (e : Entry) (hi : f.inscriptions = true)
    (h : ∀ i ∈ e.inscriptions, i.1 < 2 ^ 32 ∧ i.2 < 2 ^ 64) :
    parseInscriptions (view f e) = .ok e.inscriptions := by
  simp only [parseInscriptions, view, hi, if_true]
  exact parseInscriptionList_encode _ h

/-- The output-entry clause in one statement.  For EVERY flag combination (`index_sats`,
`index_addresses`, `index_inscriptions`), any list of sat ranges inside the packing guard, any
value below 2^64, any script bytes and any list of inscriptions `(u32, u64)`: the ranges encode,
the entry builds without tripping an assert, and — whenever the bytes fit in memory — parsing
them back yields exactly the fields the flags say are stored: the same ranges (sat index) or the
same value (no sat index), the same script (address index), the same inscriptions (inscription
index). -/
theorem c35_utxo_roundtrip (f : Flags) (value : Nat) (rs : List (Nat × Nat)) (script : List UInt8)
    (ins : List (Nat × Nat))
    (hv : value < 2 ^ 64) (hrs : ∀ r ∈ rs, satRangeGuard r)
    (hins : ∀ i ∈ ins, i.1 < 2 ^ 32 ∧ i.2 < 2 ^ 64) :
    ∃ rb bs, encodeRanges rs = .ok rb ∧ build f ⟨value, rb, script, ins⟩ = .ok bs ∧
      (bs.length < 2 ^ 64 →
        ∃ p, parse f bs = .ok p ∧
          (f.sats = true → satRanges p = .ok rb ∧ decodeRanges rb = rs) ∧
          (f.sats = false → totalValue p = .ok value) ∧
          (f.addresses = true → scriptPubkey p = .ok script) ∧
          (f.inscriptions = true → parseInscriptions p = .ok ins)) := by
  obtain ⟨rb, h1, h2, h3⟩ := encodeRanges_ok rs hrs
  have hr : f.sats = true → rb.length % 11 = 0 := fun _ => by omega
  refine ⟨rb, layout f ⟨value, rb, script, ins⟩, h1, build_eq_layout f _ hr, fun hlen => ?_⟩
  refine ⟨view f ⟨value, rb, script, ins⟩, parse_layout f _ (fun _ => hv) hr hlen, ?_, ?_, ?_, ?_⟩
  · intro h; exact ⟨by simp [satRanges, view, h], h3⟩
  · intro h; simp [totalValue, view, h]
  · intro h; simp [scriptPubkey, view, h]
  · intro h
    simp only [parseInscriptions, view, h, if_true]
    exact parseInscriptionList_encode _ hins

/-- Which flags change the layout: the sat index switches the first field, the address index
inserts the script, the inscription index appends the list (so `---` stores just the value). -/
example (e : Entry) : layout ⟨false, false, false⟩ e = Varint.encode e.value := by simp [layout]
example (e : Entry) : layout ⟨true, true, true⟩ e =
    Varint.encode (e.ranges.length / 11) ++ e.ranges ++ (Varint.encode e.script.length ++ e.script) ++
      encodeInscriptions e.inscriptions := by simp [layout]

/-- Without the inscription index the list is absent (`parse_inscriptions` would `unwrap` a
`None`): the flag decides, not the bytes. -/
theorem c35_utxo_inscriptions_absent (f : Flags) (e : Entry) (hi : f.inscriptions = false) :
    parseInscriptions (view f e) = .panic "none" := by
  simp [parseInscriptions, view, hi]

/-- The sat-range part of an output entry at the typed level: any list of ranges inside the guard
encodes (through `SatRange::store`) to `11·n` bytes, which is what `push_sat_ranges` requires, and
chunk-wise `SatRange::load` returns the list. -/
theorem c35_sat_ranges_roundtrip (rs : List (Nat × Nat)) (h : ∀ r ∈ rs, satRangeGuard r) :
    ∃ bs, encodeRanges rs = .ok bs ∧ bs.length % 11 = 0 ∧ decodeRanges bs = rs := by
  obtain ⟨bs, h1, h2, h3⟩ := encodeRanges_ok rs h
  exact ⟨bs, h1, by omega, h3⟩

/-- `total_value` of what was parsed back: the pushed value without the sat index; with it, the
sum of the range lengths — unless that sum does not fit a u64, in which case the checked `+=`
panics (dev profile).  Ranges inside the supply cannot reach that. -/
theorem c35_utxo_total_value (f : Flags) (e : Entry) :
    (f.sats = false → totalValue (view f e) = .ok e.value) ∧
    (f.sats = true → sumLens (decodeRanges e.ranges) < 2 ^ 64 →
      totalValue (view f e) = .ok (sumLens (decodeRanges e.ranges))) ∧
    (f.sats = true → 2 ^ 64 ≤ sumLens (decodeRanges e.ranges) →
      totalValue (view f e) = .panic "add-overflow") := by
  refine ⟨fun h => by simp [totalValue, view, h], fun h hs => ?_, fun h hs => ?_⟩
  · simp only [totalValue, view, h, if_true]
    have := sumDeltas_map (chunks11 e.ranges) 0 (by simpa [decodeRanges] using hs)
    simpa [decodeRanges] using this
  · simp only [totalValue, view, h, if_true]
    exact sumDeltas_overflow (chunks11 e.ranges) 0 (by simpa [decodeRanges] using hs) (by decide)

/-! ## Rune balance lists (`Index::encode_rune_balance` / `decode_rune_balance`) -/

/-- One balance decodes from the front of any buffer that starts with its encoding, with the
right length. -/
theorem c35_balance_roundtrip (x : (Nat × Nat) × Nat) (h : balanceOk x) (rest : List UInt8) :
    decodeBalance (encodeBalance x ++ rest) = .ok (x, (encodeBalance x).length) :=
  decodeBalance_encode x h rest

/-- A stored balance list (any length; ids up to `u64:u32`, amounts up to `u128`) reads back
equal; none of the `unwrap`s of the readers' loop fires. -/
theorem c35_balances_roundtrip (l : List ((Nat × Nat) × Nat)) (h : ∀ x ∈ l, balanceOk x) :
    decodeBalances (encodeBalances l) = .ok l :=
  decodeBalances_encode l h

example : balanceOk ((2 ^ 64 - 1, 2 ^ 32 - 1), 2 ^ 128 - 1) := by unfold balanceOk; decide

/-! ## Merging the entries of the lost-sats and unbound pseudo-outputs -/

/-- Every entry the updater writes for a special outpoint is `Special` (empty script, zero value
when sat ranges are not indexed, whole 11-byte chunks): `UtxoEntryBuf::empty`, an entry with one
more inscription pushed, the lost-sat-ranges entry (`new; push_sat_ranges(lost);
push_script_pubkey([])` = `build` of `⟨_, lost, [], []⟩`), and the merge of two such entries. -/
theorem c35_special_entries (f : Flags) :
    (Utxo.empty f = .ok (layout f ⟨0, [], [], []⟩) ∧ Special f ⟨0, [], [], []⟩) ∧
    (∀ e i, Special f e → f.inscriptions = true →
      layout f { e with inscriptions := e.inscriptions ++ [i] } = layout f e ++ encodeInscription i ∧
      Special f { e with inscriptions := e.inscriptions ++ [i] }) ∧
    (∀ lost : List UInt8, f.sats = true → lost.length % 11 = 0 →
      build f ⟨0, lost, [], []⟩ = .ok (layout f ⟨0, lost, [], []⟩) ∧ Special f ⟨0, lost, [], []⟩) ∧
    (∀ a b, Special f a → Special f b → Special f (mergeEntries a b)) := by
  refine ⟨⟨empty_eq_layout f, rfl, fun _ => rfl, fun _ => rfl⟩, ?_, ?_, special_merge f⟩
  · intro e i he hf
    exact ⟨layout_push_inscription f e i hf, he⟩
  · intro lost hs hl
    refine ⟨build_eq_layout f _ (fun _ => hl), ?_⟩
    unfold Special
    exact ⟨rfl, fun _ => rfl, fun _ => hl⟩

/-- The same at the level of the cached buffer the updater mutates: `UtxoEntryBuf::empty` is a
valid-state buffer holding the empty special entry, and `push_inscription` on a valid-state buffer
holding a special entry trips neither the flag nor the state assert and yields the buffer holding
that entry with the inscription appended. -/
theorem c35_special_buffers (f : Flags) :
    emptyBuf f = .ok ⟨layout f ⟨0, [], [], []⟩, .valid⟩ ∧
    (∀ e i, f.inscriptions = true →
      pushInscription f i ⟨layout f e, .valid⟩ =
        .ok ⟨layout f { e with inscriptions := e.inscriptions ++ [i] }, .valid⟩) :=
  ⟨emptyBuf_eq f, fun e i hf => pushInscription_layout f e i hf⟩

/-- `merged(a, b)` of two special-outpoint entries: none of its `assert!`s (value zero, scripts
empty, builder state, flags) nor any panic of the two `parse` calls fires, and the result is the
entry holding `a`'s then `b`'s sat ranges and `a`'s then `b`'s inscriptions (value 0, empty
script) — for every flag combination. -/
theorem c35_merged (f : Flags) (a b : Entry) (ha : Special f a) (hb : Special f b)
    (hla : (layout f a).length < 2 ^ 64) (hlb : (layout f b).length < 2 ^ 64) :
    merged f (layout f a) (layout f b) = .ok (layout f (mergeEntries a b)) :=
  merged_layout f a b ha hb hla hlb

/-- … so parsing the merged entry yields every range and inscription of both, in order. -/
theorem c35_merged_parse (f : Flags) (a b : Entry) (m : List UInt8) (ha : Special f a)
    (hb : Special f b) (hla : (layout f a).length < 2 ^ 64) (hlb : (layout f b).length < 2 ^ 64)
    (hm : merged f (layout f a) (layout f b) = .ok m) (hlm : m.length < 2 ^ 64)
    (hins : ∀ i ∈ a.inscriptions ++ b.inscriptions, i.1 < 2 ^ 32 ∧ i.2 < 2 ^ 64) :
    parse f m = .ok (view f (mergeEntries a b)) ∧
    (f.sats = true → satRanges (view f (mergeEntries a b)) = .ok (a.ranges ++ b.ranges)) ∧
    (f.inscriptions = true →
      parseInscriptions (view f (mergeEntries a b)) = .ok (a.inscriptions ++ b.inscriptions)) := by
  rw [merged_layout f a b ha hb hla hlb] at hm
  injection hm with hm
  subst hm
  have hs := special_merge f a b ha hb
  refine ⟨parse_layout f _ (fun _ => by simp [mergeEntries]) hs.2.2 hlm, ?_, ?_⟩
  · intro h; simp [satRanges, view, h, mergeEntries]
  · intro h
    simp only [parseInscriptions, view, h, if_true]
    exact parseInscriptionList_encode _ hins

/-- The asserts are live: merging entries that are *not* special panics (witness: a non-empty
script with the address index). -/
theorem c35_merged_assert_reachable :
    merged ⟨false, true, false⟩ (layout ⟨false, true, false⟩ ⟨0, [], [0x51], []⟩)
      (layout ⟨false, true, false⟩ ⟨0, [], [], []⟩) = .panic "assert-script" := by
  have enc0 : Varint.encode 0 = [0] := by rw [Varint.encode]; simp
  have enc1 : Varint.encode 1 = [1] := by rw [Varint.encode]; simp
  have l1 : layout ⟨false, true, false⟩ ⟨0, [], [0x51], []⟩ = [0, 1, 0x51] := by
    simp [layout, enc0, enc1]
  have l2 : layout ⟨false, true, false⟩ ⟨0, [], [], []⟩ = [0, 0] := by
    simp [layout, enc0]
  rw [l1, l2]
  simp [merged, parse, parseSats, parseScript, Varint.decode, Varint.decodeAux, slice, usizeLimit,
    bind_ok, totalValue, assertThat, scriptPubkey]
  rfl


end Ord.Utxo
