import OrdModel.Proofs.Views
import OrdModel.Proofs.ViewsLocated
import OrdModel.Proofs.ViewsFixes
import OrdModel.Generated.ViewsFixes
import OrdModel.Proofs.IndexLiftDischargeC18
import OrdModel.Theorems.C04
import OrdModel.Theorems.C08
/-!
# C18 — explorer JSON and recursive endpoints agree with the index

Property theorems only.  Model: `OrdModel/Server/{Views,Pagination,Oracle}.lean` (each route as a
function of the index `State`), helper lemmas `OrdModel/Proofs/{Views,ViewsPagination}.lean`.

This property is mostly glue: the views are (by construction of the model) functions of the stored
tables, so the theorems are thin; the weight is on the correspondence stream, which compares the
real server's JSON with these functions for every object of every generated state.  What *is*
proved for all inputs: the pagination algebra of every listing (for every list length and page
number), signed indexing, the in-block window, and that output / inscription views list exactly
the stored rows.

Clauses that are FALSE of the unrepaired code are recorded as `_fails` + `_partial`, and the FULL
statement is proved of the repaired variant (`_fixed`); the model takes the variant from
`Generated/ViewsFixes.lean`, which `tools/extractors/views_fixes.py` re-derives from the source text
on every run (only the unchanged and the exactly patched shapes are accepted):
* F1 children / parents listings multiply `page * 100` unchecked (`c18_children_page_overflow_fails`,
  `c18_children_page_total_fixed` — `notes/fix-C18-page-overflow.diff`);
* F2 `/r/inscription/<id>` (404) and `/sat/<n>` (500) at the null outpoint (`c18_rinscription_null_fails`,
  `c18_sat_null_fails`, `c18_rinscription_served_fixed`, `c18_sat_served_fixed` —
  `notes/fix-C18-null-outpoint.diff`);
* F3 (not repaired) the latest-inscriptions listing answers a non-empty page beyond the end
  (`c18_latest_beyond_fails`).
-/
namespace Ord.Server
open Ord Ord.Index

/-! ## Output view -/

/-- `GET /output/<outpoint>` lists exactly the inscriptions stored in the outpoint's entry. -/
theorem c18_output_lists_entry_inscriptions (cfg : Cfg) (st : State) (op : OutPoint) (node : Option NodeOut)
    (v : OutView) (hins : cfg.indexInscriptions = true) (h : outputView cfg st op node = .ok v) :
    ∃ ids, v.inscriptions = some ids ∧
      ∀ id, id ∈ ids ↔ ∃ e seq off, AL.get st.utxo op = some e ∧ (seq, off) ∈ e.ins ∧ idOfSeq st seq = some id :=
  outputView_inscriptions cfg st op node v hins h

/-- The C04 statement "the satpoint table and the output lists say the same thing", in the form the
view needs (it follows from `InsPartitioned` of `Theorems/C04.lean` when outpoint keys are unique:
`c18_located_of_c04_invariant`; evaluated on every implementation state by `v.oracle.located`). -/
def Located (st : State) : Prop :=
  ∀ op seq, (∃ e off, AL.get st.utxo op = some e ∧ (seq, off) ∈ e.ins) ↔
    (∃ sp, AL.get st.seq2sp seq = some sp ∧ sp.outpoint = op)

/-- Under the C04 invariant, an output view lists exactly the inscriptions *located* in the output:
those whose stored satpoint has this outpoint. -/
theorem c18_output_lists_located (cfg : Cfg) (st : State) (op : OutPoint) (node : Option NodeOut)
    (v : OutView) (hins : cfg.indexInscriptions = true) (hloc : Located st)
    (h : outputView cfg st op node = .ok v) :
    ∃ ids, v.inscriptions = some ids ∧
      ∀ id, id ∈ ids ↔ ∃ seq sp, AL.get st.seq2sp seq = some sp ∧ sp.outpoint = op ∧ idOfSeq st seq = some id := by
  obtain ⟨ids, hv, hmem⟩ := outputView_inscriptions cfg st op node v hins h
  refine ⟨ids, hv, fun id => ?_⟩
  rw [hmem]
  constructor
  · rintro ⟨e, seq, off, he, hin, hid⟩
    obtain ⟨sp, hsp, ho⟩ := (hloc op seq).mp ⟨e, off, he, hin⟩
    exact ⟨seq, sp, hsp, ho, hid⟩
  · rintro ⟨seq, sp, hsp, ho, hid⟩
    obtain ⟨e, off, he, hin⟩ := (hloc op seq).mpr ⟨sp, hsp, ho⟩
    exact ⟨e, seq, off, he, hin, hid⟩

/-- `Located` is the C04 invariant (`InsPartitioned`, `Theorems/C04.lean` / `OracleInsloc.lean`) read
through `AL.get`, given unique outpoint keys in the UTXO table. -/
theorem c18_located_of_c04_invariant (cfg : Cfg) (st : State) (h : Insloc.InsPartitioned cfg st)
    (hu : (AL.keys st.utxo).Nodup) : Located st :=
  located_of_insPartitioned cfg st h hu

/-- `GET /output/<outpoint>` lists exactly the stored rune balance rows of the outpoint (C08's
table), each shown with its rune entry's name, divisibility and symbol. -/
theorem c18_output_lists_balance_rows (cfg : Cfg) (st : State) (op : OutPoint) (node : Option NodeOut)
    (v : OutView) (hr : cfg.indexRunes = true) (h : outputView cfg st op node = .ok v) :
    ∃ ps, v.runes = some ps ∧
      ∀ p, p ∈ ps ↔ ∃ rows id amount e, AL.get st.balances op = some rows ∧ (id, amount) ∈ rows ∧
        AL.get st.runeEntries id = some e ∧ p = ⟨(e.rune, e.spacers), amount, e.divisibility, e.symbol⟩ :=
  outputView_runes cfg st op node v hr h

/-- `indexed` / `sat_ranges` are the entry's; value, script and spentness are the node's. -/
theorem c18_output_indexed_and_node_fields (cfg : Cfg) (st : State) (op : OutPoint) (node : Option NodeOut)
    (v : OutView) (hs : op.isSpecial = false) (h : outputView cfg st op node = .ok v) :
    v.indexed = (AL.get st.utxo op).isSome ∧ v.satRanges = listRanges cfg st op ∧
      ∃ n, node = some n ∧ v.value = n.value ∧ v.script = n.script ∧ v.spent = !n.unspent :=
  outputView_indexed cfg st op node v hs h

/-! ## Output view on every reachable state

The two output-view clauses with their hypotheses discharged: C04's invariant is proved for every
reachable state of a chain satisfying `InsLift.InsChain` (`Insloc.c04_reachable`,
`Insloc.c04_reachable_tables`) and C08's for `RuneLift.SupplyChainOK` (`C08.c08_chain_conserved`);
`Valid.validChain` (C16's predicate) implies both. -/

/-- `Located` holds in the state after every chain satisfying C04's chain hypotheses. -/
theorem c18_located_reachable (cfg : Cfg) (chain : List Block) (st : State) (evs : List Event)
    (hc : InsLift.InsChain chain) (h : run cfg chain = .ok (st, evs)) : Located st :=
  c18_located_of_c04_invariant cfg st (Insloc.c04_reachable cfg chain st evs hc h)
    (Insloc.c04_reachable_tables cfg chain st evs hc h).1

/-- … so there an output view lists exactly the inscriptions located in the output (chain
hypotheses only: distinct non-zero txids, no special-outpoint spend outside a block's first
transaction, coinbase-first blocks, non-decreasing heights). -/
theorem c18_output_lists_located_insChain (cfg : Cfg) (chain : List Block) (st : State) (evs : List Event)
    (hc : InsLift.InsChain chain) (hrun : run cfg chain = .ok (st, evs))
    (op : OutPoint) (node : Option NodeOut) (v : OutView) (hins : cfg.indexInscriptions = true)
    (h : outputView cfg st op node = .ok v) :
    ∃ ids, v.inscriptions = some ids ∧
      ∀ id, id ∈ ids ↔ ∃ seq sp, AL.get st.seq2sp seq = some sp ∧ sp.outpoint = op ∧ idOfSeq st seq = some id :=
  c18_output_lists_located cfg st op node v hins (c18_located_reachable cfg chain st evs hc hrun) h

/-- **"An output lists exactly the inscriptions it holds", for every reachable state of a valid
chain**: after indexing any consensus-valid chain (`Valid.validChain`), `GET /output/<outpoint>`
lists exactly the inscriptions whose stored satpoint is in that output.  No hypothesis on the
state. -/
theorem c18_output_lists_located_reachable (cfg : Cfg) (chain : List Block) (st : State) (evs : List Event)
    (hv : Valid.validChain chain = true) (hrun : run cfg chain = .ok (st, evs))
    (op : OutPoint) (node : Option NodeOut) (v : OutView) (hins : cfg.indexInscriptions = true)
    (h : outputView cfg st op node = .ok v) :
    ∃ ids, v.inscriptions = some ids ∧
      ∀ id, id ∈ ids ↔ ∃ seq sp, AL.get st.seq2sp seq = some sp ∧ sp.outpoint = op ∧ idOfSeq st seq = some id :=
  c18_output_lists_located_insChain cfg chain st evs (InsLift.insChain_of_validChain chain hv).1 hrun op node v hins h

/-- The rune clause under C08's chain-level invariant (`RuneLift.SupplyChainOK`: consecutive
blocks from height 0, ≤ 2^32 transactions each, no repeated txid): the view lists exactly the
stored balance rows, *every* stored row is shown (its rune entry exists — no row is dropped and
the handler's `unwrap` cannot fire), every listed amount is positive, and an OP_RETURN output of
the chain lists nothing.  By C08 these rows are what the outputs hold: for every rune their sum
over all outputs plus the burned amount is premine + mints · amount. -/
theorem c18_output_lists_held_balances_supplyChain (cfg : Cfg) (chain : List Block) (st : State) (evs : List Event)
    (hc : RuneLift.SupplyChainOK chain) (hrun : run cfg chain = .ok (st, evs))
    (op : OutPoint) (node : Option NodeOut) (v : OutView) (hr : cfg.indexRunes = true)
    (h : outputView cfg st op node = .ok v) :
    ∃ ps, v.runes = some ps ∧
      (∀ p, p ∈ ps ↔ ∃ rows id amount e, AL.get st.balances op = some rows ∧ (id, amount) ∈ rows ∧
        AL.get st.runeEntries id = some e ∧ p = ⟨(e.rune, e.spacers), amount, e.divisibility, e.symbol⟩) ∧
      (∀ rows id amount, AL.get st.balances op = some rows → (id, amount) ∈ rows →
        0 < amount ∧ ∃ e, AL.get st.runeEntries id = some e ∧
          (⟨(e.rune, e.spacers), amount, e.divisibility, e.symbol⟩ : Pile) ∈ ps) ∧
      (C08.chainOpret chain op = true → ps = []) := by
  obtain ⟨ps, hps, hmem⟩ := c18_output_lists_balance_rows cfg st op node v hr h
  obtain ⟨_, hrows⟩ := C08.c08_chain_conserved cfg chain st evs hrun hc
  refine ⟨ps, hps, hmem, ?_, ?_⟩
  · intro rows id amount hg hin
    obtain ⟨h1, _, _⟩ := hrows op rows (AL.mem_of_get hg)
    obtain ⟨hpos, hne⟩ := h1 id amount hin
    cases he : AL.get st.runeEntries id with
    | none => exact absurd he hne
    | some e => exact ⟨hpos, e, rfl, (hmem _).2 ⟨rows, id, amount, e, hg, hin, he, rfl⟩⟩
  · intro hop
    apply List.eq_nil_iff_forall_not_mem.2
    intro p hp
    obtain ⟨rows, _, _, _, hg, _⟩ := (hmem p).1 hp
    have := (hrows op rows (AL.mem_of_get hg)).2.2
    rw [hop] at this; cases this

/-- **"An output lists exactly the rune balances it holds", for every reachable state of a valid
chain.** -/
theorem c18_output_lists_held_balances_reachable (cfg : Cfg) (chain : List Block) (st : State) (evs : List Event)
    (hv : Valid.validChain chain = true) (hrun : run cfg chain = .ok (st, evs))
    (op : OutPoint) (node : Option NodeOut) (v : OutView) (hr : cfg.indexRunes = true)
    (h : outputView cfg st op node = .ok v) :
    ∃ ps, v.runes = some ps ∧
      (∀ p, p ∈ ps ↔ ∃ rows id amount e, AL.get st.balances op = some rows ∧ (id, amount) ∈ rows ∧
        AL.get st.runeEntries id = some e ∧ p = ⟨(e.rune, e.spacers), amount, e.divisibility, e.symbol⟩) ∧
      (∀ rows id amount, AL.get st.balances op = some rows → (id, amount) ∈ rows →
        0 < amount ∧ ∃ e, AL.get st.runeEntries id = some e ∧
          (⟨(e.rune, e.spacers), amount, e.divisibility, e.symbol⟩ : Pile) ∈ ps) ∧
      (C08.chainOpret chain op = true → ps = []) :=
  c18_output_lists_held_balances_supplyChain cfg chain st evs (validChain_lotChainOK chain hv).ok hrun op node v hr h

/-- In every reachable state of a valid chain the output view never hits one of its `unwrap`s
(`entry.unwrap()` on a listed sequence number, `id_to_entry.get(id).unwrap()` on a balance row):
the handler answers 200 or 404, never drops the connection. -/
theorem c18_output_view_no_unwrap_reachable (cfg : Cfg) (chain : List Block) (st : State) (evs : List Event)
    (hv : Valid.validChain chain = true) (hrun : run cfg chain = .ok (st, evs))
    (op : OutPoint) (node : Option NodeOut) (s : String) : outputView cfg st op node ≠ .panic s := by
  have hpart := Insloc.c04_reachable cfg chain st evs (InsLift.insChain_of_validChain chain hv).1 hrun
  obtain ⟨_, hrows⟩ := C08.c08_chain_conserved cfg chain st evs hrun (validChain_lotChainOK chain hv).ok
  obtain ⟨l, hl⟩ := insOnOutput_isSome cfg st hpart op
  obtain ⟨ps, hps⟩ := runeBalances_isSome st op (fun rows hg id b hin =>
    ((hrows op rows (AL.mem_of_get hg)).1 id b hin).2)
  have h1 : ∃ a, insForOutput cfg st op = some a := by
    unfold insForOutput; split
    · exact ⟨_, by rw [hl]; rfl⟩
    · exact ⟨_, rfl⟩
  have h2 : ∃ a, runesForOutput cfg st op = some a := by
    unfold runesForOutput; split
    · exact ⟨_, by rw [hps]; rfl⟩
    · exact ⟨_, rfl⟩
  obtain ⟨a1, h1⟩ := h1
  obtain ⟨a2, h2⟩ := h2
  unfold outputView
  simp only [h1, h2]
  split <;> simp

/-- non-vacuity of the reachable-state theorems: C04's example chain (an inscription revealed,
moved and lost) is `validChain` and is indexed successfully; C08's example chain (a rune etched with
a premine, minted, partly sent to an OP_RETURN output) satisfies `SupplyChainOK`, is indexed
successfully and leaves one balance row and one OP_RETURN output of the chain. -/
example : Valid.validChain Insloc.lcChain = true ∧ (run Insloc.lcCfg Insloc.lcChain).isOk = true ∧
    Insloc.lcCfg.indexInscriptions = true := ⟨by decide, by decide, rfl⟩

example : (match run ⟨false, false, false, false, true, 0, 0, 0⟩ C08.exChain with
    | .ok (st, _) => st.balances
    | _ => []) = [(⟨2, 1⟩, [(⟨1, 0⟩, 77)])] ∧ C08.chainOpret C08.exChain ⟨2, 0⟩ = true := ⟨by decide, by decide⟩

/-! ## Inscription view -/

/-- `GET /inscription/<id>`: number, height, fee, sat, timestamp are the stored entry's, the satpoint
is the stored one, the charms are the stored charms plus `Lost` exactly when the stored satpoint is
at the null outpoint, the child count is the number of stored children, and the value is the node's
output value at the stored outpoint (absent at the unbound / null outpoints). -/
theorem c18_inscription_fields_are_stored (st : State) (i : InscriptionId) (node : Option NodeOut) (v : InsView)
    (h : inscriptionInfo st (.id i) none node = .ok v) :
    ∃ seq e sp, AL.get st.id2seq i = some seq ∧ st.entries[seq]? = some e ∧ AL.get st.seq2sp seq = some sp ∧
      v.id = e.id ∧ v.number = e.number ∧ v.height = e.height ∧ v.fee = e.fee ∧ v.sat = e.sat ∧
      v.timestamp = e.timestamp ∧ v.satpoint = sp ∧
      v.charms = (if sp.outpoint == OutPoint.null then setCharm e.charms charmLost else e.charms) ∧
      v.childCount = (childrenOf st seq).length ∧
      v.next = idOfSeq st (seq + 1) ∧
      (v.value = if sp.outpoint == OutPoint.unbound || sp.outpoint == OutPoint.null then none
                 else node.map (·.value)) :=
  inscriptionInfo_fields st i node v h

/-! ## Pagination: every listing, every length, every page -/

/-- A page holds at most `size` items and is the corresponding slice of the full list. -/
theorem c18_page_is_slice {α : Type} (l : List α) (size page : Nat) :
    (pageOf l size page).1 = (l.drop (page * size)).take size ∧ (pageOf l size page).1.length ≤ size :=
  ⟨pageOf_items l size page, pageOf_items_length_le l size page⟩

/-- The pages `0 … n-1` concatenate to the first `n * size` items, hence to the full list once
`n * size` reaches its length. -/
theorem c18_pages_concatenate {α : Type} (l : List α) (size n : Nat) :
    ((List.range n).map (fun p => (pageOf l size p).1)).flatten = l.take (n * size) ∧
    (l.length ≤ n * size → ((List.range n).map (fun p => (pageOf l size p).1)).flatten = l) :=
  ⟨pageOf_concat l size n, pageOf_concat_all l size n⟩

/-- `more` is true exactly when the next page is non-empty. -/
theorem c18_more_iff_next_nonempty {α : Type} (l : List α) (size page : Nat) (hs : 0 < size) :
    (pageOf l size page).2 = true ↔ (pageOf l size (page + 1)).1 ≠ [] :=
  pageOf_more_iff_next l size page hs

/-- A page beyond the end is empty and reports no successor. -/
theorem c18_page_beyond_end_empty {α : Type} (l : List α) (size page : Nat) (h : l.length ≤ page * size) :
    pageOf l size page = ([], false) :=
  pageOf_beyond l size page h

/-- Item `i` of the list is item `i % size` of page `i / size`: order is preserved across pages. -/
theorem c18_page_order {α : Type} (l : List α) (size : Nat) (hs : 0 < size) (i : Nat) :
    (pageOf l size (i / size)).1[i % size]? = l[i]? :=
  pageOf_getElem l size hs i

/-- The executable predicate the driver evaluates on the server's own pages holds of `pageOf`. -/
theorem c18_pages_oracle_sound {α : Type} (l : List α) (size : Nat) (hs : 0 < size) (k : Nat)
    (h : l.length ≤ k * size) :
    pagesChain ((List.range' 0 (k + 1)).map (fun q => pageOf l size q)) = true :=
  pagesChain_of hs k 0 (by simpa using h)

/-- Signed index: `i ≥ 0` is the `i`-th item; `-k` is the `k`-th from the end (so `-1` is the
newest); outside the list the answer is `none`. -/
theorem c18_signed_index {α : Type} (l : List α) :
    (∀ n : Nat, nthSigned l (n : Int) = l[n]?) ∧
    (∀ k : Nat, 1 ≤ k → nthSigned l (-(k : Int)) = if k ≤ l.length then l[l.length - k]? else none) ∧
    nthSigned l (-1) = l.getLast? :=
  ⟨nthSigned_nonneg l, nthSigned_neg l, nthSigned_last l⟩

/-! ## The listings are pages of the stored tables, in creation order -/

/-- Children of a parent: creation order (ascending sequence number), exactly the stored pairs. -/
theorem c18_children_creation_order (st : State) (seq : Nat) :
    (childrenOf st seq).Pairwise (· ≤ ·) ∧ ∀ c, c ∈ childrenOf st seq ↔ (seq, c) ∈ st.children :=
  ⟨childrenOf_sorted st seq, mem_childrenOf st seq⟩

/-- Inscriptions on a sat: creation order, exactly the stored pairs. -/
theorem c18_sat_creation_order (st : State) (sat : Nat) :
    (seqsOfSat st sat).Pairwise (· ≤ ·) ∧ ∀ s, s ∈ seqsOfSat st sat ↔ (sat, s) ∈ st.sat2seq :=
  ⟨seqsOfSat_sorted st sat, mem_seqsOfSat st sat⟩

/-- `GET /children/<id>/<page>` and `GET /r/children/<id>/<page>`, whichever variant of the accessor
the source has: a 200 answer is page `page` of the stored children (ids of the sliced sequence
numbers, pointwise). -/
theorem c18_children_page (fx : Fixes) (st : State) (id : InscriptionId) (page : Nat) (p : Page InscriptionId)
    (h : childrenPage fx st id page = .ok p) :
    ∃ e, entryOfId st id = some e ∧ ((childrenOf st e.seq).length < USIZE →
      idsOfSeqs st (pageOf (childrenOf st e.seq) PAGE page).1 = some p.items ∧
      p.more = (pageOf (childrenOf st e.seq) PAGE page).2 ∧ p.page = page) :=
  childrenPage_spec fx st id page p h

/-- `GET /r/parents/<id>/<page>`: page `page` of the entry's stored parent list, in stored order. -/
theorem c18_parents_page (fx : Fixes) (st : State) (id : InscriptionId) (page : Nat) (p : Page InscriptionId)
    (h : parentsPage fx st id page = .ok p) :
    ∃ e, entryOfId st id = some e ∧ (e.parents.length < USIZE →
      idsOfSeqs st (pageOf e.parents PAGE page).1 = some p.items ∧
      p.more = (pageOf e.parents PAGE page).2 ∧ p.page = page) :=
  parentsPage_spec fx st id page p h

/-- `GET /r/sat/<n>/<page>`: page `page` of the inscriptions stored on the sat (saturating skip:
no overflow). -/
theorem c18_sat_page (cfg : Cfg) (st : State) (sat page : Nat) (p : Page InscriptionId)
    (hl : (seqsOfSat st sat).length < USIZE) (h : satPage cfg st sat page = .ok p) :
    idsOfSeqs st (pageOf (seqsOfSat st sat) PAGE page).1 = some p.items ∧
      p.more = (pageOf (seqsOfSat st sat) PAGE page).2 ∧ p.page = page :=
  satPage_spec cfg st sat page p hl h

/-- `GET /r/sat/<n>/at/<i>`: the signed index into the inscriptions stored on the sat. -/
theorem c18_sat_at_index (cfg : Cfg) (st : State) (sat : Nat) (i : Int) (r : Option InscriptionId)
    (h : satAt cfg st sat i = .ok r) :
    r = (nthSigned (seqsOfSat st sat) i).bind (idOfSeq st) :=
  satAt_spec cfg st sat i r h

/-- `GET /inscriptions/block/<h>`: the ids with sequence numbers from the mark of height `h - 1`
(0 when absent) up to, excluding, the mark of height `h`, in ascending (creation) order. -/
theorem c18_in_block_window (st : State) (h : Nat) :
    inBlock st h = idsOfSeqs st (inBlockSeqs st.height2lastseq h) ∧
    (inBlockSeqs st.height2lastseq h).Pairwise (· < ·) ∧
    (∀ newest, AL.get st.height2lastseq h = some newest → ∀ s,
      s ∈ inBlockSeqs st.height2lastseq h ↔ (AL.get st.height2lastseq (h - 1)).getD 0 ≤ s ∧ s < newest) :=
  ⟨inBlock_eq st h, inBlockSeqs_sorted _ h, fun newest hm s => mem_inBlockSeqs _ h newest hm s⟩

/-- `GET /inscriptions/block/<h>/<page>` is page `page` of that window. -/
theorem c18_in_block_page (st : State) (h page : Nat) (p : Page InscriptionId) (ids : List InscriptionId)
    (hi : inBlock st h = some ids) (hl : ids.length < USIZE) (hp : inBlockPage st h page = .ok p) :
    p.items = (pageOf ids PAGE page).1 ∧ p.more = (pageOf ids PAGE page).2 ∧ p.page = page :=
  inBlockPage_spec st h page p ids hi hl hp

/-! ## Clauses that are false of the code as it stands -/

/-- FULL STATEMENT (false of the unrepaired accessors): `∀ l page, ∃ r, pageKids false l 100 page = .ok r`.
The children / parents accessors compute `page_index * page_size` unchecked: for
`page = 184467440737095517` the product exceeds `usize::MAX` — a panic in the dev profile (a
wrapped, wrong skip in release).  Replayed on the real server by the harness
(`GET /r/children/<id>/184467440737095517` drops the connection). -/
theorem c18_children_page_overflow_fails :
    pageKids false ([] : List Nat) PAGE 184467440737095517 = .panic "page_index * page_size" := by
  decide

/-- what holds unrepaired: every page number whose product fits answers the plain page -/
theorem c18_children_page_total_partial {α : Type} (l : List α) (page : Nat) (h : page * PAGE < USIZE) :
    pageKids false l PAGE page = .ok (pageOf l PAGE page) := by
  rw [pageKids_unfixed]; exact pageChecked_ok l PAGE page h

/-- FULL STATEMENT, of the repaired accessors (`notes/fix-C18-page-overflow.diff`, saturating
product): EVERY page number of every listing answers, with the plain page — in particular a page
at or beyond the end is the empty page with `more = false`. -/
theorem c18_children_page_total_fixed {α : Type} (l : List α) (page : Nat) (hl : l.length < USIZE) :
    pageKids true l PAGE page = .ok (pageOf l PAGE page) ∧
    (l.length ≤ page * PAGE → pageKids true l PAGE page = .ok ([], false)) := by
  refine ⟨pageKids_fixed l PAGE page hl, fun h => ?_⟩
  rw [pageKids_fixed l PAGE page hl, pageOf_beyond l PAGE page h]

/-- the witness of `c18_children_page_overflow_fails` under the repair: the empty page -/
theorem c18_children_page_overflow_fixed :
    pageKids true ([] : List Nat) PAGE 184467440737095517 = .ok ([], false) := by
  decide

/-! F2 — objects at the null outpoint -/

/-- FULL STATEMENT (false unrepaired): every indexed inscription is served by `/r/inscription/<id>`.
Unrepaired, one whose stored satpoint is at the null outpoint (lost) is answered 404. -/
theorem c18_rinscription_null_fails (fx : Fixes) (hfx : fx.nullOutpoint = false) (st : State) (id : InscriptionId)
    (node : Option NodeOut) (seq : Nat) (e : InsEntry) (sp : SatPoint)
    (hq : AL.get st.id2seq id = some seq) (he : st.entries[seq]? = some e) (hsp : AL.get st.seq2sp seq = some sp)
    (hnull : sp.outpoint = OutPoint.null) :
    rInscription fx st id node = .notFound :=
  rInscription_null_unfixed fx hfx st id node seq e sp hq he hsp hnull

/-- what holds unrepaired: away from the null outpoint the answer is the repaired one -/
theorem c18_rinscription_served_partial (fx : Fixes) (st : State) (id : InscriptionId) (node : Option NodeOut)
    (h : ∀ seq sp, AL.get st.id2seq id = some seq → AL.get st.seq2sp seq = some sp → sp.outpoint ≠ OutPoint.null) :
    rInscription fx st id node = rInscription Fixes.all st id node :=
  rInscription_fx_irrelevant fx Fixes.all st id node h

/-- FULL STATEMENT, repaired (`notes/fix-C18-null-outpoint.diff`): every indexed inscription is
served — with the stored number, height, fee, sat, timestamp, satpoint and charms — whenever it
sits at the unbound or the null outpoint or the node knows its output; at the two special
outpoints it is shown with no value and no address ("no output", exactly as for unbound). -/
theorem c18_rinscription_served_fixed (fx : Fixes) (hfx : fx.nullOutpoint = true) (st : State) (id : InscriptionId)
    (node : Option NodeOut) (seq : Nat) (e : InsEntry) (sp : SatPoint)
    (hq : AL.get st.id2seq id = some seq) (he : st.entries[seq]? = some e) (hsp : AL.get st.seq2sp seq = some sp)
    (hserv : sp.outpoint = OutPoint.unbound ∨ sp.outpoint = OutPoint.null ∨ node.isSome = true) :
    ∃ v, rInscription fx st id node = .ok v ∧ v.id = id ∧ v.number = e.number ∧ v.height = e.height ∧
      v.fee = e.fee ∧ v.sat = e.sat ∧ v.timestamp = e.timestamp ∧ v.satpoint = sp ∧ v.charms = e.charms ∧
      ((sp.outpoint = OutPoint.unbound ∨ sp.outpoint = OutPoint.null) → v.value = none ∧ v.address = none) :=
  rInscription_served_fixed fx hfx st id node seq e sp hq he hsp hserv

/-- FULL STATEMENT (false unrepaired): the sat page of every sat answers.  Unrepaired, a sat whose
shown satpoint (rare-sat table, else first inscription) is at the null outpoint is answered 500. -/
theorem c18_sat_null_fails (fx : Fixes) (hfx : fx.nullOutpoint = false) (st : State) (sat : Nat)
    (node : Option NodeOut) (ids : List InscriptionId) (sp : SatPoint)
    (hids : idsOfSeqs st (seqsOfSat st sat) = some ids) (hsp : satSatpoint st sat = some sp)
    (hnull : sp.outpoint = OutPoint.null) :
    satView fx st sat node = .internal :=
  satView_null_unfixed fx hfx st sat node ids sp hids hsp hnull

theorem c18_sat_served_partial (fx : Fixes) (st : State) (sat : Nat) (node : Option NodeOut)
    (h : ∀ sp, satSatpoint st sat = some sp → sp.outpoint ≠ OutPoint.null) :
    satView fx st sat node = satView Fixes.all st sat node :=
  satView_fx_irrelevant fx Fixes.all st sat node h

/-- FULL STATEMENT, repaired: `/sat/<n>` answers for every sat (whenever the node knows the shown
output or the shown satpoint is absent / unbound / null), listing the stored inscriptions and the
stored satpoint; no address at the special outpoints. -/
theorem c18_sat_served_fixed (fx : Fixes) (hfx : fx.nullOutpoint = true) (st : State) (sat : Nat)
    (node : Option NodeOut) (ids : List InscriptionId)
    (hids : idsOfSeqs st (seqsOfSat st sat) = some ids)
    (hserv : ∀ sp, satSatpoint st sat = some sp →
      sp.outpoint = OutPoint.unbound ∨ sp.outpoint = OutPoint.null ∨ node.isSome = true) :
    ∃ v, satView fx st sat node = .ok v ∧ v.inscriptions = ids ∧ v.satpoint = satSatpoint st sat ∧
      (∀ sp, satSatpoint st sat = some sp → (sp.outpoint = OutPoint.unbound ∨ sp.outpoint = OutPoint.null) →
        v.address = none) :=
  satView_served_fixed fx hfx st sat node ids hids hserv

/-- a lost inscription (concrete witness): 404 unrepaired, served with no value / address repaired -/
def lostState : State :=
  { entries := [{ (default : InsEntry) with id := ⟨7, 0⟩, charms := charmLost }],
    id2seq := [(⟨7, 0⟩, 0)], seq2sp := [(0, ⟨OutPoint.null, 5⟩)] }

example : (match rInscription Fixes.none lostState ⟨7, 0⟩ none with | .notFound => true | _ => false) = true := by
  decide
example : (match rInscription Fixes.all lostState ⟨7, 0⟩ none with
    | .ok v => v.value == none && v.address == none && v.charms == charmLost && v.satpoint == ⟨OutPoint.null, 5⟩
    | _ => false) = true := by
  decide

/-- FULL STATEMENT (false): a page of `GET /inscriptions/<page>` beyond the end is empty.
With 5 inscriptions, page 1 lists inscription 0 again (`start` and `end` both saturate to 0 and
the inclusive range `0..=0` is read). -/
theorem c18_latest_beyond_fails : latestSeqs 5 100 1 = ([0], false) := by decide

/-- in general: beyond the end the page is `[0]`, never empty -/
theorem c18_latest_beyond_is_oldest (n size page : Nat) (hn : 0 < n) (hp : n - 1 < size * page) :
    latestSeqs n size page = ([0], false) :=
  latestSeqs_beyond n size page hn hp

/-- what holds: while the page starts inside the table it is the next `size` newest sequence
numbers, descending, with `more` exactly when `size` or more older ones remain -/
theorem c18_latest_page_partial (n size page : Nat) (hn : 0 < n) (hp : size * page ≤ n - 1) :
    latestSeqs n size page =
      (downFrom (n - 1 - size * page) (min size (n - size * page)), decide (size ≤ n - 1 - size * page)) :=
  latestSeqs_spec n size page hn hp

/-! ## Non-vacuity -/

example : pageOf [1, 2, 3, 4, 5] 2 1 = ([3, 4], true) := by decide
example : pageOf [1, 2, 3, 4, 5] 2 2 = ([5], false) := by decide
example : pageOf [1, 2, 3, 4] 2 1 = ([3, 4], false) := by decide
example : pageOf [1, 2, 3, 4, 5] 2 3 = ([], false) := by decide
example : nthSigned [10, 20, 30] (-1) = some 30 ∧ nthSigned [10, 20, 30] (-3) = some 10 ∧
    nthSigned [10, 20, 30] (-4) = none ∧ nthSigned [10, 20, 30] 3 = none := by decide
example : latestSeqs 250 100 0 = (downFrom 249 100, true) := by decide
example : latestSeqs 250 100 2 = (downFrom 49 50, false) := by decide
example : inBlockSeqs [(1, 0), (2, 3), (3, 5)] 3 = [3, 4] := by decide
example : pagesOk 2 [1, 2, 3] [([1, 2], true), ([3], false), ([], false)] = true := by decide
example : pagesOk 2 [1, 2, 3] [([1, 2], false), ([3], false), ([], false)] = false := by decide

end Ord.Server
