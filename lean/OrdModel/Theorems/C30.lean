import OrdModel.Proofs.SatRoundTripDegree
/-!
# C30 — Printed sat notations parse back to the same sat

Property theorems only.  Printers/parsers: `OrdModel/Num/SatNotation.lean`; lemmas:
`OrdModel/Proofs/SatText.lean`, `SatRoundTrip.lean`, `SatRoundTripDegree.lean`.

Each theorem is for **every** sat below the supply, for `Sat::from_str` both as it is and with
either of the two C31 repairs applied (`df`, `pf` arbitrary), and whatever the float oracle `fc`
says (it is not consulted on these paths).  The percentile notation is IEEE-754 arithmetic and
is *not* covered by any theorem here: it is sampled by the `notation` stream only.
-/
namespace Ord.C30
open Ord Ord.Epoch Ord.SatNotation

/-- integer notation (`Display for Sat`) -/
theorem c30_integer (df pf : Bool) (fc : FloatClass) (s : Nat) (hs : s < SUPPLY) :
    fromStrWith df pf (printInteger s) fc = .ok s :=
  fromStr_printInteger df pf s hs fc

/-- decimal notation `height.offset` (`Display for DecimalSat`) -/
theorem c30_decimal (df pf : Bool) (fc : FloatClass) (s : Nat) (hs : s < SUPPLY) :
    ∃ h k, Sat.decimalO s = .ok (h, k) ∧ fromStrWith df pf (printDecimal h k) fc = .ok s := by
  refine ⟨Sat.heightN s, Sat.thirdN s, ?_, ?_⟩
  · unfold Sat.decimalO; rw [Sat.heightO_ok s hs, Sat.thirdO_ok s hs]
  · obtain ⟨hsum, hk⟩ := Sat.decompose s hs
    unfold fromStrWith
    rw [dispatch_decimal]
    show fromDecimal _ = _
    rw [fromDecimal_print _ _ (Sat.heightN_lt s hs) hk, hsum]

/-- degree notation `cycle°minute′second″third‴` (`Display for Degree`) -/
theorem c30_degree (df pf : Bool) (fc : FloatClass) (s : Nat) (hs : s < SUPPLY) :
    ∃ d, Degree.ofSatO s = .ok d ∧ fromStrWith df pf (printDegree d) fc = .ok s := by
  refine ⟨Degree.ofHeightThird (Sat.heightN s) (Sat.thirdN s), ?_, ?_⟩
  · unfold Degree.ofSatO; rw [Sat.heightO_ok s hs, Sat.thirdO_ok s hs]
  · obtain ⟨hsum, hk⟩ := Sat.decompose s hs
    unfold fromStrWith
    rw [dispatch_degree]
    show fromDegreeWith df _ = _
    rw [fromDegree_print df _ _ (Sat.heightN_lt s hs) hk, hsum]

/-- name notation (`Sat::name`) -/
theorem c30_name (df pf : Bool) (fc : FloatClass) (s : Nat) (hs : s < SUPPLY) :
    ∃ n, Sat.nameO s = .ok n ∧ fromStrWith df pf n fc = .ok s := by
  refine ⟨Sat.nameAux (SUPPLY - s) [], ?_, ?_⟩
  · unfold Sat.nameO Outcome.subW
    rw [if_pos (Nat.le_of_lt hs)]
  · unfold fromStrWith
    rw [dispatch_name (Nat.sub_pos_of_lt hs)]
    exact fromName_name s hs

/-- … in particular for the source tree as it is (flags re-extracted from sat.rs on every run) -/
theorem c30_current_tree (fc : FloatClass) (s : Nat) (hs : s < SUPPLY) :
    fromStr (printInteger s) fc = .ok s ∧
    (∃ h k, Sat.decimalO s = .ok (h, k) ∧ fromStr (printDecimal h k) fc = .ok s) ∧
    (∃ d, Degree.ofSatO s = .ok d ∧ fromStr (printDegree d) fc = .ok s) ∧
    (∃ n, Sat.nameO s = .ok n ∧ fromStr n fc = .ok s) :=
  ⟨c30_integer _ _ fc s hs, c30_decimal _ _ fc s hs, c30_degree _ _ fc s hs, c30_name _ _ fc s hs⟩

/-! Non-vacuity: the hypothesis is met by the first, the last and an interior sat -/
example : ∃ d, Degree.ofSatO 0 = .ok d ∧ fromStrWith false true (printDegree d) .unknown = .ok 0 :=
  c30_degree _ _ _ 0 (by decide)
example : ∃ n, Sat.nameO 2099999997689999 = .ok n ∧ fromStrWith true false n .nan = .ok 2099999997689999 :=
  c30_name _ _ _ _ (by decide)
example : ∃ h k, Sat.decimalO 1050000000000005 = .ok (h, k) ∧
    fromStrWith false false (printDecimal h k) .unknown = .ok 1050000000000005 :=
  c30_decimal _ _ _ _ (by decide)

end Ord.C30
