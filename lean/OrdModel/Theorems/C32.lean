import OrdModel.Proofs.RuneName
import OrdModel.Proofs.RuneCommit
import OrdModel.Proofs.RuneSpaced
/-!
# C32 — Rune names correspond one-to-one with integers and print/parse consistently

Property theorems only.  Models: `OrdModel/Num/RuneName.lean`, `OrdModel/Num/SpacedRune.lean`;
helper lemmas: `OrdModel/Proofs/Rune{Name,Commit,Spaced}.lean`.

A *name* is a non-empty list of characters `A`–`Z`; it denotes the integer `bij s - 1`
(bijective base 26, digits `A = 1 … Z = 26`, over unbounded `Nat`).
-/
namespace Ord.Rune

/-- Printing any 128-bit rune and parsing the result returns the same rune
(the `u128::MAX` special case included). -/
theorem c32_parse_print (n : Nat) (hn : n < 2 ^ 128) : parse (print n) = .ok n := by
  rw [print_eq_printGen, parse_ok_iff]
  exact Or.inr ⟨printGen_ne_nil n, printGen_upper n, bij_printGen n, hn⟩

/-- What is printed is a name (non-empty, `A`–`Z` only, at most 28 letters) whose bijective
base-26 value is the rune. -/
theorem c32_print_is_name (n : Nat) (hn : n < 2 ^ 128) :
    print n ≠ [] ∧ (∀ c ∈ print n, isUpper c = true) ∧ bij (print n) = n + 1 ∧
      (print n).length ≤ 28 := by
  refine ⟨?_, ?_, ?_, SpacedRune.print_length_le n hn⟩
  · rw [print_eq_printGen]; exact printGen_ne_nil n
  · rw [print_eq_printGen]; exact printGen_upper n
  · rw [print_eq_printGen]; exact bij_printGen n

/-- Parsing any name whose value fits and printing the result returns the same name. -/
theorem c32_print_parse (s : List Char) (hne : s ≠ []) (v : Nat) (h : parse s = .ok v) :
    print v = s := by
  rw [parse_ok_iff] at h
  rcases h with ⟨h, _⟩ | ⟨_, hup, hb, _⟩
  · exact absurd h hne
  · rw [print_eq_printGen]
    have := printGen_bij s hne hup
    rw [hb] at this
    simpa using this

/-- Every name whose value fits in 128 bits is accepted, with exactly that value
(so the correspondence is onto in both directions). -/
theorem c32_parse_complete (s : List Char) (hne : s ≠ []) (hup : ∀ c ∈ s, isUpper c = true)
    (hfit : bij s ≤ 2 ^ 128) : parse s = .ok (bij s - 1) := by
  rw [parse_ok_iff]
  have hpos : 0 < bij s := by
    rw [bij_eq_bijRev]
    cases hr : s.reverse with
    | nil => simp at hr; exact absurd hr hne
    | cons c cs => simp only [bijRev]; omega
  exact Or.inr ⟨hne, hup, by omega, by unfold U128; omega⟩

/-- Distinct runes have distinct names. -/
theorem c32_print_injective (m n : Nat) (hm : m < 2 ^ 128) (hn : n < 2 ^ 128)
    (h : print m = print n) : m = n := by
  have h1 := c32_parse_print m hm
  rw [h, c32_parse_print n hn] at h1
  injection h1 with h1; exact h1.symm

/-- Distinct names denote distinct runes. -/
theorem c32_parse_injective (s t : List Char) (hs : s ≠ []) (ht : t ≠ []) (v : Nat)
    (h1 : parse s = .ok v) (h2 : parse t = .ok v) : s = t := by
  rw [← c32_print_parse s hs v h1, ← c32_print_parse t ht v h2]

/-- The only accepted string that is not a name is the empty string, which reads as rune 0
(the same as `A`): recorded behaviour of `Rune::from_str("")`. -/
theorem c32_parse_empty : parse [] = .ok 0 ∧ parse ['A'] = .ok 0 := by decide

/-- A rune's commitment is its little-endian encoding without trailing zero bytes: it has the
rune as its little-endian value, at most 16 bytes, and does not end in a zero byte. -/
theorem c32_commitment (n : Nat) (hn : n < 2 ^ 128) :
    leValue (commitment n) = n ∧ (commitment n).length ≤ 16 ∧
      ∀ b, (commitment n).getLast? = some b → b.toNat ≠ 0 := by
  have h256 : n < 256 ^ 16 := by
    have : (256 : Nat) ^ 16 = 2 ^ 128 := by decide
    omega
  refine ⟨?_, ?_, stripZeros_getLast _⟩
  · rw [commitment, leValue_stripZeros, leValue_leBytes 16 n h256]
  · have := stripZeros_length_le (leBytes 16 n)
    rw [leBytes_length] at this
    exact this

/-- …and it is the only such byte string. -/
theorem c32_commitment_unique (n : Nat) (hn : n < 2 ^ 128) (bs : List UInt8)
    (hlen : bs.length ≤ 16) (hval : leValue bs = n)
    (hlast : ∀ b, bs.getLast? = some b → b.toNat ≠ 0) : commitment n = bs := by
  have h256 : n < 256 ^ 16 := by
    have : (256 : Nat) ^ 16 = 2 ^ 128 := by decide
    omega
  have hpad : leBytes 16 n = bs ++ List.replicate (16 - bs.length) 0 := by
    apply leValue_inj_of_length
    · simp [leBytes_length]; omega
    · rw [leValue_leBytes 16 n h256, leValue_append_zeros, hval]
  rw [commitment, hpad, stripZeros_append_zeros, stripZeros_of_last_ne bs hlast]

theorem c32_commitment_zero : commitment 0 = [] := by decide

/-- The reserved names are exactly those at or above the first 27-letter name, and the
constant `Rune::RESERVED` is that name's value. -/
theorem c32_reserved (n : Nat) :
    isReserved n = true ↔ bij firstReservedName ≤ n + 1 := by
  rw [reserved_const]; simp [isReserved]

theorem c32_reserved_const :
    parse firstReservedName = .ok RESERVED ∧ RESERVED = 6402364363415443603228541259936211926 ∧
      firstReservedName.length = 27 ∧ ∀ c ∈ firstReservedName, c = 'A' := by
  refine ⟨?_, rfl, by decide, by decide⟩
  rw [parse_ok_iff]
  exact Or.inr ⟨by decide, by decide, reserved_const, by decide⟩

/-- `Rune::reserved(block, tx)` never overflows, is reserved, and is `RESERVED + block·2^32 + tx`. -/
theorem c32_reserved_id (block tx : Nat) (hb : block < 2 ^ 64) (ht : tx < 2 ^ 32) :
    reserved block tx = .ok (RESERVED + block * 2 ^ 32 + tx) ∧
      isReserved (RESERVED + block * 2 ^ 32 + tx) = true := by
  have hor : (block <<< 32) ||| tx = block * 2 ^ 32 + tx := by
    rw [Nat.shiftLeft_eq, Nat.mul_comm]
    exact (Nat.two_pow_add_eq_or_of_lt ht block).symm
  have hfit : RESERVED + (block * 2 ^ 32 + tx) < U128 := by
    unfold RESERVED U128; omega
  refine ⟨?_, by simp [isReserved]; omega⟩
  simp only [reserved, hor, hfit, if_true, Nat.add_assoc]

/-! Non-vacuity -/
example : print 0 = ['A'] := by
  rw [print_eq_printGen, printGen, symbolRev]; simp [symbolRev, letter]
example : parse ['A', 'A'] = .ok 26 := by decide
example : parse ("ZZZZZZZZZZZZZZZZZZZZZZZZZZZZ".toList) = .err "range" := by decide
example : commitment 256 = [0, 1] := by decide
example : isReserved RESERVED = true ∧ isReserved (RESERVED - 1) = false := by decide

end Ord.Rune

namespace Ord.SpacedRune
open Ord Ord.Rune

/-- Printing any spaced rune and parsing the result returns the same rune and the same
spacers, except that spacers at or past the last letter are dropped. -/
theorem c32_spaced_parse_print (r sp : Nat) (hr : r < 2 ^ 128) :
    parse (print r sp) = .ok (r, sp % 2 ^ ((Rune.print r).length - 1)) := by
  unfold parse
  generalize Ord.Generated.SpacedRuneFix.shlFixed = fx
  obtain ⟨hne, hup, _, hlen⟩ := c32_print_is_name r hr
  have hloop := parseLoop_interleave fx sp (Rune.print r) [] hne hup (by simp; omega)
  simp only [List.length_nil, Nat.pow_zero, Nat.mod_one, Nat.zero_add, List.append_nil,
    List.reverse_reverse] at hloop
  have hL : 1 ≤ (Rune.print r).length := by
    cases hp : Rune.print r with
    | nil => exact absurd hp hne
    | cons _ _ => simp
  have hlt : sp % 2 ^ ((Rune.print r).length - 1) < 2 ^ ((Rune.print r).length - 1) :=
    Nat.mod_lt _ (Nat.two_pow_pos _)
  have hbl := bitLen_le hlt
  have h1 : ¬ (fx = false ∧ (Rune.print r).length ≥ 2 ^ 32) := by intro ⟨_, h⟩; omega
  have hmin : min (Rune.print r).length (2 ^ 32 - 1) = (Rune.print r).length := by omega
  have h2 : ¬ (bitLen (sp % 2 ^ ((Rune.print r).length - 1)) ≥ (Rune.print r).length) := by omega
  simp only [parseWith, print, hloop, h1, hmin, h2, if_false, c32_parse_print r hr]

/-- What is printed: the name with `•` after letter `i` exactly when `i` is not the last
letter and bit `i` of the spacers is set (definition of `interleave`); in particular a mask
below `2^(len-1)` is recovered unchanged. -/
theorem c32_spaced_exact (r sp : Nat) (hr : r < 2 ^ 128)
    (hsp : sp < 2 ^ ((Rune.print r).length - 1)) : parse (print r sp) = .ok (r, sp) := by
  rw [c32_spaced_parse_print r sp hr, Nat.mod_eq_of_lt hsp]

/-- Conversely, parsing any accepted spaced-rune string and printing the result gives the
string back (with every `.` written as `•`), and the parsed mask has no bit at or past the last
letter: accepted strings and pairs `(rune, spacers < 2^(len−1))` correspond one-to-one. -/
theorem c32_spaced_print_parse (s : List Char) (r sp : Nat) (h : parse s = .ok (r, sp)) :
    print r sp = normalize s ∧ sp < 2 ^ ((Rune.print r).length - 1) := by
  obtain ⟨hne, hb, hr, hsp, hnorm⟩ := parse_ok _ s r sp h
  have hup : ∀ c ∈ s.filter isUpper, isUpper c = true := by
    intro c hc; exact (List.mem_filter.mp hc).2
  have hparse : Rune.parse (s.filter isUpper) = .ok r :=
    (parse_ok_iff _ _).mpr (Or.inr ⟨hne, hup, hb, hr⟩)
  have hprint := c32_print_parse _ hne r hparse
  rw [print, hprint]
  exact ⟨hnorm.symm, hsp⟩

example : print 702 5 = ['A', bullet, 'A', 'A'] := by
  have : Rune.print 702 = ['A', 'A', 'A'] := by
    rw [print_eq_printGen, printGen, symbolRev]; simp [symbolRev, letter]
  simp [print, this, interleave, Nat.testBit]
example : parse ['A', bullet, 'A', 'A'] = .ok (702, 1) := by decide

end Ord.SpacedRune
