import OrdModel.Proofs.IndexInsloc
/-!
# C04 — Inscriptions are never duplicated or dropped

Property theorems only.  Model: `OrdModel/Index/{Inscriptions,Block}.lean`; derived definitions
and the executable oracle: `OrdModel/Index/OracleInsloc.lean`; lemmas:
`OrdModel/Proofs/IndexInsloc*.lean`.
-/
namespace Ord.Index.Insloc
open Ord Ord.Index

/-- The predicate the driver evaluates on the implementation's dump rows after every block
(`ix.oracle.inspartition`) is exactly the C04 invariant. -/
theorem c04_oracle_sound (cfg : Cfg) (st : State) :
    insPartitionedB cfg st = true ↔ InsPartitioned cfg st := insPartitionedB_iff cfg st

end Ord.Index.Insloc
