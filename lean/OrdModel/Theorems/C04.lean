import OrdModel.Proofs.IndexInslocExample
import OrdModel.Proofs.IndexLiftInsChain
import OrdModel.Proofs.IndexLiftInsValid
/-!
# C04 — Inscriptions are never duplicated or dropped

Property theorems only.  Model: `OrdModel/Index/{Inscriptions,Block}.lean`; derived definitions
and the executable oracle: `OrdModel/Index/OracleInsloc.lean`; lemmas:
`OrdModel/Proofs/IndexInsloc*.lean`.

What is proved here is the invariant's **oracle form** (the predicate evaluated on the
implementation's dump after every block is exactly `InsPartitioned`), its **per-transaction
preservation step** for `index_inscriptions` at full strength (any inputs, any envelopes, any
flotsam, coinbase or not), and the **lift to every reachable state** of the full index model
(`Index/Run.lean`: `run`, `Reachable`): `c04_reachable`, `c04_reachable_count`
(lemmas: `OrdModel/Proofs/IndexLiftIns*.lean`).

Chain hypotheses of the lift (`InsLift.InsChain`): pairwise distinct non-zero txids and no spend
of the null / unbound outpoint outside a block's first transaction (C12's `ChainCond`; BIP-30 —
necessary: a duplicate txid overwrites a cache entry and drops its inscriptions), every block
starts with a coinbase (first input null: the saved flotsam is flushed,
`c04_coinbase_flushes_saved`), and block heights never decrease (so no block below the first
inscription height is indexed after inscriptions exist).  The counting clause additionally needs
`InsLift.EnvChain`: envelope lists in input order naming existing inputs (what the real parser
produces; checked on every generated transaction by `ix.oracle.envwf`) and all inputs of a
block's first transaction null.
-/
namespace Ord.Index.Insloc
open Ord Ord.Index

/-- The predicate the driver evaluates on the implementation's dump rows after every block
(`ix.oracle.inspartition`) is exactly the C04 invariant. -/
theorem c04_oracle_sound (cfg : Cfg) (st : State) :
    insPartitionedB cfg st = true ↔ InsPartitioned cfg st := insPartitionedB_iff cfg st

/-- One call of `update_inscription_location` pushes the inscription's sequence number onto
exactly one list — an output entry of the transaction, the block's null entry or its unbound
entry — and changes no other list; a new inscription gets the next sequence number
`entries.length`, and the entry table grows by exactly that one entry. -/
theorem c04_push_exactly_once (cfg : Cfg) (height time : Nat) (rs : Option (List (Nat × Nat)))
    (fl : Flotsam) (sp : SatPoint) (opr : Bool) (tgt : Target) (ls ls' : LocState)
    (h : updateInscriptionLocation cfg height time rs fl sp opr tgt ls = .ok ls') :
    (located ls'.outs ls'.ctx).Perm (located ls.outs ls.ctx ++ [flSeq ls.st.entries.length fl]) ∧
    ls'.st.entries.length = ls.st.entries.length + (if isNew fl then 1 else 0) ∧
    ls'.st.utxo = ls.st.utxo ∧ ls'.ctx.flotsam = ls.ctx.flotsam :=
  let s := (uil_spec cfg height time rs fl sp opr tgt ls ls' h).step
  ⟨s.located, s.entriesLen, s.utxo, s.flotsam⟩

/-- Per-transaction preservation (`index_inscriptions`, any transaction): the sequence numbers
placed so far, those in the block's saved flotsam and those sitting on the spent inputs are all
present afterwards, each exactly as often as before, on an output entry / the null entry / the
unbound entry / the saved flotsam; the new sequence numbers handed out are exactly
`n, n+1, …` (`n` = number of inscriptions before); and `consumed` counts the envelopes the
scan turned into inscriptions (numbered now or pending in the saved flotsam). -/
theorem c04_transaction_conserves (cfg : Cfg) (height time : Nat) (tx : Tx)
    (inputs : List (TxIn × UtxoEntry)) (rs : Option (List (Nat × Nat))) (ls ls' : LocState)
    (hok : indexInscriptions cfg height time tx inputs rs ls = .ok ls') :
    ∃ consumed remaining,
      tx.envelopes.length = consumed + remaining ∧
      (located ls'.outs ls'.ctx ++ oldSeqs ls'.ctx.flotsam).Perm
        (located ls.outs ls.ctx ++ oldSeqs ls.ctx.flotsam ++ inputSeqs inputs ++
          List.range' ls.st.entries.length (ls'.st.entries.length - ls.st.entries.length)) ∧
      ls'.st.entries.length + newCount ls'.ctx.flotsam =
        ls.st.entries.length + newCount ls.ctx.flotsam + consumed ∧
      (txIsCoinbase tx = true → ls'.ctx.flotsam = []) ∧
      ls'.st.utxo = ls.st.utxo ∧ ls'.outs.length = ls.outs.length :=
  indexInscriptions_conserve cfg height time tx inputs rs ls ls' hok

/-- Counting: in a non-coinbase transaction whose parsed envelopes come in input order and name
existing inputs (`envelopeInputsWF`, checked on every generated transaction by
`ix.oracle.envwf`), every envelope becomes exactly one inscription. -/
theorem c04_transaction_counts_envelopes (cfg : Cfg) (height time : Nat) (tx : Tx)
    (inputs : List (TxIn × UtxoEntry)) (rs : Option (List (Nat × Nat))) (ls ls' : LocState)
    (hnn : ∀ p ∈ inputs, p.1.prev.isNull = false)
    (hwf : envelopeInputsWF inputs.length (tx.envelopes.map (·.input)) = true)
    (hok : indexInscriptions cfg height time tx inputs rs ls = .ok ls') :
    ls'.st.entries.length + newCount ls'.ctx.flotsam =
      ls.st.entries.length + newCount ls.ctx.flotsam + tx.envelopes.length :=
  indexInscriptions_counts_all cfg height time tx inputs rs ls ls' hnn hwf hok

/-- The coinbase leaves nothing saved: every fee-spent inscription of the block is placed. -/
theorem c04_coinbase_flushes_saved (cfg : Cfg) (height time : Nat) (tx : Tx)
    (inputs : List (TxIn × UtxoEntry)) (rs : Option (List (Nat × Nat))) (ls ls' : LocState)
    (hcb : txIsCoinbase tx = true)
    (hok : indexInscriptions cfg height time tx inputs rs ls = .ok ls') :
    ls'.ctx.flotsam = [] := by
  obtain ⟨_, _, _, _, _, h, _⟩ := indexInscriptions_conserve cfg height time tx inputs rs ls ls' hok
  exact h hcb

/-- Offsets on real outputs are below the output's value: whatever the output loop assigns to
output `j` has an offset inside that output's value interval, and is listed at the offset
relative to the output's start. -/
theorem c04_offset_below_value (txid : Txid) (outs : List TxOut) (fls : List Flotsam)
    (x : SatPoint × Flotsam × Bool)
    (hx : x ∈ (assignOutputs txid outs 0 0 (sortByKey (·.offset) fls) []).1) :
    ∃ j o, outs[j]? = some o ∧ x.1.outpoint = ⟨txid, j⟩ ∧ x.1.offset < o.value := by
  obtain ⟨h, _⟩ := assignOutputs_place txid outs 0 0 (sortByKey (·.offset) fls) []
    (sortByKey_sorted _ _) (fun _ _ => Nat.zero_le _)
  rcases h x hx with hacc | ⟨j, o, hj, _, hlo, hhi, hsp, _⟩
  · simp at hacc
  · refine ⟨j, o, hj, by rw [hsp]; simp, ?_⟩
    rw [hsp]; simp only; omega

/-- Non-vacuity: a concrete transaction (one inscribed input, one envelope, an OP_RETURN output,
a fee) is indexed successfully by the model, so the hypotheses `… = .ok ls'` above are
satisfiable, with the expected lists. -/
example : exResult.isOk = true ∧ exCheck = true := ⟨exResult_ok, exCheck_true⟩

example : envelopeInputsWF 2 [0, 0, 1] = true ∧ envelopeInputsWF 2 [1, 0] = false := by decide

/-! ## Every reachable state -/

/-- **C04 on every reachable state.**  For every configuration and every chain satisfying
`InsChain` (distinct non-zero txids, no special-outpoint spend outside a block's first
transaction, every block starts with a coinbase, heights never decrease), the index content after
the chain — if indexing succeeds — satisfies `InsPartitioned`: every inscription ever created
(sequence numbers `0 … n-1`) is listed by exactly one output / the null pseudo-output / the
unbound pseudo-output exactly once, `seq2sp` and the output lists say the same thing, and offsets
on real outputs are below the output's value. -/
theorem c04_reachable (cfg : Cfg) (chain : List Block) (st : State) (evs : List Event)
    (hc : InsLift.InsChain chain) (h : run cfg chain = .ok (st, evs)) :
    InsPartitioned cfg st :=
  (InsLift.run_chainInv cfg chain st evs hc.ok h).1.part

/-- the same for `Reachable` states, the chain being the witness -/
theorem c04_reachable_state (cfg : Cfg) (st : State)
    (h : ∃ chain evs, InsLift.InsChain chain ∧ run cfg chain = .ok (st, evs)) :
    InsPartitioned cfg st := by
  obtain ⟨chain, evs, hc, hr⟩ := h
  exact c04_reachable cfg chain st evs hc hr

/-- **Nothing dropped, nothing invented (count).**  Under `InsChain` and `EnvChain`, the number
of inscriptions after the chain is the number of envelopes of the non-first transactions of the
blocks indexed with the inscription pass on (height ≥ first inscription height, inscription index
enabled): `chainCount cfg chain = Σ_b (if insOn b then blockEnvelopes b else 0)`. -/
theorem c04_reachable_count (cfg : Cfg) (chain : List Block) (st : State) (evs : List Event)
    (hc : InsLift.InsChain chain) (he : InsLift.EnvChain chain) (h : run cfg chain = .ok (st, evs)) :
    st.entries.length = InsLift.chainCount cfg chain :=
  InsLift.run_count cfg chain st evs (InsLift.blockCount_of hc he) h

/-- Besides `InsPartitioned`, reachable states have duplicate-free `utxo` / `seq2sp` keys (the
association lists are finite maps), so "listed by exactly one output" is about the table, not
about a shadowed row. -/
theorem c04_reachable_tables (cfg : Cfg) (chain : List Block) (st : State) (evs : List Event)
    (hc : InsLift.InsChain chain) (h : run cfg chain = .ok (st, evs)) :
    (AL.keys st.utxo).Nodup ∧ (AL.keys st.seq2sp).Nodup :=
  let i := (InsLift.run_chainInv cfg chain st evs hc.ok h).1
  ⟨i.tinv.nodup, i.seqKeys⟩

/-- **Every valid chain**: C16's chain-validity predicate (`Valid.validChain`: inputs spend
existing unspent outputs, coinbase first with the right shape, consecutive heights, distinct
non-zero txids, envelope lists as the parser produces them, …) implies `InsChain` and `EnvChain`;
so after every consensus-valid chain the index (if indexing succeeds) satisfies `InsPartitioned`
and holds exactly one inscription per envelope of a non-coinbase transaction at or above the
first inscription height. -/
theorem c04_valid_chain (cfg : Cfg) (chain : List Block) (st : State) (evs : List Event)
    (hv : Valid.validChain chain = true) (h : run cfg chain = .ok (st, evs)) :
    InsPartitioned cfg st ∧ st.entries.length = InsLift.chainCount cfg chain :=
  let hc := InsLift.insChain_of_validChain chain hv
  ⟨c04_reachable cfg chain st evs hc.1 h, c04_reachable_count cfg chain st evs hc.1 hc.2 h⟩

/-! Non-vacuity of the lift: an inscription revealed in block 1 (output `3:0`), moved in block 2
(to `5:0`) and spent to fees in block 3 (the coinbase pays out less than the subsidy, so it lands
on the null outpoint).  The chain satisfies `InsChain` and `EnvChain`, indexing succeeds, and one
inscription exists at the end. -/

def lcCfg : Cfg :=
  { indexSats := true, indexAddresses := true, indexTransactions := false, indexInscriptions := true, indexRunes := false, firstInscriptionHeight := 1, jubileeHeight := 0, firstRuneHeight := 0 }
def lcCbIn : TxIn := { prev := OutPoint.null, taproot := false, confHeight := none, pushes := [] }
def lcOut (v : Nat) : TxOut := { value := v, opReturn := false, script := [1] }
def lcCb (txid : Txid) (v : Nat) : Tx := { txid := txid, inputs := [lcCbIn], outputs := [lcOut v], envelopes := [], artifact := none, size := 0 }
def lcEnv : Envelope :=
  { input := 0, offset := 0, unrecognizedEven := false, duplicateField := false, incompleteField := false, pushnum := false, stutter := false, hidden := false, gallery := false, pointerField := false, pointer := none, parents := [] }
def lcSpend (txid : Txid) (prev : OutPoint) (envs : List Envelope) (outs : List TxOut) : Tx :=
  { txid := txid, inputs := [{ prev := prev, taproot := true, confHeight := some 0, pushes := [] }], outputs := outs, envelopes := envs, artifact := none, size := 0 }
def lcB0 : Block := { height := 0, time := 0, hash := 100, minimumRune := 0, txs := [lcCb 1 5000000000] }
def lcB1 : Block := { height := 1, time := 0, hash := 101, minimumRune := 0, txs := [lcCb 2 5000000000, lcSpend 3 ⟨1, 0⟩ [lcEnv] [lcOut 5000000000]] }
def lcB2 : Block := { height := 2, time := 0, hash := 102, minimumRune := 0, txs := [lcCb 4 5000000000, lcSpend 5 ⟨3, 0⟩ [] [lcOut 5000000000]] }
def lcB3 : Block := { height := 3, time := 0, hash := 103, minimumRune := 0, txs := [lcCb 6 5000000000, lcSpend 7 ⟨5, 0⟩ [] []] }
def lcChain : List Block := [lcB0, lcB1, lcB2, lcB3]

def lcSeq0 (r : Outcome (State × List Event)) : Option (Nat × Option SatPoint) :=
  match r with
  | .ok (st, _) => some (st.entries.length, AL.get st.seq2sp 0)
  | _ => none

example : InsLift.InsChain lcChain ∧ InsLift.EnvChain lcChain ∧
    lcSeq0 (run lcCfg lcChain) = some (1, some ⟨OutPoint.null, 0⟩) ∧ InsLift.chainCount lcCfg lcChain = 1 := by
  refine ⟨⟨⟨by decide, by decide, by decide⟩, ?_, by decide⟩, ⟨by decide, ?_⟩, by decide, by decide⟩
  · intro b hb
    simp only [lcChain, List.mem_cons, List.not_mem_nil, or_false] at hb
    rcases hb with rfl | rfl | rfl | rfl <;> exact ⟨_, _, rfl, by decide⟩
  · intro b hb
    simp only [lcChain, List.mem_cons, List.not_mem_nil, or_false] at hb
    rcases hb with rfl | rfl | rfl | rfl <;>
      (intro cb hcb; simp only [lcB0, lcB1, lcB2, lcB3, List.head?_cons, Option.some.injEq] at hcb; subst hcb; decide)

/-- the example chain is consensus-valid in the sense of C16's predicate: the hypothesis of
`c04_valid_chain` is satisfiable on a chain that creates, moves and loses an inscription -/
example : Valid.validChain lcChain = true := by decide

end Ord.Index.Insloc
