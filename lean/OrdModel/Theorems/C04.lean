import OrdModel.Proofs.IndexInslocExample
/-!
# C04 — Inscriptions are never duplicated or dropped

Property theorems only.  Model: `OrdModel/Index/{Inscriptions,Block}.lean`; derived definitions
and the executable oracle: `OrdModel/Index/OracleInsloc.lean`; lemmas:
`OrdModel/Proofs/IndexInsloc*.lean`.

What is proved here is the invariant's **oracle form** (the predicate evaluated on the
implementation's dump after every block is exactly `InsPartitioned`) and its **per-transaction
preservation step** for `index_inscriptions` at full strength (any inputs, any envelopes, any
flotsam, coinbase or not).  The lift to every reachable state

    theorem c04_reachable (cfg blocks st) (hvalid : ValidChain cfg blocks)
        (h : run cfg blocks = .ok st) :
        InsPartitioned cfg st ∧ st.entries.length = (blocks.map blockEnvelopes).sum

is NOT proved: it additionally needs (i) `takeInputEntries` moves the spent entries' lists out of
cache/table unchanged, (ii) the cache insertion of the new outputs does not overwrite an entry
(hypothesis: no duplicate txid of an unspent inscribed output, BIP-30), (iii) `flushCache` /
`UtxoEntry.merged` concatenate, and rebuild `seq2sp` consistently, (iv) every block starts with
a coinbase (so the saved flotsam is flushed: `c04_coinbase_flushes_saved`).
-/
namespace Ord.Index.Insloc
open Ord Ord.Index

/-- The predicate the driver evaluates on the implementation's dump rows after every block
(`ix.oracle.inspartition`) is exactly the C04 invariant. -/
theorem c04_oracle_sound (cfg : Cfg) (st : State) :
    insPartitionedB cfg st = true ↔ InsPartitioned cfg st := insPartitionedB_iff cfg st

/-- One call of `update_inscription_location` pushes the inscription's sequence number onto
exactly one list — an output entry of the transaction, the block's null entry or its unbound
entry — and changes no other list; a new inscription gets the next sequence number
`entries.length`, and the entry table grows by exactly that one entry. -/
theorem c04_push_exactly_once (cfg : Cfg) (height time : Nat) (rs : Option (List (Nat × Nat)))
    (fl : Flotsam) (sp : SatPoint) (opr : Bool) (tgt : Target) (ls ls' : LocState)
    (h : updateInscriptionLocation cfg height time rs fl sp opr tgt ls = .ok ls') :
    (located ls'.outs ls'.ctx).Perm (located ls.outs ls.ctx ++ [flSeq ls.st.entries.length fl]) ∧
    ls'.st.entries.length = ls.st.entries.length + (if isNew fl then 1 else 0) ∧
    ls'.st.utxo = ls.st.utxo ∧ ls'.ctx.flotsam = ls.ctx.flotsam :=
  let s := (uil_spec cfg height time rs fl sp opr tgt ls ls' h).step
  ⟨s.located, s.entriesLen, s.utxo, s.flotsam⟩

/-- Per-transaction preservation (`index_inscriptions`, any transaction): the sequence numbers
placed so far, those in the block's saved flotsam and those sitting on the spent inputs are all
present afterwards, each exactly as often as before, on an output entry / the null entry / the
unbound entry / the saved flotsam; the new sequence numbers handed out are exactly
`n, n+1, …` (`n` = number of inscriptions before); and `consumed` counts the envelopes the
scan turned into inscriptions (numbered now or pending in the saved flotsam). -/
theorem c04_transaction_conserves (cfg : Cfg) (height time : Nat) (tx : Tx)
    (inputs : List (TxIn × UtxoEntry)) (rs : Option (List (Nat × Nat))) (ls ls' : LocState)
    (hok : indexInscriptions cfg height time tx inputs rs ls = .ok ls') :
    ∃ consumed remaining,
      tx.envelopes.length = consumed + remaining ∧
      (located ls'.outs ls'.ctx ++ oldSeqs ls'.ctx.flotsam).Perm
        (located ls.outs ls.ctx ++ oldSeqs ls.ctx.flotsam ++ inputSeqs inputs ++
          List.range' ls.st.entries.length (ls'.st.entries.length - ls.st.entries.length)) ∧
      ls'.st.entries.length + newCount ls'.ctx.flotsam =
        ls.st.entries.length + newCount ls.ctx.flotsam + consumed ∧
      (txIsCoinbase tx = true → ls'.ctx.flotsam = []) ∧
      ls'.st.utxo = ls.st.utxo ∧ ls'.outs.length = ls.outs.length :=
  indexInscriptions_conserve cfg height time tx inputs rs ls ls' hok

/-- Counting: in a non-coinbase transaction whose parsed envelopes come in input order and name
existing inputs (`envelopeInputsWF`, checked on every generated transaction by
`ix.oracle.envwf`), every envelope becomes exactly one inscription. -/
theorem c04_transaction_counts_envelopes (cfg : Cfg) (height time : Nat) (tx : Tx)
    (inputs : List (TxIn × UtxoEntry)) (rs : Option (List (Nat × Nat))) (ls ls' : LocState)
    (hnn : ∀ p ∈ inputs, p.1.prev.isNull = false)
    (hwf : envelopeInputsWF inputs.length (tx.envelopes.map (·.input)) = true)
    (hok : indexInscriptions cfg height time tx inputs rs ls = .ok ls') :
    ls'.st.entries.length + newCount ls'.ctx.flotsam =
      ls.st.entries.length + newCount ls.ctx.flotsam + tx.envelopes.length :=
  indexInscriptions_counts_all cfg height time tx inputs rs ls ls' hnn hwf hok

/-- The coinbase leaves nothing saved: every fee-spent inscription of the block is placed. -/
theorem c04_coinbase_flushes_saved (cfg : Cfg) (height time : Nat) (tx : Tx)
    (inputs : List (TxIn × UtxoEntry)) (rs : Option (List (Nat × Nat))) (ls ls' : LocState)
    (hcb : txIsCoinbase tx = true)
    (hok : indexInscriptions cfg height time tx inputs rs ls = .ok ls') :
    ls'.ctx.flotsam = [] := by
  obtain ⟨_, _, _, _, _, h, _⟩ := indexInscriptions_conserve cfg height time tx inputs rs ls ls' hok
  exact h hcb

/-- Offsets on real outputs are below the output's value: whatever the output loop assigns to
output `j` has an offset inside that output's value interval, and is listed at the offset
relative to the output's start. -/
theorem c04_offset_below_value (txid : Txid) (outs : List TxOut) (fls : List Flotsam)
    (x : SatPoint × Flotsam × Bool)
    (hx : x ∈ (assignOutputs txid outs 0 0 (sortByKey (·.offset) fls) []).1) :
    ∃ j o, outs[j]? = some o ∧ x.1.outpoint = ⟨txid, j⟩ ∧ x.1.offset < o.value := by
  obtain ⟨h, _⟩ := assignOutputs_place txid outs 0 0 (sortByKey (·.offset) fls) []
    (sortByKey_sorted _ _) (fun _ _ => Nat.zero_le _)
  rcases h x hx with hacc | ⟨j, o, hj, _, hlo, hhi, hsp, _⟩
  · simp at hacc
  · refine ⟨j, o, hj, by rw [hsp]; simp, ?_⟩
    rw [hsp]; simp only; omega

/-- Non-vacuity: a concrete transaction (one inscribed input, one envelope, an OP_RETURN output,
a fee) is indexed successfully by the model, so the hypotheses `… = .ok ls'` above are
satisfiable, with the expected lists. -/
example : exResult.isOk = true ∧ exCheck = true := ⟨exResult_ok, exCheck_true⟩

example : envelopeInputsWF 2 [0, 0, 1] = true ∧ envelopeInputsWF 2 [1, 0] = false := by decide

end Ord.Index.Insloc
