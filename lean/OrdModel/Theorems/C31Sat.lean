import OrdModel.Proofs.SatParseDegree
/-!
# C31 (sat part) — `Sat::from_str` is total and accepts only what the text denotes

Property theorems only (imported by `Theorems/C31.lean`).  Model: `OrdModel/Num/SatNotation.lean`
(`fromStrWith degreeFixed percentileFixed`; `fromStr` takes the two flags from
`Generated/SatFix.lean`, re-extracted from `sat.rs` on every run); lemmas: `Proofs/SatParse*.lean`.

On the **unchanged** tree both clauses fail:
* totality: `c31sat_degree_panics_unfixed` (u32 overflow in `from_degree`),
* soundness: `c31sat_nan_accepted_unfixed` (`NAN%` is accepted as sat 0).
With the two proposed repairs (`notes/fix-sat-*.diff`) totality holds for every string
(`c31sat_total_fixed`), and soundness is proved for the name, integer, decimal and percentile
notations; soundness of the degree notation is *not* proved here (it is evaluated by the
`satparse.oracle.sound` lines only).
-/
namespace Ord.C31Sat
open Ord Ord.Epoch Ord.SatNotation

/-! ## totality -/

/-- The name, decimal, integer and percentile parsers never panic (unchanged code, every string,
every float outcome). -/
theorem c31sat_total_except_degree (df pf : Bool) (cs : List Char) (fc : FloatClass) (p : String)
    (hd : dispatch cs ≠ .degree) : fromStrWith df pf cs fc ≠ .panic p := by
  unfold fromStrWith
  cases hn : dispatch cs with
  | name => exact fromName_no_panic cs p
  | degree => exact absurd hn hd
  | percentile => exact fromPercentile_no_panic pf cs fc p
  | decimal => exact fromDecimal_no_panic cs p
  | integer => exact fromInteger_no_panic cs p

/-- FAILS on the unchanged tree: a degree string with a large cycle number panics
(`epoch * SUBSIDY_HALVING_INTERVAL` overflows u32 in the dev profile). -/
theorem c31sat_degree_panics_unfixed (pf : Bool) (fc : FloatClass) :
    fromStrWith false pf ['4', '0', '0', '0', '°', '0', '′', '0', '″', '0', '‴'] fc
      = .panic "mul@from_degree:epoch*210000" := by
  rfl

/-- With notes/fix-sat-degree-overflow.diff applied, `Sat::from_str` never panics, for every
string and every float outcome. -/
theorem c31sat_total_fixed (pf : Bool) (cs : List Char) (fc : FloatClass) (p : String) :
    fromStrWith true pf cs fc ≠ .panic p := by
  by_cases hd : dispatch cs = .degree
  · unfold fromStrWith; rw [hd]; exact fromDegree_fixed_no_panic cs p
  · exact c31sat_total_except_degree true pf cs fc p hd

/-! ## soundness: an accepted string denotes the returned sat -/

theorem c31sat_integer_sound (df pf : Bool) (cs : List Char) (fc : FloatClass) (v : Nat)
    (hd : dispatch cs = .integer) (h : fromStrWith df pf cs fc = .ok v) : denotes cs fc v = true := by
  unfold fromStrWith at h; unfold denotes; rw [hd] at h ⊢
  exact fromInteger_sound cs v h

theorem c31sat_decimal_sound (df pf : Bool) (cs : List Char) (fc : FloatClass) (v : Nat)
    (hd : dispatch cs = .decimal) (h : fromStrWith df pf cs fc = .ok v) : denotes cs fc v = true := by
  unfold fromStrWith at h; unfold denotes; rw [hd] at h ⊢
  exact fromDecimal_sound cs v h

theorem c31sat_name_sound (df pf : Bool) (cs : List Char) (fc : FloatClass) (v : Nat)
    (hd : dispatch cs = .name) (h : fromStrWith df pf cs fc = .ok v) : denotes cs fc v = true := by
  unfold fromStrWith at h; unfold denotes; rw [hd] at h ⊢
  have hne : cs ≠ [] := by
    intro hnil; subst hnil; revert hd; decide
  exact fromName_sound cs v hne h

/-- FAILS on the unchanged tree: `NAN%` is accepted and returns sat 0, which it does not denote. -/
theorem c31sat_nan_accepted_unfixed (df : Bool) :
    fromStrWith df false ['N', 'A', 'N', '%'] .nan = .ok 0 ∧ denotes ['N', 'A', 'N', '%'] .nan 0 = false := by
  cases df <;> decide

/-- With notes/fix-sat-percentile-nan.diff applied, an accepted percentage is finite,
non-negative and in range, and the result is the sat the real f64 computation produced
(the arithmetic itself is outside Lean: `fc` is supplied by the harness). -/
theorem c31sat_percentile_sound_fixed (df : Bool) (cs : List Char) (fc : FloatClass) (v : Nat)
    (hd : dispatch cs = .percentile) (h : fromStrWith df true cs fc = .ok v) : denotes cs fc v = true := by
  unfold fromStrWith at h; unfold denotes; rw [hd] at h ⊢
  exact fromPercentile_sound_fixed cs fc v h

/-! Non-vacuity -/
example : fromStrWith true true ['4', '0', '0', '0', '°', '0', '′', '0', '″', '0', '‴'] .unknown = .err "BlockOffset" := by
  decide
example : fromStrWith false true ['N', 'A', 'N', '%'] .nan = .err "Percentile" := by decide
example : dispatch ['1', '.', '5'] = .decimal ∧ fromStrWith false false ['1', '.', '5'] .unknown = .ok 5000000005 := by
  decide

end Ord.C31Sat
