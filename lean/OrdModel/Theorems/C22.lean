import OrdModel.Proofs.WalletRunesSplitTx
import OrdModel.Generated.FundCallOrder
/-!
# C22 — Wallet rune sends, burns and splits move exactly the requested amounts

Model of the transaction each command builds: `OrdModel/Wallet/RuneTx.lean`
(`create_unsigned_send_or_burn_runes_transaction`, `Split::build_transaction`).  The protocol's
allocation is `Ord.Index.Spec.allocate` (OrdModel/Index/RuneSpec.lean, written from
docs/src/runes/specification.md; C09 proves the indexer computes exactly it).

Every theorem evaluates `Ord.Index.Spec.allocate` on the FUNDED transaction: outputs `tx.opret ++ extra`
(`extra` = whatever the node appends at `change_position = len`, any number of outputs of any
kind) and unallocated units `inputOf ids tx.inputs q + added q` for every rune id `q`, where
`added` = runes on the inputs the node adds, all zero by C23 (`hadded`).  `ids` is the server's
name → id map (`GoodIds`: one-to-one, never `0:0`).  Quantified over every wallet inventory
(`inv`: any number of outputs, any runes per output, inscribed or not), every rune, every amount.
-/
namespace Ord.Wallet.C22
open Ord Ord.Wallet.RuneTx
open Ord.Index (RuneId)

/-- **send**: for a non-zero request, the recipient output (`.dest 0`) receives exactly `amount`
of the rune and nothing of any other; every other unit on the spent inputs goes to the wallet's
change output (output 1) — or there is no such unit and no change output; nothing is burned;
no other output receives anything. -/
theorem c22_send (zf : Bool) (inv : List WOut) (ids : Nat → RuneId) (hg : GoodIds ids)
    (r amount postage : Nat) (tx : Tx) (hpos : 0 < amount)
    (hok : sendOrBurn zf inv ids r amount true postage = .ok tx)
    (extra : List Bool) (added : RuneId → Nat) (hadded : ∀ q, added q = 0) (q : RuneId) :
    (if q = ids r then amount else 0) ≤ inputOf ids tx.inputs q + added q ∧
    (Ord.Index.Spec.allocate (tx.opret ++ extra) tx.msg none q (inputOf ids tx.inputs q + added q)).burned = 0 ∧
    ((tx.outs = [.stone, .change postage, .dest 0 postage] ∧
      (Ord.Index.Spec.allocate (tx.opret ++ extra) tx.msg none q (inputOf ids tx.inputs q + added q)).out 2
        = (if q = ids r then amount else 0) ∧
      (Ord.Index.Spec.allocate (tx.opret ++ extra) tx.msg none q (inputOf ids tx.inputs q + added q)).out 1
        = inputOf ids tx.inputs q + added q - (if q = ids r then amount else 0) ∧
      ∀ v, v ≠ 1 → v ≠ 2 →
        (Ord.Index.Spec.allocate (tx.opret ++ extra) tx.msg none q (inputOf ids tx.inputs q + added q)).out v = 0) ∨
     (tx.outs = [.dest 0 postage] ∧
      (Ord.Index.Spec.allocate (tx.opret ++ extra) tx.msg none q (inputOf ids tx.inputs q + added q)).out 0
        = (if q = ids r then amount else 0) ∧
      inputOf ids tx.inputs q + added q = (if q = ids r then amount else 0) ∧
      ∀ v, v ≠ 0 →
        (Ord.Index.Spec.allocate (tx.opret ++ extra) tx.msg none q (inputOf ids tx.inputs q + added q)).out v = 0)) :=
  send_alloc zf inv ids hg r amount postage tx hpos hok extra added hadded q

/-- a name → id map satisfying `GoodIds` -/
def exIds (n : Nat) : RuneId := ⟨n + 1, 0⟩

theorem exIds_good : GoodIds exIds :=
  ⟨fun a b h => by simp [exIds] at h; exact h, fun a h => by simp [exIds] at h⟩

/-- non-vacuity: two outputs holding rune 7 (one together with rune 9), request 1200 of 1500 -/
example : ∃ tx, sendOrBurn false [⟨[(7, 1000)], false⟩, ⟨[(5, 1)], true⟩, ⟨[(7, 500), (9, 3)], false⟩] exIds 7 1200 true 10000 = .ok tx
    ∧ tx.inputs.map (·.1) = [0, 2] ∧ tx.outs = [.stone, .change 10000, .dest 0 10000] :=
  ⟨_, rfl, by decide, by decide⟩

/-- **burn**: for a non-zero request exactly `amount` of the rune is burned and nothing of any
other rune; every other unit on the spent inputs goes to the wallet's change output (output 1) — or
there is none and no change output; no other output receives anything. -/
theorem c22_burn (zf : Bool) (inv : List WOut) (ids : Nat → RuneId) (hg : GoodIds ids)
    (r amount postage : Nat) (tx : Tx) (hpos : 0 < amount)
    (hok : sendOrBurn zf inv ids r amount false postage = .ok tx)
    (extra : List Bool) (added : RuneId → Nat) (hadded : ∀ q, added q = 0) (q : RuneId) :
    (if q = ids r then amount else 0) ≤ inputOf ids tx.inputs q + added q ∧
    (Ord.Index.Spec.allocate (tx.opret ++ extra) tx.msg none q (inputOf ids tx.inputs q + added q)).burned
      = (if q = ids r then amount else 0) ∧
    ((tx.outs = [.stone, .change postage] ∧
      (Ord.Index.Spec.allocate (tx.opret ++ extra) tx.msg none q (inputOf ids tx.inputs q + added q)).out 1
        = inputOf ids tx.inputs q + added q - (if q = ids r then amount else 0) ∧
      ∀ v, v ≠ 1 →
        (Ord.Index.Spec.allocate (tx.opret ++ extra) tx.msg none q (inputOf ids tx.inputs q + added q)).out v = 0) ∨
     (tx.outs = [.stone] ∧
      inputOf ids tx.inputs q + added q = (if q = ids r then amount else 0) ∧
      ∀ v, (Ord.Index.Spec.allocate (tx.opret ++ extra) tx.msg none q (inputOf ids tx.inputs q + added q)).out v = 0)) :=
  burn_alloc zf inv ids hg r amount postage tx hpos hok extra added hadded q

example : ∃ tx, sendOrBurn false [⟨[(7, 1000)], false⟩] exIds 7 1000 false 10000 = .ok tx ∧ tx.outs = [.stone] :=
  ⟨_, rfl, by decide⟩

/-- The inputs of the transaction are wallet outputs that hold runes and no inscription, with the
balances the wallet knows for them. -/
theorem c22_inputs_from_inventory (zf : Bool) (inv : List WOut) (ids : Nat → RuneId)
    (r amount postage : Nat) (dest : Bool) (tx : Tx) (hpos : 0 < amount)
    (hok : sendOrBurn zf inv ids r amount dest postage = .ok tx) :
    tx.inputs = selectSend r amount (runicBalances inv) [] :=
  (sendOrBurn_ok hpos hok).2.1

/-- **The zero clause fails on the unchanged code** (`zeroFixed = false`): `ord wallet send <addr>
0:RUNE` is not rejected; it builds an edict with amount 0, which the protocol reads as "all
remaining": the recipient receives the whole balance (1000 units) of the first output holding the
rune, not zero. -/
theorem c22_zero_means_all_fails :
    ∃ tx, sendOrBurn false [⟨[(7, 1000)], false⟩, ⟨[(7, 500)], false⟩] exIds 7 0 true 10000 = .ok tx ∧
      tx.outs = [.stone, .change 10000, .dest 0 10000] ∧
      (Ord.Index.Spec.allocate (tx.opret ++ [false]) tx.msg none (exIds 7) (inputOf exIds tx.inputs (exIds 7))).out 2 = 1000 :=
  ⟨_, rfl, by decide, by decide⟩

/-- … and `ord wallet burn 0:RUNE` burns that whole balance. -/
theorem c22_zero_burns_all_fails :
    ∃ tx, sendOrBurn false [⟨[(7, 1000)], false⟩, ⟨[(7, 500)], false⟩] exIds 7 0 false 10000 = .ok tx ∧
      (Ord.Index.Spec.allocate (tx.opret ++ [false]) tx.msg none (exIds 7) (inputOf exIds tx.inputs (exIds 7))).burned = 1000 :=
  ⟨_, rfl, by decide⟩

/-- With the repair (`ensure!(amount > 0, …)`, notes/fix-C22-zero-amount.diff) a zero request is
rejected for every inventory, rune and destination. -/
theorem c22_zero_rejected_fixed (inv : List WOut) (ids : Nat → RuneId) (r postage : Nat) (dest : Bool) :
    sendOrBurn true inv ids r 0 dest postage = .err "zero-amount" := by
  simp [sendOrBurn]

/-- The zero clause for the code as it is now: holds as soon as the source contains the repair
(`Generated.zeroAmountFixed`, re-extracted from src/wallet.rs on every run). -/
theorem c22_zero_rejected_partial (hfix : Generated.zeroAmountFixed = true)
    (inv : List WOut) (ids : Nat → RuneId) (r postage : Nat) (dest : Bool) :
    sendOrBurn Generated.zeroAmountFixed inv ids r 0 dest postage = .err "zero-amount" := by
  rw [hfix]; exact c22_zero_rejected_fixed inv ids r postage dest

/-- **split**: for every inventory and every split file, when `split` yields a transaction its
outputs are `[runestone] ++ [wallet change]? ++ [one output per split-file entry, in order]`
(`base` = index of the first of those) and, for every rune id `q`: the `j`-th split output
receives exactly what the file asks for it (`reqAt`, 0 for a rune it does not list), the OP_RETURN
receives nothing, nothing is burned, and everything else on the spent inputs goes to the change
output (output 1) — or there is nothing else and no change output. -/
theorem c22_split (inv : List WOut) (ids : Nat → RuneId) (hg : GoodIds ids) (noLimit : Bool)
    (postage : Option Nat) (changeDust : Nat) (outputs : List SplitOut) (tx : Tx)
    (hok : split inv ids noLimit postage changeDust outputs = .ok tx)
    (extra : List Bool) (added : RuneId → Nat) (hadded : ∀ q, added q = 0) (q : RuneId) :
    ∃ (base : Nat) (dests : List OutK),
      (base = 1 ∨ base = 2) ∧
      tx.outs = (if base = 2 then [.stone, .change (postage.getD TARGET_POSTAGE)] else [.stone]) ++ dests ∧
      (∀ (j : Nat) (o : SplitOut), outputs[j]? = some o → dests[j]? = some (OutK.dest j (o.value.getD o.dust))) ∧
      needOf ids outputs q ≤ inputOf ids tx.inputs q + added q ∧
      (Ord.Index.Spec.allocate (tx.opret ++ extra) tx.msg none q (inputOf ids tx.inputs q + added q)).burned = 0 ∧
      (∀ j, (Ord.Index.Spec.allocate (tx.opret ++ extra) tx.msg none q (inputOf ids tx.inputs q + added q)).out (base + j)
          = reqAt ids outputs j q) ∧
      (Ord.Index.Spec.allocate (tx.opret ++ extra) tx.msg none q (inputOf ids tx.inputs q + added q)).out 0 = 0 ∧
      (base = 2 → (Ord.Index.Spec.allocate (tx.opret ++ extra) tx.msg none q (inputOf ids tx.inputs q + added q)).out 1
          = inputOf ids tx.inputs q + added q - needOf ids outputs q) ∧
      (base = 1 → inputOf ids tx.inputs q + added q = needOf ids outputs q) :=
  split_alloc inv ids hg noLimit postage changeDust outputs tx hok extra added hadded q

/-- non-vacuity: two runes on three outputs, a file with two outputs; rune 5 is etched before
rune 7 here (`exIds` is monotone), so the edict list is sorted and the assertion passes -/
example : ∃ tx, split [⟨[(5, 40), (7, 1000)], false⟩, ⟨[(7, 500)], false⟩, ⟨[(5, 9)], true⟩] exIds true none 330
      [⟨[(5, 10)], none, 294⟩, ⟨[(7, 1200)], some 1000, 330⟩] = .ok tx
    ∧ tx.inputs.map (·.1) = [0, 1]
    ∧ tx.outs = [.stone, .change 10000, .dest 0 294, .dest 1 1000] :=
  ⟨_, rfl, by decide, by decide⟩

/-- **split rejects zero**: a split file with a zero amount for any rune of any output never
yields a transaction (error `ZeroValue`, or an earlier error/panic). -/
theorem c22_split_zero_rejected (inv : List WOut) (ids : Nat → RuneId) (noLimit : Bool) (postage : Option Nat)
    (changeDust : Nat) (outputs : List SplitOut) (o : SplitOut) (p : Nat × Nat)
    (ho : o ∈ outputs) (hp : p ∈ o.runes) (hz : p.2 = 0) (tx : Tx) :
    split inv ids noLimit postage changeDust outputs ≠ .ok tx :=
  split_zero_rejected inv ids noLimit postage changeDust outputs o p ho hp hz tx

example : split [⟨[(7, 1000)], false⟩] exIds false none 330 [⟨[(7, 0)], none, 294⟩] = .err "zero-value" := rfl

#print axioms c22_send
#print axioms c22_burn
#print axioms c22_inputs_from_inventory
#print axioms c22_zero_means_all_fails
#print axioms c22_zero_burns_all_fails
#print axioms c22_zero_rejected_fixed
#print axioms c22_zero_rejected_partial
#print axioms c22_split
#print axioms c22_split_zero_rejected

end Ord.Wallet.C22
