import OrdModel.Proofs.IndexInsnumUloc
import OrdModel.Index.Run
/-
C06 — reinscriptions are always flagged; clean first inscriptions are blessed.
Model: OrdModel/Index/Inscriptions.lean (`curseOf`, `scanOld`, `scanNew`, `scanInputs`,
`updateInscriptionLocation`) ↔ src/index/updater/inscription_updater.rs.
(a) is FALSE of the unchanged code: `c06a_fails` (the DESIGN §7.1 witness, evaluated on the model;
the same chain is replayed on the real indexer at the start of every check run).
-/
namespace Ord.Index.C06
open Ord.Index Ord.Index.Insnum Ord.Outcome

/-- (a), full statement: of two inscriptions on the same sat the later one is charmed -/
def C06a (st : State) : Prop :=
  ∀ (i j : Nat) (ei ej : InsEntry) (s : Nat), i < j → st.entries[i]? = some ei → st.entries[j]? = some ej →
    ei.sat = some s → ej.sat = some s → hasCharm ej.charms charmReinscription = true

/-! regtest, sat index on: inscribe on coinbase(2):0 → t1 (block 3); block 4 has a transaction with
inputs `[coinbase(1):0 carrying an envelope with pointer 5_000_000_000, t1:0]`. -/
def wCfg : Cfg := ⟨true, false, false, true, false, 0, 110, 0⟩
def wCoinbase (h : Nat) : Tx := ⟨100 + h, [⟨OutPoint.null, false, none, []⟩], [⟨5000000000, false, []⟩], [], none, 0⟩
def wEnv (ptr : Option Nat) : Envelope := ⟨0, 0, false, false, false, false, false, false, false, ptr.isSome, ptr, []⟩
def wT1 : Tx := ⟨11, [⟨⟨102, 0⟩, true, some 2, []⟩], [⟨5000000000, false, []⟩], [wEnv none], none, 0⟩
def wT2 : Tx :=
  ⟨12, [⟨⟨101, 0⟩, true, some 1, []⟩, ⟨⟨11, 0⟩, true, some 3, []⟩], [⟨10000000000, false, []⟩], [wEnv (some 5000000000)], none, 0⟩
def wChain : List Block :=
  [⟨0, 0, 1000, 0, [wCoinbase 0]⟩, ⟨1, 1, 1001, 0, [wCoinbase 1]⟩, ⟨2, 2, 1002, 0, [wCoinbase 2]⟩,
   ⟨3, 3, 1003, 0, [wCoinbase 3, wT1]⟩, ⟨4, 4, 1004, 0, [wCoinbase 4, wT2]⟩]

def wCheck : Bool :=
  match run wCfg wChain with
  | .ok (st, _) =>
    (match st.entries[0]?, st.entries[1]? with
     | some a, some b => a.sat == some 10000000000 && b.sat == some 10000000000 && !hasCharm b.charms charmReinscription
     | _, _ => false)
  | _ => false

theorem wCheck_true : wCheck = true := by decide +kernel

/-- (a) fails: a reachable state with two inscriptions on sat 10000000000, the second unflagged -/
theorem c06a_fails : ∃ (cfg : Cfg) (st : State), Reachable cfg st ∧ ¬ C06a st := by
  have h := wCheck_true
  unfold wCheck at h
  split at h
  · rename_i st evs hrun
    split at h
    · rename_i a b ha hb
      simp only [Bool.and_eq_true, beq_iff_eq, Bool.not_eq_true'] at h
      obtain ⟨⟨h1, h2⟩, h3⟩ := h
      refine ⟨wCfg, st, ⟨wChain, evs, hrun⟩, fun hall => ?_⟩
      have := hall 0 1 a b 10000000000 (by omega) ha hb h1 h2
      rw [h3] at this
      cases this
    · cases h
  · cases h

/-- (a), the part that holds: in the list of inscriptions a transaction moves or creates
(`floating`: inputs in order, within an input the inscriptions already on it before its new
envelopes, envelopes in order), a new inscription landing on the offset of an EARLIER element
carries the reinscription flag.  I.e. the prior inscription reaches the transaction through the
same or an earlier input, or is an earlier envelope of the same transaction. -/
theorem c06a_partial (cfg : Cfg) (st : State) (jub : Bool) (txid : Txid) (height totalOut : Nat)
    (inputs : List (TxIn × UtxoEntry)) (envs : List Envelope) (sc : ScanState)
    (h : scanInputs cfg st jub txid height totalOut inputs 0 { envelopes := envs } = .ok sc)
    (i j : Nat) (fi fj : Flotsam) (hij : i < j) (hi : sc.floating[i]? = some fi) (hj : sc.floating[j]? = some fj)
    (hnew : isNew fj = true) (hoff : fi.offset = fj.offset) : reinscriptionFlag fj = true := by
  have := (scanInputs_inv cfg st jub txid height totalOut inputs 0 _ sc h
    (by intro f hf; simp at hf) (by intro i j fi fj _ hi; simp at hi)).2
  exact this i j fi fj hij hi hj hnew hoff

/-- the flag is what becomes the charm: the entry created for a new inscription carries the
Reinscription / Cursed / Vindicated charms exactly when its flotsam carries the flags -/
theorem c06_flag_is_charm (c r : Bool) (sat : Option Nat) (opReturn isNull unbound v : Bool) :
    hasCharm (newCharms c r sat opReturn isNull unbound v) charmReinscription = r
    ∧ hasCharm (newCharms c r sat opReturn isNull unbound v) charmCursed = c
    ∧ hasCharm (newCharms c r sat opReturn isNull unbound v) charmVindicated = v :=
  ⟨newCharms_reinscription _ _ _ _ _ _ _, newCharms_cursed _ _ _ _ _ _ _, newCharms_vindicated _ _ _ _ _ _ _⟩

/-- (b), curse chain: first envelope of the first input, no flaw, nothing inscribed at its offset
⇒ no curse (hence neither cursed nor vindicated, whatever the jubilee) -/
theorem c06b_not_cursed (st : State) (env : Envelope) (inscribed : List (Nat × InscriptionId × Nat)) (offset : Nat)
    (h1 : env.unrecognizedEven = false) (h2 : env.duplicateField = false) (h3 : env.incompleteField = false)
    (h4 : env.input = 0) (h5 : env.offset = 0) (h6 : env.pointerField = false) (h7 : env.pushnum = false)
    (h8 : env.stutter = false) (h9 : AL.get inscribed offset = none) :
    curseOf st env inscribed offset = .ok none :=
  curseOf_clean st env inscribed offset h1 h2 h3 h4 h5 h6 h7 h8 h9

/-- (b), scan: such an envelope (with no pointer) in a non-empty input becomes a flotsam that is
not cursed, not vindicated, not a reinscription and not unbound -/
theorem c06b_flotsam (st : State) (jub : Bool) (txid : Txid) (offset iv totalOut : Nat) (env : Envelope)
    (rest : List Envelope) (sc : ScanState)
    (h1 : env.unrecognizedEven = false) (h2 : env.duplicateField = false) (h3 : env.incompleteField = false)
    (h4 : env.input = 0) (h5 : env.offset = 0) (h6 : env.pointerField = false) (h7 : env.pushnum = false)
    (h8 : env.stutter = false) (h9 : AL.get sc.inscribed offset = none) (hp : env.pointer = none) (hv : iv ≠ 0) :
    scanNew st jub txid 0 offset iv totalOut (env :: rest) sc =
      scanNew st jub txid 0 offset iv totalOut rest
        { sc with floating := sc.floating ++ [⟨⟨txid, sc.idCounter⟩, offset,
                    .new false 0 env.gallery env.hidden env.parents false false false⟩],
                  idCounter := sc.idCounter + 1,
                  inscribed := bumpOffset sc.inscribed offset ⟨txid, sc.idCounter⟩ } := by
  have hc := curseOf_clean st env sc.inscribed offset h1 h2 h3 h4 h5 h6 h7 h8 h9
  have hv' : (iv == 0) = false := by simpa using hv
  simp [scanNew, h4, hc, hp, AL.contains, h9, h1, hv']

/-- (b), entry: the entry `update_inscription_location` creates for such a flotsam has a
non-negative number (the next blessed one) and none of the Cursed / Vindicated / Reinscription
charms; later updates only ever add the Burned charm (`hasCharm_setBurned`). -/
theorem c06b_entry {height time : Nat} {ir : Option (List (Nat × Nat))} {fl : Flotsam} {sp : SatPoint} {opr : Bool}
    {ls : LocState} {fee : Nat} {g hid : Bool} {ps : List InscriptionId} {u : Bool}
    {ub : Bool} {seq : Nat} {st : State} {ctx : InsCtx}
    (h : newStep height time ir fl sp opr ls false fee g hid ps false u false = .ok (ub, seq, st, ctx)) :
    ∃ e : InsEntry, st.entries = ls.st.entries ++ [e] ∧ e.id = fl.id ∧ e.number = (ls.st.blessed : Int) ∧ 0 ≤ e.number ∧
      hasCharm e.charms charmCursed = false ∧ hasCharm e.charms charmVindicated = false ∧
      hasCharm e.charms charmReinscription = false :=
  newStep_clean h

/-! non-vacuity -/
example : curseOf {} (wEnv none) [] 0 = .ok none :=
  c06b_not_cursed {} (wEnv none) [] 0 rfl rfl rfl rfl rfl rfl rfl rfl rfl
example : curseOf {} (wEnv (some 5)) [] 0 = .ok (some .pointer) := by decide

end Ord.Index.C06
