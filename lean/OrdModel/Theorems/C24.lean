import OrdModel.Proofs.OfferOracle
/-!
# C24 — accepting an offer only signs the advertised trade

Property theorems only.  Model: `OrdModel/Wallet/Offer.lean` (`Accept::run` of
`src/subcommand/wallet/offer/accept.rs`, check by check, plus `WalletConstructor::build`'s
`utxos = listunspent ∪ locked`).  Helper lemmas: `OrdModel/Proofs/Offer.lean`,
`OrdModel/Proofs/OfferOracle.lean`.  The conclusion `Advertised` is the structure defined in
`Proofs/Offer.lean`:

* `sellerIsWallet`, `onlyOne`   — exactly one PSBT input (index `seller`) is a key of
  `wallet.utxos()`, i.e. of `listunspent ∪ locked`;
* `holds`        — the wallet's `output_info` for it lists exactly `[named]` and no runes
  (`some 0`; or `none` when the server has no rune index and the wallet can see none — the
  code skips the check then, see `c24_no_runes_with_rune_index` and notes/C24.md);
* `balance`      — `simulaterawtransaction`'s balance change equals the named amount;
* `othersSigned` — every other input has `final_script_sig` xor `final_script_witness`;
* `sellerUnsigned` — the seller's input has neither.

Everything is quantified over all views, PSBT input lists (any length), amounts and node
answers.
-/
namespace Ord.Offer

variable (dry : Bool) (v : View) (named : InsId) (amount : Nat) (sim : Option Int)
  (ins : List PIn) (fin : Fin) (send : Bool)

/-- Whenever all pre-signing checks pass (the outcome is anything but a rejection: a dry-run
approval, a broadcast, or a failure after the wallet had been asked to sign), the offer is the
advertised trade. -/
theorem c24_approved_only_advertised
    (h : (accept dry v named amount sim ins fin send).approved = true) :
    ∃ seller, Advertised v named amount sim ins seller := by
  unfold accept at h
  split at h
  · simp [Result.approved] at h
  · rename_i seller sigs hpre
    exact ⟨seller, (pre_ok hpre).1⟩

/-- **C24, clause 1**: the wallet is asked to sign (`walletprocesspsbt(sign = true)`) only for
the advertised trade. -/
theorem c24_signs_only_advertised
    (h : (accept dry v named amount sim ins fin send).signs = true) :
    ∃ seller, Advertised v named amount sim ins seller := by
  apply c24_approved_only_advertised dry v named amount sim ins fin send
  cases hr : accept dry v named amount sim ins fin send <;> simp_all [Result.signs, Result.approved]

/-- A dry run answers "ok" only for the advertised trade. -/
theorem c24_dry_ok_only_advertised
    (h : accept dry v named amount sim ins fin send = .dryOk) :
    ∃ seller, Advertised v named amount sim ins seller := by
  apply c24_approved_only_advertised dry v named amount sim ins fin send
  rw [h]; rfl

/-- With a rune index on the server (every `output_info` entry reports runes), "no runes" is
literal: the seller's output holds none. -/
theorem c24_no_runes_with_rune_index
    (hidx : ∀ op info, lookupInfo v.info op = some info → info.runes ≠ none)
    (h : (accept dry v named amount sim ins fin send).approved = true) :
    ∃ (seller : Nat) (i : PIn) (info : OutInfo), ins[seller]? = some i ∧ lookupInfo v.info i.outpoint = some info ∧
      info.runes = some 0 ∧ info.inscriptions = some [named] := by
  obtain ⟨seller, adv⟩ := c24_approved_only_advertised dry v named amount sim ins fin send h
  obtain ⟨i, info, hi, hinfo, hins, hr⟩ := adv.holds
  refine ⟨seller, i, info, hi, hinfo, ?_, hins⟩
  rcases hr with hr | hr
  · exact hr
  · exact absurd hr (hidx _ _ hinfo)

/-- Without a rune index the rune check is skipped: an output the wallet cannot see runes on
(`runes = none`) is approved whatever it holds on chain.  (Witness for the limitation recorded
in notes/C24.md; not a clause of the property.) -/
theorem c24_runes_unchecked_without_rune_index :
    accept true
      { unspent := ["a:0"], locked := [], info := [("a:0", { inscriptions := some ["i0"], runes := none })] }
      "i0" 5 (some 5) [{ outpoint := "a:0" }, { outpoint := "b:0", finalScriptWitness := some [[1]] }]
      .noHex true = .dryOk := by decide

/-- **C24, clause 2**: a broadcast happens only if, additionally, the node's finalized
transaction has as many inputs as the PSBT, every non-seller input carries exactly the final
signature the PSBT carried, the seller's input now carries one, and it was not a dry run. -/
theorem c24_broadcast_only_unchanged
    (h : accept dry v named amount sim ins fin send = .broadcast) :
    dry = false ∧ send = true ∧ ∃ seller tins,
      Advertised v named amount sim ins seller ∧
      fin = .tx tins ∧ tins.length = ins.length ∧
      (∀ (k : Nat) (i : PIn) (t : TIn), ins[k]? = some i → tins[k]? = some t → k ≠ seller →
        ∃ s, psbtSig i = .ok (some s) ∧ txSig t = .ok (some s)) ∧
      (∃ t s, tins[seller]? = some t ∧ txSig t = .ok (some s)) := by
  unfold accept at h
  split at h
  · simp at h
  · rename_i seller sigs hpre
    obtain ⟨adv, hsigs, _⟩ := pre_ok hpre
    split at h
    · simp at h
    · rename_i hdry
      obtain ⟨hsend, tins, new, hfin, hlen, hnew, hafter⟩ := post_broadcast h
      obtain ⟨hslen, hsall⟩ := psbtSigs_spec ins sigs hsigs
      obtain ⟨hnlen, hnall⟩ := txSigs_spec tins new hnew
      have hspec := checkAfter_spec seller sigs new 0 hafter
      refine ⟨by simpa using hdry, hsend, seller, tins, adv, hfin, hlen, ?_, ?_⟩
      · intro k i t hi ht hne
        obtain ⟨o, ho1, ho2⟩ := hsall k i hi
        obtain ⟨n, hn1, hn2⟩ := hnall k t ht
        have heq := (hspec k o n ho1 hn1).2 (by omega)
        obtain ⟨s, hs⟩ := adv.othersSigned k i hi hne
        rw [hs] at ho2
        have : o = some s := by injection ho2 with h'; exact h'.symm
        subst this
        exact ⟨s, hs, by rw [hn2, ← heq]⟩
      · obtain ⟨i, hi, _⟩ := adv.sellerIsWallet
        have hlt : seller < tins.length := by
          rw [hlen]
          exact (List.getElem?_eq_some_iff.1 hi).1
        obtain ⟨n, hn1, hn2⟩ := hnall seller tins[seller] (List.getElem?_eq_getElem hlt)
        obtain ⟨o, ho1, _⟩ := hsall seller i hi
        have := (hspec seller o n ho1 hn1).1 (by omega)
        cases n with
        | none => simp at this
        | some s => exact ⟨tins[seller], s, List.getElem?_eq_getElem hlt, hn2⟩

/-- `--dry-run` never asks the wallet to sign and never broadcasts. -/
theorem c24_dry_run_never_signs :
    (accept true v named amount sim ins fin send).signs = false := by
  unfold accept
  split <;> simp [Result.signs]

/-- Locked wallet outputs count as wallet outputs: an offer that spends an unlocked wallet
output and, at another position, a locked one is rejected — whatever else it contains, whatever
the amounts and signatures (DESIGN §6 C24 "X": `wallet.utxos()` includes `locked_utxos`). -/
theorem c24_locked_output_counts (j k : Nat) (a b : PIn)
    (ha : ins[j]? = some a) (hb : ins[k]? = some b) (hjk : j ≠ k)
    (hau : a.outpoint ∈ v.unspent ∨ a.outpoint ∈ v.locked) (hbl : b.outpoint ∈ v.locked) :
    (accept dry v named amount sim ins fin send).approved = false := by
  cases hr : (accept dry v named amount sim ins fin send).approved with
  | false => rfl
  | true =>
    obtain ⟨seller, adv⟩ := c24_approved_only_advertised dry v named amount sim ins fin send hr
    have h1 := adv.onlyOne j a ha (by
      simp only [View.utxos, List.mem_append]
      exact hau)
    have h2 := adv.onlyOne k b hb (by
      simp only [View.utxos, List.mem_append]
      exact Or.inr hbl)
    omega

/-- The gate is not vacuous: every advertised trade (decidable form, `advertised`) with an
amount in `i64` range is approved by a dry run. -/
theorem c24_advertised_is_approved
    (h : advertised v named amount sim ins = true) (hamt : amount ≤ i64Max) :
    accept true v named amount sim ins fin send = .dryOk :=
  accept_of_advertised v named amount sim ins fin send h hamt

/-- The executable predicate evaluated by the oracle lines (`offer.oracle.sign`) implies the
proposition the theorems conclude. -/
theorem c24_oracle_sound (h : advertised v named amount sim ins = true) :
    ∃ seller, Advertised v named amount sim ins seller :=
  advertised_sound v named amount sim ins h

/-! Non-vacuity: a two-input offer that is approved, signed and broadcast; the same offer with
a locked wallet output added is rejected; with the buyer's signature replaced by the node it
is stopped after signing. -/

def exView : View :=
  { unspent := ["a:0", "c:0"], locked := ["l:1"],
    info := [("a:0", { inscriptions := some ["i0"], runes := some 0 }),
             ("c:0", { inscriptions := some [], runes := some 0 }),
             ("l:1", { inscriptions := some [], runes := some 0 })] }

def exIns : List PIn :=
  [{ outpoint := "b:0", finalScriptWitness := some [[7, 7]] }, { outpoint := "a:0" }]

def exFin : Fin :=
  .tx [{ outpoint := "b:0", witness := [[7, 7]] }, { outpoint := "a:0", witness := [[9]] }]

example : accept false exView "i0" 1000 (some 1000) exIns exFin true = .broadcast := by decide
example : accept true exView "i0" 1000 (some 1000) exIns exFin true = .dryOk := by decide
example : accept false exView "i0" 1000 (some 999) exIns exFin true = .rejected .balance := by decide
example : accept false exView "i0" 1000 (some 1000) (exIns ++ [{ outpoint := "l:1" }]) exFin true
    = .rejected (.tooManyWalletInputs 2) := by decide
example : accept false exView "i0" 1000 (some 1000) exIns
    (.tx [{ outpoint := "b:0", witness := [[8]] }, { outpoint := "a:0", witness := [[9]] }]) true
    = .signedRejected (.buyerSigChanged 0) := by decide
example : advertised exView "i0" 1000 (some 1000) exIns = true := by decide

end Ord.Offer
