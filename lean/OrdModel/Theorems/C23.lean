import OrdModel.Proofs.WalletRunesLock
/-!
# C23 — Node-funded wallet transactions never spend inscribed or runic outputs

Model: `OrdModel/Wallet/Lock.lean` (`Wallet::lock_non_cardinal_outputs`); the table of functions
that call `fund_raw_transaction` is re-extracted from /repo/src on every run
(`OrdModel/Generated/FundCallOrder.lean`).  Node assumption (trusted base): `fundrawtransaction`
adds only wallet outputs that are not locked (Bitcoin Core's coin selection skips locked coins;
the mock node does the same).
-/
namespace Ord.Wallet.C23
open Ord.Wallet.Lock Ord.Wallet.Generated

/-- **Every inscribed or runic wallet output is locked after the call** — whatever the wallet
state: any sets of outputs, inscriptions, runic outputs and previously locked outputs. -/
theorem c23_lock_covers (w : WState) (o : Nat) (ho : o ∈ w.utxos) (hn : nonCardinal w o = true) :
    o ∈ lockedAfter w := by
  rw [mem_lockedAfter, mem_toLock]
  by_cases hl : o ∈ w.locked
  · exact Or.inl hl
  · rcases nonCardinal_iff.mp hn with hi | hr
    · exact Or.inr ⟨Or.inl ⟨ho, hi⟩, hl⟩
    · exact Or.inr ⟨Or.inr hr, hl⟩

example : nonCardinal ⟨[0, 1, 2, 3], [1], [2, 3], [3]⟩ 2 = true ∧ lockedAfter ⟨[0, 1, 2, 3], [1], [2, 3], [3]⟩ = [3, 1, 2] := by
  decide

/-- **What the node may still select is cardinal**: no output that remains unlocked holds an
inscription or runes. -/
theorem c23_spendable_cardinal (w : WState) (o : Nat) (ho : o ∈ spendable w) : nonCardinal w o = false := by
  rcases mem_spendable.mp ho with ⟨hu, hnl⟩
  cases h : nonCardinal w o with
  | false => rfl
  | true => exact absurd (c23_lock_covers w o hu h) hnl

example : spendable ⟨[0, 1, 2, 3], [1], [2, 3], [3]⟩ = [0] := by decide

/-- **The funded transaction spends only the command's explicit inputs and cardinal outputs.**
`explicit` = inputs the wallet put into the unfunded transaction (the subject of the command),
`added` = inputs added by the node; node assumption `hnode`: it adds only unlocked wallet
outputs, as of after the lock call. -/
theorem c23_funded_inputs_cardinal (w : WState) (explicit added : List Nat)
    (hnode : ∀ o ∈ added, o ∈ spendable w) :
    ∀ o ∈ explicit ++ added, o ∈ explicit ∨ nonCardinal w o = false := by
  intro o ho
  rcases List.mem_append.mp ho with h | h
  · exact Or.inl h
  · exact Or.inr (c23_spendable_cardinal w o (hnode o h))

example : (∀ o ∈ [0], o ∈ spendable ⟨[0, 1, 2, 3], [1], [2, 3], [3]⟩) := by decide

/-- The `lockunspent` argument never names an output that is already locked (Bitcoin Core rejects
the whole call with "output already locked") and — when the runic set comes from the wallet's own
outputs, as `get_runic_outputs` guarantees — never an output outside the wallet. -/
theorem c23_lock_request_valid (w : WState) (hr : ∀ r ∈ w.runic, r ∈ w.utxos) :
    ∀ o ∈ toLock w, o ∉ w.locked ∧ o ∈ w.utxos := by
  intro o ho
  rcases mem_toLock.mp ho with ⟨h, hl⟩
  refine ⟨hl, ?_⟩
  rcases h with ⟨hu, _⟩ | h
  · exact hu
  · exact hr o h

/-- The lock is exact: nothing cardinal gets locked. -/
theorem c23_locks_only_noncardinal (w : WState) : ∀ o ∈ toLock w, nonCardinal w o = true := by
  intro o ho
  rcases mem_toLock.mp ho with ⟨h, _⟩
  rw [nonCardinal_iff]
  rcases h with ⟨_, hi⟩ | h
  · exact Or.inl hi
  · exact Or.inr h

/-- **Call order (structural, re-extracted from the source on every run)**: in every function
of /repo/src that calls `fund_raw_transaction` — bitcoin send, rune send/burn, mint, split, sweep,
offer create, and any function added later — an unconditional `lock_non_cardinal_outputs()?;`
statement precedes the first funding call. -/
theorem c23_lock_precedes_fund : ∀ s ∈ fundSites, lockPrecedesFund s = true := by decide

example : fundSites.length ≥ 6 := by decide

/-- The executable predicate the harness evaluates on the implementation's own runs (`oracle`)
holds whenever the node's locked set contains `lockedAfter` and the transaction's inputs are the
explicit ones plus inputs the node took from the unlocked outputs. -/
theorem c23_oracle_complete (w : WState) (lockedNow explicit added : List Nat)
    (hl : ∀ o ∈ lockedAfter w, o ∈ lockedNow) (hnode : ∀ o ∈ added, o ∈ spendable w) :
    oracle w lockedNow (explicit ++ added) explicit = true := by
  simp only [oracle, Bool.and_eq_true, List.all_eq_true, Bool.or_eq_true, Bool.not_eq_true',
    List.contains_iff_mem]
  constructor
  · intro o ho
    cases h : nonCardinal w o with
    | false => exact Or.inl (Or.inl rfl)
    | true => exact Or.inl (Or.inr (hl o (c23_lock_covers w o ho h)))
  · intro o ho
    rcases c23_funded_inputs_cardinal w explicit added hnode o ho with h | h
    · exact Or.inl h
    · exact Or.inr h

/-- … and conversely, when the predicate holds on an observed run, every observed input outside
the command's subject is cardinal and every non-cardinal wallet output is locked or the subject. -/
theorem c23_oracle_sound (w : WState) (lockedNow inputs subject : List Nat)
    (h : oracle w lockedNow inputs subject = true) :
    (∀ o ∈ inputs, o ∈ subject ∨ nonCardinal w o = false) ∧
    (∀ o ∈ w.utxos, nonCardinal w o = true → o ∈ lockedNow ∨ o ∈ subject) := by
  simp only [oracle, Bool.and_eq_true, List.all_eq_true, Bool.or_eq_true, Bool.not_eq_true',
    List.contains_iff_mem] at h
  refine ⟨fun o ho => h.2 o ho, fun o ho hn => ?_⟩
  rcases h.1 o ho with (h1 | h1) | h1
  · rw [hn] at h1; cases h1
  · exact Or.inl h1
  · exact Or.inr h1

#print axioms c23_lock_covers
#print axioms c23_spendable_cardinal
#print axioms c23_funded_inputs_cardinal
#print axioms c23_lock_request_valid
#print axioms c23_locks_only_noncardinal
#print axioms c23_lock_precedes_fund
#print axioms c23_oracle_complete
#print axioms c23_oracle_sound

end Ord.Wallet.C23
