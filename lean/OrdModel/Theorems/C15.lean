import OrdModel.Proofs.IndexFlagsChain
import OrdModel.Proofs.IndexFlagsValid
import OrdModel.Proofs.IndexFlagsNoIns
import OrdModel.Proofs.IndexFlagsWitness
import OrdModel.Proofs.IndexLiftDischargeC15
import OrdModel.Proofs.IndexFlagsRuneView
import OrdModel.Generated.FirstIndexHeight
import OrdModel.Index.Valid
/-
C15 — optional indexes do not change inscription or rune results.

"Inscription IDs, numbers, locations, parents, fees, heights and charms other than sat-derived
ones, and all rune entries and balances, are identical whether or not the sat, address and
transaction indexes are enabled; without a full UTXO index ord obtains spent values from the
node, and that path must agree with local tracking."

Model: `OrdModel/Index/*.lean` (the index state machine with `Cfg.indexSats / indexAddresses /
indexTransactions`), `OrdModel/Index/Projection.lean` (`projInsRunes`: the inscription and rune
results; `SameUpToOptionalIndexes`; `Cfg.base`: the three optional indexes off; `fetchView` /
`runSeen`: what a configuration sees of the chain — below `first_index_height` only headers).

The full statement

    ∀ cfg cfg' chain st st' evs evs', SameUpToOptionalIndexes cfg cfg' →
      runSeen false cfg chain = .ok (st, evs) → runSeen false cfg' chain = .ok (st', evs') →
      projInsRunes st = projInsRunes st'

(`runSeen false` = the unchanged `Index::open`; `runSeen true` = with the repair of the second
finding, notes/fix-C15-runes-first-index-height.diff — which of the two the source has is
re-extracted on every run into `Generated.runesLowerFirstIndexHeight`)

is FALSE of the code, in two ways, both only on chains whose first inscription height is not 0
(mainnet, signet, testnet3; it is hard-coded per chain), both replayed on the real indexer on
signet (`harness/flagsx`, corpus/C15/signet.s1.txt and signet.s2.txt):

* `c15_fails_nonzero_first_inscription_height` — sats lost below the first inscription height
  enter `LostSats` only with the sat index, so a later lost inscription is located at a different
  offset of the null outpoint (even on the *same* blocks: `run`, not only `runSeen`);
* `c15_fails_runes_below_first_index_height` — where runes activate below the first inscription
  height (signet: 0 < 112402) an index without sat and address index never sees the
  transactions of the blocks in between, so runes etched there exist only with those indexes.
  This one is about the UNCHANGED `first_index_height` rule.  With the repair the rune half of the
  statement is a theorem for every chain and every activation heights: `c15_fixed_runes_seen`,
  `c15_fixed_runes_tracked` (stages `c15_fixed_first_index_height_le_first_rune_height`, `c15_fixed_sees_every_rune_block`,
  `c15_runes_untouched_below_first_rune_height`, `c15_runes_depend_on_rune_blocks_only`).

What is proved (no bound on chains, blocks, transactions, values):
`c15_partial` — for a first inscription height of 0 (regtest, testnet4) and inscriptions indexed
the full statement holds: any two configurations differing only in the three optional indexes
that both index a chain end with equal `projInsRunes` (hypotheses: `BlockShape` of the blocks and
`NullStableFrom`, an instance of C04's invariant that is vacuous without the sat index and
decidable on a given chain).  Stages: `c15_transaction_step` (one transaction of the
inscription updater commutes with erasing what the optional indexes add),
`c15_block_step_partial` (one block incl. LostSats accounting and commit),
`c15_charms_independent_of_sat`, `c15_projection_of_erased`.
`c15_runes_only` — inscriptions not indexed: the statement holds with no side condition at all
(any chain, any activation heights, events included), on the same blocks.
`c15_valid_chain` — **the statement for every valid chain with first inscription height 0, no side
hypothesis**: `NullStableFrom` is discharged from C04's chain-level invariant
(`c15_nullStable_of_insChain`, lemmas `Proofs/IndexLiftDischargeC15.lean` over
`Proofs/IndexLiftIns*.lean`), and the case "inscriptions not indexed" is `c15_runes_only`.
-/
namespace Ord.Index
open Outcome

/-- The non-sat-derived charm bits of a new inscription are the same whether or not the sat is
known (`sat = some s` with the sat index, `none` without). -/
theorem c15_charms_independent_of_sat (cursed reinscription opReturn toNull unbound vindicated : Bool)
    (sat : Option Nat) :
    nonSatCharms (newCharms cursed reinscription opReturn toNull unbound vindicated sat) =
      newCharms cursed reinscription opReturn toNull unbound vindicated none :=
  nonSat_newCharms cursed reinscription opReturn toNull unbound vindicated sat

/-- Stage (a), one transaction of `index_inscriptions`: if it succeeds under `cfg` (any of the
three optional indexes on or off; `ir` = the input sat ranges when the sat index is on), then
under `cfg.base` (all three off) on the erased arguments — every spent entry reduced to its
total value and inscription list, every table reduced by `stripW` (no sat tables, no address
rows, no stored transactions, entries without `sat` and sat-derived charms; `u` = any UTXO
table, the updater does not touch it), no sat ranges — it succeeds with the erased result:
same ids, numbers, locations pushed, parents, fees, heights, non-sat charms, counters, events. -/
theorem c15_transaction_step (cfg : Cfg) (u : List (OutPoint × UtxoEntry)) (height time : Nat) (tx : Tx)
    (inputs : List (TxIn × UtxoEntry)) (ir : Option (List (Nat × Nat))) (ls ls' : LocState)
    (h : indexInscriptions cfg height time tx inputs ir ls = .ok ls') :
    indexInscriptions cfg.base height time tx (stripInputs cfg inputs) none (stripLs cfg u ls) =
      .ok (stripLs cfg u ls') :=
  indexInscriptions_strip cfg u height time tx inputs ir ls ls' h

/-- … and the erasure is invisible to the projection: the erased state has the same inscription
and rune results. -/
theorem c15_projection_of_erased (u : List (OutPoint × UtxoEntry)) (st : State) :
    projInsRunes (stripW u st) = projInsRunes st := by
  simp only [projInsRunes, stripW, List.map_map]
  congr 1
  apply List.map_congr_left
  intro e _
  simp [projEntry, stripEntry, nonSatCharms_idem]

/-- Stage (b), one block (`Updater::index_block` + `commit`), inscriptions indexed from height 0:
if `applyBlock cfg st blk` succeeds and `st₀ = stripW u₀ st` is the erased state whose UTXO table
`u₀` is related to `st.utxo` (`UtxoRel`: real outpoints carry total value + inscription list of
the corresponding entry, the two special outpoints the same inscription lists), then
`applyBlock cfg.base` succeeds on the erased state with the erased result, again related.
Hypotheses: `BlockShape` (first transaction is the coinbase, no other input with the all-zero
txid, no all-zero txid — all implied by a consensus-valid block) and, only with the sat index
on, `NullRowsStable` (an instance of C04's invariant, see notes/C15.md). -/
theorem c15_block_step_partial (cfg : Cfg) (hi : cfg.indexInscriptions = true) (hf : cfg.firstInscriptionHeight = 0)
    (st : State) (u₀ : List (OutPoint × UtxoEntry)) (blk : Block) (st' : State) (evs : List Event)
    (hshape : BlockShape blk = true) (R : UtxoRel cfg st.utxo u₀)
    (hnull : cfg.indexSats = true → NullRowsStable cfg st blk)
    (h : applyBlock cfg st blk = .ok (st', evs)) :
    ∃ u₀' evs₀, applyBlock cfg.base (stripW u₀ st) blk = .ok (stripW u₀' st', evs₀) ∧ UtxoRel cfg st'.utxo u₀' :=
  applyBlock_sim cfg hi hf st u₀ blk st' evs hshape R hnull h

/-- **C15 for chains whose first inscription height is 0** (regtest, testnet4), inscriptions
indexed: two configurations that differ only in the sat / address / transaction indexes and
both index the chain successfully end with the same inscription and rune results.  Stage (c):
both runs are simulated by the run of their common base configuration.
Hypotheses beyond the statement: `BlockShape` of every block (implied by validity) and
`NullStableFrom` for each configuration — vacuous for a configuration without the sat index
(`c15_nullStable_of_noSats`), decidable on any given chain (`c15_nullStable_decidable`), and an
instance of C04's invariant `InsPartitioned` ("listed at an outpoint ⇒ satpoint row there"). -/
theorem c15_partial (cfg cfg' : Cfg) (hsame : SameUpToOptionalIndexes cfg cfg')
    (hi : cfg.indexInscriptions = true) (hf : cfg.firstInscriptionHeight = 0)
    (chain : List Block) (hs : ∀ b ∈ chain, BlockShape b = true)
    (hn : NullStableFrom cfg {} chain) (hn' : NullStableFrom cfg' {} chain)
    (st st' : State) (evs evs' : List Event)
    (h : run cfg chain = .ok (st, evs)) (h' : run cfg' chain = .ok (st', evs')) :
    projInsRunes st = projInsRunes st' := by
  have hi' : cfg'.indexInscriptions = true := hsame.1 ▸ hi
  have hf' : cfg'.firstInscriptionHeight = 0 := hsame.2.2.1 ▸ hf
  obtain ⟨u, e, r⟩ := run_sim cfg hi hf chain st evs hs hn h
  obtain ⟨u', e', r'⟩ := run_sim cfg' hi' hf' chain st' evs' hs hn' h'
  rw [base_eq_of_same hsame, r'] at r
  simp only [Outcome.ok.injEq, Prod.mk.injEq] at r
  rw [← c15_projection_of_erased u st, ← c15_projection_of_erased u' st', r.1]

/-- `c15_partial` with the property's own quantifier: every valid chain (`Valid.validChain`,
the predicate of C16) — validity gives `BlockShape` of every block. -/
theorem c15_valid_chain_partial (cfg cfg' : Cfg) (hsame : SameUpToOptionalIndexes cfg cfg')
    (hi : cfg.indexInscriptions = true) (hf : cfg.firstInscriptionHeight = 0)
    (chain : List Block) (hv : Valid.validChain chain = true)
    (hn : NullStableFrom cfg {} chain) (hn' : NullStableFrom cfg' {} chain)
    (st st' : State) (evs evs' : List Event)
    (h : run cfg chain = .ok (st, evs)) (h' : run cfg' chain = .ok (st', evs')) :
    projInsRunes st = projInsRunes st' :=
  c15_partial cfg cfg' hsame hi hf chain (blockShape_of_validChain chain hv) hn hn' st st' evs evs' h h'

/-- … in particular, unconditionally (beyond validity and success of the two runs) for the
address and transaction indexes: neither configuration has the sat index. -/
theorem c15_addresses_transactions (cfg cfg' : Cfg) (hsame : SameUpToOptionalIndexes cfg cfg')
    (hs : cfg.indexSats = false) (hs' : cfg'.indexSats = false)
    (hi : cfg.indexInscriptions = true) (hf : cfg.firstInscriptionHeight = 0)
    (chain : List Block) (hv : Valid.validChain chain = true)
    (st st' : State) (evs evs' : List Event)
    (h : run cfg chain = .ok (st, evs)) (h' : run cfg' chain = .ok (st', evs')) :
    projInsRunes st = projInsRunes st' :=
  c15_valid_chain_partial cfg cfg' hsame hi hf chain hv (nullStableFrom_of_noSats cfg hs chain {})
    (nullStableFrom_of_noSats cfg' hs' chain {}) st st' evs evs' h h'

/-- **Inscriptions not indexed (rune results only): C15 holds with no side condition** — any
chain, any first inscription / rune heights: two configurations that differ only in the three
optional indexes and both index the chain end with the same rune entries, balances and counters,
and emit the same events.  (With the sat or address index the UTXO pass runs, but writes only
the UTXO table, SAT_TO_SATPOINT, the address rows and LostSats; the rune pass reads none of
them.)  This is about `run` — the same blocks; what each configuration *sees* is `fetchView`. -/
theorem c15_runes_only (cfg cfg' : Cfg) (hsame : SameUpToOptionalIndexes cfg cfg')
    (hi : cfg.indexInscriptions = false) (chain : List Block) (st st' : State) (evs evs' : List Event)
    (h : run cfg chain = .ok (st, evs)) (h' : run cfg' chain = .ok (st', evs')) :
    projInsRunes st = projInsRunes st' ∧ evs = evs' := by
  have hi' : cfg'.indexInscriptions = false := hsame.1 ▸ hi
  have r := run_noIns_sim cfg hi chain st evs h
  have r' := run_noIns_sim cfg' hi' chain st' evs' h'
  rw [base_eq_of_same hsame, r'] at r
  simp only [Outcome.ok.injEq, Prod.mk.injEq] at r
  refine ⟨?_, r.2.symm⟩
  rw [← proj_coreW st, ← proj_coreW st', r.1]

/-- the extra hypothesis is vacuous without the sat index … -/
theorem c15_nullStable_of_noSats (cfg : Cfg) (hs : cfg.indexSats = false) (chain : List Block) (st : State) :
    NullStableFrom cfg st chain := nullStableFrom_of_noSats cfg hs chain st

/-- … and decidable on a given chain -/
theorem c15_nullStable_decidable (cfg : Cfg) (chain : List Block) (st : State)
    (h : nullStableFromB cfg st chain = true) : NullStableFrom cfg st chain := nullStableFromB_sound cfg chain st h

/-- With first inscription height 0 and inscriptions indexed, every configuration sees the whole
chain (`first_index_height = 0`), so `c15_partial` is also a statement about `runSeen`. -/
theorem c15_seen_is_run (fixed : Bool) (cfg : Cfg) (hi : cfg.indexInscriptions = true) (hf : cfg.firstInscriptionHeight = 0)
    (chain : List Block) : runSeen fixed cfg chain = run cfg chain := by
  unfold runSeen
  congr 1
  have : ∀ b : Block, fetchView fixed cfg b = b := by
    intro b
    unfold fetchView Cfg.firstIndexHeight
    by_cases h1 : (cfg.indexSats || cfg.indexAddresses) = true
    · simp [h1]
    · by_cases h2 : (fixed && cfg.indexRunes) = true
      · simp [h1, hi, hf, h2]
      · simp [h1, hi, hf, h2]
  have hid : fetchView fixed cfg = id := funext this
  rw [hid, List.map_id]

/-! ## `NullStableFrom` discharged: the statement without side hypothesis

C04's invariant is proved for every reachable state (`Insloc.c04_reachable`) by way of a
mid-block invariant (`InsLift.MInv`: the sequence numbers listed in table ++ cache ++ pending
special entries ++ saved flotsam are exactly `0 … n-1`, each once).  At the mid-commit state that
`NullRowsStable` talks about, the same invariant gives "listed at the null outpoint ⇒ satpoint
row there" (`InsLift.flush_sp_of_listed`), so `NullStableFrom` is a theorem under C04's chain
hypotheses `InsLift.InsChain`, which every `Valid.validChain` satisfies. -/

/-- `NullStableFrom` holds for every chain satisfying `InsChain` (distinct non-zero txids, no
special-outpoint spend outside a block's first transaction, coinbase-first blocks, non-decreasing
heights), with inscriptions indexed — whatever the sat index. -/
theorem c15_nullStable_of_insChain (cfg : Cfg) (hi : cfg.indexInscriptions = true) (chain : List Block)
    (hc : InsLift.InsChain chain) : NullStableFrom cfg {} chain :=
  InsLift.nullStableFrom_of_insChain cfg hi chain hc

/-- its one-block core: at a state satisfying C04's block-boundary invariant, the block's
mid-commit state has the rows of the inscriptions listed at the null outpoint in place. -/
theorem c15_nullRowsStable_of_c04 (cfg : Cfg) (hi : cfg.indexInscriptions = true) (seen : List Txid)
    (st : State) (blk : Block) (hS : InsLift.SInv cfg seen st) (hb : InsLift.BlockIns cfg seen st blk) :
    NullRowsStable cfg st blk :=
  InsLift.nullRowsStable_of_sinv cfg hi seen st blk hS hb

/-- `c15_partial` under chain hypotheses only (`InsChain` + `BlockShape`). -/
theorem c15_chain (cfg cfg' : Cfg) (hsame : SameUpToOptionalIndexes cfg cfg')
    (hi : cfg.indexInscriptions = true) (hf : cfg.firstInscriptionHeight = 0)
    (chain : List Block) (hs : ∀ b ∈ chain, BlockShape b = true) (hc : InsLift.InsChain chain)
    (st st' : State) (evs evs' : List Event)
    (h : run cfg chain = .ok (st, evs)) (h' : run cfg' chain = .ok (st', evs')) :
    projInsRunes st = projInsRunes st' :=
  c15_partial cfg cfg' hsame hi hf chain hs (c15_nullStable_of_insChain cfg hi chain hc)
    (c15_nullStable_of_insChain cfg' (hsame.1 ▸ hi) chain hc) st st' evs evs' h h'

/-- **C15 for every valid chain, first inscription height 0** (regtest, testnet4): two
configurations that differ only in the sat / address / transaction indexes and both index the
chain successfully end with the same inscription and rune results — ids, numbers, locations,
parents, fees, heights, non-sat charms, every rune entry, balance and counter (`projInsRunes`).
No side hypothesis: inscriptions indexed or not, sat index on or off. -/
theorem c15_valid_chain (cfg cfg' : Cfg) (hsame : SameUpToOptionalIndexes cfg cfg')
    (hf : cfg.firstInscriptionHeight = 0)
    (chain : List Block) (hv : Valid.validChain chain = true)
    (st st' : State) (evs evs' : List Event)
    (h : run cfg chain = .ok (st, evs)) (h' : run cfg' chain = .ok (st', evs')) :
    projInsRunes st = projInsRunes st' := by
  cases hi : cfg.indexInscriptions with
  | false => exact (c15_runes_only cfg cfg' hsame hi chain st st' evs evs' h h').1
  | true =>
    exact c15_chain cfg cfg' hsame hi hf chain (blockShape_of_validChain chain hv)
      (InsLift.insChain_of_validChain chain hv).1 st st' evs evs' h h'

/-- … and the same about what each configuration *sees* of the chain (`runSeen`: below
`first_index_height` only headers): with inscriptions indexed from height 0 every
configuration sees every block. -/
theorem c15_valid_chain_seen (fixed : Bool) (cfg cfg' : Cfg) (hsame : SameUpToOptionalIndexes cfg cfg')
    (hi : cfg.indexInscriptions = true) (hf : cfg.firstInscriptionHeight = 0)
    (chain : List Block) (hv : Valid.validChain chain = true)
    (st st' : State) (evs evs' : List Event)
    (h : runSeen fixed cfg chain = .ok (st, evs)) (h' : runSeen fixed cfg' chain = .ok (st', evs')) :
    projInsRunes st = projInsRunes st' := by
  rw [c15_seen_is_run fixed cfg hi hf] at h
  rw [c15_seen_is_run fixed cfg' (hsame.1 ▸ hi) (hsame.2.2.1 ▸ hf)] at h'
  exact c15_valid_chain cfg cfg' hsame hf chain hv st st' evs evs' h h'

/-! ## The two counterexamples -/

theorem w1_sats_on : (stateAfter' (run (w1Cfg true) w1Chain)).map (fun st => (projInsRunes st).seq2sp) =
    some [(0, ⟨OutPoint.null, 1000⟩)] := by decide

theorem w1_sats_off : (stateAfter' (run (w1Cfg false) w1Chain)).map (fun st => (projInsRunes st).seq2sp) =
    some [(0, ⟨OutPoint.null, 0⟩)] := by decide

theorem stateAfter'_some {r : Outcome (State × List Event)} {α : Type} {f : State → α} {a : α}
    (h : (stateAfter' r).map f = some a) : ∃ st evs, r = .ok (st, evs) ∧ f st = a := by
  cases r with
  | ok p => obtain ⟨st, evs⟩ := p; exact ⟨st, evs, rfl, by simpa [stateAfter'] using h⟩
  | err e => simp [stateAfter'] at h
  | panic s => simp [stateAfter'] at h

/-- **C15 fails on chains with a non-zero first inscription height.**  `w1Chain` (first
inscription height 2) is a valid chain; the two configurations differ only in the sat index;
both runs succeed on the same blocks; the lost inscription `4i0` is at `null:1000` with the sat
index and at `null:0` without. -/
theorem c15_fails_nonzero_first_inscription_height :
    SameUpToOptionalIndexes (w1Cfg true) (w1Cfg false) ∧ Valid.validChain w1Chain = true ∧
    ∃ st st' evs evs', run (w1Cfg true) w1Chain = .ok (st, evs) ∧ run (w1Cfg false) w1Chain = .ok (st', evs') ∧
      (projInsRunes st).seq2sp = [(0, ⟨OutPoint.null, 1000⟩)] ∧
      (projInsRunes st').seq2sp = [(0, ⟨OutPoint.null, 0⟩)] ∧
      projInsRunes st ≠ projInsRunes st' := by
  refine ⟨⟨rfl, rfl, rfl, rfl, rfl⟩, by decide, ?_⟩
  obtain ⟨st, evs, h1, e1⟩ := stateAfter'_some w1_sats_on
  obtain ⟨st', evs', h2, e2⟩ := stateAfter'_some w1_sats_off
  refine ⟨st, st', evs, evs', h1, h2, e1, e2, ?_⟩
  intro heq
  rw [heq, e2] at e1
  exact absurd e1 (by decide)

theorem w2_with_sats : (stateAfter' (runSeen false (w2Cfg true false) w2Chain)).map (fun st => (projInsRunes st).rune2id) =
    some [(6402364363415443603228541264231179223, ⟨1, 1⟩)] := by decide

theorem w2_with_addresses : (stateAfter' (runSeen false (w2Cfg false true) w2Chain)).map (fun st => (projInsRunes st).rune2id) =
    some [(6402364363415443603228541264231179223, ⟨1, 1⟩)] := by decide

theorem w2_without : (stateAfter' (runSeen false (w2Cfg false false) w2Chain)).map (fun st => (projInsRunes st).rune2id) =
    some [] := by decide

/-- **C15 fails where runes activate below the first inscription height** (signet), with the
UNCHANGED `first_index_height` rule (`runSeen false`).  The configuration without sat and address
index fetches only the header of block 1 (`fetchView`), so the reserved rune etched there exists
only with the sat or address index.  (With the repair: `c15_fixed_runes_seen`,
`c15_fixed_witness`.) -/
theorem c15_fails_runes_below_first_index_height :
    SameUpToOptionalIndexes (w2Cfg true false) (w2Cfg false false) ∧ Valid.validChain w2Chain = true ∧
    ∃ st st' evs evs', runSeen false (w2Cfg true false) w2Chain = .ok (st, evs) ∧
      runSeen false (w2Cfg false false) w2Chain = .ok (st', evs') ∧
      (projInsRunes st).rune2id = [(6402364363415443603228541264231179223, ⟨1, 1⟩)] ∧
      (projInsRunes st').rune2id = [] ∧ projInsRunes st ≠ projInsRunes st' := by
  refine ⟨⟨rfl, rfl, rfl, rfl, rfl⟩, by decide, ?_⟩
  obtain ⟨st, evs, h1, e1⟩ := stateAfter'_some w2_with_sats
  obtain ⟨st', evs', h2, e2⟩ := stateAfter'_some w2_without
  refine ⟨st, st', evs, evs', h1, h2, e1, e2, ?_⟩
  intro heq
  rw [heq, e2] at e1
  exact absurd e1 (by decide)

/-! ## The repaired `first_index_height` (second finding fixed: `runSeen true`)

notes/fix-C15-runes-first-index-height.diff: with inscriptions and runes indexed (no sat, no
address index) `first_index_height = min first_inscription_height first_rune_height`.  Then the
rune half of C15 — "all rune entries and balances are identical whether or not the sat, address
and transaction indexes are enabled" — holds for every chain, every activation heights, as a
statement about what each configuration *sees* (`runSeen true`).  `projRunes`: rune entries
(number, mints, burned, premine, terms, …), name → id, balances, etching txid → name, the
counters `Runes` and `ReservedRunes`; not SEQUENCE_NUMBER_TO_RUNE_ID (keyed by inscription
sequence numbers).  The inscription half for a non-zero first inscription height stays false
(`c15_fails_nonzero_first_inscription_height`, not repaired). -/

/-- With the repair no block in which runes are active is delivered header-only: every
configuration that indexes runes has `first_index_height ≤ first_rune_height`. -/
theorem c15_fixed_first_index_height_le_first_rune_height (cfg : Cfg) (hr : cfg.indexRunes = true) :
    ∃ h, cfg.firstIndexHeight true = some h ∧ h ≤ cfg.firstRuneHeight := by
  unfold Cfg.firstIndexHeight
  by_cases h1 : (cfg.indexSats || cfg.indexAddresses) = true
  · exact ⟨0, by simp [h1], Nat.zero_le _⟩
  · by_cases h2 : cfg.indexInscriptions = true
    · exact ⟨min cfg.firstInscriptionHeight cfg.firstRuneHeight, by simp [h1, h2, hr], Nat.min_le_right _ _⟩
    · exact ⟨cfg.firstRuneHeight, by simp [h1, h2, hr], Nat.le_refl _⟩

/-- … so such a configuration sees every block at or above the first rune height in full. -/
theorem c15_fixed_sees_every_rune_block (cfg : Cfg) (hr : cfg.indexRunes = true) (blk : Block)
    (hh : blk.height ≥ cfg.firstRuneHeight) : fetchView true cfg blk = blk := by
  obtain ⟨h, e, le⟩ := c15_fixed_first_index_height_le_first_rune_height cfg hr
  unfold fetchView
  rw [e]
  exact if_pos (Nat.le_trans le hh)

/-- Blocks below the first rune height cannot change the rune results, whatever the optional
indexes do with them (the rune updater is not run there; the sat / address / inscription pass
writes no rune table) — so it does not matter whether such a block arrives in full or header-only. -/
theorem c15_runes_untouched_below_first_rune_height (cfg : Cfg) (st : State) (blk : Block) (st' : State)
    (evs : List Event) (h : applyBlock cfg st blk = .ok (st', evs)) (hlt : blk.height < cfg.firstRuneHeight) :
    projRunes st' = projRunes st := by
  obtain ⟨evr, hs⟩ := applyBlock_runeW cfg st blk st' evs h
  have hn : runeRelevant cfg blk = false := by
    unfold runeRelevant
    have : ¬ blk.height ≥ cfg.firstRuneHeight := Nat.not_le.mpr hlt
    simp [this]
  unfold runeStep at hs
  rw [hn] at hs
  simp only [Bool.false_eq_true, if_false, Outcome.ok.injEq, Prod.mk.injEq] at hs
  exact (projRunes_of_runeW hs.1).symm

/-- **The rune results depend only on the blocks the rune updater runs on.**  Two configurations
that differ at most in the sat / address / transaction indexes — and, here, even in whether
inscriptions are indexed and from which height — index two block lists that coincide on the
blocks at or above the first rune height (below it the lists may differ in any way: blocks in
full, header-only, missing): the rune entries, ids, balances and counters are equal.  No
validity hypothesis, no condition on the first inscription height. -/
theorem c15_runes_depend_on_rune_blocks_only (cfg cfg' : Cfg) (hr : cfg.indexRunes = cfg'.indexRunes)
    (hf : cfg.firstRuneHeight = cfg'.firstRuneHeight) (chain chain' : List Block)
    (hrel : chain.filter (runeRelevant cfg) = chain'.filter (runeRelevant cfg))
    (st st' : State) (evs evs' : List Event)
    (h : run cfg chain = .ok (st, evs)) (h' : run cfg' chain' = .ok (st', evs')) :
    projRunes st = projRunes st' :=
  projRunes_of_runeW (run_runeW_eq cfg cfg' hr hf chain chain' hrel st st' evs evs' h h')

/-- what a configuration sees, under either `first_index_height` rule, contains every
rune-relevant block as soon as `first_index_height ≤ first_rune_height` -/
theorem c15_seen_keeps_rune_blocks (fixed : Bool) (cfg : Cfg) (hle : cfg.indexRunes = true →
      ∃ h, cfg.firstIndexHeight fixed = some h ∧ h ≤ cfg.firstRuneHeight) (chain : List Block) :
    (chain.map (fetchView fixed cfg)).filter (runeRelevant cfg) = chain.filter (runeRelevant cfg) := by
  apply filter_map_view
  · intro b
    exact runeRelevant_fetchView fixed cfg cfg b
  · intro b hb
    unfold runeRelevant at hb
    simp only [Bool.and_eq_true, decide_eq_true_eq] at hb
    obtain ⟨h, e, le⟩ := hle hb.1
    unfold fetchView
    rw [e]
    exact if_pos (Nat.le_trans le hb.2)

/-- **C15, rune half, for the repaired code** (finding S2 fixed): two configurations that differ
only in the sat / address / transaction indexes and both index the chain — each as it *sees* it
under the repaired `first_index_height` (`runSeen true`: header-only below it) — end with the same
rune entries (numbers included), rune ids, balances, etching txids and rune counters.  Every
chain, every pair of activation heights (signet's 112402 / 0 included), inscriptions indexed or
not; no validity hypothesis is needed. -/
theorem c15_fixed_runes_seen (cfg cfg' : Cfg) (hsame : SameUpToOptionalIndexes cfg cfg')
    (chain : List Block) (st st' : State) (evs evs' : List Event)
    (h : runSeen true cfg chain = .ok (st, evs)) (h' : runSeen true cfg' chain = .ok (st', evs')) :
    projRunes st = projRunes st' := by
  unfold runSeen at h h'
  refine c15_runes_depend_on_rune_blocks_only cfg cfg' hsame.2.1 hsame.2.2.2.2 _ _ ?_ st st' evs evs' h h'
  rw [c15_seen_keeps_rune_blocks true cfg (c15_fixed_first_index_height_le_first_rune_height cfg)]
  rw [runeRelevant_congr cfg cfg' hsame.2.1 hsame.2.2.2.2]
  rw [c15_seen_keeps_rune_blocks true cfg' (c15_fixed_first_index_height_le_first_rune_height cfg')]

/-- … and the same with the node-fetch path specified by local tracking (`runTracked true`, the
fold the driver of stream `signet` performs: a block below `first_index_height` is applied without
the rune updater, the values of its outputs are kept).  Unlike `runSeen`, this run also succeeds on
chains that spend, above `first_index_height`, outputs created below it (what the real index
obtains from the node), so the theorem is not vacuous there (example below). -/
theorem c15_fixed_runes_tracked (cfg cfg' : Cfg) (hsame : SameUpToOptionalIndexes cfg cfg')
    (chain : List Block) (st st' : State) (evs evs' : List Event)
    (h : runTracked true cfg chain = .ok (st, evs)) (h' : runTracked true cfg' chain = .ok (st', evs')) :
    projRunes st = projRunes st' :=
  projRunes_of_runeW (runTracked_runeW_eq true cfg cfg' hsame.2.1 hsame.2.2.2.2
    (c15_fixed_first_index_height_le_first_rune_height cfg)
    (c15_fixed_first_index_height_le_first_rune_height cfg') chain st st' evs evs' h h')

/-- the same for whichever rule the source has, once the extractor reports the repair -/
theorem c15_source_runes_seen (hfix : Generated.runesLowerFirstIndexHeight = true)
    (cfg cfg' : Cfg) (hsame : SameUpToOptionalIndexes cfg cfg')
    (chain : List Block) (st st' : State) (evs evs' : List Event)
    (h : runSeen Generated.runesLowerFirstIndexHeight cfg chain = .ok (st, evs))
    (h' : runSeen Generated.runesLowerFirstIndexHeight cfg' chain = .ok (st', evs')) :
    projRunes st = projRunes st' := by
  rw [hfix] at h h'
  exact c15_fixed_runes_seen cfg cfg' hsame chain st st' evs evs' h h'

/-- the unchanged rule already has `first_index_height ≤ first_rune_height` wherever inscriptions
activate no later than runes (mainnet 767430 ≤ 840000, testnet3, testnet4, regtest): there the rune
half holds for the unchanged code too — signet is the one built-in chain where it does not. -/
theorem c15_runes_seen_unchanged_of_le (cfg cfg' : Cfg) (hsame : SameUpToOptionalIndexes cfg cfg')
    (hle : cfg.firstInscriptionHeight ≤ cfg.firstRuneHeight)
    (chain : List Block) (st st' : State) (evs evs' : List Event)
    (h : runSeen false cfg chain = .ok (st, evs)) (h' : runSeen false cfg' chain = .ok (st', evs')) :
    projRunes st = projRunes st' := by
  have key : ∀ c : Cfg, c.firstInscriptionHeight ≤ c.firstRuneHeight → c.indexRunes = true →
      ∃ h, c.firstIndexHeight false = some h ∧ h ≤ c.firstRuneHeight := by
    intro c hc hr
    unfold Cfg.firstIndexHeight
    by_cases h1 : (c.indexSats || c.indexAddresses) = true
    · exact ⟨0, by simp [h1], Nat.zero_le _⟩
    · by_cases h2 : c.indexInscriptions = true
      · exact ⟨c.firstInscriptionHeight, by simp [h1, h2], hc⟩
      · exact ⟨c.firstRuneHeight, by simp [h1, h2, hr], Nat.le_refl _⟩
  have hle' : cfg'.firstInscriptionHeight ≤ cfg'.firstRuneHeight := by
    rw [← hsame.2.2.1, ← hsame.2.2.2.2]; exact hle
  unfold runSeen at h h'
  refine c15_runes_depend_on_rune_blocks_only cfg cfg' hsame.2.1 hsame.2.2.2.2 _ _ ?_ st st' evs evs' h h'
  rw [c15_seen_keeps_rune_blocks false cfg (key cfg hle)]
  rw [runeRelevant_congr cfg cfg' hsame.2.1 hsame.2.2.2.2]
  rw [c15_seen_keeps_rune_blocks false cfg' (key cfg' hle')]

theorem w2_fixed_without : (stateAfter' (runSeen true (w2Cfg false false) w2Chain)).map (fun st => (projInsRunes st).rune2id) =
    some [(6402364363415443603228541264231179223, ⟨1, 1⟩)] := by decide

theorem w2_fixed_with_sats : (stateAfter' (runSeen true (w2Cfg true false) w2Chain)).map (fun st => (projInsRunes st).rune2id) =
    some [(6402364363415443603228541264231179223, ⟨1, 1⟩)] := by decide

/-- the witness of `c15_fails_runes_below_first_index_height`, read with the repaired rule: the
configuration without sat and address index now fetches block 1 in full
(`first_index_height = min 2 0 = 0`), both runs succeed, and the reserved rune etched there exists
in both — `c15_fixed_runes_seen` applies non-vacuously to the very chain that refutes the
unchanged rule. -/
theorem c15_fixed_witness :
    (w2Cfg false false).firstIndexHeight false = some 2 ∧ (w2Cfg false false).firstIndexHeight true = some 0 ∧
    ∃ st st' evs evs', runSeen true (w2Cfg true false) w2Chain = .ok (st, evs) ∧
      runSeen true (w2Cfg false false) w2Chain = .ok (st', evs') ∧
      (projInsRunes st').rune2id = [(6402364363415443603228541264231179223, ⟨1, 1⟩)] ∧
      projRunes st = projRunes st' := by
  refine ⟨by decide, by decide, ?_⟩
  obtain ⟨st, evs, h1, _⟩ := stateAfter'_some w2_fixed_with_sats
  obtain ⟨st', evs', h2, e2⟩ := stateAfter'_some w2_fixed_without
  exact ⟨st, st', evs, evs', h1, h2, e2,
    c15_fixed_runes_seen (w2Cfg true false) (w2Cfg false false) ⟨rfl, rfl, rfl, rfl, rfl⟩ w2Chain st st' evs evs' h1 h2⟩

/-! ## Non-vacuity -/

/-- `c15_partial` applies (all hypotheses hold, sat index on vs off) to the witness chain read
with first inscription height 0: there the two runs agree — the lost inscription is at
`null:1000` in both. -/
def w0Cfg (sats : Bool) : Cfg := ⟨sats, false, false, true, false, 0, 0, 0⟩
example : SameUpToOptionalIndexes (w0Cfg true) (w0Cfg false) ∧ Valid.validChain w1Chain = true ∧
    NullStableFrom (w0Cfg true) {} w1Chain ∧ NullStableFrom (w0Cfg false) {} w1Chain ∧
    (stateAfter' (run (w0Cfg true) w1Chain)).map (fun st => (projInsRunes st).seq2sp) = some [(0, ⟨OutPoint.null, 1000⟩)] ∧
    (stateAfter' (run (w0Cfg false) w1Chain)).map (fun st => (projInsRunes st).seq2sp) = some [(0, ⟨OutPoint.null, 1000⟩)] :=
  ⟨⟨rfl, rfl, rfl, rfl, rfl⟩, by decide, c15_nullStable_decidable _ _ _ (by decide),
    c15_nullStable_of_noSats _ rfl _ _, by decide, by decide⟩

/-- `c15_valid_chain` applies to the same chain (sat index on vs off, inscriptions indexed, an
inscription created and lost): its hypotheses are validity and success of the two runs only. -/
example : SameUpToOptionalIndexes (w0Cfg true) (w0Cfg false) ∧ (w0Cfg true).firstInscriptionHeight = 0 ∧
    Valid.validChain w1Chain = true ∧ (run (w0Cfg true) w1Chain).isOk = true ∧ (run (w0Cfg false) w1Chain).isOk = true :=
  ⟨⟨rfl, rfl, rfl, rfl, rfl⟩, rfl, by decide, by decide, by decide⟩

/-- `c15_fixed_first_index_height_le_first_rune_height` is false of the unchanged rule (signet-like
heights), and `c15_runes_untouched_below_first_rune_height` / `c15_runes_seen_unchanged_of_le`
have satisfiable hypotheses (mainnet-like heights; block 1 of the witness chain under them) -/
example : (w2Cfg false false).indexRunes = true ∧ (w2Cfg false false).firstIndexHeight false = some 2 ∧
    (w2Cfg false false).firstRuneHeight = 0 := ⟨rfl, by decide, rfl⟩
def w3Cfg (sats : Bool) : Cfg := ⟨sats, false, false, true, true, 0, 0, 1⟩
example : SameUpToOptionalIndexes (w3Cfg true) (w3Cfg false) ∧
    (w3Cfg true).firstInscriptionHeight ≤ (w3Cfg true).firstRuneHeight ∧
    (runSeen false (w3Cfg true) w2Chain).isOk = true ∧ (runSeen false (w3Cfg false) w2Chain).isOk = true ∧
    (stateAfter' (runSeen false (w3Cfg false) w2Chain)).map (fun st => (projRunes st).runes) = some 1 ∧
    (run (w3Cfg true) (w2Chain.take 1)).isOk = true ∧ (w2Chain[0]?.map (·.height)) = some 0 :=
  ⟨⟨rfl, rfl, rfl, rfl, rfl⟩, by decide, by decide, by decide, by decide, by decide, by decide⟩

/-- `c15_fixed_runes_tracked` where tracking matters: first inscription height 2, first rune height 1,
so the repaired `first_index_height` of the configuration without sat index is 1; block 1 spends
(and etches on) an output of block 0, which that configuration got header-only — `runSeen` fails
there (the node would be asked), `runTracked` succeeds, and both configurations have the rune -/
def w4Cfg (sats : Bool) : Cfg := ⟨sats, false, false, true, true, 2, 0, 1⟩
example : SameUpToOptionalIndexes (w4Cfg true) (w4Cfg false) ∧ (w4Cfg false).firstIndexHeight true = some 1 ∧
    (runSeen true (w4Cfg false) w2Chain).isOk = false ∧
    (stateAfter' (runTracked true (w4Cfg false) w2Chain)).map (fun st => (projRunes st).runes) = some 1 ∧
    (stateAfter' (runTracked true (w4Cfg true) w2Chain)).map (fun st => (projRunes st).runes) = some 1 :=
  ⟨⟨rfl, rfl, rfl, rfl, rfl⟩, by decide, by decide, by decide, by decide⟩

example : (w1Chain.map BlockShape).all id = true := by decide
example : (w1Cfg true).base = w1Cfg false := rfl
example : nonSatCharms (newCharms true true true false false true (some 0)) = 2 + 128 + 4096 + 1024 := by decide
example : newCharms true true true false false true (some 0) = 2 + 128 + 4096 + 1024 + (1 + 8192 + 2048) := by decide

end Ord.Index
