import OrdModel.Proofs.IndexFlagsIns
import OrdModel.Proofs.IndexFlagsWitness
import OrdModel.Index.Valid
/-
C15 — optional indexes do not change inscription or rune results.

"Inscription IDs, numbers, locations, parents, fees, heights and charms other than sat-derived
ones, and all rune entries and balances, are identical whether or not the sat, address and
transaction indexes are enabled; without a full UTXO index ord obtains spent values from the
node, and that path must agree with local tracking."

Model: `OrdModel/Index/*.lean` (the index state machine with `Cfg.indexSats / indexAddresses /
indexTransactions`), `OrdModel/Index/Projection.lean` (`projInsRunes`: the inscription and rune
results; `SameUpToOptionalIndexes`; `Cfg.base`: the three optional indexes off; `fetchView` /
`runSeen`: what a configuration sees of the chain — below `first_index_height` only headers).

The full statement

    ∀ cfg cfg' chain st st' evs evs', SameUpToOptionalIndexes cfg cfg' →
      runSeen cfg chain = .ok (st, evs) → runSeen cfg' chain = .ok (st', evs') →
      projInsRunes st = projInsRunes st'

is FALSE of the code, in two ways, both only on chains whose first inscription height is not 0
(mainnet, signet, testnet3; it is hard-coded per chain), both replayed on the real indexer on
signet (`harness/flagsx`, corpus/C15/signet.s1.txt and signet.s2.txt):

* `c15_fails_nonzero_first_inscription_height` — sats lost below the first inscription height
  enter `LostSats` only with the sat index, so a later lost inscription is located at a different
  offset of the null outpoint (even on the *same* blocks: `run`, not only `runSeen`);
* `c15_fails_runes_below_first_index_height` — where runes activate below the first inscription
  height (signet: 0 < 112402) an index without sat and address index never sees the
  transactions of the blocks in between, so runes etched there exist only with those indexes.

What is proved in general (every transaction, every state, no bound on anything):
`c15_transaction_step` — one transaction of the inscription updater commutes with erasing what
the optional indexes add; `c15_charms_independent_of_sat` — the non-sat charm bits of a new
inscription do not depend on whether its sat is known.
-/
namespace Ord.Index
open Outcome

/-- The non-sat-derived charm bits of a new inscription are the same whether or not the sat is
known (`sat = some s` with the sat index, `none` without). -/
theorem c15_charms_independent_of_sat (cursed reinscription opReturn toNull unbound vindicated : Bool)
    (sat : Option Nat) :
    nonSatCharms (newCharms cursed reinscription opReturn toNull unbound vindicated sat) =
      newCharms cursed reinscription opReturn toNull unbound vindicated none :=
  nonSat_newCharms cursed reinscription opReturn toNull unbound vindicated sat

/-- Stage (a), one transaction of `index_inscriptions`: if it succeeds under `cfg` (any of the
three optional indexes on or off; `ir` = the input sat ranges when the sat index is on), then
under `cfg.base` (all three off) on the erased arguments — every spent entry reduced to its
total value and inscription list, every table reduced by `stripW` (no sat tables, no address
rows, no stored transactions, entries without `sat` and sat-derived charms; `u` = any UTXO
table, the updater does not touch it), no sat ranges — it succeeds with the erased result:
same ids, numbers, locations pushed, parents, fees, heights, non-sat charms, counters, events. -/
theorem c15_transaction_step (cfg : Cfg) (u : List (OutPoint × UtxoEntry)) (height time : Nat) (tx : Tx)
    (inputs : List (TxIn × UtxoEntry)) (ir : Option (List (Nat × Nat))) (ls ls' : LocState)
    (h : indexInscriptions cfg height time tx inputs ir ls = .ok ls') :
    indexInscriptions cfg.base height time tx (stripInputs cfg inputs) none (stripLs cfg u ls) =
      .ok (stripLs cfg u ls') :=
  indexInscriptions_strip cfg u height time tx inputs ir ls ls' h

/-- … and the erasure is invisible to the projection: the erased state has the same inscription
and rune results. -/
theorem c15_projection_of_erased (u : List (OutPoint × UtxoEntry)) (st : State) :
    projInsRunes (stripW u st) = projInsRunes st := by
  simp only [projInsRunes, stripW, List.map_map]
  congr 1
  apply List.map_congr_left
  intro e _
  simp [projEntry, stripEntry, nonSatCharms_idem]

/-! ## The two counterexamples -/

theorem w1_sats_on : (stateAfter' (run (w1Cfg true) w1Chain)).map (fun st => (projInsRunes st).seq2sp) =
    some [(0, ⟨OutPoint.null, 1000⟩)] := by decide

theorem w1_sats_off : (stateAfter' (run (w1Cfg false) w1Chain)).map (fun st => (projInsRunes st).seq2sp) =
    some [(0, ⟨OutPoint.null, 0⟩)] := by decide

theorem stateAfter'_some {r : Outcome (State × List Event)} {α : Type} {f : State → α} {a : α}
    (h : (stateAfter' r).map f = some a) : ∃ st evs, r = .ok (st, evs) ∧ f st = a := by
  cases r with
  | ok p => obtain ⟨st, evs⟩ := p; exact ⟨st, evs, rfl, by simpa [stateAfter'] using h⟩
  | err e => simp [stateAfter'] at h
  | panic s => simp [stateAfter'] at h

/-- **C15 fails on chains with a non-zero first inscription height.**  `w1Chain` (first
inscription height 2) is a valid chain; the two configurations differ only in the sat index;
both runs succeed on the same blocks; the lost inscription `4i0` is at `null:1000` with the sat
index and at `null:0` without. -/
theorem c15_fails_nonzero_first_inscription_height :
    SameUpToOptionalIndexes (w1Cfg true) (w1Cfg false) ∧ Valid.validChain w1Chain = true ∧
    ∃ st st' evs evs', run (w1Cfg true) w1Chain = .ok (st, evs) ∧ run (w1Cfg false) w1Chain = .ok (st', evs') ∧
      (projInsRunes st).seq2sp = [(0, ⟨OutPoint.null, 1000⟩)] ∧
      (projInsRunes st').seq2sp = [(0, ⟨OutPoint.null, 0⟩)] ∧
      projInsRunes st ≠ projInsRunes st' := by
  refine ⟨⟨rfl, rfl, rfl, rfl, rfl⟩, by decide, ?_⟩
  obtain ⟨st, evs, h1, e1⟩ := stateAfter'_some w1_sats_on
  obtain ⟨st', evs', h2, e2⟩ := stateAfter'_some w1_sats_off
  refine ⟨st, st', evs, evs', h1, h2, e1, e2, ?_⟩
  intro heq
  rw [heq, e2] at e1
  exact absurd e1 (by decide)

theorem w2_with_sats : (stateAfter' (runSeen (w2Cfg true false) w2Chain)).map (fun st => (projInsRunes st).rune2id) =
    some [(6402364363415443603228541264231179223, ⟨1, 1⟩)] := by decide

theorem w2_with_addresses : (stateAfter' (runSeen (w2Cfg false true) w2Chain)).map (fun st => (projInsRunes st).rune2id) =
    some [(6402364363415443603228541264231179223, ⟨1, 1⟩)] := by decide

theorem w2_without : (stateAfter' (runSeen (w2Cfg false false) w2Chain)).map (fun st => (projInsRunes st).rune2id) =
    some [] := by decide

/-- **C15 fails where runes activate below the first inscription height** (signet).  The
configuration without sat and address index fetches only the header of block 1
(`fetchView`), so the reserved rune etched there exists only with the sat or address index. -/
theorem c15_fails_runes_below_first_index_height :
    SameUpToOptionalIndexes (w2Cfg true false) (w2Cfg false false) ∧ Valid.validChain w2Chain = true ∧
    ∃ st st' evs evs', runSeen (w2Cfg true false) w2Chain = .ok (st, evs) ∧
      runSeen (w2Cfg false false) w2Chain = .ok (st', evs') ∧
      (projInsRunes st).rune2id = [(6402364363415443603228541264231179223, ⟨1, 1⟩)] ∧
      (projInsRunes st').rune2id = [] ∧ projInsRunes st ≠ projInsRunes st' := by
  refine ⟨⟨rfl, rfl, rfl, rfl, rfl⟩, by decide, ?_⟩
  obtain ⟨st, evs, h1, e1⟩ := stateAfter'_some w2_with_sats
  obtain ⟨st', evs', h2, e2⟩ := stateAfter'_some w2_without
  refine ⟨st, st', evs, evs', h1, h2, e1, e2, ?_⟩
  intro heq
  rw [heq, e2] at e1
  exact absurd e1 (by decide)

/-! ## Non-vacuity -/

example : (w1Chain.map BlockShape).all id = true := by decide
example : (w1Cfg true).base = w1Cfg false := rfl
example : nonSatCharms (newCharms true true true false false true (some 0)) = 2 + 128 + 4096 + 1024 := by decide
example : newCharms true true true false false true (some 0) = 2 + 128 + 4096 + 1024 + (1 + 8192 + 2048) := by decide

end Ord.Index
