/-
C19 — inscription content is served faithfully and sandboxed.

Model: `Ord.Server.Content.respond : Config → View → Route → Request → Response`
(OrdModel/Server/Content.lean, Csp.lean), the layer/route table and the media table re-extracted from the
source on every run (Generated/ServerLayers.lean), the presence of the hidden-delegate repair read from the
source on every run (Generated/ContentFixes.lean → `Fixes.current`).

Vocabulary (definitions in OrdModel/Proofs/ContentRoutes.lean and OrdModel/Server/Content.lean):
* `route.isOther = false`   the route is one of the modelled content routes
  (`/content/<id>`, `/r/undelegated-content/<id>`, `/preview/<id>`, `/r/sat/<sat>/at/<i>/content`);
  `Route.other h` stands for every other route / the fallback / a rejected method with an arbitrary
  handler answer `h`.
* `route.resolve cfg view = some (id, delegating, fixed, cache)`  the inscription the route asks for, whether
  the handler follows its delegate, whether the handler tests the delegate against the hidden list (the
  repair flag of that handler), and whether the answer is cacheable.
* `Response.served`  ghost field: the inscription whose body bytes the answer was built from.

Only property statements here; helper lemmas are in OrdModel/Proofs/Content*.lean.
-/
import OrdModel.Proofs.ContentRoutes

namespace Ord.Server.Content
open Ord.Server.Csp

/-- the inscription whose body a route serves for the requested `id`: the delegate, if the handler
follows delegates and the inscription names one (one level only), else the inscription itself -/
def servedTarget (view : View) (delegating : Bool) (id : Id) : Id :=
  if delegating then ((view.ins id).bind (·.delegate)).getD id else id

/-! ## clause 1 — the body is the inscription's, or its delegate's; content type rule -/

/-- A response built from inscription bytes is a 200 whose body is exactly the body (as stored, or
brotli-decompressed) of the inscription the route resolves to — the delegate for `/content`, `/preview`
and `/r/sat/../content`, the inscription itself for `/r/undelegated-content` — and whose content type is
that inscription's stored type when it is a valid header value, else `application/octet-stream`. -/
theorem c19_body_faithful (cfg : Config) (view : View) (route : Route) (req : Request)
    (hr : route.isOther = false) (x : Id) (h : (respond cfg view route req).served = some x) :
    ∃ id delegating fixed cache i b,
      route.resolve cfg view = some (id, delegating, fixed, cache) ∧
      x = servedTarget view delegating id ∧ view.ins x = some i ∧ i.body = some b ∧
      (respond cfg view route req).status = 200 ∧
      (respond cfg view route req).contentType = i.ctHeader ∧
      ((respond cfg view route req).body = .raw b ∨
        ∃ d, view.brotli b = some d ∧ (respond cfg view route req).body = .raw d) := by
  obtain ⟨f1, f2, f3, f4, f5, f6⟩ := respond_fields cfg view route req
  rcases handler_spec cfg view route req hr with ⟨c, hn, _⟩ | ⟨id, dl, fx, ca, y, i, hres, hs, hb⟩
  · rw [f6, hn.served] at h; cases h
  · have hxy : y = x := by
      have := hb.served; rw [← f6, h] at this; exact (Option.some.inj this).symm
    subst hxy
    obtain ⟨b, hb1, hb2⟩ := hb.enc
    refine ⟨id, dl, fx, ca, i, b, hres, ?_, hs.2.1, hb1, f1.trans hb.status, f2.trans hb.ct, ?_⟩
    · unfold servedTarget
      have h3 := hs.2.2
      cases dl with
      | false => simpa using h3
      | true =>
        simp only [if_true] at h3 ⊢
        obtain ⟨ri, hri, hd | hd⟩ := h3
        · simp [hri, hd.1, hd.2]
        · simp [hri, hd.1]
    · rw [f5]
      split at hb2
      · exact Or.inl hb2.2
      · split at hb2
        · exact Or.inl hb2.2
        · obtain ⟨_, _, _, d, hd1, hd2⟩ := hb2
          exact Or.inr ⟨d, hd1, hd2⟩

/-- Conversely, raw bytes in a body always come from an inscription: no modelled route returns raw bytes
without a source. -/
theorem c19_raw_body_has_source (cfg : Config) (view : View) (route : Route) (req : Request)
    (hr : route.isOther = false) (bs : Bytes) (h : (respond cfg view route req).body = .raw bs) :
    ∃ x, (respond cfg view route req).served = some x := by
  obtain ⟨_, _, _, _, f5, f6⟩ := respond_fields cfg view route req
  rcases handler_spec cfg view route req hr with ⟨c, hn, _⟩ | ⟨id, dl, fx, ca, y, i, _, _, hb⟩
  · rw [f5] at h; exact absurd h (hn.noRaw bs)
  · exact ⟨y, f6.trans hb.served⟩

/-- the content-type rule spelled out -/
theorem c19_content_type_rule (i : Ins) :
    i.ctHeader =
      match i.contentType with
      | some t => if validUtf8 t = true ∧ validHeaderValue t = true then t else octetStream
      | none => octetStream := by
  unfold Ins.ctHeader
  cases i.contentType with
  | none => rfl
  | some t => simp [Bool.and_eq_true]

/-- Liveness: a visible inscription with a body, no delegate and no stored encoding is answered with
exactly that body (whenever the configured CSP origin is a valid header value). -/
theorem c19_plain_content_served (cfg : Config) (view : View) (req : Request) (id : Id) (i : Ins) (b : Bytes)
    (hh : cfg.hidden.contains id = false) (hi : view.ins id = some i) (hd : i.delegate = none)
    (hb : i.body = some b) (he : i.ceHeader = none) (ho : contentCsp cfg.origin ≠ none) :
    (respond cfg view (.content (some id)) req).status = 200 ∧
    (respond cfg view (.content (some id)) req).body = .raw b ∧
    (respond cfg view (.content (some id)) req).served = some id := by
  obtain ⟨f1, _, _, _, f5, f6⟩ := respond_fields cfg view (.content (some id)) req
  rw [f1, f5, f6]
  cases hc : contentCsp cfg.origin with
  | none => exact absurd hc ho
  | some c =>
    have hh' : id ∉ cfg.hidden := by simpa using hh
    simp [handler, contentInner, hh', hi, hd, contentResponse, hc, he, hb, orContentNotFound]

/-! ## clause 2 — the encoding table -/

/-- For an answer built from inscription `x`: no stored encoding ⇒ body as stored, no `Content-Encoding`;
stored encoding acceptable to the request ⇒ passed through with the body as stored; otherwise the answer
exists only because the encoding is brotli and `--decompress` is on, and the body is the decompressed body. -/
theorem c19_encoding_table (cfg : Config) (view : View) (route : Route) (req : Request)
    (hr : route.isOther = false) (x : Id) (i : Ins)
    (h : (respond cfg view route req).served = some x) (hi : view.ins x = some i) :
    ∃ b, i.body = some b ∧
      match i.ceHeader with
      | none => (respond cfg view route req).contentEncoding = none ∧ (respond cfg view route req).body = .raw b
      | some e =>
        if acceptable (aeString req.acceptEncoding) e then
          (respond cfg view route req).contentEncoding = some e ∧ (respond cfg view route req).body = .raw b
        else
          cfg.decompress = true ∧ e = brotliName ∧ (respond cfg view route req).contentEncoding = none ∧
            ∃ d, view.brotli b = some d ∧ (respond cfg view route req).body = .raw d := by
  obtain ⟨_, _, f3, _, f5, f6⟩ := respond_fields cfg view route req
  rcases handler_spec cfg view route req hr with ⟨c, hn, _⟩ | ⟨id, dl, fx, ca, y, j, _, hs, hb⟩
  · rw [f6, hn.served] at h; cases h
  · have hxy : y = x := by
      have := hb.served; rw [← f6, h] at this; exact (Option.some.inj this).symm
    subst hxy
    have hij : j = i := by
      have := hs.2.1; rw [hi] at this; exact (Option.some.inj this).symm
    subst hij
    rw [f3, f5]
    exact hb.enc

/-- A 406 is only ever given because some inscription the route could serve has a stored encoding that is
neither acceptable to the request nor decompressible under the configuration. -/
theorem c19_refusal_justified (cfg : Config) (view : View) (route : Route) (req : Request)
    (hr : route.isOther = false) (h : (respond cfg view route req).status = 406) :
    ∃ id delegating fixed cache i e, route.resolve cfg view = some (id, delegating, fixed, cache) ∧
      i ∈ candidates view delegating id ∧ i.ceHeader = some e ∧
      acceptable (aeString req.acceptEncoding) e = false ∧ ¬ (cfg.decompress = true ∧ e = brotliName) := by
  obtain ⟨f1, _⟩ := respond_fields cfg view route req
  rw [f1] at h
  rcases handler_spec cfg view route req hr with ⟨c, hn, hc⟩ | ⟨_, _, _, _, _, _, _, _, hb⟩
  · obtain ⟨i, hi, e, he⟩ := hn.refusal h
    obtain ⟨id, d, f, ca, h1, h2⟩ := hc i hi
    exact ⟨id, d, f, ca, i, e, h1, h2, he⟩
  · rw [hb.status] at h; cases h

/-- … and in that situation `content_response` does refuse (it never passes such a body through). -/
theorem c19_refusal_complete (cfg : Config) (view : View) (x : Id) (i : Ins) (req : Request) (cache : Bool)
    (e : Bytes) (he : i.ceHeader = some e) (ha : acceptable (aeString req.acceptEncoding) e = false)
    (hd : ¬ (cfg.decompress = true ∧ e = brotliName)) (ho : contentCsp cfg.origin ≠ none) :
    ∃ r, contentResponse cfg view x i req cache = some r ∧ r.status = 406 ∧ r.served = none := by
  cases hc : contentCsp cfg.origin with
  | none => exact absurd hc ho
  | some c =>
    have hd' : (cfg.decompress && e == brotliName) = false := by
      cases h1 : cfg.decompress <;> simp_all
    simp [contentResponse, hc, he, ha, hd', notAcceptable]

/-! ## clause 3 — every response carries a policy; content is sandboxed -/

/-- Every response of every route — the modelled content routes with any arguments, and any other route,
the fallback or a rejected method with an arbitrary handler answer (`Route.other h`) — carries at least
one Content-Security-Policy header. -/
theorem c19_every_response_has_csp (cfg : Config) (view : View) (route : Route) (req : Request) :
    (respond cfg view route req).csp ≠ [] :=
  applyLayers_csp_guaranteed outerLayers _ outerLayers_guaranteed

/-- The layer structure of `Server::run`, as re-extracted from the source text: every route and the
fallback of the served router is wrapped by the `SetResponseHeaderLayer::if_not_present(CSP)` layer, no
layer outside it overrides the header, and on the modelled response fields every route's layer stack acts
exactly like the stack `respond` applies. -/
theorem c19_default_csp_layer_wraps_every_route :
    ∃ es, servedEntries Generated.routerDefs Generated.servedVar = some es ∧ es ≠ [] ∧
      ∀ e ∈ es, cspGuaranteed e.layers = true ∧ cspPreserved e.layers = true ∧
        ∀ r, applyLayers e.layers r = applyLayers outerLayers r := by
  obtain ⟨es, fb, h1, _, h3, h4, h5⟩ := outerLayers_spec
  refine ⟨es, h1, List.ne_nil_of_mem h4, fun e he => ⟨(h5 e he).1, (h5 e he).2.1, fun r => ?_⟩⟩
  rw [applyLayers_relevant e.layers, applyLayers_relevant outerLayers, (h5 e he).2.2, h3]

/-- A policy set by a handler is what the client receives (the default is only a fallback). -/
theorem c19_handler_policy_kept (cfg : Config) (view : View) (route : Route) (req : Request)
    (h : (handler cfg view route req).csp ≠ []) :
    (respond cfg view route req).csp = (handler cfg view route req).csp :=
  respond_csp_of_handler cfg view route req h

/-- Sandboxing: an answer carrying inscription bytes carries exactly the content policies, and every
source expression in them is `'self'`, a path of the own / configured origin that is the content route or
a recursive endpoint, or one of `'unsafe-eval' 'unsafe-inline' data: blob:`. -/
theorem c19_content_csp_sandboxed (cfg : Config) (view : View) (route : Route) (req : Request)
    (hr : route.isOther = false) (x : Id) (h : (respond cfg view route req).served = some x) :
    (respond cfg view route req).csp = (contentPolicies cfg.origin).map (fun p => renderPolicy p.1 p.2) ∧
    ∀ p ∈ contentPolicies cfg.origin, ∀ s ∈ p.2,
      s = .self ∨ s ∈ scriptSources ∨ ∃ q ∈ recursivePaths, s = .path q := by
  obtain ⟨_, _, _, _, _, f6⟩ := respond_fields cfg view route req
  constructor
  · rcases handler_spec cfg view route req hr with ⟨c, hn, _⟩ | ⟨_, _, _, _, y, i, _, _, hb⟩
    · rw [f6, hn.served] at h; cases h
    · have hcsp := hb.csp
      have hne : (handler cfg view route req).csp ≠ [] := by
        intro h0
        rw [h0] at hcsp
        cases ho : cfg.origin <;> simp [contentCsp, ho] at hcsp
      rw [c19_handler_policy_kept cfg view route req hne]
      cases ho : cfg.origin with
      | none =>
        simp only [contentCsp, ho, Option.some.injEq] at hcsp
        simp [contentPolicies, ← hcsp]
      | some o =>
        simp only [contentCsp, ho] at hcsp
        split at hcsp
        · simp only [Option.some.injEq] at hcsp
          simp [contentPolicies, ← hcsp]
        · cases hcsp
  · intro p hp s hs
    cases ho : cfg.origin <;> simp only [contentPolicies, ho, List.mem_cons, List.mem_singleton, List.not_mem_nil, or_false] at hp
    · rcases hp with rfl | rfl
      · simp only [selfSources, List.mem_cons] at hs
        rcases hs with rfl | hs
        · exact Or.inl rfl
        · exact Or.inr (Or.inl hs)
      · simp only [pathSources, List.mem_append, List.mem_map] at hs
        rcases hs with ⟨q, hq, rfl⟩ | hs
        · exact Or.inr (Or.inr ⟨q, hq, rfl⟩)
        · exact Or.inr (Or.inl hs)
    · subst hp
      simp only [pathSources, List.mem_append, List.mem_map] at hs
      rcases hs with ⟨q, hq, rfl⟩ | hs
      · exact Or.inr (Or.inr ⟨q, hq, rfl⟩)
      · exact Or.inr (Or.inl hs)

/-- A preview page (any template naming the inscription) carries exactly the per-media policy of
`preview_content_security_policy`, never the permissive content policy. -/
theorem c19_preview_page_policy (cfg : Config) (id : Id) (m : Media) (k : String) (j : Id)
    (h : (previewPage cfg id m).body = .tmpl k (some j)) :
    ∃ v, previewCsp cfg.origin m = some v ∧ (previewPage cfg id m).csp = [v] ∧ j = id ∧
      (previewPage cfg id m).served = none := by
  unfold previewPage at h ⊢
  split
  · rename_i hn; simp [hn, internalError] at h
  · rename_i v hv
    simp only [hv] at h
    refine ⟨v, hv, rfl, ?_, rfl⟩
    cases m <;> simp at h <;> exact h.2.symm

/-! ## clause 4 — hidden content is never served -/

/-- witness: inscription 0 (body `hi`) is hidden, inscription 1 is visible and delegates to 0 -/
def witnessView : View :=
  { ins := fun id =>
      if id = 0 then some { body := some [104, 105], contentType := none, contentEncoding := none, delegate := none }
      else if id = 1 then some { body := none, contentType := none, contentEncoding := none, delegate := some 0 }
      else none
    sat := fun _ => []
    hasSatIndex := false
    brotli := fun _ => none }

def witnessCfg (fixes : Fixes) : Config := { origin := none, decompress := false, hidden := [0], fixes := fixes }

/-- FAILS on the unchanged code: `/content/<visible inscription delegating to a hidden one>` answers 200 with
the hidden inscription's body (`content_inner` tests only the requested id against the hidden list). -/
theorem c19_hidden_delegate_fails :
    ∃ (cfg : Config) (view : View) (id x : Id) (req : Request) (b : Bytes),
      cfg.fixes = Fixes.none ∧ x ∈ cfg.hidden ∧ (view.ins x).bind (·.body) = some b ∧
      (respond cfg view (.content (some id)) req).served = some x ∧
      (respond cfg view (.content (some id)) req).status = 200 ∧
      (respond cfg view (.content (some id)) req).body = .raw b := by
  refine ⟨witnessCfg Fixes.none, witnessView, 1, 0, ⟨none⟩, [104, 105], rfl, by simp [witnessCfg], rfl, ?_, ?_, ?_⟩ <;>
  · obtain ⟨f1, _, _, _, f5, f6⟩ := respond_fields (witnessCfg Fixes.none) witnessView (.content (some 1)) ⟨none⟩
    first | (rw [f6]; rfl) | (rw [f1]; rfl) | (rw [f5]; rfl)

/-- The defect is not confined to the witness: on the unchanged `content_inner`, for EVERY visible inscription
`id` that delegates to an inscription `x` with a body and no stored encoding, `/content/<id>` is built from `x`
— whether or not `x` is on the hidden list. -/
theorem c19_hidden_delegate_fails_general (cfg : Config) (view : View) (req : Request) (id x : Id) (ri ix : Ins)
    (b : Bytes) (hf : cfg.fixes.contentInner = false) (hid : cfg.hidden.contains id = false)
    (hri : view.ins id = some ri) (hd : ri.delegate = some x) (hix : view.ins x = some ix)
    (hb : ix.body = some b) (he : ix.ceHeader = none) (ho : cfg.origin = none)
    (_hx : cfg.hidden.contains x = true) :
    (respond cfg view (.content (some id)) req).served = some x ∧
    (respond cfg view (.content (some id)) req).body = .raw b := by
  obtain ⟨_, _, _, _, f5, f6⟩ := respond_fields cfg view (.content (some id)) req
  rw [f5, f6]
  have hid' : id ∉ cfg.hidden := by simpa using hid
  simp [handler, contentInner, hid', hri, hd, hf, hix, contentResponse, contentCsp, ho, he, hb, orContentNotFound]

/-- the same through the iframe arm of the unchanged `Server::preview` (e.g. a hidden `text/html` or
`image/svg+xml` inscription) -/
theorem c19_hidden_preview_fails_general (cfg : Config) (view : View) (req : Request) (id x : Id) (ri ix : Ins)
    (b : Bytes) (hf : cfg.fixes.preview = false) (hid : cfg.hidden.contains id = false)
    (hri : view.ins id = some ri) (hd : ri.delegate = some x) (hix : view.ins x = some ix)
    (hm : ix.media = .iframe) (hb : ix.body = some b) (he : ix.ceHeader = none) (ho : cfg.origin = none)
    (_hx : cfg.hidden.contains x = true) :
    (respond cfg view (.preview (some id)) req).served = some x ∧
    (respond cfg view (.preview (some id)) req).body = .raw b := by
  obtain ⟨_, _, _, _, f5, f6⟩ := respond_fields cfg view (.preview (some id)) req
  rw [f5, f6]
  have hid' : id ∉ cfg.hidden := by simpa using hid
  simp [handler, preview, hid', hri, hd, hf, hix, hm, contentResponse, contentCsp, ho, he, hb, orContentNotFound]

/-- What does hold on the unchanged code: a hidden inscription is never served *directly*; if a response is
built from a hidden inscription `x`, then a visible inscription that delegates to `x` was requested through a
delegate-following route whose handler does not test the delegate. -/
theorem c19_hidden_partial (cfg : Config) (view : View) (route : Route) (req : Request)
    (hr : route.isOther = false) (x : Id) (h : (respond cfg view route req).served = some x)
    (hx : cfg.hidden.contains x = true) :
    ∃ id cache ri, route.resolve cfg view = some (id, true, false, cache) ∧
      cfg.hidden.contains id = false ∧ view.ins id = some ri ∧ ri.delegate = some x := by
  obtain ⟨_, _, _, _, _, f6⟩ := respond_fields cfg view route req
  rcases handler_spec cfg view route req hr with ⟨c, hn, _⟩ | ⟨id, dl, fx, ca, y, i, hres, hs, hb⟩
  · rw [f6, hn.served] at h; cases h
  · have hxy : y = x := by
      have := hb.served; rw [← f6, h] at this; exact (Option.some.inj this).symm
    subst hxy
    obtain ⟨h1, _, h3⟩ := hs
    cases dl with
    | false =>
      simp only [Bool.false_eq_true, if_false] at h3
      subst h3; exact absurd hx h1
    | true =>
      simp only [if_true] at h3
      obtain ⟨ri, hri, hd | hd⟩ := h3
      · obtain ⟨_, rfl⟩ := hd; exact absurd hx h1
      · cases fx with
        | true => exact absurd hx (hd.2 rfl)
        | false => exact ⟨id, ca, ri, hres, by simpa using h1, hri, hd.1⟩

/-- FULL statement for the repaired handlers (notes/fix-C19-hidden-delegate.diff): no route builds a response
from a hidden inscription — neither directly nor through an inscription that delegates to it. -/
theorem c19_hidden_never_served_fixed (cfg : Config) (view : View) (route : Route) (req : Request)
    (hf : cfg.fixes = Fixes.all) (hr : route.isOther = false) (x : Id)
    (h : (respond cfg view route req).served = some x) : cfg.hidden.contains x = false := by
  cases hx : cfg.hidden.contains x with
  | false => rfl
  | true =>
    obtain ⟨id, cache, ri, hres, _⟩ := c19_hidden_partial cfg view route req hr x h hx
    exfalso
    cases route with
    | other _ => simp [Route.isOther] at hr
    | content a => cases a <;> simp [Route.resolve, hf, Fixes.all] at hres
    | undelegated a => cases a <;> simp [Route.resolve] at hres
    | preview a => cases a <;> simp [Route.resolve, hf, Fixes.all] at hres
    | satContent a =>
      cases a with
      | none => simp [Route.resolve] at hres
      | some p =>
        simp only [Route.resolve, hf, Fixes.all] at hres
        split at hres
        · cases hres
        · split at hres
          · cases hres
          · cases hs : satIndexed (view.sat p.1) p.2 <;> simp [hs] at hres

/-- … hence, as soon as the source carries the repair (`Fixes.current` is regenerated from the source text on
every run), the property holds of the code as it is, with no further edit here. -/
theorem c19_hidden_never_served_current (hcur : Fixes.current = Fixes.all)
    (origin : Option String) (decompress : Bool) (hidden : List Id)
    (view : View) (route : Route) (req : Request) (hr : route.isOther = false) (x : Id)
    (h : (respond { origin, decompress, hidden, fixes := Fixes.current } view route req).served = some x) :
    hidden.contains x = false :=
  c19_hidden_never_served_fixed { origin, decompress, hidden, fixes := Fixes.current } view route req hcur hr x h

/-- and with hidden and visible bodies distinct, no modelled route returns the bytes of a hidden body -/
theorem c19_hidden_body_never_returned_fixed (cfg : Config) (view : View) (route : Route) (req : Request)
    (hf : cfg.fixes = Fixes.all) (hr : route.isOther = false) (x : Id) (ix : Ins) (bx : Bytes)
    (hx : cfg.hidden.contains x = true) (hix : view.ins x = some ix) (hbx : ix.body = some bx)
    (hdistinct : ∀ y iy b, cfg.hidden.contains y = false → view.ins y = some iy → iy.body = some b →
      b ≠ bx ∧ view.brotli b ≠ some bx) :
    (respond cfg view route req).body ≠ .raw bx := by
  intro hbody
  obtain ⟨y, hy⟩ := c19_raw_body_has_source cfg view route req hr bx hbody
  have hvis := c19_hidden_never_served_fixed cfg view route req hf hr y hy
  obtain ⟨_, _, _, _, iy, b, _, _, hiy, hb, _, _, hbody'⟩ := c19_body_faithful cfg view route req hr y hy
  obtain ⟨h1, h2⟩ := hdistinct y iy b hvis hiy hb
  rcases hbody' with h' | ⟨d, hd, h'⟩
  · rw [hbody] at h'; exact h1 (Body.raw.inj h').symm
  · rw [hbody] at h'; rw [← Body.raw.inj h'] at hd; exact h2 hd

/-! ## clause 5 — content addressed from the end of a sat's list is never immutable -/

/-- `/r/sat/<sat>/at/<i>/content` with `i < 0`: no answer is marked immutable; an answer carrying
inscription bytes is `no-store`. -/
theorem c19_negative_index_not_immutable (cfg : Config) (view : View) (req : Request) (sat : Nat) (index : Int)
    (hneg : index < 0) :
    (respond cfg view (.satContent (some (sat, index))) req).cacheControl ≠ some .immutable ∧
    ((respond cfg view (.satContent (some (sat, index))) req).served ≠ none →
      (respond cfg view (.satContent (some (sat, index))) req).cacheControl = some .noStore) := by
  obtain ⟨_, _, _, f4, _, f6⟩ := respond_fields cfg view (.satContent (some (sat, index))) req
  rw [f4, f6]
  rcases handler_spec cfg view (.satContent (some (sat, index))) req rfl with
    ⟨c, hn, _⟩ | ⟨id, dl, fx, ca, y, i, hres, _, hb⟩
  · exact ⟨hn.notImmutable, fun h => absurd hn.served h⟩
  · have hca : ca = false := by
      simp only [Route.resolve] at hres
      split at hres
      · cases hres
      · split at hres
        · cases hres
        · cases hs : satIndexed (view.sat sat) index <;> simp [hs] at hres
          have : ¬ (0 ≤ index) := by omega
          simp [this] at hres
          exact hres.2.2.2
    subst hca
    have := hb.cc
    simp at this
    exact ⟨by rw [this]; simp, fun _ => this⟩

/-- and for `i ≥ 0` (the inscription at a fixed position never changes) the answer is immutable -/
theorem c19_nonnegative_index_immutable (cfg : Config) (view : View) (req : Request) (sat : Nat) (index : Int)
    (hpos : 0 ≤ index) (h : (respond cfg view (.satContent (some (sat, index))) req).served ≠ none) :
    (respond cfg view (.satContent (some (sat, index))) req).cacheControl = some .immutable := by
  obtain ⟨_, _, _, f4, _, f6⟩ := respond_fields cfg view (.satContent (some (sat, index))) req
  rw [f4]; rw [f6] at h
  rcases handler_spec cfg view (.satContent (some (sat, index))) req rfl with
    ⟨c, hn, _⟩ | ⟨id, dl, fx, ca, y, i, hres, _, hb⟩
  · exact absurd hn.served h
  · have hca : ca = true := by
      simp only [Route.resolve] at hres
      split at hres
      · cases hres
      · split at hres
        · cases hres
        · cases hs : satIndexed (view.sat sat) index <;> simp [hs] at hres
          simp [hpos] at hres
          exact hres.2.2.2
    subst hca
    simpa using hb.cc

/-! ## non-vacuity: the hypotheses above are satisfiable on non-trivial values -/

/-- an inscription with a stored `br` encoding and one without, on one sat -/
def exampleView : View :=
  { ins := fun id =>
      if id = 0 then some { body := some [104, 105], contentType := none, contentEncoding := none, delegate := none }
      else if id = 1 then some { body := none, contentType := none, contentEncoding := none, delegate := some 0 }
      else if id = 2 then some { body := some [7, 7], contentType := none, contentEncoding := none, delegate := none }
      else none
    sat := fun n => if n = 5000000000 then [2, 1] else []
    hasSatIndex := true
    brotli := fun _ => none }

def exampleCfg (fixes : Fixes) (hidden : List Id) : Config :=
  { origin := none, decompress := false, hidden := hidden, fixes := fixes }

private theorem ex_fields (cfg : Config) (route : Route) :
    (respond cfg exampleView route ⟨none⟩).served = (handler cfg exampleView route ⟨none⟩).served ∧
    (respond cfg exampleView route ⟨none⟩).body = (handler cfg exampleView route ⟨none⟩).body ∧
    (respond cfg exampleView route ⟨none⟩).status = (handler cfg exampleView route ⟨none⟩).status ∧
    (respond cfg exampleView route ⟨none⟩).cacheControl = (handler cfg exampleView route ⟨none⟩).cacheControl := by
  obtain ⟨f1, _, _, f4, f5, f6⟩ := respond_fields cfg exampleView route ⟨none⟩
  exact ⟨f6, f5, f1, f4⟩

-- c19_body_faithful / c19_encoding_table / c19_content_csp_sandboxed: `/content/1` is served from the delegate 0
example : (respond (exampleCfg Fixes.none []) exampleView (.content (some 1)) ⟨none⟩).served = some 0 := by
  rw [(ex_fields _ _).1]; rfl
example : (respond (exampleCfg Fixes.none []) exampleView (.content (some 1)) ⟨none⟩).body = .raw [104, 105] := by
  rw [(ex_fields _ _).2.1]; rfl
example : servedTarget exampleView true 1 = 0 := rfl
-- `/r/undelegated-content/1` is not: inscription 1 has no body of its own
example : (respond (exampleCfg Fixes.none []) exampleView (.undelegated (some 1)) ⟨none⟩).status = 404 := by
  rw [(ex_fields _ _).2.2.1]; rfl
-- c19_hidden_partial: its hypotheses hold on the unchanged model …
example : (respond (exampleCfg Fixes.none [0]) exampleView (.content (some 1)) ⟨none⟩).served = some 0 := by
  rw [(ex_fields _ _).1]; rfl
-- … c19_hidden_never_served_fixed: and the repaired model answers the same request without the body
example : (respond (exampleCfg Fixes.all [0]) exampleView (.content (some 1)) ⟨none⟩).served = none := by
  rw [(ex_fields _ _).1]; rfl
example : (respond (exampleCfg Fixes.all [0]) exampleView (.content (some 1)) ⟨none⟩).body = .tmpl "unknown" none := by
  rw [(ex_fields _ _).2.1]; rfl
-- while a visible inscription is still served by the repaired model (the fix does not hide everything)
example : (respond (exampleCfg Fixes.all [0]) exampleView (.content (some 2)) ⟨none⟩).served = some 2 := by
  rw [(ex_fields _ _).1]; rfl
-- c19_negative_index_not_immutable / c19_nonnegative_index_immutable: newest inscription on the sat is 1 → 0
example : (respond (exampleCfg Fixes.none []) exampleView (.satContent (some (5000000000, -1))) ⟨none⟩).served = some 0 := by
  rw [(ex_fields _ _).1]; rfl
example : (respond (exampleCfg Fixes.none []) exampleView (.satContent (some (5000000000, -1))) ⟨none⟩).cacheControl
    = some .noStore := by
  rw [(ex_fields _ _).2.2.2]; rfl
example : (respond (exampleCfg Fixes.none []) exampleView (.satContent (some (5000000000, 0))) ⟨none⟩).cacheControl
    = some .immutable := by
  rw [(ex_fields _ _).2.2.2]; rfl
-- c19_refusal_complete: `gzip` stored, nothing accepted
example : acceptable (aeString none) [103, 122, 105, 112] = false := by decide
example : acceptable (aeString (some [103, 122, 105, 112, 44, 32, 98, 114])) [98, 114] = true := by decide
-- c19_every_response_has_csp covers arbitrary handler answers: a bare 404 gets the default policy
example : (respond (exampleCfg Fixes.none []) exampleView (.other (notFound [])) ⟨none⟩).csp ≠ [] :=
  c19_every_response_has_csp _ _ _ _
-- the repair flags currently in the source (regenerated): either none or both
example : Fixes.current = Fixes.none ∨ Fixes.current = Fixes.all := by decide

end Ord.Server.Content
