import OrdModel.Proofs.IndexRunesupplyEdicts
import OrdModel.Proofs.IndexRunesupplySpec
/-!
# C09 — Edicts, pointers and cenotaphs allocate runes exactly as the protocol describes

`Spec.allocate` (OrdModel/Index/RuneSpec.lean) is written from docs/src/runes/specification.md;
the model of the code is `indexRunesTx` (OrdModel/Index/Runes.lean).  Property theorems only;
helper lemmas are in `OrdModel/Proofs/IndexRunesupply*.lean`.
-/
namespace Ord.Index.C09
open Ord.Index Ord.Index.Spec Ord.Index.RS Ord.Outcome

/-- **The edict loop refines the specification.**  Whenever the model's edict loop returns
(i.e. does not hit a `Lot` overflow/underflow panic — excluded separately by C08/C16), then for
EVERY rune id `r` the numbers the model holds for `r` (unallocated, and allocated to each output)
are those of the documented per-rune flow `Spec.flow` started from the numbers before the loop:
edicts in order, edicts naming other runes do not touch `r`, `0:0` names the etched rune.
No bound on the number of edicts, outputs or runes. -/
theorem c09_edicts_refine (tx : Tx) (etched : Option RuneId) (edicts : List Edict)
    (un : Balances) (alloc : Allocated) (un' : Balances) (alloc' : Allocated)
    (hok : applyEdicts tx etched edicts un alloc = .ok (un', alloc'))
    (hgood : Good un alloc) (hlen : alloc.length = tx.outputs.length) (r : RuneId) :
    absFlow un' alloc' r = flow (outsOf tx) etched r edicts (absFlow un alloc r) :=
  (applyEdicts_ok tx etched edicts un alloc un' alloc' hok hgood hlen).2.2 r

example : ∃ tx etched edicts un alloc un' alloc', applyEdicts tx etched edicts un alloc = .ok (un', alloc')
    ∧ Good un alloc ∧ alloc.length = tx.outputs.length ∧ (absFlow un' alloc' ⟨2, 1⟩).out 1 = 4 :=
  ⟨⟨1, [], [⟨0, false, []⟩, ⟨0, false, []⟩, ⟨0, true, []⟩], [], none, 0⟩, none,
   [⟨⟨2, 1⟩, 0, 3⟩], [(⟨2, 1⟩, 9)], [[], [], []], _, _, rfl,
   ⟨by decide, fun v => by
      match v with
      | 0 => decide
      | 1 => decide
      | 2 => decide
      | n + 3 => simp [rowAt, keys]⟩, rfl, by decide⟩

/-- Rule "each edict … capped by the unallocated balance; amount zero = all remaining" for an
edict naming a single output. -/
theorem c09_rule_single_output (outs : List Bool) (f : Flow) (amount output : Nat) (h : output < outs.length) :
    f.edict outs amount output = f.give output (if amount = 0 then f.un else min amount f.un) := by
  unfold Flow.edict
  rw [if_neg (by omega), if_pos h]

/-- Rule "`0:0` means the rune etched in this transaction; ignored if none". -/
theorem c09_rule_id_zero (outs : List Bool) (r : RuneId) (ed : Edict) (rest : List Edict) (f : Flow)
    (hid : ed.id = ⟨0, 0⟩) :
    flow outs none r (ed :: rest) f = flow outs none r rest f ∧
    ∀ e, flow outs (some e) e (ed :: rest) f = flow outs (some e) e rest (f.edict outs ed.amount ed.output) := by
  constructor
  · simp [flow, edictRune, hid]
  · intro e; simp [flow, edictRune, hid]

/-- Rule "an edict that finds nothing unallocated does nothing" (so a rune that is not among the
inputs, mint or premine cannot be created by an edict). -/
theorem c09_rule_nothing_from_nothing (outs : List Bool) (f : Flow) (amount output : Nat) (h : f.un = 0) :
    f.edict outs amount output = f := edict_un_zero outs f amount output h

/-- Rule "allocations to OP_RETURN outputs are burned": no OP_RETURN output holds anything. -/
theorem c09_rule_opreturn (outs : List Bool) (msg : Message) (etched : Option RuneId) (r : RuneId) (u0 v : Nat)
    (hv : opReturnAt outs v = true) : (Spec.allocate outs msg etched r u0).out v = 0 :=
  allocate_opreturn_zero outs msg etched r u0 v hv

/-- Rule "a cenotaph burns everything (inputs + mint) and allocates nothing". -/
theorem c09_rule_cenotaph (outs : List Bool) (etched : Option RuneId) (r : RuneId) (u0 : Nat) :
    (Spec.allocate outs .cenotaph etched r u0).burned = u0 ∧ ∀ v, (Spec.allocate outs .cenotaph etched r u0).out v = 0 :=
  allocate_cenotaph outs etched r u0

/-- The specification never creates or loses a unit: outputs + burned = unallocated before. -/
theorem c09_spec_conserves (outs : List Bool) (msg : Message) (etched : Option RuneId) (r : RuneId) (u0 : Nat)
    (hwf : WellFormed outs.length msg) :
    sumFrom (Spec.allocate outs msg etched r u0).out 0 outs.length + (Spec.allocate outs msg etched r u0).burned = u0 :=
  allocate_conserves outs msg etched r u0 hwf

example : WellFormed 3 (.runestone [⟨⟨2, 1⟩, 0, 3⟩] (some 2)) := by
  refine ⟨?_, ?_⟩
  · intro ed h; simp at h; subst h; decide
  · intro p h; simp at h; omega

end Ord.Index.C09
