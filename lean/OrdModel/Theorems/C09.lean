import OrdModel.Proofs.IndexRunesupplyTx
/-!
# C09 — Edicts, pointers and cenotaphs allocate runes exactly as the protocol describes

`Spec.allocate` (OrdModel/Index/RuneSpec.lean) is written from docs/src/runes/specification.md;
the model of the code is `indexRunesTx` (OrdModel/Index/Runes.lean).  Property theorems only;
helper lemmas are in `OrdModel/Proofs/IndexRunesupply*.lean`.
-/
namespace Ord.Index.C09
open Ord.Index Ord.Index.Spec Ord.Index.RS Ord.Outcome

/-- **The edict loop refines the specification.**  Whenever the model's edict loop returns
(i.e. does not hit a `Lot` overflow/underflow panic — excluded separately by C08/C16), then for
EVERY rune id `r` the numbers the model holds for `r` (unallocated, and allocated to each output)
are those of the documented per-rune flow `Spec.flow` started from the numbers before the loop:
edicts in order, edicts naming other runes do not touch `r`, `0:0` names the etched rune.
No bound on the number of edicts, outputs or runes. -/
theorem c09_edicts_refine (tx : Tx) (etched : Option RuneId) (edicts : List Edict)
    (un : Balances) (alloc : Allocated) (un' : Balances) (alloc' : Allocated)
    (hok : applyEdicts tx etched edicts un alloc = .ok (un', alloc'))
    (hgood : Good un alloc) (hlen : alloc.length = tx.outputs.length) (r : RuneId) :
    absFlow un' alloc' r = flow (outsOf tx) etched r edicts (absFlow un alloc r) :=
  (applyEdicts_ok tx etched edicts un alloc un' alloc' hok hgood hlen).2.2 r

example : ∃ tx etched edicts un alloc un' alloc', applyEdicts tx etched edicts un alloc = .ok (un', alloc')
    ∧ Good un alloc ∧ alloc.length = tx.outputs.length ∧ (absFlow un' alloc' ⟨2, 1⟩).out 1 = 4 :=
  ⟨⟨1, [], [⟨0, false, []⟩, ⟨0, false, []⟩, ⟨0, true, []⟩], [], none, 0⟩, none,
   [⟨⟨2, 1⟩, 0, 3⟩], [(⟨2, 1⟩, 9)], [[], [], []], _, _, rfl,
   ⟨by decide, fun v => by
      match v with
      | 0 => decide
      | 1 => decide
      | 2 => decide
      | n + 3 => simp [rowAt, keys]⟩, rfl, by decide⟩

/-- **C09, one transaction: the model of `index_runes` refines the documented allocation.**
For every index state, block, transaction (any inputs, outputs, OP_RETURN positions, artifact) and
block-burn accumulator: whenever `indexRunesTx` returns (no `Lot` overflow panic; a malformed
runestone — edict output > n, pointer ≥ n — is a panic branch and therefore excluded too), then
for EVERY rune id `r`
* each output `v` of the transaction holds exactly `(Spec.allocate …).out v` of `r`
  (a missing row = 0; equality of maps, i.e. up to association-list order), and
* the block's burn accumulator grows by exactly `(Spec.allocate …).burned`,
where `Spec.allocate` is applied to the output kinds, the protocol message of the artifact, the id
of the rune etched here (model's `etched`, C11) and
`u0 = inputs' balances of r + open mint (model's `mint`, C10) + premine (0 in a cenotaph)`
(`txSpec`, `txUnallocated`).  Hypotheses: the transaction's txid has no rows yet (no duplicate
txid), and the accumulator has no repeated id (it is only built by `addAllTo`; re-established
by the conclusion). -/
theorem c09_refines (st : State) (blk : Block) (i : Nat) (tx : Tx) (bb : Balances)
    (st' : State) (bb' : Balances) (evs : List Event)
    (hok : indexRunesTx st blk i tx bb = .ok (st', bb', evs))
    (hfresh : ∀ v, AL.get st.balances ⟨tx.txid, v⟩ = none) (hbb : (keys bb).Nodup) (r : RuneId) :
    (∀ v, v < tx.outputs.length →
      lk ((AL.get st'.balances ⟨tx.txid, v⟩).getD []) r = (txSpec st blk i tx r).out v) ∧
    lk bb' r = lk bb r + (txSpec st blk i tx r).burned ∧ (keys bb').Nodup :=
  indexRunesTx_refines hok hfresh hbb r

/-- non-vacuity: a transfer of 9 units of rune 2:1 with the edict "all to every output" over two
eligible outputs and one OP_RETURN; the model returns and the outputs hold 5 and 4. -/
example :
    let tx : Tx := ⟨7, [⟨⟨5, 0⟩, false, none, []⟩], [⟨0, false, []⟩, ⟨0, true, []⟩, ⟨0, false, []⟩], [],
      some (.runestone [⟨⟨2, 1⟩, 0, 3⟩] none none none), 0⟩
    let st : State := { balances := [(⟨5, 0⟩, [(⟨2, 1⟩, 9)])] }
    ∃ st' bb' evs, indexRunesTx st ⟨3, 0, 0, 0, []⟩ 1 tx [] = .ok (st', bb', evs) ∧
      (txSpec st ⟨3, 0, 0, 0, []⟩ 1 tx ⟨2, 1⟩).out 0 = 5 ∧ (txSpec st ⟨3, 0, 0, 0, []⟩ 1 tx ⟨2, 1⟩).out 2 = 4 :=
  ⟨_, _, _, rfl, by decide, by decide⟩

/-- Rule "each edict … capped by the unallocated balance; amount zero = all remaining" for an
edict naming a single output. -/
theorem c09_rule_single_output (outs : List Bool) (f : Flow) (amount output : Nat) (h : output < outs.length) :
    f.edict outs amount output = f.give output (if amount = 0 then f.un else min amount f.un) := by
  unfold Flow.edict
  rw [if_neg (by omega), if_pos h]

/-- Rule "`0:0` means the rune etched in this transaction; ignored if none". -/
theorem c09_rule_id_zero (outs : List Bool) (r : RuneId) (ed : Edict) (rest : List Edict) (f : Flow)
    (hid : ed.id = ⟨0, 0⟩) :
    flow outs none r (ed :: rest) f = flow outs none r rest f ∧
    ∀ e, flow outs (some e) e (ed :: rest) f = flow outs (some e) e rest (f.edict outs ed.amount ed.output) := by
  constructor
  · simp [flow, edictRune, hid]
  · intro e; simp [flow, edictRune, hid]

/-- Rule "an edict that finds nothing unallocated does nothing" (so a rune that is not among the
inputs, mint or premine cannot be created by an edict). -/
theorem c09_rule_nothing_from_nothing (outs : List Bool) (f : Flow) (amount output : Nat) (h : f.un = 0) :
    f.edict outs amount output = f := edict_un_zero outs f amount output h

/-- Rule "allocations to OP_RETURN outputs are burned": no OP_RETURN output holds anything. -/
theorem c09_rule_opreturn (outs : List Bool) (msg : Message) (etched : Option RuneId) (r : RuneId) (u0 v : Nat)
    (hv : opReturnAt outs v = true) : (Spec.allocate outs msg etched r u0).out v = 0 :=
  allocate_opreturn_zero outs msg etched r u0 v hv

/-- Rule "a cenotaph burns everything (inputs + mint) and allocates nothing". -/
theorem c09_rule_cenotaph (outs : List Bool) (etched : Option RuneId) (r : RuneId) (u0 : Nat) :
    (Spec.allocate outs .cenotaph etched r u0).burned = u0 ∧ ∀ v, (Spec.allocate outs .cenotaph etched r u0).out v = 0 :=
  allocate_cenotaph outs etched r u0

/-- The specification never creates or loses a unit: outputs + burned = unallocated before. -/
theorem c09_spec_conserves (outs : List Bool) (msg : Message) (etched : Option RuneId) (r : RuneId) (u0 : Nat)
    (hwf : WellFormed outs.length msg) :
    sumFrom (Spec.allocate outs msg etched r u0).out 0 outs.length + (Spec.allocate outs msg etched r u0).burned = u0 :=
  allocate_conserves outs msg etched r u0 hwf

example : WellFormed 3 (.runestone [⟨⟨2, 1⟩, 0, 3⟩] (some 2)) := by
  refine ⟨?_, ?_⟩
  · intro ed h; simp at h; subst h; decide
  · intro p h; simp at h; omega

end Ord.Index.C09
