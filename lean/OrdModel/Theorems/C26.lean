import OrdModel.Proofs.Varint
/-!
# C26 — Varints round-trip and decoding is exact

Property theorems only; helper lemmas are in `OrdModel/Proofs/Varint.lean`, the model in
`OrdModel/Codec/Varint.lean`.
-/
namespace Ord.Varint

/-- Every 128-bit integer encodes to a byte string that decodes (whatever follows it) to the
same integer with the same length. -/
theorem c26_decode_encode (n : Nat) (hn : n < 2 ^ 128) (rest : List UInt8) :
    decode (encode n ++ rest) = .ok (n, (encode n).length) := by
  have := decodeAux_encode n 0 0 rest (by omega) (by simpa using hn)
  simpa [decode] using this

/-- A 128-bit integer never needs more than 19 bytes. -/
theorem c26_encode_length (n : Nat) (hn : n < 2 ^ 128) :
    1 ≤ (encode n).length ∧ (encode n).length ≤ 19 := by
  refine ⟨?_, encode_length_le_of_lt 19 n (by omega) (by
    have : (2:Nat) ^ 128 ≤ 128 ^ 19 := by decide
    omega)⟩
  have := encode_ne_nil n
  cases h : encode n with
  | nil => exact absurd h this
  | cons _ _ => simp

/-- Decoding is exact: an accepted value is the integer formed by the first terminated group
(`k` bytes, the first `k-1` with the continuation bit, byte `k-1` without), it fits in 128 bits,
and nothing is truncated. -/
theorem c26_decode_ok (bs : List UInt8) (v k : Nat) (h : decode bs = .ok (v, k)) :
    ∃ hk : 0 < k ∧ k ≤ bs.length, k ≤ 19 ∧
      (∀ j (hj : j < k - 1), 128 ≤ (bs[j]'(by omega)).toNat) ∧
      (bs[k - 1]'(by omega)).toNat < 128 ∧
      v = payload (bs.take k) ∧ v < 2 ^ 128 := by
  obtain ⟨m, hm, hk, hk19, hcont, hterm, h4, hv⟩ := decodeAux_ok bs 0 0 v k h
  have hkm : k = m + 1 := by omega
  subst hkm
  refine ⟨⟨by omega, by omega⟩, hk19, by simpa using hcont, by simpa using hterm, by simpa using hv, ?_⟩
  have hv' : v = payload (bs.take (m + 1)) := by simpa using hv
  -- split the last byte off to use the `< 4` bound on byte 18
  have hlt := payload_lt (bs.take (m + 1))
  have hlen : (bs.take (m + 1)).length = m + 1 := by simp; omega
  rw [hlen] at hlt
  rcases Nat.lt_or_ge m 18 with h18 | h18
  · have : (128:Nat) ^ (m + 1) ≤ 128 ^ 18 := Nat.pow_le_pow_right (by omega) (by omega)
    have : (128:Nat) ^ 18 < 2 ^ 128 := by decide
    omega
  · have hm18 : m = 18 := by omega
    subst hm18
    have hb4 := h4 rfl
    have hsplit : bs.take 19 = bs.take 18 ++ [bs[18]] := by
      rw [List.take_succ_eq_append_getElem hm]
    have hpay : ∀ (l : List UInt8) (b : UInt8), payload (l ++ [b]) = payload l + b.toNat % 128 * 128 ^ l.length := by
      intro l b
      induction l with
      | nil => simp [payload]
      | cons a l ih =>
        simp only [List.cons_append, payload, ih, List.length_cons, Nat.pow_succ]
        generalize 128 ^ l.length = q
        generalize payload l = P
        generalize b.toNat % 128 = r
        rw [Nat.mul_add, Nat.mul_left_comm 128 r, Nat.mul_comm q 128]; omega
    rw [hv', hsplit, hpay]
    have h1 := payload_lt (bs.take 18)
    have hl : (bs.take 18).length = 18 := by simp; omega
    rw [hl] at h1 ⊢
    have : bs[18].toNat % 128 ≤ 3 := by
      have := Nat.mod_le bs[18].toNat 128; omega
    have : bs[18].toNat % 128 * 128 ^ 18 ≤ 3 * 128 ^ 18 := Nat.mul_le_mul_right _ this
    have : (128:Nat) ^ 18 + 3 * 128 ^ 18 = 2 ^ 128 := by decide
    omega

/-- Conversely, any terminated group that fits is accepted with exactly that value. -/
theorem c26_decode_complete (bs : List UInt8) (m : Nat) (hm : m < bs.length) (h18 : m ≤ 18)
    (hcont : ∀ j (hj : j < m), 128 ≤ (bs[j]'(by omega)).toNat) (hterm : (bs[m]).toNat < 128)
    (h4 : m = 18 → (bs[m]).toNat < 4) :
    decode bs = .ok (payload (bs.take (m + 1)), m + 1) := by
  have := decodeAux_of_terminated bs 0 0 m hm (by omega) hcont hterm (by simpa using h4)
  simpa [decode] using this

/-- The three errors are raised only in the documented situations. -/
theorem c26_decode_errors (bs : List UInt8) (e : Err) (h : decode bs = .error e) :
    match e with
    | .unterminated => bs.length ≤ 19 ∧ ∀ b ∈ bs, 128 ≤ b.toNat
    | .overlong => 20 ≤ bs.length ∧ ∀ j (hj : j < bs.length), j < 19 → 128 ≤ (bs[j]).toNat
    | .overflow => ∃ hlen : 18 < bs.length, 4 ≤ (bs[18]).toNat % 128 ∧
        ∀ j (hj : j < 18), 128 ≤ (bs[j]'(by omega)).toNat := by
  cases e with
  | unterminated => simpa using decodeAux_unterminated bs 0 0 (by omega) h
  | overlong =>
    have := decodeAux_overlong bs 0 0 (by omega) h
    refine ⟨by omega, ?_⟩
    intro j hj hlt; exact this.2 j hj (by omega)
  | overflow =>
    obtain ⟨hlen, _, h4, hcont⟩ := decodeAux_overflow bs 0 0 h
    exact ⟨by simpa using hlen, by simpa using h4, by simpa using hcont⟩

/-! Non-vacuity: concrete inputs meeting the hypotheses / exercising each outcome. -/
example : encode 300 = [0xAC, 0x02] := by
  rw [encode]; simp; rw [encode]; simp
example : decode ([0xAC, 0x02] ++ [7]) = .ok (300, 2) := by simp [decode, decodeAux]
example : decode [0x80, 0x00] = .ok (0, 2) := by simp [decode, decodeAux]   -- non-canonical, still exact
example : decode [0x80] = .error .unterminated := by simp [decode, decodeAux]
example : decode (List.replicate 18 0x80 ++ [0x04]) = .error .overflow := by
  simp [decode, decodeAux, List.replicate]
example : decode (List.replicate 19 0x80 ++ [0x00]) = .error .overlong := by
  simp [decode, decodeAux, List.replicate]

end Ord.Varint
