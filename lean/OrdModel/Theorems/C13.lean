import OrdModel.Proofs.StoreProtocol
/-!
# C13 — A crash at any point leaves a consistent index that resumes correctly

Model: `OrdModel/Store/Protocol.lean`.  redb's contract (trusted, DESIGN §4): a write
transaction that is not committed leaves no trace; a committed one replaces the durable state
atomically.  A crash therefore loses exactly the uncommitted work of `update_index`, and —
inside `commit` / `update_savepoints` / `handle_reorg`, which consist of several committed
transactions — may leave *any* intermediate savepoint set and `LastSavepointHeight`.  The
theorems quantify over all of those at once: the crash point is "the loop is cut after any
number of steps" (`fuel`), and the resumed database has an arbitrary savepoint list and
statistic.
-/
namespace Ord.Store

/-- Dying after any number of steps of the indexing loop leaves the durable state at a fully
committed height of the chain being indexed: the committed block list is a prefix of the
node's chain (uncommitted blocks are gone, committed ones are complete). -/
theorem c13_crash_leaves_committed_prefix (s : Settings) (hd : Nat) (node : List Nat) (steps : Nat)
    (db : Db) (hp : IsPre db.cur.chain node) :
    ∃ db' evs, updateIndex s hd node steps db db.cur.chain 0 [] = .done db' evs ∧ IsPre db'.cur.chain node :=
  updateIndex_any_fuel_prefix s hd node steps db db.cur.chain 0 [] hp (IsPre.refl _)

/-- Reopening and continuing from any such state — whatever savepoints and bookkeeping the
crash left behind — indexes exactly the node's chain, i.e. the same content as an
uninterrupted run (content is a function of the indexed block list: C12). -/
theorem c13_resume_completes (s : Settings) (hd : Nat) (node : List Nat) (rounds : Nat)
    (chain : List Nat) (savepoints : List Tables) (lastSp : Nat) (hp : IsPre chain node) :
    ∃ db' evs, update s hd node (rounds + 1) ⟨⟨chain, lastSp⟩, savepoints⟩ [] = (db', evs, .ok) ∧ db'.cur.chain = node :=
  update_of_prefix s hd node rounds ⟨⟨chain, lastSp⟩, savepoints⟩ [] hp

/-- crash, then resume: the two composed -/
theorem c13_crash_then_resume (s : Settings) (hd : Nat) (node : List Nat) (steps rounds : Nat)
    (db : Db) (hp : IsPre db.cur.chain node) :
    ∃ dbc evs, updateIndex s hd node steps db db.cur.chain 0 [] = .done dbc evs ∧
      ∀ (savepoints : List Tables) (lastSp : Nat),
        ∃ db' evs', update s hd node (rounds + 1) ⟨⟨dbc.cur.chain, lastSp⟩, savepoints⟩ [] = (db', evs', .ok) ∧
          db'.cur.chain = node := by
  obtain ⟨dbc, evs, h1, h2⟩ := c13_crash_leaves_committed_prefix s hd node steps db hp
  exact ⟨dbc, evs, h1, fun sps l => c13_resume_completes s hd node rounds dbc.cur.chain sps l h2⟩

/-- a crash during a reorg rollback: `handle_reorg` is one committed transaction, so the
durable state is either the state before it or the restored savepoint; both are states the
protocol had committed earlier -/
theorem c13_rollback_is_atomic (db db' : Db) (h : handleReorg db = some db') :
    db'.cur ∈ db.savepoints ∧ db'.savepoints = [db'.cur] := by
  unfold handleReorg at h
  split at h
  · cases h
  · rename_i oldest rest heq
    injection h with h
    subst h
    exact ⟨by rw [heq]; simp, rfl⟩

/-! Non-vacuity: cut the default-settings loop after 3 of 7 blocks with commit interval 2: two
blocks are committed, the third is lost; resuming completes. -/
example :
    let s : Settings := ⟨2, 10, 2, false⟩
    let node := [0, 1, 2, 3, 4, 5, 6]
    (∃ db' evs, updateIndex s 0 node 3 Db.empty [] 0 [] = .done db' evs ∧ db'.cur.chain = [0, 1, 2]) := by
  exact ⟨_, _, rfl, rfl⟩

end Ord.Store
