import OrdModel.Proofs.Batch
import OrdModel.Proofs.BatchCommit
import OrdModel.Proofs.IndexInslocAssign
import OrdModel.Theorems.C20
/-!
# C21 — batch inscribing produces exactly the inscriptions and locations it reports

Property theorems only.  Model: `OrdModel/Wallet/Batch.lean` (the pointer loop of
`File::inscriptions`, the reveal layout of `Plan::create_batch_transactions`, `Plan::output`);
helper lemmas: `OrdModel/Proofs/Batch.lean`; the indexer side is the index model
(`OrdModel/Index/Inscriptions.lean`) through the C03 lemmas of
`OrdModel/Proofs/IndexInslocAssign.lean` (`assignOutputs_place` = `c03_output_placement`).

Proved in full (every mode, any number of entries and parents, any values):
the pointer written into inscription `i` is inside the reveal's outputs, and the indexer's
first-in-first-out walk puts it exactly at the location `Plan::output` reports
(`c21_reported_is_indexed`, composed with the index model's `assignOutputs` in
`c21_index_model_places_at_reported`); each parent re-enters at its own return output with its
old offset (`c21_parent_returns`, `c21_index_model_returns_parent`); the premine output is the
output the runestone's pointer and the report name (`c21_rune_output`).

Hypothesis `hpos` (every per-entry postage is positive) is implied by acceptance: the planner
rejects a reveal with a dust output (`"commit transaction output would be dust"`).

Clause "the commit transaction spends no other inscribed or runic output" (second part of this
file, namespace `Ord.BatchCommit`; model `OrdModel/Wallet/BatchCommit.lean` = the satpoint
selection and the `for` loop over `wallet_inscriptions` in front of the commit, tied to the real
command by the correspondence line `batch.guard`; helper lemmas `OrdModel/Proofs/BatchCommit.lean`):
`c21_commit_guard_sound` (an accepted satpoint shares its output with no other inscribed sat of
the wallet, and is itself inscribed exactly when `reinscribe` is set), `c21_auto_satpoint_cardinal`
(an automatically chosen satpoint is the first sat of the first utxo with positive value that is
not inscribed, locked or runic), `c21_commit_spends_no_foreign_inscription` (composition with the
CONCRETE builder model through C20's `c20_inputs_cardinal`: the planner passes the same maps to
`TransactionBuilder::new`, so every commit input is the satpoint's output or a utxo that is not
inscribed, runic or locked; no inscribed sat of the wallet other than the satpoint itself is in a
spent output), `c21_guard_needed` (the second `bail!` of the loop is necessary: without it under
`reinscribe` the builder accepts a commit that spends a foreign inscription).

Not proved here (checked by the oracle lines on the real index every run, see notes/C21.md):
inscription ids `(reveal, i)` (envelope order), the rune's creation (C09).  An EXPLICIT satpoint's
own output is not examined by the code for runes or locks (only for inscriptions), hence "no
*other*" in the clause; the generator names cardinal outputs or wallet inscriptions only.
-/
namespace Ord.Batch

/-- the pointer `File::inscriptions` writes into entry `i` -/
theorem c21_pointer_value (s : Spec) (i : Nat) (hi : i < s.entries.length) :
    s.pointers[i]? = some (s.parentValues.sum +
      (if s.mode = .sameSat then 0 else (s.entries.take i).sum)) := by
  unfold Spec.pointers
  rw [pointersFrom_get _ _ _ _ hi]
  by_cases hm : s.mode = .sameSat <;> simp [hm]

theorem revealOutputs_take_parents (s : Spec) :
    (s.revealOutputs.take s.parents.length) = s.parentValues := by
  unfold Spec.revealOutputs Spec.parentValues
  rw [List.append_assoc, List.take_left' (by simp)]

/-- **Pointer arithmetic (clause 1 on the model).**  For every mode, every number of entries
and parents and all values: the location at which the indexer's first-in-first-out walk over the
reveal's outputs puts inscription `i`'s pointer is the location `Plan::output` reports. -/
theorem c21_pointer_lands_at_reported (s : Spec) (i p : Nat) (hi : i < s.entries.length)
    (hpos : ∀ v ∈ s.entries, 0 < v) (hp : s.pointers[i]? = some p) :
    locate s.revealOutputs p = some (s.reported i) := by
  rw [c21_pointer_value s i hi] at hp
  have hp' := Option.some.inj hp
  obtain ⟨v, hv⟩ : ∃ v, s.entries[i]? = some v := ⟨s.entries[i], List.getElem?_eq_getElem hi⟩
  have hvpos : 0 < v := hpos v (List.mem_of_getElem? hv)
  have hlen : s.parentValues.length = s.parents.length := by simp [Spec.parentValues]
  cases hm : s.mode with
  | separateOutputs =>
    have hout : s.revealOutputs = s.parentValues ++ (s.entries ++ s.etchingOutputs) := by
      simp [Spec.revealOutputs, Spec.destOutputs, Spec.postages, hm]
    have hget : s.revealOutputs[s.parents.length + i]? = some v := by
      rw [hout, ← hlen, List.getElem?_append_right (by omega)]
      simp [List.getElem?_append_left hi, hv]
    have htake : (s.revealOutputs.take (s.parents.length + i)).sum = s.parentValues.sum + (s.entries.take i).sum := by
      rw [hout, ← hlen, List.take_append, List.take_of_length_le (by omega)]
      simp [List.take_append_of_le_length (Nat.le_of_lt hi)]
    have := locate_of_bounds s.revealOutputs (s.parents.length + i) p v hget
      (by rw [htake, ← hp']; simp [hm]) (by rw [htake, ← hp']; simp [hm]; omega)
    rw [this, htake, ← hp']
    simp [Spec.reported, hm]
  | satPoints =>
    have hout : s.revealOutputs = s.parentValues ++ (s.entries ++ s.etchingOutputs) := by
      simp [Spec.revealOutputs, Spec.destOutputs, Spec.postages, hm]
    have hget : s.revealOutputs[s.parents.length + i]? = some v := by
      rw [hout, ← hlen, List.getElem?_append_right (by omega)]
      simp [List.getElem?_append_left hi, hv]
    have htake : (s.revealOutputs.take (s.parents.length + i)).sum = s.parentValues.sum + (s.entries.take i).sum := by
      rw [hout, ← hlen, List.take_append, List.take_of_length_le (by omega)]
      simp [List.take_append_of_le_length (Nat.le_of_lt hi)]
    have := locate_of_bounds s.revealOutputs (s.parents.length + i) p v hget
      (by rw [htake, ← hp']; simp [hm]) (by rw [htake, ← hp']; simp [hm]; omega)
    rw [this, htake, ← hp']
    simp [Spec.reported, hm]
  | sharedOutput =>
    have hout : s.revealOutputs = s.parentValues ++ ([s.entries.sum] ++ s.etchingOutputs) := by
      simp [Spec.revealOutputs, Spec.destOutputs, Spec.postages, hm]
    have hget : s.revealOutputs[s.parents.length]? = some s.entries.sum := by
      rw [hout, ← hlen, List.getElem?_append_right (by omega)]
      simp
    have htake : (s.revealOutputs.take s.parents.length).sum = s.parentValues.sum := by
      rw [revealOutputs_take_parents]
    have hle := sum_take_succ_le s.entries i v hv
    have := locate_of_bounds s.revealOutputs s.parents.length p s.entries.sum hget
      (by rw [htake, ← hp']; simp [hm]) (by rw [htake, ← hp']; simp [hm]; omega)
    rw [this, htake, ← hp']
    simp [Spec.reported, Spec.postages, hm]
  | sameSat =>
    have hne : s.entries ≠ [] := by
      intro h; rw [h] at hi; simp at hi
    obtain ⟨e0, rest, he⟩ : ∃ e0 rest, s.entries = e0 :: rest := by
      cases h : s.entries with
      | nil => exact absurd h hne
      | cons a l => exact ⟨a, l, rfl⟩
    have he0 : 0 < e0 := hpos e0 (by rw [he]; simp)
    have hout : s.revealOutputs = s.parentValues ++ ([e0] ++ s.etchingOutputs) := by
      simp [Spec.revealOutputs, Spec.destOutputs, Spec.postages, hm, he]
    have hget : s.revealOutputs[s.parents.length]? = some e0 := by
      rw [hout, ← hlen, List.getElem?_append_right (by omega)]
      simp
    have htake : (s.revealOutputs.take s.parents.length).sum = s.parentValues.sum := by
      rw [revealOutputs_take_parents]
    have := locate_of_bounds s.revealOutputs s.parents.length p e0 hget
      (by rw [htake, ← hp']; simp [hm]) (by rw [htake, ← hp']; simp [hm]; omega)
    rw [this, htake, ← hp']
    simp [Spec.reported, hm]

/-- The pointer is valid for the indexer (strictly below the reveal's total output value), so
the indexer uses it rather than the commit input's offset. -/
theorem c21_pointer_valid (s : Spec) (i p : Nat) (hi : i < s.entries.length)
    (hpos : ∀ v ∈ s.entries, 0 < v) (hp : s.pointers[i]? = some p) :
    p < s.revealOutputs.sum :=
  locate_some_lt _ _ _ (c21_pointer_lands_at_reported s i p hi hpos hp)

/-- **C21, clause 1 (model level).**  The location the indexer assigns to inscription `i` of
the reveal — its rule `revealOffset` followed by the first-in-first-out walk — is the location
ord reports, whatever the input-concatenation offset of the commit input. -/
theorem c21_reported_is_indexed (s : Spec) (i inputStart : Nat) (hi : i < s.entries.length)
    (hpos : ∀ v ∈ s.entries, 0 < v) :
    s.indexed inputStart i = some (s.reported i) := by
  unfold Spec.indexed
  have hp := c21_pointer_value s i hi
  rw [hp]
  simp only
  have hv := c21_pointer_valid s i _ hi hpos hp
  unfold revealOffset
  rw [if_pos hv]
  exact c21_pointer_lands_at_reported s i _ hi hpos hp

/-- **Parents return (model level).**  Parent `k` enters the reveal at input-concatenation
offset `Σ_{j<k} value_j + offset_k`; the walk puts it in output `k` (its return output, which
pays the wallet's change address) at its old offset. -/
theorem c21_parent_returns (s : Spec) (k v o : Nat) (hk : s.parents[k]? = some (v, o)) (ho : o < v) :
    ∃ q, s.parentOffset k = some q ∧ locate s.revealOutputs q = some (k, o) := by
  refine ⟨(s.parentValues.take k).sum + o, by simp [Spec.parentOffset, hk], ?_⟩
  have hklt : k < s.parents.length := (List.getElem?_eq_some_iff.1 hk).1
  have hget : s.revealOutputs[k]? = some v := by
    unfold Spec.revealOutputs Spec.parentValues
    rw [List.append_assoc, List.getElem?_append_left (by simpa using hklt)]
    simp [hk]
  have htake : (s.revealOutputs.take k).sum = (s.parentValues.take k).sum := by
    unfold Spec.revealOutputs
    rw [List.append_assoc, List.take_append_of_le_length (by simp [Spec.parentValues]; omega)]
  have := locate_of_bounds s.revealOutputs k ((s.parentValues.take k).sum + o) v hget
    (by rw [htake]; omega) (by rw [htake]; omega)
  rw [this, htake]
  simp

/-- **Rune output.**  With a premine the reported rune output is the premine output: it comes
right after the destination outputs, carries `TARGET_POSTAGE`, and is the last output before the
runestone (which is what `pointer: reveal_outputs.len() - 1` names at that point). -/
theorem c21_rune_output (s : Spec) (p : Nat) (hp : s.premine = some p) (hpos : 0 < p) :
    ∃ v, s.runeVout = some v ∧ s.revealOutputs[v]? = some targetPostage ∧
      s.revealOutputs.length = v + 2 := by
  refine ⟨s.parents.length + s.destOutputs.length, by simp [Spec.runeVout, hp, hpos], ?_, ?_⟩
  · unfold Spec.revealOutputs Spec.etchingOutputs
    rw [hp]
    have : (s.parentValues ++ s.destOutputs).length = s.parents.length + s.destOutputs.length := by
      simp [Spec.parentValues]
    rw [List.getElem?_append_right (by omega), this]
    simp [hpos]
  · unfold Spec.revealOutputs Spec.etchingOutputs
    rw [hp]
    simp [Spec.parentValues, hpos]
    omega

/-! ## Composition with the index model -/

open Ord.Index Ord.Index.Insloc in
/-- `locate` is the index model's placement: whatever `assignOutputs` places lies where
`locate` says. -/
theorem c21_locate_is_index_placement (txid : Txid) (outs : List TxOut) (fls : List Flotsam) :
    ∀ x ∈ (assignOutputs txid outs 0 0 (sortByKey (·.offset) fls) []).1,
      locate (outs.map (·.value)) x.2.1.offset = some (x.1.outpoint.vout, x.1.offset) ∧
        x.1.outpoint.txid = txid := by
  intro x hx
  obtain ⟨h1, _⟩ := assignOutputs_place txid outs 0 0 (sortByKey (·.offset) fls) []
    (sortByKey_sorted _ _) (fun _ _ => Nat.zero_le _)
  rcases h1 x hx with hacc | ⟨j, o, hj, _, hlo, hhi, hsp, _⟩
  · simp at hacc
  · have hget : (outs.map (·.value))[j]? = some o.value := by simp [hj]
    have hpre : ((outs.map (·.value)).take j).sum = prefixValue outs j := by
      simp [prefixValue, List.map_take]
    have := locate_of_bounds (outs.map (·.value)) j x.2.1.offset o.value hget
      (by rw [hpre]; simpa using hlo) (by rw [hpre]; simpa using hhi)
    rw [this, hpre, hsp]
    simp

open Ord.Index Ord.Index.Insloc in
/-- **C21, clause 1 composed with the index model.**  Let the reveal's outputs have the values
the planner gives them.  Any floating inscription that the index model's transaction walk
(`assignOutputs`, the function `index_inscriptions` runs on the sorted flotsam) places, and that
floats at the pointer of batch entry `i`, is placed at `reveal:vout:offset` exactly as reported
by `Plan::output`. -/
theorem c21_index_model_places_at_reported (s : Spec) (txid : Txid) (outs : List TxOut)
    (fls : List Flotsam) (i p : Nat) (hi : i < s.entries.length)
    (hpos : ∀ v ∈ s.entries, 0 < v) (hp : s.pointers[i]? = some p)
    (houts : outs.map (·.value) = s.revealOutputs) :
    ∀ x ∈ (assignOutputs txid outs 0 0 (sortByKey (·.offset) fls) []).1, x.2.1.offset = p →
      x.1 = ⟨⟨txid, (s.reported i).1⟩, (s.reported i).2⟩ := by
  intro x hx hoff
  obtain ⟨hloc, htx⟩ := c21_locate_is_index_placement txid outs fls x hx
  rw [houts, hoff, c21_pointer_lands_at_reported s i p hi hpos hp] at hloc
  have h2 := Option.some.inj hloc
  obtain ⟨⟨⟨t, vo⟩, off⟩, fl, b⟩ := x
  simp only at htx h2 ⊢
  subst htx
  simp [h2]

open Ord.Index Ord.Index.Insloc in
/-- **Parents return, composed with the index model**: a floating (old) inscription at parent
`k`'s input-concatenation offset is placed at `reveal:k:offset_k`. -/
theorem c21_index_model_returns_parent (s : Spec) (txid : Txid) (outs : List TxOut)
    (fls : List Flotsam) (k v o q : Nat) (hk : s.parents[k]? = some (v, o)) (ho : o < v)
    (hq : s.parentOffset k = some q) (houts : outs.map (·.value) = s.revealOutputs) :
    ∀ x ∈ (assignOutputs txid outs 0 0 (sortByKey (·.offset) fls) []).1, x.2.1.offset = q →
      x.1 = ⟨⟨txid, k⟩, o⟩ := by
  intro x hx hoff
  obtain ⟨hloc, htx⟩ := c21_locate_is_index_placement txid outs fls x hx
  obtain ⟨q', hq', hl⟩ := c21_parent_returns s k v o hk ho
  rw [hq] at hq'
  have hqq : q = q' := Option.some.inj hq'
  subst hqq
  rw [houts, hoff, hl] at hloc
  have h2 := Option.some.inj hloc
  obtain ⟨⟨⟨t, vo⟩, off⟩, fl, b⟩ := x
  simp only [Prod.mk.injEq] at htx h2 ⊢
  subst htx
  obtain ⟨rfl, rfl⟩ := h2
  rfl

/-! ## Finding: parents (or satpoints) that share an output -/

/-- **The property fails on the unchanged code**: two parents that live in the same output
(e.g. two inscriptions of an earlier `shared-output` batch) are accepted by the planner, and the
reveal it builds spends that output twice — it can never be mined, so the reported ids and
locations are never assigned.  Replayed on the real command by `corpus/C21/batch.dup-parents.txt`
(`batch.probe.dup_parents`). -/
theorem c21_fails_parents_share_output :
    acceptsInputs false ["a:0", "a:0"] [] = true ∧ minable ["a:0", "a:0"] [] = false := by decide

/-- With the proposed repair every accepted plan's reveal spends pairwise distinct outputs. -/
theorem c21_fixed_inputs_distinct (ps sps : List String) (hc : ¬ "commit" ∈ ps ++ sps)
    (h : acceptsInputs true ps sps = true) : minable ps sps = true := by
  have hd : hasDup (ps ++ sps) = false := by simpa [acceptsInputs] using h
  have key : ∀ (l : List String), hasDup l = false → ¬ "commit" ∈ l → hasDup (l ++ ["commit"]) = false := by
    intro l
    induction l with
    | nil => intro _ _; simp [hasDup]
    | cons a l ih =>
      intro h1 h2
      simp only [hasDup, Bool.or_eq_false_iff] at h1
      simp only [List.mem_cons, not_or] at h2
      simp only [List.cons_append, hasDup, Bool.or_eq_false_iff]
      refine ⟨?_, ih h1.2 h2.2⟩
      have : ¬ a ∈ l := by simpa using h1.1
      simp [this]
      exact fun h => h2.1 h.symm
  unfold minable revealInputs
  rw [key (ps ++ sps) hd hc]
  rfl

/-! Non-vacuity -/

def exShared : Spec := { mode := .sharedOutput, entries := [330, 10000, 546], parents := [(10000, 3000), (546, 0)], premine := some 5 }

example : exShared.pointers = [10546, 10876, 20876] := by decide
example : exShared.revealOutputs = [10000, 546, 10876, 10000, 0] := by decide
example : exShared.indexed 10546 1 = some (2, 330) := by decide
example : exShared.reported 2 = (2, 10330) := by decide
example : exShared.runeVout = some 3 := by decide
example : ({ exShared with mode := .sameSat }).indexed 0 2 = some (2, 0) := by decide
example : ({ exShared with mode := .satPoints }).reported 2 = (4, 0) := by decide
example : ∀ v ∈ exShared.entries, 0 < v := by decide

end Ord.Batch

/-! # The commit guard: no other inscribed or runic output is spent -/
namespace Ord.BatchCommit
open Ord.Builder (Env Script Target Tx Request build)

variable {α : Type} [DecidableEq α]

/-- **(a) The guard is sound.**  If the planner gets past
`if self.reinscribe && !reinscription { bail!(..) }` with satpoint `s`, then every inscribed sat
of the wallet that lies in `s`'s output is `s` itself; the output is inscribed (equivalently: `s`
is) exactly when `reinscribe` was set; and the local `reinscription` says so. -/
theorem c21_commit_guard_sound (v : View α) (reinscribe : Bool) (explicit : Option (α × Nat))
    (s : α × Nat) (r : Bool) (h : commitGuard v reinscribe explicit = .ok (s, r)) :
    (∀ sp ∈ v.inscriptions, sp.1 = s.1 → sp = s) ∧
      ((∃ sp ∈ v.inscriptions, sp.1 = s.1) → reinscribe = true) ∧
      (reinscribe = true → s ∈ v.inscriptions) ∧
      (r = true ↔ s ∈ v.inscriptions) := by
  obtain ⟨_, hg, hre⟩ := commitGuard_ok h
  obtain ⟨h1, h2, h3⟩ := guardLoop_ok reinscribe s v.inscriptions false r hg
  have hr : r = true ↔ s ∈ v.inscriptions := by rw [h2]; simp
  refine ⟨h1, ?_, fun hx => hr.1 (hre hx), hr⟩
  rintro ⟨sp, hsp, hop⟩
  exact h3 (h1 sp hsp hop ▸ hsp)

/-- **(b) An automatically selected satpoint is cardinal.**  Without an explicit satpoint the
accepted satpoint is offset 0 of the FIRST utxo (in the map's order) that has positive value and
is not inscribed, not locked and not runic; in particular no inscribed sat of the wallet lies in
its output, so `reinscribe` cannot have been set and `reinscription` is false. -/
theorem c21_auto_satpoint_cardinal (v : View α) (reinscribe : Bool) (s : α × Nat) (r : Bool)
    (h : commitGuard v reinscribe none = .ok (s, r)) :
    s.2 = 0 ∧
      (∃ pre u post, v.utxos = pre ++ u :: post ∧ u.op = s.1 ∧ 0 < u.value ∧
        u.locked = false ∧ u.runic = false ∧ (∀ x ∈ pre, isCandidate v x = false)) ∧
      (∀ sp ∈ v.inscriptions, sp.1 ≠ s.1) ∧ reinscribe = false ∧ r = false := by
  obtain ⟨hs, _, _⟩ := commitGuard_ok h
  obtain ⟨u, hf, rfl⟩ := selectSatpoint_auto hs
  obtain ⟨hc, pre, post, hsplit, hpre⟩ := List.find?_eq_some_iff_append.1 hf
  simp only [isCandidate, Bool.and_eq_true, decide_eq_true_eq, Bool.not_eq_true'] at hc
  obtain ⟨⟨⟨hv, hi⟩, hl⟩, hru⟩ := hc
  have hnone : ∀ sp ∈ v.inscriptions, sp.1 ≠ u.op := by
    intro sp hsp hop
    have := (inscribedOutput_iff v.inscriptions u.op).2 ⟨sp, hsp, hop⟩
    rw [hi] at this
    exact Bool.false_ne_true this
  obtain ⟨_, h2, h3, h4⟩ := c21_commit_guard_sound v reinscribe none (u.op, 0) r h
  have hnot : ¬ (u.op, 0) ∈ v.inscriptions := fun hm => hnone _ hm rfl
  refine ⟨rfl, ⟨pre, u, post, hsplit, rfl, hv, hl, hru, fun x hx => by simpa using hpre x hx⟩,
    hnone, ?_, ?_⟩
  · cases reinscribe with
    | false => rfl
    | true => exact absurd (h3 rfl) hnot
  · cases r with
    | false => rfl
    | true => exact absurd (h4.1 rfl) hnot

/-- **(c) The commit spends no foreign inscription** (composition with the concrete builder
model, `Ord.Builder.build` = `TransactionBuilder::build_transaction`, through C20's
`c20_inputs_cardinal`; nothing is abstracted: `View.toBuilder` is the identity on the maps and
sets the planner hands to `TransactionBuilder::new`).  For every fee function, dust function,
recipient/change scripts and target: if the guard accepts `s` and the builder returns the commit
`tx`, then every input of `tx` is `s`'s outpoint or a utxo of the wallet that is not inscribed,
not locked and not runic; hence an inscribed sat of the wallet that lies in a spent output is `s`
itself; and when the satpoint was chosen automatically no inscribed, locked or runic output is
spent at all. -/
theorem c21_commit_spends_no_foreign_inscription (env : Env) (v : View Nat) (reinscribe : Bool)
    (explicit : Option (Nat × Nat)) (s : Nat × Nat) (r : Bool) (rcp c0 c1 : Script) (t : Target)
    (tx : Tx) (hg : commitGuard v reinscribe explicit = .ok (s, r))
    (hb : build env v.toBuilder
      { outgoing := s, recipient := rcp, change0 := c0, change1 := c1, target := t } = .ok tx) :
    (∀ op ∈ tx.inputs, op = s.1 ∨
      ((∃ u ∈ v.utxos, u.op = op) ∧ inscribedOutput v.inscriptions op = false ∧
        ∀ u ∈ v.utxos, u.op = op → u.locked = false ∧ u.runic = false)) ∧
      (∀ sp ∈ v.inscriptions, sp.1 ∈ tx.inputs → sp = s) ∧
      (explicit = none → ∀ op ∈ tx.inputs, inscribedOutput v.inscriptions op = false ∧
        ∃ u ∈ v.utxos, u.op = op ∧ u.locked = false ∧ u.runic = false) := by
  have hC := Ord.Builder.c20_inputs_cardinal env v.toBuilder _ tx hb
  have h1 : ∀ op ∈ tx.inputs, op = s.1 ∨
      ((∃ u ∈ v.utxos, u.op = op) ∧ inscribedOutput v.inscriptions op = false ∧
        ∀ u ∈ v.utxos, u.op = op → u.locked = false ∧ u.runic = false) := by
    intro op hop
    rcases hC op hop with h | ⟨hl, hc⟩
    · exact Or.inl h
    · obtain ⟨hi, hlr⟩ := isCardinal_toBuilder v op hc
      exact Or.inr ⟨lookup_map_isSome v.utxos op hl, hi, hlr⟩
  obtain ⟨ha, _, _, _⟩ := c21_commit_guard_sound v reinscribe explicit s r hg
  refine ⟨h1, ?_, ?_⟩
  · intro sp hsp hin
    rcases h1 sp.1 hin with h | ⟨_, hi, _⟩
    · exact ha sp hsp h
    · have := (inscribedOutput_iff v.inscriptions sp.1).2 ⟨sp, hsp, rfl⟩
      rw [hi] at this
      exact absurd this Bool.false_ne_true
  · rintro rfl op hop
    obtain ⟨_, ⟨pre, u, post, hsplit, huop, _, hl, hru, _⟩, hnone, _, _⟩ :=
      c21_auto_satpoint_cardinal v reinscribe s r hg
    have hu : u ∈ v.utxos := by rw [hsplit]; simp
    rcases h1 op hop with h | ⟨⟨u', hu', hop'⟩, hi, hlr⟩
    · subst h
      refine ⟨?_, u, hu, huop, hl, hru⟩
      cases hio : inscribedOutput v.inscriptions s.1 with
      | false => rfl
      | true =>
        obtain ⟨sp, hsp, hop'⟩ := (inscribedOutput_iff v.inscriptions s.1).1 hio
        exact absurd hop' (hnone sp hsp)
    · exact ⟨hi, u', hu', hop', (hlr u' hu' hop').1, (hlr u' hu' hop').2⟩

/-! ## Non-vacuity, and the guard's second `bail!` is needed -/

/-- a wallet with two inscribed sats in one 20 000 sat output (what a `shared-output` batch
leaves behind), one inscribed sat alone in an output, and cardinals (the first one locked) -/
def exWallet : View Nat :=
  { utxos := [⟨0, 20000, false, false⟩, ⟨1, 10000, false, false⟩, ⟨2, 0, false, false⟩,
      ⟨3, 50000, true, false⟩, ⟨4, 40000, false, true⟩, ⟨5, 100000, false, false⟩,
      ⟨6, 60000, false, false⟩]
    inscriptions := [(0, 0), (0, 5000), (1, 3000)] }

/-- the guard passes with a reinscription … -/
example : commitGuard exWallet true (some (1, 3000)) = .ok ((1, 3000), true) := by decide
/-- … refuses when another inscription shares the output (the loop meets `(0, 0)` first) … -/
example : commitGuard exWallet true (some (0, 5000)) = .error (.alreadyInscribed (0, 0)) := by decide
/-- … in the other order the loop passes the sat itself and bails at the next key … -/
example : commitGuard exWallet true (some (0, 0)) = .error (.alreadyInscribed (0, 5000)) := by decide
example : commitGuard exWallet false (some (0, 0)) = .error (.alreadyInscribed (0, 0)) := by decide
example : commitGuard exWallet false (some (1, 0)) = .error (.alreadyInscribed (1, 3000)) := by decide
/-- … an uninscribed sat is no reinscription … -/
example : commitGuard exWallet true (some (5, 7)) = .error .notAReinscription := by decide
example : commitGuard exWallet true none = .error .notAReinscription := by decide
/-- … the automatic choice skips inscribed, empty, locked and runic outputs … -/
example : commitGuard exWallet false none = .ok ((5, 0), false) := by decide
example : commitGuard { exWallet with utxos := exWallet.utxos.take 5 } false none = .error .noCardinals := by
  decide
/-- … and the composed theorem's hypotheses hold on a commit that needs a second input. -/
example : build (Ord.Builder.envR 1 1) exWallet.toBuilder
    { outgoing := (1, 3000), recipient := Ord.Builder.p2tr 0, change0 := Ord.Builder.p2tr 1,
      change1 := Ord.Builder.p2tr 2, target := .value 10500 }
    = .ok { inputs := [1, 6], outputs := [(Ord.Builder.p2tr 2, 3000), (Ord.Builder.p2tr 0, 10500),
        (Ord.Builder.p2tr 1, 56245)] } := by decide

/-- **The second `bail!` is needed** (the seeded variant
`if !self.reinscribe && inscribed_satpoint.outpoint == satpoint.outpoint`): asked to reinscribe
the sat at offset 5000 of an output that also carries an inscription at offset 0, the real guard
refuses, the variant accepts, and the builder then builds a commit that spends that output —
the foreign inscription at `(0, 0)` is moved by the commit (the builder's own
`UtxoContainsAdditionalInscriptions` check only looks at inscriptions at higher offsets). -/
theorem c21_guard_needed :
    commitGuard exWallet true (some (0, 5000)) = .error (.alreadyInscribed (0, 0)) ∧
      commitGuardSkipping exWallet true (some (0, 5000)) = .ok ((0, 5000), true) ∧
      ∃ tx, build (Ord.Builder.envR 1 1) exWallet.toBuilder
          { outgoing := (0, 5000), recipient := Ord.Builder.p2tr 0, change0 := Ord.Builder.p2tr 1,
            change1 := Ord.Builder.p2tr 2, target := .value 10500 } = .ok tx ∧
        ∃ sp ∈ exWallet.inscriptions, sp.1 ∈ tx.inputs ∧ sp ≠ (0, 5000) := by
  refine ⟨by decide, by decide,
    { inputs := [0], outputs := [(Ord.Builder.p2tr 2, 5000), (Ord.Builder.p2tr 0, 10500),
        (Ord.Builder.p2tr 1, 4303)] }, by decide, (0, 0), by decide, by decide, by decide⟩

end Ord.BatchCommit
