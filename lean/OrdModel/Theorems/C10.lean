import OrdModel.Proofs.IndexRunemint
/-!
# C10 — Mint terms are enforced

Property theorems only.  Model: `OrdModel/Index/Runes.lean` (`mint`, `RuneEntry.mintable`,
`RuneEntry.start/end_`, `indexRunesTx`, `indexRunesBlock`); the documented condition written
declaratively: `OrdModel/Index/OracleRunemint.lean` (`laterOf`, `earlierOf`, `relStart`, `relEnd`,
`mintOpen`); helper lemmas: `OrdModel/Proofs/IndexRunemint*.lean`.
-/
namespace Ord.Index.Runemint
open Ord.Index

/-- **Mint condition.**  `mint st h id` hands out `amount` iff the entry exists in `st` (the
state *before* this transaction), has terms, the height is at or after the later of the
absolute start and the relative start (etching block + offset, saturating at `u64::MAX`), before
the earlier of the absolute and the relative end, and fewer than `cap` (default 0) mints have
happened; the amount is the terms' amount (default 0).  Quantified over every entry, i.e. every
subset of the six optional term fields and every value of them. -/
theorem c10_mint_iff (st : State) (h : Nat) (id : RuneId) (amount : Nat) :
    (mint st h id).2 = some amount ↔
      ∃ e t, AL.get st.runeEntries id = some e ∧ e.terms = some t ∧
        (∀ s, laterOf (relStart e.block t) t.heightStart = some s → s ≤ h) ∧
        (∀ en, earlierOf (relEnd e.block t) t.heightEnd = some en → h < en) ∧
        e.mints < t.cap.getD 0 ∧ amount = t.amount.getD 0 := by
  rw [mint_some_iff]
  constructor
  · rintro ⟨e, hg, ho, ha⟩
    unfold mintOpen windowOpen at ho
    cases ht : e.terms with
    | none => simp [ht] at ho
    | some t =>
      simp only [ht, Bool.and_eq_true, decide_eq_true_eq] at ho
      refine ⟨e, t, hg, ht, (startsOk_iff _ _ _).1 ho.1.1, (endsOk_iff _ _ _).1 ho.1.2, ?_, ?_⟩
      · simpa [capOf, ht] using ho.2
      · simpa [amountOf, ht] using ha
  · rintro ⟨e, t, hg, ht, hs, he, hc, ha⟩
    refine ⟨e, hg, ?_, ?_⟩
    · unfold mintOpen windowOpen
      simp only [ht, Bool.and_eq_true, decide_eq_true_eq]
      exact ⟨⟨(startsOk_iff _ _ _).2 hs, (endsOk_iff _ _ _).2 he⟩, by simpa [capOf, ht] using hc⟩
    · simpa [amountOf, ht] using ha

/-- a rune etched in block 5 with amount 7, cap 2, absolute start 6 and relative end 5 + 3 -/
def exEntry : RuneEntry := ⟨5, 0, 0, 0, 0, 0, 0, 0, 0, none, some ⟨some 7, some 2, some 6, none, none, some 3⟩, 0, false⟩

example : (mint { runeEntries := [(⟨5, 1⟩, exEntry)] } 7 ⟨5, 1⟩).2 = some 7 := by decide
example : (mint { runeEntries := [(⟨5, 1⟩, exEntry)] } 8 ⟨5, 1⟩).2 = none := by decide
example : (mint { runeEntries := [(⟨5, 1⟩, exEntry)] } 5 ⟨5, 1⟩).2 = none := by decide

/-- **State effect.**  A successful mint increments exactly the `mints` counter of that entry
and changes nothing else in the index; an unsuccessful one leaves the state unchanged. -/
theorem c10_mint_state (st : State) (h : Nat) (id : RuneId) :
    (∀ amount, (mint st h id).2 = some amount →
      ∃ e, AL.get st.runeEntries id = some e ∧
        (mint st h id).1 = { st with runeEntries := AL.set st.runeEntries id { e with mints := e.mints + 1 } }) ∧
    ((mint st h id).2 = none → (mint st h id).1 = st) := by
  refine ⟨?_, mint_none_state st h id⟩
  intro amount ha
  obtain ⟨e, hg, ho, _⟩ := (mint_some_iff st h id amount).1 ha
  exact ⟨e, hg, by rw [mint_of_open st h id e hg ho]⟩

/-- **Unknown ids are no-ops.**  Minting an id that has no entry in the state before this
transaction (not etched yet, etched later in the block, etched by this very transaction —
`indexRunesTx` calls `mint` before `etched`/`createRuneEntry`) does nothing. -/
theorem c10_mint_unknown_noop (st : State) (h : Nat) (id : RuneId)
    (hg : AL.get st.runeEntries id = none) : mint st h id = (st, none) :=
  mint_of_absent st h id hg

example : mint {} 7 ⟨7, 1⟩ = (({} : State), none) := c10_mint_unknown_noop {} 7 ⟨7, 1⟩ rfl

/-- **Saturating relative bounds.**  The relative start / end is the exact sum `block + offset`
when it fits in 64 bits and `u64::MAX` otherwise (never a wrapped-around small height). -/
theorem c10_relative_bounds_saturate (block : Nat) (t : Terms) :
    relStart block t = t.offsetStart.map (fun o => if block + o ≤ 2 ^ 64 - 1 then block + o else 2 ^ 64 - 1) ∧
    relEnd block t = t.offsetEnd.map (fun o => if block + o ≤ 2 ^ 64 - 1 then block + o else 2 ^ 64 - 1) := by
  unfold relStart relEnd
  constructor
  · cases t.offsetStart <;> simp [saturatingAdd64_eq]
  · cases t.offsetEnd <;> simp [saturatingAdd64_eq]

example : relStart 100 ⟨none, none, none, none, some (2 ^ 64 - 3), none⟩ = some (2 ^ 64 - 1) := by decide

/-- **`mintable` as shown by `/rune/<rune>`.**  The error-carrying `RuneEntry::mintable`
answers `Ok(amount)` exactly when the documented condition holds. -/
theorem c10_mintable_iff (e : RuneEntry) (h a : Nat) :
    mintableE e h = .ok a ↔ (mintOpen e h = true ∧ a = amountOf e) := by
  rw [mintableE_ok_iff, mintable_eq]
  by_cases ho : mintOpen e h = true
  · simp [ho]; exact eq_comm
  · simp [ho]

example : mintableE { exEntry with mints := 2 } 7 = .error (.cap 2) := by rfl
example : mintableE exEntry 8 = .error (.end_ 8) := by rfl
example : mintableE exEntry 5 = .error (.start 6) := by rfl

end Ord.Index.Runemint
