import OrdModel.Proofs.IndexRunemintChain
import OrdModel.Proofs.IndexLiftRuneFrame
/-!
# C10 — Mint terms are enforced

Property theorems only.  Model: `OrdModel/Index/Runes.lean` (`mint`, `RuneEntry.mintable`,
`RuneEntry.start/end_`, `indexRunesTx`, `indexRunesBlock`); the documented condition written
declaratively: `OrdModel/Index/OracleRunemint.lean` (`laterOf`, `earlierOf`, `relStart`, `relEnd`,
`mintOpen`); helper lemmas: `OrdModel/Proofs/IndexRunemint*.lean`.
-/
namespace Ord.Index.Runemint
open Ord.Index

/-- **Mint condition.**  `mint st h id` hands out `amount` iff the entry exists in `st` (the
state *before* this transaction), has terms, the height is at or after the later of the
absolute start and the relative start (etching block + offset, saturating at `u64::MAX`), before
the earlier of the absolute and the relative end, and fewer than `cap` (default 0) mints have
happened; the amount is the terms' amount (default 0).  Quantified over every entry, i.e. every
subset of the six optional term fields and every value of them. -/
theorem c10_mint_iff (st : State) (h : Nat) (id : RuneId) (amount : Nat) :
    (mint st h id).2 = some amount ↔
      ∃ e t, AL.get st.runeEntries id = some e ∧ e.terms = some t ∧
        (∀ s, laterOf (relStart e.block t) t.heightStart = some s → s ≤ h) ∧
        (∀ en, earlierOf (relEnd e.block t) t.heightEnd = some en → h < en) ∧
        e.mints < t.cap.getD 0 ∧ amount = t.amount.getD 0 := by
  rw [mint_some_iff]
  constructor
  · rintro ⟨e, hg, ho, ha⟩
    unfold mintOpen windowOpen at ho
    cases ht : e.terms with
    | none => simp [ht] at ho
    | some t =>
      simp only [ht, Bool.and_eq_true, decide_eq_true_eq] at ho
      refine ⟨e, t, hg, ht, (startsOk_iff _ _ _).1 ho.1.1, (endsOk_iff _ _ _).1 ho.1.2, ?_, ?_⟩
      · simpa [capOf, ht] using ho.2
      · simpa [amountOf, ht] using ha
  · rintro ⟨e, t, hg, ht, hs, he, hc, ha⟩
    refine ⟨e, hg, ?_, ?_⟩
    · unfold mintOpen windowOpen
      simp only [ht, Bool.and_eq_true, decide_eq_true_eq]
      exact ⟨⟨(startsOk_iff _ _ _).2 hs, (endsOk_iff _ _ _).2 he⟩, by simpa [capOf, ht] using hc⟩
    · simpa [amountOf, ht] using ha

/-- a rune etched in block 5 with amount 7, cap 2, absolute start 6 and relative end 5 + 3 -/
def exEntry : RuneEntry := ⟨5, 0, 0, 0, 0, 0, 0, 0, 0, none, some ⟨some 7, some 2, some 6, none, none, some 3⟩, 0, false⟩

example : (mint { runeEntries := [(⟨5, 1⟩, exEntry)] } 7 ⟨5, 1⟩).2 = some 7 := by decide
example : (mint { runeEntries := [(⟨5, 1⟩, exEntry)] } 8 ⟨5, 1⟩).2 = none := by decide
example : (mint { runeEntries := [(⟨5, 1⟩, exEntry)] } 5 ⟨5, 1⟩).2 = none := by decide

/-- **State effect.**  A successful mint increments exactly the `mints` counter of that entry
and changes nothing else in the index; an unsuccessful one leaves the state unchanged. -/
theorem c10_mint_state (st : State) (h : Nat) (id : RuneId) :
    (∀ amount, (mint st h id).2 = some amount →
      ∃ e, AL.get st.runeEntries id = some e ∧
        (mint st h id).1 = { st with runeEntries := AL.set st.runeEntries id { e with mints := e.mints + 1 } }) ∧
    ((mint st h id).2 = none → (mint st h id).1 = st) := by
  refine ⟨?_, mint_none_state st h id⟩
  intro amount ha
  obtain ⟨e, hg, ho, _⟩ := (mint_some_iff st h id amount).1 ha
  exact ⟨e, hg, by rw [mint_of_open st h id e hg ho]⟩

/-- **Unknown ids are no-ops.**  Minting an id that has no entry in the state before this
transaction (not etched yet, etched later in the block, etched by this very transaction —
`indexRunesTx` calls `mint` before `etched`/`createRuneEntry`) does nothing. -/
theorem c10_mint_unknown_noop (st : State) (h : Nat) (id : RuneId)
    (hg : AL.get st.runeEntries id = none) : mint st h id = (st, none) :=
  mint_of_absent st h id hg

example : mint {} 7 ⟨7, 1⟩ = (({} : State), none) := c10_mint_unknown_noop {} 7 ⟨7, 1⟩ rfl

/-- **Saturating relative bounds.**  The relative start / end is the exact sum `block + offset`
when it fits in 64 bits and `u64::MAX` otherwise (never a wrapped-around small height). -/
theorem c10_relative_bounds_saturate (block : Nat) (t : Terms) :
    relStart block t = t.offsetStart.map (fun o => if block + o ≤ 2 ^ 64 - 1 then block + o else 2 ^ 64 - 1) ∧
    relEnd block t = t.offsetEnd.map (fun o => if block + o ≤ 2 ^ 64 - 1 then block + o else 2 ^ 64 - 1) := by
  unfold relStart relEnd
  constructor
  · cases t.offsetStart <;> simp [saturatingAdd64_eq]
  · cases t.offsetEnd <;> simp [saturatingAdd64_eq]

example : relStart 100 ⟨none, none, none, none, some (2 ^ 64 - 3), none⟩ = some (2 ^ 64 - 1) := by decide

/-- **`mintable` as shown by `/rune/<rune>`.**  The error-carrying `RuneEntry::mintable`
answers `Ok(amount)` exactly when the documented condition holds. -/
theorem c10_mintable_iff (e : RuneEntry) (h a : Nat) :
    mintableE e h = .ok a ↔ (mintOpen e h = true ∧ a = amountOf e) := by
  rw [mintableE_ok_iff, mintable_eq]
  by_cases ho : mintOpen e h = true
  · simp [ho]; exact eq_comm
  · simp [ho]

example : mintableE { exEntry with mints := 2 } 7 = .error (.cap 2) := by rfl
example : mintableE exEntry 8 = .error (.end_ 8) := by rfl
example : mintableE exEntry 5 = .error (.start 6) := by rfl


/-! ### in the context of a block: invariant `RInv st H t` = "block `H` is being indexed, the
transactions before index `t` are done" (`Proofs/IndexRunemintInv.lean`) -/

/-- **Later-in-block / same-transaction / future ids are no-ops.**  While transaction `t` of
block `H` is being indexed every existing id lies strictly before `(H, t)`; so a mint of
`(H, t')` with `t' ≥ t` (this transaction's own etching or a later one) or of any id of a later
block finds no entry and does nothing. -/
theorem c10_mint_not_yet_etched_noop {st : State} {H t : Nat} (hinv : RInv st H t) (id : RuneId)
    (hid : H < id.block ∨ (id.block = H ∧ t ≤ id.tx)) : mint st H id = (st, none) := by
  apply mint_of_absent
  cases hg : AL.get st.runeEntries id with
  | none => rfl
  | some e =>
    have := (hinv.ids id e hg).2.2
    unfold idBefore at this; omega

/-- **The counter moves exactly when the documented condition holds, whatever the artifact.**
After transaction `t` of block `H` (runestone *or cenotaph*) the entry of every rune that
existed before the transaction is unchanged except that `mints` is one higher iff the
transaction's artifact mints that id and the mint is open at `H`. -/
theorem c10_tx_mint_counter {st : State} {H t : Nat} (hinv : RInv st H t) (blk : Block) (tx : Tx)
    (bb : Balances) (st' : State) (bb' : Balances) (evs : List Event) (hH : blk.height = H)
    (ht : t < 2 ^ 32) (hr : indexRunesTx st blk t tx bb = .ok (st', bb', evs))
    (id : RuneId) (e : RuneEntry) (hg : AL.get st.runeEntries id = some e) :
    AL.get st'.runeEntries id =
      some (if txMint tx = some id ∧ mintOpen e H = true then { e with mints := e.mints + 1 } else e) := by
  have hne : id ≠ ⟨H, t⟩ := by
    intro heq
    have := (hinv.ids id e hg).2.2
    rw [heq] at this; unfold idBefore at this; simp at this
  have := (tx_step hinv blk tx bb st' bb' evs hH (by simpa using ht) hr).2.1 id hne
  rw [this, hg]; rfl

/-- **A mint in a cenotaph still counts toward the cap.** -/
theorem c10_cenotaph_mint_counts {st : State} {H t : Nat} (hinv : RInv st H t) (blk : Block) (tx : Tx)
    (bb : Balances) (st' : State) (bb' : Balances) (evs : List Event) (hH : blk.height = H)
    (ht : t < 2 ^ 32) (hr : indexRunesTx st blk t tx bb = .ok (st', bb', evs))
    (r : Option Nat) (id : RuneId) (e : RuneEntry) (hart : tx.artifact = some (.cenotaph r (some id)))
    (hg : AL.get st.runeEntries id = some e) (ho : mintOpen e H = true) :
    AL.get st'.runeEntries id = some { e with mints := e.mints + 1 } := by
  rw [c10_tx_mint_counter hinv blk tx bb st' bb' evs hH ht hr id e hg]
  simp [txMint, hart, artMint, ho]

/-- **Invariant, one block.**  `indexRunesBlock` preserves `RInv`, whose `cap` clause says
`mints ≤ cap` for every rune with terms and `mints = 0` for every rune without. -/
theorem c10_block_preserves {st : State} {H : Nat} (hinv : RInv st H 0) (blk : Block) (st' : State)
    (evs : List Event) (hH : blk.height = H) (hlen : blk.txs.length ≤ 2 ^ 32)
    (hr : indexRunesBlock st blk = .ok (st', evs)) :
    RInv st' (H + 1) 0 ∧
    ∀ id e, AL.get st'.runeEntries id = some e → e.mints ≤ capOf e ∧ (e.terms = none → e.mints = 0) := by
  have h := block_inv hinv blk st' evs hH (by simpa using hlen) hr
  exact ⟨h, h.cap⟩

/-- **The mint count never exceeds the cap** in any state reachable by indexing a chain of
consecutive blocks.  `_partial`: for configurations that also run the sat / inscription /
address indexer the statement assumes `UtxoFrame cfg` (that part of the block does not touch the
rune tables); for a rune-only index (`FrameOK` by its first disjunct) it is unconditional —
`c10_mints_le_cap_rune_only`. -/
theorem c10_mints_le_cap_partial (cfg : Cfg) (hfr : FrameOK cfg) (chain : List Block) (st : State)
    (evs : List Event) (hr : run cfg chain = .ok (st, evs)) (hc : ChainOK chain)
    (id : RuneId) (e : RuneEntry) (hg : AL.get st.runeEntries id = some e) :
    e.mints ≤ (e.terms.bind (·.cap)).getD 0 ∧ (e.terms = none → e.mints = 0) :=
  (run_inv cfg hfr chain st evs hr hc).cap id e hg

theorem c10_mints_le_cap_rune_only (cfg : Cfg)
    (hcfg : cfg.indexInscriptions = false ∧ cfg.indexAddresses = false ∧ cfg.indexSats = false)
    (chain : List Block) (st : State) (evs : List Event) (hr : run cfg chain = .ok (st, evs))
    (hc : ChainOK chain) (id : RuneId) (e : RuneEntry) (hg : AL.get st.runeEntries id = some e) :
    e.mints ≤ (e.terms.bind (·.cap)).getD 0 ∧ (e.terms = none → e.mints = 0) :=
  c10_mints_le_cap_partial cfg (Or.inl (by simp [hcfg.1, hcfg.2.1, hcfg.2.2])) chain st evs hr hc id e hg

/-- **The sat / address / inscription pass is a frame for the rune tables** (every configuration):
whenever `indexUtxoEntries` returns, `runeEntries`, `rune2id`, `runes`, `reservedRunes`,
`txid2rune`, `balances` and `seq2rune` are what they were.  (It does write `id2seq`, which
`createRuneEntry` reads afterwards to fill `seq2rune`; that is not a rune table.)  This is the
former hypothesis `UtxoFrame cfg` of the chain-level theorems, now proved
(`Proofs/IndexLiftRuneFrame.lean`). -/
theorem c10_utxo_frame (cfg : Cfg) (st : State) (blk : Block) (st1 : State) (ev : List Event)
    (h : indexUtxoEntries cfg st blk = .ok (st1, ev)) :
    st1.runeEntries = st.runeEntries ∧ st1.rune2id = st.rune2id ∧ st1.runes = st.runes ∧
    st1.reservedRunes = st.reservedRunes ∧ st1.txid2rune = st.txid2rune ∧ st1.balances = st.balances ∧
    st1.seq2rune = st.seq2rune :=
  RuneLift.indexUtxoEntries_frame cfg st blk st1 ev h

/-- **The mint count never exceeds the cap — every configuration, every reachable state** of a
chain of consecutive blocks (all combinations of the sat / inscription / address / rune
indexes).  FULL: no frame hypothesis left. -/
theorem c10_mints_le_cap (cfg : Cfg) (chain : List Block) (st : State)
    (evs : List Event) (hr : run cfg chain = .ok (st, evs)) (hc : ChainOK chain)
    (id : RuneId) (e : RuneEntry) (hg : AL.get st.runeEntries id = some e) :
    e.mints ≤ (e.terms.bind (·.cap)).getD 0 ∧ (e.terms = none → e.mints = 0) :=
  c10_mints_le_cap_partial cfg (RuneLift.frameOK cfg) chain st evs hr hc id e hg

/-- non-vacuous: a one-block chain with one transaction is indexed by the full index -/
example : ∃ st evs, run ⟨true, true, true, true, true, 0, 0, 0⟩
    [⟨0, 0, 0, 0, [⟨1, [⟨OutPoint.null, false, none, []⟩], [⟨50, false, []⟩], [], none, 0⟩]⟩] = .ok (st, evs) :=
  ⟨_, _, rfl⟩

example : RInv {} 0 0 := RInv_empty 0 0
example : ChainOK [⟨0, 0, 0, 0, []⟩, ⟨1, 0, 0, 0, []⟩] := by
  intro i hi
  have : i = 0 ∨ i = 1 := by simp at hi; omega
  rcases this with rfl | rfl <;> simp

end Ord.Index.Runemint
