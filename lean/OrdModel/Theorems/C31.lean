import OrdModel.Proofs.TextOutgoing
import OrdModel.Proofs.TextSigned
import OrdModel.Proofs.TextDecimalFixed
import OrdModel.Theorems.C31Rune
import OrdModel.Theorems.C31Sat
/-!
# C31 — text parsers are total and never accept by overflow (work stream "text")

Parsers covered here: `Decimal::from_str`, `SatPoint::from_str` (with rust-bitcoin's
`OutPoint::from_str`), `InscriptionId::from_str`, `Outgoing::from_str`, and the explorer query
types `Block` / `Inscription` / `Rune`.  Sat notations: `Theorems/C31Sat.lean`; rune names, spaced
runes and rune ids: `Theorems/C31Rune.lean` (other work streams).

For each parser: `… ≠ panic` for every `List Char` (or a proved witness `_fails` plus the
`_partial` theorem with the missing hypothesis explicit), and `parse s = ok v → Denotes s v`, where
`Denotes` is a grammar-level semantics over unbounded numbers defined independently of the parser.
-/
namespace Ord.C31
open Ord Ord.Text

/-! ## `str::parse::<uN>()` (used by every parser below) -/

/-- accepts exactly the numerals (optional `+`, ≥ 1 ASCII digit) whose value fits, and returns
that value: never accepts by overflow, never mis-reads -/
theorem c31_rust_parse_unsigned (w : Nat) (s : List Char) (n : Nat) :
    parseUnsigned w s = .ok n ↔ Numeral s n ∧ n < 2 ^ w :=
  parseUnsigned_ok_iff w s n

/-! ## `Decimal::from_str` — the code before the repair (model `Num/Decimal.lean`)

These four theorems are statements about the *old* parser; they are kept because they are what
the check reproduced on the real code before `notes/fix-decimal.diff` was applied (history of the
finding).  The current code is covered by the `_fixed` theorems below. -/

/-- **The totality clause is false of the unchanged code**: four panic sites are reachable
(`integer * 10^scale`, `… + decimal`, `10u128.pow(scale)`, `u8::try_from(significant_digits)`). -/
theorem c31_decimal_no_panic_fails :
    Decimal.fromStr "340282366920938463463374607431768211455.5".toList = .panic "mul@integer*10^scale" ∧
    Decimal.fromStr "34028236692093846346337460743176821145.6".toList = .panic "add@integer*10^scale+decimal" ∧
    Decimal.fromStr ("1." ++ String.ofList (List.replicate 49 '0') ++ "1").toList = .panic "mul@10u128.pow(scale)" := by
  refine ⟨by decide, by decide, by decide⟩

set_option maxRecDepth 20000 in
/-- … and a fraction of 280 digits (279 zeros and a one) panics in `u8::try_from(..).unwrap()` -/
theorem c31_decimal_no_panic_fails_u8 :
    Decimal.fromStr ("1." ++ String.ofList (List.replicate 279 '0') ++ "1").toList =
      .panic "unwrap@u8::try_from(significant_digits)" := by
  decide

/-- guard: at most 38 characters — then no panic site is reachable -/
theorem c31_decimal_no_panic_partial (s : List Char) (h : s.length ≤ 38) (site : String) :
    Decimal.fromStr s ≠ .panic site :=
  Decimal.fromStr_no_panic_short s h site

/-- **The denotation clause is false of the unchanged code**: `1.+5` is accepted as 105/100. -/
theorem c31_decimal_sound_fails :
    Decimal.fromStr "1.+5".toList = .ok ⟨105, 2⟩ ∧ ¬ ∃ num den, Decimal.Denotes "1.+5".toList num den := by
  refine ⟨by decide, ?_⟩
  rintro ⟨num, den, h⟩
  have := (Decimal.denotation?_iff _ num den).2 h
  revert this
  have : Decimal.denotation? "1.+5".toList = none := by decide
  rw [this]; simp

/-- guard: the fractional part does not start with `+` — then an accepted string is a decimal of
the grammar and the returned `(value, scale)` is exactly the number it denotes -/
theorem c31_decimal_sound_partial (s : List Char) (dec : Decimal.Dec)
    (hg : Decimal.FractionUnsigned s) (h : Decimal.fromStr s = .ok dec) :
    ∃ num den, Decimal.Denotes s num den ∧ dec.value * 10 ^ den = num * 10 ^ dec.scale ∧
      dec.value < 2 ^ 128 ∧ dec.scale < 256 :=
  Decimal.fromStr_ok_denotes h hg

/-! ## `Decimal::from_str` — after `notes/fix-decimal.diff` (model `Num/Decimal_fixed.lean`) -/

/-- full statement, repaired code: no panic for any string -/
theorem c31_decimal_total_fixed (s : List Char) (site : String) :
    DecimalFixed.fromStr s ≠ .panic site :=
  DecimalFixed.fromStr_ne_panic s site

/-- full statement, repaired code: accepted ⇒ in the grammar and exactly the denoted number -/
theorem c31_decimal_sound_fixed (s : List Char) (dec : Decimal.Dec)
    (h : DecimalFixed.fromStr s = .ok dec) :
    ∃ num den, Decimal.Denotes s num den ∧ dec.value * 10 ^ den = num * 10 ^ dec.scale ∧
      dec.value < 2 ^ 128 ∧ dec.scale < 256 :=
  DecimalFixed.fromStr_ok_denotes h

/-- the four panic witnesses and `1.+5` are rejected by the repaired parser -/
theorem c31_decimal_witnesses_fixed :
    DecimalFixed.fromStr "340282366920938463463374607431768211455.5".toList = .err "decimal out of range" ∧
    DecimalFixed.fromStr "34028236692093846346337460743176821145.6".toList = .err "decimal out of range" ∧
    DecimalFixed.fromStr ("1." ++ String.ofList (List.replicate 49 '0') ++ "1").toList = .err "decimal out of range" ∧
    DecimalFixed.fromStr "1.+5".toList = .err "invalid digit found in string" := by
  refine ⟨by decide, by decide, by decide, by decide⟩

set_option maxRecDepth 20000 in
theorem c31_decimal_witness_u8_fixed :
    DecimalFixed.fromStr ("1." ++ String.ofList (List.replicate 279 '0') ++ "1").toList =
      .err "excessive precision" := by
  decide

/-! ## `SatPoint::from_str` -/

theorem c31_satpoint_total (s : List Char) (site : String) : SatPoint.parse s ≠ .panic site :=
  SatPoint.parse_ne_panic s site

/-- accepted ⇒ `TXID:VOUT:OFFSET` with 64 hex digits, a canonical decimal `VOUT < 2^32` and a
decimal `OFFSET < 2^64`, and exactly those values are returned -/
theorem c31_satpoint_sound (s : List Char) (v : SatPoint.Val) (h : SatPoint.parse s = .ok v) :
    SatPoint.Denotes s v :=
  SatPoint.parse_ok_denotes h

/-! ## `InscriptionId::from_str` -/

/-- the byte-index slices `&s[..64]`, `&s[65..]` and `chars().nth(64).unwrap()` cannot panic: the
ASCII check comes first (multi-byte input is rejected with `Character`) -/
theorem c31_inscription_id_total (s : List Char) (site : String) :
    InscriptionId.parse s ≠ .panic site :=
  InscriptionId.parse_ne_panic s site

theorem c31_inscription_id_sound (s : List Char) (v : InscriptionId.Val)
    (h : InscriptionId.parse s = .ok v) : InscriptionId.Denotes s v :=
  InscriptionId.parse_ok_denotes h

/-! ## `Outgoing::from_str`

`Outgoing.parseWith fixed` / `Query.parseRuneWith fixed`: `fixed` says whether the SpacedRune repair
(`notes/fix-spaced-rune-shl.diff`) is present; `Outgoing.parse` / `Query.parseRune` take the flag
from `Generated/SpacedRuneFix.lean`, re-extracted from /repo on every run. -/

/-- **false of the unrepaired code**: the rune-amount alternative inherits the shift-overflow panic
of `SpacedRune::from_str` (the rune work stream's finding).  (Before `notes/fix-decimal.diff` it
also inherited the overflow panics of `Decimal::from_str`; that input is now an error.) -/
theorem c31_outgoing_no_panic_fails :
    Outgoing.parseWith false "1:AAAAAAAAAAAAAAAAAAAAAAAAAAAAAAAAA.A".toList = .panic "shl@1<<(rune.len()-1)" ∧
    Outgoing.parseWith false "340282366920938463463374607431768211455.5:A".toList =
      .err "rune-amount:decimal out of range" := by
  refine ⟨by decide, by decide⟩

/-- every panic of `Outgoing::from_str` is a panic of `SpacedRune::from_str` on the name captured
by the RUNE regex; all other alternatives (and the decimal amount) are total -/
theorem c31_outgoing_no_panic_partial (fixed : Bool) (s : List Char) (site : String)
    (h : Outgoing.parseWith fixed s = .panic site) :
    ∃ num name, Regex.runeCaptures s = some (num, name) ∧
      Sub.spacedRuneFromStrWith fixed name = .panic site :=
  Outgoing.parse_panic_only_rune fixed s site h

/-- full statement once the SpacedRune repair is present: no panic for any string -/
theorem c31_outgoing_total_fixed (s : List Char) (site : String) :
    Outgoing.parseWith true s ≠ .panic site := by
  intro h
  obtain ⟨_, name, _, hp⟩ := Outgoing.parse_panic_only_rune true s site h
  exact Sub.spacedRuneFromStrWith_true_ne_panic name site hp

theorem c31_outgoing_sound_satpoint (s : List Char) (v : SatPoint.Val)
    (h : Outgoing.parse s = .ok (.satPoint v)) : SatPoint.Denotes s v :=
  Outgoing.parse_ok_satPoint h

theorem c31_outgoing_sound_inscription_id (s : List Char) (v : InscriptionId.Val)
    (h : Outgoing.parse s = .ok (.inscriptionId v)) : InscriptionId.Denotes s v :=
  Outgoing.parse_ok_inscriptionId h

/-! ## explorer queries -/

theorem c31_query_block_total (s : List Char) (site : String) : Query.parseBlock s ≠ .panic site :=
  Query.parseBlock_ne_panic s site

theorem c31_query_block_sound (s : List Char) :
    (∀ n, Query.parseBlock s = .ok (.height n) → Numeral s n ∧ n < 2 ^ 32) ∧
    (∀ t, Query.parseBlock s = .ok (.hash t) →
      s.length = 64 ∧ s.all isHexDigit = true ∧ t = s.map toLowerAscii) :=
  ⟨fun _ h => Query.parseBlock_ok_height h, fun _ h => Query.parseBlock_ok_hash h⟩

theorem c31_query_inscription_total (s : List Char) (site : String) :
    Query.parseInscription s ≠ .panic site :=
  Query.parseInscription_ne_panic s site

theorem c31_query_inscription_sound_id (s : List Char) (v : InscriptionId.Val)
    (h : Query.parseInscription s = .ok (.id v)) : InscriptionId.Denotes s v :=
  Query.parseInscription_ok_id h

/-- an accepted inscription number is a signed decimal numeral (optional `+`/`-`) with exactly that
value, within `i32` -/
theorem c31_query_inscription_sound_number (s : List Char) (z : Int)
    (h : Query.parseInscription s = .ok (.number z)) :
    SignedNumeral s z ∧ -(2 : Int) ^ 31 ≤ z ∧ z < (2 : Int) ^ 31 :=
  Query.parseInscription_ok_number h

/-- **false of the unrepaired code** (inherited from `SpacedRune::from_str`) -/
theorem c31_query_rune_no_panic_fails :
    Query.parseRuneWith false "AAAAAAAAAAAAAAAAAAAAAAAAAAAAAAAAA.A".toList = .panic "shl@1<<(rune.len()-1)" := by
  decide

theorem c31_query_rune_no_panic_partial (fixed : Bool) (s : List Char) (site : String)
    (h : Query.parseRuneWith fixed s = .panic site) : Sub.spacedRuneFromStrWith fixed s = .panic site :=
  Query.parseRune_panic_only_spaced fixed s site h

/-- full statement once the SpacedRune repair is present -/
theorem c31_query_rune_total_fixed (s : List Char) (site : String) :
    Query.parseRuneWith true s ≠ .panic site := fun h =>
  Sub.spacedRuneFromStrWith_true_ne_panic s site (Query.parseRune_panic_only_spaced true s site h)

theorem c31_query_rune_sound (s : List Char) :
    (∀ b t, Query.parseRune s = .ok (.id b t) →
      ∃ bs ts, s = bs ++ ':' :: ts ∧ Numeral bs b ∧ b < 2 ^ 64 ∧ Numeral ts t ∧ t < 2 ^ 32) ∧
    (∀ n, Query.parseRune s = .ok (.number n) → Numeral s n ∧ n < 2 ^ 64) :=
  ⟨fun _ _ h => Query.parseRune_ok_id h, fun _ h => Query.parseRune_ok_number h⟩

/-! ## Non-vacuity -/
example : SatPoint.parse ("000000000019d6689c085ae165831e934ff763ae46a2a6c172b3f1b60a8ce26f:0:+007").toList =
    .ok ⟨"000000000019d6689c085ae165831e934ff763ae46a2a6c172b3f1b60a8ce26f".toList, 0, 7⟩ := by decide
example : InscriptionId.parse ("000000000019D6689C085AE165831E934FF763AE46A2A6C172B3F1B60A8CE26Fi4294967295").toList =
    .ok ⟨"000000000019d6689c085ae165831e934ff763ae46a2a6c172b3f1b60a8ce26f".toList, 4294967295⟩ := by decide
example : InscriptionId.parse ("000000000019d6689c085ae165831e934ff763ae46a2a6c172b3f1b60a8ce26fi4294967296").toList =
    .err "index:pos-overflow" := by decide
example : InscriptionId.parse ("000000000019d6689c085ae165831e934ff763ae46a2a6c172b3f1b60a8ce2é:0").toList =
    .err "character" := by decide
example : Decimal.fromStr "123.4560".toList = .ok ⟨123456, 3⟩ := by decide
example : DecimalFixed.fromStr "123.4560".toList = .ok ⟨123456, 3⟩ := by decide
example : Outgoing.parseWith false "1.5 : UNCOMMON•GOODS".toList = .ok (.rune 15 1 2055900680524219742 128) := by decide
example : Outgoing.parseWith true "1.5 : UNCOMMON•GOODS".toList = .ok (.rune 15 1 2055900680524219742 128) := by decide
example : Outgoing.parseWith true "1:AAAAAAAAAAAAAAAAAAAAAAAAAAAAAAAAA.A".toList = .err "rune:range" := by decide
example : Outgoing.parseWith false "nvtdijuwxlp".toList = .ok (.sat 0) := by decide
example : Query.parseBlock "840000".toList = .ok (.height 840000) := by decide
example : Query.parseRuneWith false "840000:1".toList = .ok (.id 840000 1) := by decide
example : Query.parseInscription "-2147483648".toList = .ok (.number (-2147483648)) := by decide

end Ord.C31
