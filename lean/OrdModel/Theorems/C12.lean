import OrdModel.Proofs.IndexSchedSeq
import OrdModel.Proofs.IndexSchedValid
import OrdModel.Proofs.IndexSchedRender
import OrdModel.Proofs.IndexLiftInsChain
import OrdModel.Proofs.IndexLiftInsValid
/-!
# C12 — index content does not depend on how indexing was scheduled

Model: `OrdModel/Index/Store.lean` (concrete layer: the UTXO cache lives across the blocks of a
commit batch, `Store.commit` = `flushCache`; a schedule = the chain cut into commit batches,
`runBatches`) over `OrdModel/Index/Block.lean` (`applyBlock` = commit after every block,
`runBlocks`).  Update-call boundaries and reopen points are commits followed by re-reading the
committed tables, i.e. they are batch boundaries of the schedule (the `sched` stream of
`eng_store` checks that the model with commits exactly at the implementation's commit points
reproduces every table dump).  Lemmas: `OrdModel/Proofs/IndexSched*.lean`.

Content equality is **extensional** on the three tables the cache is flushed into (`utxo`,
`seq2sp`, `script2out` are association lists whose element order depends on flush order) and
syntactic on every other field: `Sched.Equiv`; `Sched.EquivU` is `Equiv` without `seq2sp`.

Hypotheses (`Sched.ChainCond`): no two transactions of the chain share a txid, no txid is the
all-zero one, and no transaction but the first of a block spends the null / unbound outpoint.
The first one is necessary: `c12_dup_txid_fails`.
-/
namespace Ord.Index.Sched
open Ord Ord.Index Outcome

/-- Stage (a): indexing one block into an empty cache and committing is `applyBlock`, as a
syntactic equality of outcomes (state and events) — `flushCache` commutes with the rune pass
and the header/height write.  No hypothesis on the block. -/
theorem c12_single_block_batch (cfg : Cfg) (st : State) (blk : Block) :
    omap (fun r => ((r.1.commit cfg).st, r.2)) (indexBlockC cfg ⟨st, []⟩ blk) = applyBlock cfg st blk :=
  singleBlock_eq cfg st blk

/-- One block, any pending cache: if the concrete store `s` (tables + uncommitted cache) and the
abstract state `a` are related by the simulation relation `SRel` (the cache overlaid on the
tables is `a`'s `utxo` table, special outpoints merged; all other fields equal; script rows
exactly for table-resident entries on both sides), then indexing a block without committing and
`applyBlock` agree on the outcome — same panic / same error / same events — and the results are
related again. -/
theorem c12_block_step (cfg : Cfg) (seen : List Txid) (s : Store) (a : State) (blk : Block)
    (hS : SRel cfg seen s a) (hb : BlockOK seen blk) :
    OutRel (fun rC rA => rC.2 = rA.2 ∧ SRel cfg (blk.txs.map (·.txid) ++ seen) rC.1 rA.1)
      (indexBlockC cfg s blk) (applyBlock cfg a blk) :=
  indexBlock_rel cfg seen s a blk hS hb

/-- `commit` does not change what the store presents. -/
theorem c12_commit_step (cfg : Cfg) (seen : List Txid) (s : Store) (a : State) (hS : SRel cfg seen s a) :
    SRel cfg seen (s.commit cfg) a ∧ (s.commit cfg).cache = [] :=
  ⟨commit_rel cfg seen s a hS, rfl⟩

/-- Every schedule refines the abstract run: for every chain satisfying `ChainCond` and every
way of cutting it into commit batches, the scheduled run and the block-by-block run either
both stop with the same panic / error, or both succeed and the committed content is the same
on every table except (for now) `seq2sp`.  `_partial`: `seq2sp` is covered by
`c12_schedule_refines_blocks` under C04's invariant. -/
theorem c12_schedule_refines_blocks_partial (cfg : Cfg) (sched : List (List Block))
    (hc : ChainCond sched.flatten) :
    OutRel (fun s a => EquivU s.st a ∧ s.cache = [])
      (runBatches cfg sched {}) (runBlocks cfg sched.flatten {}) :=
  OutRel.mono (fun _ _ h => ⟨h.1.equivU h.2, h.2⟩)
    (runBatches_rel cfg sched [] {} {} (SRel.init cfg) rfl hc.chainOK)

/-- Schedule independence: two schedules of the same chain give the same outcome and, on
success, the same committed content (everything but `seq2sp`, see above). -/
theorem c12_schedule_independent_partial (cfg : Cfg) (sched₁ sched₂ : List (List Block))
    (hflat : sched₁.flatten = sched₂.flatten) (hc : ChainCond sched₁.flatten) :
    OutRel (fun s₁ s₂ => EquivU s₁.st s₂.st ∧ s₁.cache = [] ∧ s₂.cache = [])
      (runBatches cfg sched₁ {}) (runBatches cfg sched₂ {}) := by
  have h1 := c12_schedule_refines_blocks_partial cfg sched₁ hc
  have h2 := c12_schedule_refines_blocks_partial cfg sched₂ (hflat ▸ hc)
  rw [← hflat] at h2
  exact OutRel.trans_symm (fun _ _ _ ha hb => ⟨ha.1.trans hb.1.symm, ha.2, hb.2⟩) h1 h2

/-- The committed tables of every schedule are finite maps / a finite set (no duplicate `utxo`
or `seq2sp` keys, no duplicate `script2out` rows — so "same `AL.get` for every key" is equality
of content), and the script index lists exactly the `utxo` table's entries. -/
theorem c12_committed_tables_wf (cfg : Cfg) (sched : List (List Block)) (hc : ChainCond sched.flatten)
    (s : Store) (h : runBatches cfg sched {} = .ok s) :
    TablesWF s.st ∧
    (cfg.indexAddresses = true → ∀ scr op, (scr, op) ∈ s.st.script2out ↔
      ∃ e, AL.get s.st.utxo op = some e ∧ e.script = scr) := by
  have h1 := runBatches_rel cfg sched [] {} {} (SRel.init cfg) rfl hc.chainOK
  have hw := wf2_runBatches cfg sched {} s h ⟨List.nodup_nil, List.nodup_nil⟩
  rw [h] at h1
  cases hr : runBlocks cfg sched.flatten {} with
  | panic e => rw [hr] at h1; exact absurd h1 (by simp [OutRel])
  | err e => rw [hr] at h1; exact absurd h1 (by simp [OutRel])
  | ok a =>
    rw [hr] at h1
    simp only [OutRel] at h1
    exact ⟨⟨h1.1.tinvC.nodup, hw.1, hw.2⟩, h1.1.tinvC.rows⟩

/-- C16's chain-validity predicate (consensus rules as far as the indexer can tell: inputs spend
existing unspent outputs, no null input outside the coinbase, distinct non-zero txids, …) implies
the conditions C12 is proved under: the theorems hold for "every valid chain". -/
theorem c12_chainCond_of_valid_chain (chain : List Block) (h : Valid.validChain chain = true) :
    ChainCond chain :=
  ChainCond.of_validChain chain h

/-! ## `seq2sp` (SEQUENCE_NUMBER_TO_SATPOINT)

`flushCache` rewrites the rows of the inscriptions listed by the flushed entries; the concrete
layer flushes the accumulated special-outpoint entries last, the abstract layer flushes them
after every block.  The two orders commit the same finite map exactly when no sequence number
is listed twice — C04's invariant.  The theorems below take it as the hypothesis
`SeqConsistentRun` (at every block boundary of the abstract run, `seq2sp` and the output lists
say the same thing), which follows from `Insloc.InsPartitioned` (`c12_seqConsistent_of_c04`);
C04 proves its per-transaction step and checks it on every block of every generated chain, its
lift to all reachable states is open (notes/C04.md), hence `_partial`-style hypothesis here. -/

/-- C04's invariant at every block boundary of the abstract run gives the hypothesis below. -/
theorem c12_seqConsistent_of_c04 (cfg : Cfg) (chain : List Block) (hc : ChainCond chain)
    (h : ∀ pre a, pre <+: chain → runBlocks cfg pre {} = .ok a → Insloc.InsPartitioned cfg a) :
    SeqConsistentRun cfg chain {} :=
  SeqConsistentRun.of_insPartitioned cfg chain hc.chainOK h

/-- One commit batch (any number of blocks, from a committed store): if `seq2sp` agreed at the
previous commit and the abstract states at the two ends of the batch are consistent, `seq2sp`
agrees as a finite map after the commit. -/
theorem c12_batch_seq2sp (cfg : Cfg) (bs : List Block) (seen : List Txid) (s : Store) (a : State)
    (hS : SRel cfg seen s a) (h0 : s.cache = []) (hc : ChainOK seen bs)
    (hQ : ∀ k, AL.get s.st.seq2sp k = AL.get a.seq2sp k)
    (s' : Store) (a' : State) (hC : runBatch cfg bs s = .ok s') (hA : runBlocks cfg bs a = .ok a')
    (hca : SeqConsistent a) (hca' : SeqConsistent a') :
    ∀ k, AL.get s'.st.seq2sp k = AL.get a'.seq2sp k :=
  batch_seq2sp cfg bs seen s a hS h0 hc hQ s' a' hC hA hca hca'

/-- Every schedule refines the abstract run, on the whole content. -/
theorem c12_schedule_refines_blocks (cfg : Cfg) (sched : List (List Block))
    (hc : ChainCond sched.flatten) (hseq : SeqConsistentRun cfg sched.flatten {}) :
    OutRel (fun s a => Equiv s.st a ∧ s.cache = [])
      (runBatches cfg sched {}) (runBlocks cfg sched.flatten {}) := by
  have h1 := c12_schedule_refines_blocks_partial cfg sched hc
  cases hC : runBatches cfg sched {} with
  | panic e => rw [hC] at h1; cases hA : runBlocks cfg sched.flatten {} <;> rw [hA] at h1 <;> simp_all [OutRel]
  | err e => rw [hC] at h1; cases hA : runBlocks cfg sched.flatten {} <;> rw [hA] at h1 <;> simp_all [OutRel]
  | ok s =>
    cases hA : runBlocks cfg sched.flatten {} with
    | panic e => rw [hC, hA] at h1; exact absurd h1 (by simp [OutRel])
    | err e => rw [hC, hA] at h1; exact absurd h1 (by simp [OutRel])
    | ok a =>
      rw [hC, hA] at h1
      simp only [OutRel] at h1 ⊢
      have hq := runBatches_seq2sp cfg sched [] {} {} (SRel.init cfg) rfl hc.chainOK (fun _ => rfl) hseq s a hC hA
      exact ⟨⟨h1.1.core, h1.1.utxo, hq, h1.1.script2out⟩, h1.2⟩

/-- **C12**: for every configuration, every chain (`ChainCond`) and every two ways of cutting
it into commit batches, both runs end with the same panic / the same error, or both succeed
with the same committed content (`Equiv`: `utxo`, `seq2sp`, `script2out` as finite maps / set,
every other table, counter and statistic syntactically). -/
theorem c12_schedule_independent (cfg : Cfg) (sched₁ sched₂ : List (List Block))
    (hflat : sched₁.flatten = sched₂.flatten) (hc : ChainCond sched₁.flatten)
    (hseq : SeqConsistentRun cfg sched₁.flatten {}) :
    OutRel (fun s₁ s₂ => Equiv s₁.st s₂.st ∧ s₁.cache = [] ∧ s₂.cache = [])
      (runBatches cfg sched₁ {}) (runBatches cfg sched₂ {}) := by
  have h1 := c12_schedule_refines_blocks cfg sched₁ hc hseq
  have h2 := c12_schedule_refines_blocks cfg sched₂ (hflat ▸ hc) (hflat ▸ hseq)
  rw [← hflat] at h2
  exact OutRel.trans_symm (fun _ _ _ ha hb => ⟨ha.1.trans hb.1.symm, ha.2, hb.2⟩) h1 h2

/-- The canonical dump (`renderSection`: the sorted rows of every section, what
`Index::verif_dump` prints) of the committed content is the same for any two schedules. -/
theorem c12_dumps_equal (cfg : Cfg) (sched₁ sched₂ : List (List Block))
    (hflat : sched₁.flatten = sched₂.flatten) (hc : ChainCond sched₁.flatten)
    (hseq : SeqConsistentRun cfg sched₁.flatten {}) :
    OutRel (fun s₁ s₂ => ∀ name, renderSection cfg s₁.st name = renderSection cfg s₂.st name)
      (runBatches cfg sched₁ {}) (runBatches cfg sched₂ {}) := by
  have h := c12_schedule_independent cfg sched₁ sched₂ hflat hc hseq
  cases h1 : runBatches cfg sched₁ {} with
  | panic e => rw [h1] at h; cases h2 : runBatches cfg sched₂ {} <;> rw [h2] at h <;> simp_all [OutRel]
  | err e => rw [h1] at h; cases h2 : runBatches cfg sched₂ {} <;> rw [h2] at h <;> simp_all [OutRel]
  | ok s₁ =>
    cases h2 : runBatches cfg sched₂ {} with
    | panic e => rw [h1, h2] at h; exact absurd h (by simp [OutRel])
    | err e => rw [h1, h2] at h; exact absurd h (by simp [OutRel])
    | ok s₂ =>
      rw [h1, h2] at h
      simp only [OutRel] at h ⊢
      intro name
      exact renderSection_equiv cfg s₁.st s₂.st h.1
        (c12_committed_tables_wf cfg sched₁ hc s₁ h1).1
        (c12_committed_tables_wf cfg sched₂ (hflat ▸ hc) s₂ h2).1 name

/-! ## The full statement: `SeqConsistentRun` discharged

C04's invariant is now proved for every reachable state of the abstract run
(`Insloc.c04_reachable`, lemmas `Proofs/IndexLiftIns*.lean`) under `InsLift.InsChain` =
`ChainCond` + every block starts with a coinbase (first input null) + block heights never
decrease.  So `SeqConsistentRun` is a theorem and the C12 statements hold with chain hypotheses
only. -/

/-- `SeqConsistentRun` holds for every chain satisfying `InsChain`. -/
theorem c12_seqConsistentRun_full (cfg : Cfg) (chain : List Block) (hc : InsLift.InsChain chain) :
    SeqConsistentRun cfg chain {} :=
  c12_seqConsistent_of_c04 cfg chain hc.cond (fun pre a hpre hr => by
    obtain ⟨suf, rfl⟩ := hpre
    obtain ⟨evs, hrun⟩ := InsLift.run_of_runBlocks cfg pre a hr
    exact (InsLift.run_chainInv cfg pre a evs hc.ok.prefix hrun).1.part)

/-- Every schedule refines the block-by-block run on the whole content (`Equiv`), chain
hypotheses only. -/
theorem c12_schedule_refines_blocks_full (cfg : Cfg) (sched : List (List Block))
    (hc : InsLift.InsChain sched.flatten) :
    OutRel (fun s a => Equiv s.st a ∧ s.cache = [])
      (runBatches cfg sched {}) (runBlocks cfg sched.flatten {}) :=
  c12_schedule_refines_blocks cfg sched hc.cond (c12_seqConsistentRun_full cfg _ hc)

/-- **C12, full**: for every configuration, every chain with pairwise distinct non-zero txids,
no special-outpoint spend outside a block's first transaction, coinbase-first blocks and
non-decreasing heights, and every two ways of cutting it into commit batches, both runs end with
the same panic / the same error, or both succeed with the same committed content (`Equiv`:
`utxo`, `seq2sp`, `script2out` as finite maps / set, every other table, counter and statistic
syntactically). -/
theorem c12_schedule_independent_full (cfg : Cfg) (sched₁ sched₂ : List (List Block))
    (hflat : sched₁.flatten = sched₂.flatten) (hc : InsLift.InsChain sched₁.flatten) :
    OutRel (fun s₁ s₂ => Equiv s₁.st s₂.st ∧ s₁.cache = [] ∧ s₂.cache = [])
      (runBatches cfg sched₁ {}) (runBatches cfg sched₂ {}) :=
  c12_schedule_independent cfg sched₁ sched₂ hflat hc.cond (c12_seqConsistentRun_full cfg _ hc)

/-- The canonical dump of the committed content is the same for any two schedules, chain
hypotheses only. -/
theorem c12_dumps_equal_full (cfg : Cfg) (sched₁ sched₂ : List (List Block))
    (hflat : sched₁.flatten = sched₂.flatten) (hc : InsLift.InsChain sched₁.flatten) :
    OutRel (fun s₁ s₂ => ∀ name, renderSection cfg s₁.st name = renderSection cfg s₂.st name)
      (runBatches cfg sched₁ {}) (runBatches cfg sched₂ {}) :=
  c12_dumps_equal cfg sched₁ sched₂ hflat hc.cond (c12_seqConsistentRun_full cfg _ hc)

/-- **C12 for every valid chain**: C16's chain-validity predicate implies all chain hypotheses, so
for every consensus-valid chain any two commit schedules give the same outcome and, on success,
the same committed content and the same canonical dump. -/
theorem c12_valid_chain (cfg : Cfg) (sched₁ sched₂ : List (List Block))
    (hflat : sched₁.flatten = sched₂.flatten) (hv : Valid.validChain sched₁.flatten = true) :
    OutRel (fun s₁ s₂ => Equiv s₁.st s₂.st ∧ s₁.cache = [] ∧ s₂.cache = [])
      (runBatches cfg sched₁ {}) (runBatches cfg sched₂ {}) ∧
    OutRel (fun s₁ s₂ => ∀ name, renderSection cfg s₁.st name = renderSection cfg s₂.st name)
      (runBatches cfg sched₁ {}) (runBatches cfg sched₂ {}) :=
  let hc := (InsLift.insChain_of_validChain _ hv).1
  ⟨c12_schedule_independent_full cfg sched₁ sched₂ hflat hc, c12_dumps_equal_full cfg sched₁ sched₂ hflat hc⟩

/-! ## Duplicate txids: schedule independence fails

Blocks 0 and 1 have the same coinbase transaction (txid 7) and block 2 spends `7:0`.  If
blocks 1 and 2 share a commit batch, the spend is served from the cache (the entry block 1
inserted) and the entry block 0 committed stays in the table for ever; if a commit falls
between them, block 1 overwrites the table entry and block 2 removes it. -/

def dupCfg : Cfg :=
  { indexSats := true, indexAddresses := true, indexTransactions := false, indexInscriptions := false, indexRunes := false, firstInscriptionHeight := 0, jubileeHeight := 0, firstRuneHeight := 0 }
def dupCbIn : TxIn := { prev := OutPoint.null, taproot := false, confHeight := none, pushes := [] }
def dupOut (script : List UInt8) : TxOut := { value := 5000000000, opReturn := false, script := script }
def dupT : Tx := { txid := 7, inputs := [dupCbIn], outputs := [dupOut [1]], envelopes := [], artifact := none, size := 0 }
def dupB0 : Block := { height := 0, time := 0, hash := 100, minimumRune := 0, txs := [dupT] }
def dupB1 : Block := { height := 1, time := 0, hash := 101, minimumRune := 0, txs := [dupT] }
def dupCb2 : Tx := { txid := 8, inputs := [dupCbIn], outputs := [dupOut [2]], envelopes := [], artifact := none, size := 0 }
def dupSpend : Tx :=
  { txid := 9, inputs := [{ prev := ⟨7, 0⟩, taproot := false, confHeight := some 1, pushes := [] }], outputs := [dupOut [3]], envelopes := [], artifact := none, size := 0 }
def dupB2 : Block := { height := 2, time := 0, hash := 102, minimumRune := 0, txs := [dupCb2, dupSpend] }

def utxoAt (r : Outcome Store) (op : OutPoint) : Option (Option UtxoEntry) :=
  match r with
  | .ok s => some (AL.get s.st.utxo op)
  | _ => none

/-- With a duplicated txid whose first output is still unspent, two schedules of the same chain
commit different `utxo` tables: committing between the duplicate and the spend removes `7:0`,
not committing there leaves block 0's entry (sat range `0–5000000000`) in the table. -/
theorem c12_dup_txid_fails :
    utxoAt (runBatches dupCfg [[dupB0], [dupB1], [dupB2]] {}) ⟨7, 0⟩ = some none ∧
    utxoAt (runBatches dupCfg [[dupB0], [dupB1, dupB2]] {}) ⟨7, 0⟩ =
      some (some ⟨0, [(0, 5000000000)], [1], []⟩) ∧
    [[dupB0], [dupB1], [dupB2]].flatten = [[dupB0], [dupB1, dupB2]].flatten := by
  refine ⟨by decide, by decide, rfl⟩

/-! ## Non-vacuity -/

def exT (txid : Txid) (script : List UInt8) : Tx :=
  { txid := txid, inputs := [dupCbIn], outputs := [dupOut script], envelopes := [], artifact := none, size := 0 }
def exSpend (txid : Txid) (prev : OutPoint) : Tx :=
  { txid := txid, inputs := [{ prev := prev, taproot := false, confHeight := some 0, pushes := [] }], outputs := [dupOut [9]], envelopes := [], artifact := none, size := 0 }
def exB0 : Block := { height := 0, time := 0, hash := 100, minimumRune := 0, txs := [exT 1 [1]] }
def exB1 : Block := { height := 1, time := 0, hash := 101, minimumRune := 0, txs := [exT 2 [2], exSpend 3 ⟨1, 0⟩] }
def exB2 : Block := { height := 2, time := 0, hash := 102, minimumRune := 0, txs := [exT 4 [4], exSpend 5 ⟨3, 0⟩] }

/-- the hypotheses are satisfiable on a chain with same-batch and cross-batch spends, and both
schedules succeed (so the `OutRel` conclusions above are about `ok` outcomes) -/
example : ChainCond [[exB0], [exB1, exB2]].flatten ∧
    (runBatches dupCfg [[exB0], [exB1, exB2]] {}).isOk = true ∧
    (runBatches dupCfg [[exB0, exB1], [exB2]] {}).isOk = true ∧
    utxoAt (runBatches dupCfg [[exB0], [exB1, exB2]] {}) ⟨5, 0⟩ =
      utxoAt (runBatches dupCfg [[exB0, exB1], [exB2]] {}) ⟨5, 0⟩ := by
  refine ⟨⟨by decide, by decide, by decide⟩, by decide, by decide, by decide⟩

/-- the example chain is consensus-valid in the sense of C16's predicate -/
example : Valid.validChain [exB0, exB1, exB2] = true := by decide

/-! An inscription revealed in block 1 (output `3:0`), moved in block 2 (to `5:0`) and spent to
fees in block 3 (the coinbase pays out less than the subsidy, so it lands on the null outpoint):
with blocks 1–3 in one batch the inscribed entries are created and spent inside the cache. -/

def insCfg : Cfg :=
  { indexSats := false, indexAddresses := true, indexTransactions := false, indexInscriptions := true, indexRunes := false, firstInscriptionHeight := 0, jubileeHeight := 0, firstRuneHeight := 0 }
def insEnv : Envelope :=
  { input := 0, offset := 0, unrecognizedEven := false, duplicateField := false, incompleteField := false, pushnum := false, stutter := false, hidden := false, gallery := false, pointerField := false, pointer := none, parents := [] }
def insReveal : Tx :=
  { txid := 3, inputs := [{ prev := ⟨1, 0⟩, taproot := true, confHeight := some 0, pushes := [] }], outputs := [dupOut [9]], envelopes := [insEnv], artifact := none, size := 0 }
def insFee : Tx :=
  { txid := 7, inputs := [{ prev := ⟨5, 0⟩, taproot := false, confHeight := some 2, pushes := [] }], outputs := [], envelopes := [], artifact := none, size := 0 }
def insB0 : Block := { height := 0, time := 0, hash := 100, minimumRune := 0, txs := [exT 1 [1]] }
def insB1 : Block := { height := 1, time := 0, hash := 101, minimumRune := 0, txs := [exT 2 [2], insReveal] }
def insB2 : Block := { height := 2, time := 0, hash := 102, minimumRune := 0, txs := [exT 4 [4], exSpend 5 ⟨3, 0⟩] }
def insB3 : Block := { height := 3, time := 0, hash := 103, minimumRune := 0, txs := [exT 6 [6], insFee] }

def seqAt (r : Outcome Store) (seq : Nat) : Option (Option SatPoint) :=
  match r with
  | .ok s => some (AL.get s.st.seq2sp seq)
  | _ => none

/-- `ChainCond` and `SeqConsistentRun` are satisfiable together on a chain with an inscription
that is created, moved and lost inside one commit batch; the two schedules succeed and commit
the inscription at the null outpoint -/
example : ChainCond [[insB0], [insB1, insB2, insB3]].flatten ∧
    SeqConsistentRun insCfg [[insB0], [insB1, insB2, insB3]].flatten {} ∧
    seqAt (runBatches insCfg [[insB0], [insB1, insB2, insB3]] {}) 0 = some (some ⟨OutPoint.null, 0⟩) ∧
    seqAt (runBatches insCfg [[insB0, insB1], [insB2], [insB3]] {}) 0 = some (some ⟨OutPoint.null, 0⟩) := by
  refine ⟨⟨by decide, by decide, by decide⟩, seqRunB_sound _ _ _ (by decide), by decide, by decide⟩

/-- the duplicate-txid chain is excluded by `ChainCond` (and only by its first clause) -/
example : ¬ (chainTxids [dupB0, dupB1, dupB2]).Nodup := by decide

/-- `InsChain` is satisfiable on the chain with an inscription created, moved and lost inside one
commit batch (both schedules succeed, see above) -/
example : InsLift.InsChain [[insB0], [insB1, insB2, insB3]].flatten := by
  refine ⟨⟨by decide, by decide, by decide⟩, ?_, by decide⟩
  intro b hb
  simp only [List.flatten_cons, List.flatten_nil, List.cons_append, List.nil_append, List.append_nil,
    List.mem_cons, List.not_mem_nil, or_false] at hb
  rcases hb with rfl | rfl | rfl | rfl <;> exact ⟨_, _, rfl, by decide⟩

end Ord.Index.Sched
