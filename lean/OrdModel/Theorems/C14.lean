import OrdModel.Proofs.StoreProtocol
/-!
# C14 — Reorganizations within the recoverable depth are fully undone

Model: `OrdModel/Store/Protocol.lean` (`Index::update`, `update_index`, `commit`,
`detect_reorg`, `handle_reorg`, `is_savepoint_required`, `update_savepoints`) over block ids;
the index content is a function of the indexed block list (C12), so "equal to an index built
from scratch on the new best chain" is `db.cur.chain = node`.

`Linked a node` is hash chaining (a block hash commits to its ancestors): if `a` and `node`
agree at a height they agree below it.  It is an assumption about Bitcoin block hashes, not
about ord.
-/
namespace Ord.Store

/-- Whenever an update returns normally after the node moved to a longer best chain, the index
is exactly the node's chain — no abandoned block is kept.  Holds for every settings value,
every savepoint configuration, every number of retry rounds. -/
theorem c14_ok_means_equal (s : Settings) (hd : Nat) (node : List Nat) (rounds : Nat) (db db' : Db) (evs : List Ev)
    (hl : Linked db.cur.chain node) (hls : ∀ sp ∈ db.savepoints, Linked sp.chain node)
    (hlen : db.cur.chain.length < node.length)
    (h : update s hd node rounds db [] = (db', evs, .ok)) : db'.cur.chain = node := by
  cases rounds with
  | zero => simp [update] at h
  | succ r =>
    unfold update at h
    cases hu : updateIndex s hd node (node.length + 2) db db.cur.chain 0 [] with
    | done db1 e =>
      rw [hu] at h
      simp only at h
      have hp := done_implies_prefix s hd node (node.length + 1) db db1 e hl hlen hu
      obtain ⟨db2, e2, h1, h2⟩ := updateIndex_of_prefix s hd node (node.length + 2) db db.cur.chain 0 []
        hp (IsPre.refl _) (by omega) (by intro _; rfl)
      rw [hu] at h1
      injection h1 with hdb _
      injection h with hdb' _
      rw [← hdb', hdb]; exact h2
    | reorg db1 e d =>
      rw [hu] at h
      cases d with
      | ok => simp at h
      | unrecoverable => simp at h
      | recoverable hh dd =>
        simp only at h
        -- the write transaction was dropped: db1 = db as far as savepoints are concerned
        cases hr : handleReorg db1 with
        | none => rw [hr] at h; simp at h
        | some db2 =>
          rw [hr] at h
          simp only at h
          split at h
          · simp at h
          · rename_i hnot
            -- restored tip is on the node's chain
            have hsp : ∃ sp, sp ∈ db1.savepoints ∧ db2.cur = sp := by
              unfold handleReorg at hr
              split at hr
              · cases hr
              · rename_i oldest rest heq
                injection hr with hr
                exact ⟨oldest, by rw [heq]; simp, by rw [← hr]⟩
            obtain ⟨sp, hmem, hcur⟩ := hsp
            have hdb1 := (reorg_at_first s hd node db db1 e _ hl hu).1
            have hlsp : Linked db2.cur.chain node := by
              rw [hcur]; exact hls sp (by rw [← hdb1]; exact hmem)
            have hpre : IsPre db2.cur.chain node := by
              apply isPre_of_tip hlsp
              intro hpos
              by_cases hc : db2.cur.chain[db2.cur.chain.length - 1]? = node[db2.cur.chain.length - 1]?
              · exact hc
              · exact absurd ⟨hpos, hc⟩ hnot
            cases r with
            | zero => simp [update] at h
            | succ r' =>
              obtain ⟨db3, e3, h1, h2⟩ := update_of_prefix s hd node r' db2 (e ++ [Ev.restored hh]) hpre
              simp only [List.nil_append] at h
              rw [h1] at h
              injection h with hdb _
              rw [← hdb]; exact h2

/-- The next update terminates: after at most one rollback it either completes or reports the
reorganisation as unrecoverable — it never keeps retrying (two rounds always suffice). -/
theorem c14_terminates (s : Settings) (hd : Nat) (node : List Nat) (r : Nat) (db : Db)
    (hl : Linked db.cur.chain node) (hls : ∀ sp ∈ db.savepoints, Linked sp.chain node) :
    (update s hd node (r + 2) db []).2.2 ≠ .outOfFuel := by
  unfold update
  cases hu : updateIndex s hd node (node.length + 2) db db.cur.chain 0 [] with
  | done db1 e => simp
  | reorg db1 e d =>
    cases d with
    | ok => simp
    | unrecoverable => simp
    | recoverable hh dd =>
      simp only
      cases hr : handleReorg db1 with
      | none => simp
      | some db2 =>
        simp only
        split
        · simp
        · rename_i hnot
          obtain ⟨sp, hmem, hcur⟩ : ∃ sp, sp ∈ db1.savepoints ∧ db2.cur = sp := by
            unfold handleReorg at hr
            split at hr
            · cases hr
            · rename_i oldest rest heq
              injection hr with hr
              exact ⟨oldest, by rw [heq]; simp, by rw [← hr]⟩
          have hdb1 := (reorg_at_first s hd node db db1 e _ hl hu).1
          have hlsp : Linked db2.cur.chain node := by
            rw [hcur]; exact hls sp (by rw [← hdb1]; exact hmem)
          have hpre : IsPre db2.cur.chain node := by
            apply isPre_of_tip hlsp
            intro hpos
            by_cases hc : db2.cur.chain[db2.cur.chain.length - 1]? = node[db2.cur.chain.length - 1]?
            · exact hc
            · exact absurd ⟨hpos, hc⟩ hnot
          obtain ⟨db3, e3, h1, _⟩ := update_of_prefix s hd node r db2 ([] ++ e ++ [Ev.restored hh]) hpre
          rw [h1]; simp

/-- the only outcomes of an update are "done" and "unrecoverable reorg" -/
theorem c14_outcomes (s : Settings) (hd : Nat) (node : List Nat) (r : Nat) (db : Db)
    (hl : Linked db.cur.chain node) (hls : ∀ sp ∈ db.savepoints, Linked sp.chain node) :
    (update s hd node (r + 2) db []).2.2 = .ok ∨ (update s hd node (r + 2) db []).2.2 = .unrecoverable := by
  have := c14_terminates s hd node r db hl hls
  cases h : (update s hd node (r + 2) db []).2.2 <;> simp_all

/-! ## The defect that was repaired (recorded in KNOWN_FINDINGS.json as fixed)

Default settings (savepoint interval 10, two savepoints), six blocks indexed one update at a
time — so the two retained savepoints hold 5 and 6 blocks — then a two-block reorganisation:
the node's chain forks after block 3.  Without the check of the restored tip the rollback
restores the 5-block savepoint (which still contains abandoned block 4) forever. -/

def c14Settings : Settings := ⟨5000, 10, 2, false⟩
def c14Oldest : Tables := ⟨[0, 1, 2, 3, 4], 4⟩
def c14Db : Db := ⟨⟨[0, 1, 2, 3, 4, 5], 6⟩, [c14Oldest, ⟨[0, 1, 2, 3, 4, 5], 5⟩]⟩
def c14Node : List Nat := [0, 1, 2, 3, 14, 15, 16]

theorem c14_rollback_loop_without_check (rounds : Nat) :
    (updateNoCheck c14Settings 0 c14Node (rounds + 1) c14Db).2 = .outOfFuel := by
  have h0 : updateIndex c14Settings 0 c14Node (c14Node.length + 2) c14Db c14Db.cur.chain 0 []
      = .reorg c14Db [] (.recoverable 6 3) := by rfl
  have hstep : ∀ r, updateNoCheck c14Settings 0 c14Node r ⟨c14Oldest, [c14Oldest]⟩ = (⟨c14Oldest, [c14Oldest]⟩, .outOfFuel) := by
    intro r
    induction r with
    | zero => rfl
    | succ r ih =>
      have h1 : updateIndex c14Settings 0 c14Node (c14Node.length + 2) ⟨c14Oldest, [c14Oldest]⟩ c14Oldest.chain 0 []
          = .reorg ⟨c14Oldest, [c14Oldest]⟩ [] (.recoverable 5 2) := by rfl
      unfold updateNoCheck
      rw [h1]
      exact ih
  unfold updateNoCheck
  rw [h0]
  show (updateNoCheck c14Settings 0 c14Node rounds ⟨c14Oldest, [c14Oldest]⟩).2 = _
  rw [hstep]

/-- with the check the same history is reported as unrecoverable -/
theorem c14_witness_now_unrecoverable :
    (update c14Settings 0 c14Node 40 c14Db []).2.2 = .unrecoverable := by rfl

/-- **No savepoint to roll back to** (an index that stopped while further from the tip than
`savepointInterval * maxSavepoints + 1` blocks): whenever the indexing loop reports a reorg and the
database holds no savepoint, `update` answers `unrecoverable` at once and leaves the durable state
as the loop left it — it neither rolls back nor retries.  (The unrepaired code called
`min().unwrap()` here and panicked; /repo 6846460 returns `Error::Unrecoverable`, as modelled.) -/
theorem c14_no_savepoint_unrecoverable (s : Settings) (hd : Nat) (node : List Nat) (rounds : Nat)
    (db db' : Db) (evs e : List Ev) (k : Detect)
    (hr : updateIndex s hd node (node.length + 2) db db.cur.chain 0 [] = .reorg db' e k)
    (hs : db'.savepoints = []) :
    update s hd node (rounds + 1) db evs = (db', evs ++ e, .unrecoverable) := by
  unfold update
  rw [hr]
  cases k with
  | ok => rfl
  | recoverable h d => simp [handleReorg, hs]
  | unrecoverable => rfl

/-- far behind the tip no savepoint is taken: `isSavepointRequired` is false whenever more than
`savepointInterval * maxSavepoints + 1` blocks separate the height from the node's header count -/
theorem c14_no_savepoint_far_from_tip (s : Settings) (lastSp headers height : Nat)
    (h : s.savepointInterval * s.maxSavepoints + 1 < headers - height) :
    isSavepointRequired s lastSp headers height = false := by
  unfold isSavepointRequired
  simp only [Bool.and_eq_false_iff, decide_eq_false_iff_not, Nat.not_le]
  exact Or.inr h

/-! Non-vacuity: a recoverable reorganisation that is undone (savepoints at 3 and 6 blocks,
interval 3; fork after block 4). -/
example :
    let s : Settings := ⟨5000, 3, 2, false⟩
    let db : Db := ⟨⟨[0, 1, 2, 3, 4, 5, 6], 6⟩, [⟨[0, 1, 2], 0⟩, ⟨[0, 1, 2, 3, 4, 5], 3⟩]⟩
    let node := [0, 1, 2, 3, 4, 15, 16, 17]
    (update s 0 node 40 db []).2.2 = .ok ∧ (update s 0 node 40 db []).1.cur.chain = node := by
  constructor <;> rfl

end Ord.Store
