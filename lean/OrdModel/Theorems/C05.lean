import OrdModel.Proofs.IndexInsnumLists
import OrdModel.Proofs.IndexInsnumJubilee
import OrdModel.Index.Run
import OrdModel.Proofs.IndexLiftInsNumChain
import OrdModel.Proofs.IndexLiftInsValid
/-
C05 — inscription numbers, sequence numbers and ids are dense, unique and consistent; jubilee.
Model: `updateInscriptionLocation` (OrdModel/Index/Inscriptions.lean) ↔
`InscriptionUpdater::update_inscription_location` (src/index/updater/inscription_updater.rs).

The invariant is `Inv5 entries id2seq num2seq blessed cursed` (Proofs/IndexInsnumInv5.lean):
`entries[i].seq = i`; walking the numbers in sequence order each is the next blessed number or the
next cursed number and the walk ends at the two stored counters; `num2seq`, `id2seq` and `entries`
are mutually inverse; the Cursed charm is set exactly on negative numbers.

Proved here: the invariant holds of the empty index, every call of `update_inscription_location`
preserves it, the invariant implies each clause of the property, and — lifted through
`index_inscriptions`, `indexTx`, the block-end flush, the rune pass and the chain induction
(`OrdModel/Proofs/IndexLiftInsNum*.lean`) — **every reachable state of the full index model
satisfies it** (`c05_reachable`, `c05_dense_reachable`, `c05_inverse_reachable`,
`c05_jubilee_reachable`).  Only hypothesis on the chain: pairwise distinct txids (the ids handed
out by a reveal are `(txid, 0), (txid, 1), …`, so a repeated reveal txid would repeat ids).  The
`< 2^31 inscriptions` side condition is the modelled `try_into::<i32>().unwrap()` panic branch:
it is carried by `run cfg chain = .ok …`.
-/
namespace Ord.Index.C05
open Ord.Index Ord.Index.Insnum Ord.Outcome

theorem c05_init : Inv5T (tabs ({} : State)) := inv5_empty

/-- one call of `update_inscription_location` (a new inscription whose id is not yet an entry's
id, or an old one) preserves the invariant; entry ids grow by exactly the new id.  A count of
2^31 is the modelled `try_into::<i32>().unwrap()` panic, so `= .ok` carries the `< 2^31` hypothesis. -/
theorem c05_update_location_partial {cfg : Cfg} {height time : Nat} {ir : Option (List (Nat × Nat))} {fl : Flotsam}
    {sp : SatPoint} {opr : Bool} {tgt : Target} {ls ls' : LocState}
    (h : updateInscriptionLocation cfg height time ir fl sp opr tgt ls = .ok ls')
    (hinv : Inv5T (tabs ls.st))
    (hfresh : isNew fl = true → ∀ (i : Nat) (e' : InsEntry), ls.st.entries[i]? = some e' → e'.id ≠ fl.id) :
    Inv5T (tabs ls'.st) ∧
    ls'.st.entries.map (·.id) = ls.st.entries.map (·.id) ++ (if isNew fl then [fl.id] else []) :=
  uloc_inv5 h hinv hfresh

/-- the loop of `index_inscriptions` over the flotsam that land in outputs preserves the invariant
when the new ids of the list are pairwise distinct and not yet entry ids; the entry ids grow by
exactly the new ids, in list (= offset) order -/
theorem c05_apply_locations_partial (cfg : Cfg) (height time : Nat) (ir : Option (List (Nat × Nat)))
    (locs : List (SatPoint × Flotsam × Bool)) (ls ls' : LocState)
    (h : applyLocations cfg height time ir locs ls = .ok ls') (hinv : Inv5T (tabs ls.st))
    (hnd : (newIds (locs.map (·.2.1))).Nodup)
    (hfr : ∀ id ∈ newIds (locs.map (·.2.1)), id ∉ ls.st.entries.map (·.id)) :
    Inv5T (tabs ls'.st) ∧ ls'.st.entries.map (·.id) = ls.st.entries.map (·.id) ++ newIds (locs.map (·.2.1)) :=
  applyLocations_inv5 cfg height time ir locs ls ls' h hinv hnd hfr

/-- the same for the flotsam lost at the coinbase -/
theorem c05_apply_lost_partial (cfg : Cfg) (height time : Nat) (ir : Option (List (Nat × Nat))) (outputValue : Nat)
    (fls : List Flotsam) (ls ls' : LocState)
    (h : applyLost cfg height time ir outputValue fls ls = .ok ls') (hinv : Inv5T (tabs ls.st))
    (hnd : (newIds fls).Nodup) (hfr : ∀ id ∈ newIds fls, id ∉ ls.st.entries.map (·.id)) :
    Inv5T (tabs ls'.st) ∧ ls'.st.entries.map (·.id) = ls.st.entries.map (·.id) ++ newIds fls :=
  applyLost_inv5 cfg height time ir outputValue fls ls ls' h hinv hnd hfr

/-- the invariant gives: position = sequence number, `b + c = n`, every number is one of
`0..b-1` or `-1..-c`, and no two entries share a number or an id -/
theorem c05_dense {es : List InsEntry} {i2s : List (InscriptionId × Nat)} {n2s : List (Int × Nat)} {b c : Nat}
    (hinv : Inv5 es i2s n2s b c) :
    (∀ (i : Nat) (e : InsEntry), es[i]? = some e → e.seq = i) ∧
    b + c = es.length ∧
    (∀ (i : Nat) (e : InsEntry), es[i]? = some e → (0 ≤ e.number ∧ e.number < (b : Int)) ∨ (-(c : Int) ≤ e.number ∧ e.number < 0)) ∧
    (∀ (i j : Nat) (ei ej : InsEntry), es[i]? = some ei → es[j]? = some ej → ei.number = ej.number → i = j) ∧
    (∀ (i j : Nat) (ei ej : InsEntry), es[i]? = some ei → es[j]? = some ej → ei.id = ej.id → i = j) := by
  obtain ⟨_, _, hcount, hb⟩ := numberWalk_bounds _ _ _ _ _ hinv.walk
  refine ⟨hinv.seq, by simpa using hcount, ?_, ?_, ?_⟩
  · intro i e hi
    have := hb e.number (List.mem_map.2 ⟨e, List.mem_of_getElem? hi, rfl⟩)
    simpa using this
  · intro i j ei ej hi hj heq
    have h1 := hinv.num_fwd i ei hi
    have h2 := hinv.num_fwd j ej hj
    rw [heq, h2] at h1
    simpa using h1.symm
  · intro i j ei ej hi hj heq
    have h1 := hinv.id_fwd i ei hi
    have h2 := hinv.id_fwd j ej hj
    rw [heq, h2] at h1
    simpa using h1.symm

/-- numbers are handed out in sequence order: the `k`-th blessed inscription (in sequence order)
has number `k`, the `k`-th cursed one `-(k+1)` — the executable walk the oracle evaluates -/
theorem c05_numbers_in_order {es : List InsEntry} {i2s : List (InscriptionId × Nat)} {n2s : List (Int × Nat)} {b c : Nat}
    (hinv : Inv5 es i2s n2s b c) : numberWalk (es.map (·.number)) 0 0 = some (b, c) := hinv.walk

/-- lookups by id, by number and by sequence number are mutually inverse -/
theorem c05_inverse {es : List InsEntry} {i2s : List (InscriptionId × Nat)} {n2s : List (Int × Nat)} {b c : Nat}
    (hinv : Inv5 es i2s n2s b c) :
    (∀ (i : Nat) (e : InsEntry), es[i]? = some e → AL.get n2s e.number = some i ∧ AL.get i2s e.id = some i) ∧
    (∀ (n : Int) (s : Nat), AL.get n2s n = some s → ∃ e : InsEntry, es[s]? = some e ∧ e.number = n) ∧
    (∀ (id : InscriptionId) (s : Nat), AL.get i2s id = some s → ∃ e : InsEntry, es[s]? = some e ∧ e.id = id) :=
  ⟨fun i e h => ⟨hinv.num_fwd i e h, hinv.id_fwd i e h⟩, hinv.num_bwd, hinv.id_bwd⟩

/-- jubilee: at or after the jubilee height the `cursed` flag of every new flotsam is
`curse.isSome && !jubilant = false`, and an inscription created with `cursed = false` gets the
next blessed (non-negative) number -/
theorem c05_jubilee_partial (curse : Option Curse) (height jubilee : Nat) (h : height ≥ jubilee) :
    (curse.isSome && !(decide (height ≥ jubilee))) = false := by simp [h]

/-- jubilee, scan level: in a jubilant block (`height ≥ jubilee_height`) no inscription moved or created
by a transaction carries the `cursed` flag — so by `c05_update_location_partial` (Cursed charm ⇔ negative
number, and `numberOf st false ≥ 0`) it gets a non-negative number — and only jubilant blocks vindicate -/
theorem c05_jubilee_scan_partial (cfg : Cfg) (st : State) (txid : Txid) (height totalOut : Nat)
    (inputs : List (TxIn × UtxoEntry)) (envs : List Envelope) (sc : ScanState)
    (h : scanInputs cfg st (decide (height ≥ cfg.jubileeHeight)) txid height totalOut inputs 0 { envelopes := envs } = .ok sc) :
    ∀ f ∈ sc.floating, (height ≥ cfg.jubileeHeight → cursedFlag f = false) ∧
      (vindicatedFlag f = true → height ≥ cfg.jubileeHeight) := by
  intro f hf
  have := scanInputs_jub cfg st _ txid height totalOut inputs 0 _ sc h (by intro g hg; simp at hg) f hf
  simpa using this

theorem c05_uncursed_number (st : State) : 0 ≤ numberOf st false := by simp [numberOf]

/-! ## Every reachable state -/

/-- **C05 on every reachable state**: after any chain with pairwise distinct txids (if indexing
succeeds) the inscription tables satisfy the numbering invariant. -/
theorem c05_reachable (cfg : Cfg) (chain : List Block) (st : State) (evs : List Event)
    (hd : (Sched.chainTxids chain).Nodup) (h : run cfg chain = .ok (st, evs)) :
    Inv5 st.entries st.id2seq st.num2seq st.blessed st.cursed :=
  (InsLift.run_n5 cfg chain st evs hd h).inv5

/-- dense and unique on reachable states: position = sequence number, `blessed + cursed = n`,
every number is one of `0..blessed-1` or `-1..-cursed`, no two entries share a number or an id -/
theorem c05_dense_reachable (cfg : Cfg) (chain : List Block) (st : State) (evs : List Event)
    (hd : (Sched.chainTxids chain).Nodup) (h : run cfg chain = .ok (st, evs)) :
    (∀ (i : Nat) (e : InsEntry), st.entries[i]? = some e → e.seq = i) ∧
    st.blessed + st.cursed = st.entries.length ∧
    (∀ (i : Nat) (e : InsEntry), st.entries[i]? = some e →
      (0 ≤ e.number ∧ e.number < (st.blessed : Int)) ∨ (-(st.cursed : Int) ≤ e.number ∧ e.number < 0)) ∧
    (∀ (i j : Nat) (ei ej : InsEntry), st.entries[i]? = some ei → st.entries[j]? = some ej → ei.number = ej.number → i = j) ∧
    (∀ (i j : Nat) (ei ej : InsEntry), st.entries[i]? = some ei → st.entries[j]? = some ej → ei.id = ej.id → i = j) :=
  c05_dense (c05_reachable cfg chain st evs hd h)

/-- numbers are handed out in sequence order on reachable states -/
theorem c05_numbers_in_order_reachable (cfg : Cfg) (chain : List Block) (st : State) (evs : List Event)
    (hd : (Sched.chainTxids chain).Nodup) (h : run cfg chain = .ok (st, evs)) :
    numberWalk (st.entries.map (·.number)) 0 0 = some (st.blessed, st.cursed) :=
  c05_numbers_in_order (c05_reachable cfg chain st evs hd h)

/-- lookups by id, by number and by sequence number are mutually inverse on reachable states -/
theorem c05_inverse_reachable (cfg : Cfg) (chain : List Block) (st : State) (evs : List Event)
    (hd : (Sched.chainTxids chain).Nodup) (h : run cfg chain = .ok (st, evs)) :
    (∀ (i : Nat) (e : InsEntry), st.entries[i]? = some e →
      AL.get st.num2seq e.number = some i ∧ AL.get st.id2seq e.id = some i) ∧
    (∀ (n : Int) (s : Nat), AL.get st.num2seq n = some s → ∃ e : InsEntry, st.entries[s]? = some e ∧ e.number = n) ∧
    (∀ (id : InscriptionId) (s : Nat), AL.get st.id2seq id = some s → ∃ e : InsEntry, st.entries[s]? = some e ∧ e.id = id) :=
  c05_inverse (c05_reachable cfg chain st evs hd h)

/-- cursed ⇔ negative, and the jubilee, on reachable states: the Cursed charm is set exactly on
the negatively numbered entries, and every entry created at or above the jubilee height (its
stored `height`) has a non-negative number. -/
theorem c05_jubilee_reachable (cfg : Cfg) (chain : List Block) (st : State) (evs : List Event)
    (hd : (Sched.chainTxids chain).Nodup) (h : run cfg chain = .ok (st, evs)) :
    (∀ (i : Nat) (e : InsEntry), st.entries[i]? = some e → hasCharm e.charms charmCursed = decide (e.number < 0)) ∧
    (∀ e ∈ st.entries, cfg.jubileeHeight ≤ e.height → 0 ≤ e.number) := by
  have n := InsLift.run_n5 cfg chain st evs hd h
  refine ⟨n.inv5.charm, ?_⟩
  intro e he hge
  apply Classical.byContradiction
  intro hneg
  have := n.jinv e he (by omega)
  omega

/-- every inscription id of a reachable state carries the txid of a transaction of the chain -/
theorem c05_ids_reachable (cfg : Cfg) (chain : List Block) (st : State) (evs : List Event)
    (hd : (Sched.chainTxids chain).Nodup) (h : run cfg chain = .ok (st, evs)) :
    ∀ e ∈ st.entries, e.id.txid ∈ Sched.chainTxids chain := by
  intro e he
  exact (InsLift.run_n5 cfg chain st evs hd h).prov e.id (List.mem_map_of_mem he)

/-- **Every valid chain**: C16's chain-validity predicate implies distinct txids, so the numbering
invariant holds after every consensus-valid chain. -/
theorem c05_valid_chain (cfg : Cfg) (chain : List Block) (st : State) (evs : List Event)
    (hv : Valid.validChain chain = true) (h : run cfg chain = .ok (st, evs)) :
    Inv5 st.entries st.id2seq st.num2seq st.blessed st.cursed ∧
    (∀ e ∈ st.entries, cfg.jubileeHeight ≤ e.height → 0 ≤ e.number) :=
  let hd := (Sched.ChainCond.of_validChain chain hv).txidsDistinct
  ⟨c05_reachable cfg chain st evs hd h, (c05_jubilee_reachable cfg chain st evs hd h).2⟩

/-! non-vacuity of the lift: a pushnum (cursed) envelope revealed below the jubilee height gets
number −1, the same kind of envelope revealed at the jubilee height is vindicated and gets 0 -/

def ncCfg : Cfg :=
  { indexSats := false, indexAddresses := false, indexTransactions := false, indexInscriptions := true, indexRunes := false, firstInscriptionHeight := 0, jubileeHeight := 2, firstRuneHeight := 0 }
def ncCbIn : TxIn := { prev := OutPoint.null, taproot := false, confHeight := none, pushes := [] }
def ncOut : TxOut := { value := 5000000000, opReturn := false, script := [] }
def ncCb (txid : Txid) : Tx := { txid := txid, inputs := [ncCbIn], outputs := [ncOut], envelopes := [], artifact := none, size := 0 }
def ncEnv : Envelope :=
  { input := 0, offset := 0, unrecognizedEven := false, duplicateField := false, incompleteField := false, pushnum := true, stutter := false, hidden := false, gallery := false, pointerField := false, pointer := none, parents := [] }
def ncReveal (txid : Txid) (prev : OutPoint) : Tx :=
  { txid := txid, inputs := [{ prev := prev, taproot := true, confHeight := some 0, pushes := [] }], outputs := [ncOut], envelopes := [ncEnv], artifact := none, size := 0 }
def ncB0 : Block := { height := 0, time := 0, hash := 100, minimumRune := 0, txs := [ncCb 1] }
def ncB1 : Block := { height := 1, time := 0, hash := 101, minimumRune := 0, txs := [ncCb 2, ncReveal 3 ⟨1, 0⟩] }
def ncB2 : Block := { height := 2, time := 0, hash := 102, minimumRune := 0, txs := [ncCb 4, ncReveal 5 ⟨2, 0⟩] }

def ncNumbers (r : Outcome (State × List Event)) : Option (List (Int × Nat)) :=
  match r with
  | .ok (st, _) => some (st.entries.map (fun e => (e.number, e.height)))
  | _ => none

example : (Sched.chainTxids [ncB0, ncB1, ncB2]).Nodup ∧
    ncNumbers (run ncCfg [ncB0, ncB1, ncB2]) = some [(-1, 1), (0, 2)] := by
  refine ⟨by decide, by decide⟩

/-! non-vacuity: the invariant is satisfiable on a two-entry table -/
example : Inv5 [⟨0, 0, 1, false, ⟨7, 0⟩, 0, [], none, 0, 0⟩, ⟨2, 0, 1, false, ⟨7, 1⟩, -1, [], none, 1, 0⟩]
    [(⟨7, 0⟩, 0), (⟨7, 1⟩, 1)] [(0, 0), (-1, 1)] 1 1 := by
  have h0 : Inv5 [] [] [] 0 0 := inv5_empty
  have h1 := inv5_new h0 false ⟨0, 0, 1, false, ⟨7, 0⟩, 0, [], none, 0, 0⟩ rfl rfl (by decide) (by intro i e h; simp at h)
  have h2 := inv5_new h1 true ⟨2, 0, 1, false, ⟨7, 1⟩, -1, [], none, 1, 0⟩ rfl rfl (by decide)
    (by
      intro i e h
      rcases getElem?_snoc _ _ _ _ h with h | ⟨_, rfl⟩
      · simp at h
      · decide)
  simpa [AL.set] using h2

end Ord.Index.C05
