import OrdModel.Proofs.IndexSatsTx
import OrdModel.Proofs.IndexSatsChain
import OrdModel.Proofs.IndexLiftSatBipChain
import OrdModel.Proofs.IndexSatsWitness
/-!
# C01 — sat ranges follow the ordinal-theory first-in-first-out assignment

Property theorems only.  Model: `OrdModel/Index/Sats.lean` (`fillOutput`, `indexTransactionSats`
= `Updater::index_transaction_sats`), `OrdModel/Index/Block.lean` (`indexTx`, `applyBlock`);
specification: `OrdModel/Index/Bip.lean` (the pseudo-code of `bip.mediawiki` on explicit lists
of ordinals).  `den` expands sat ranges to the ordinals they denote; it is only reasoned about.
Helper lemmas: `OrdModel/Proofs/IndexSats*.lean`.
-/
namespace Ord.Index

/-! ## One output -/

/-- Filling one output of value `v` from a queue of ranges takes the first `v` ordinals of the
queue, in order, and leaves the rest, in order. -/
theorem c01_fill_output (q : Ranges) (v d : Nat) (r : FillResult) (h : fillOutput q v d = some r) :
    den r.assigned = (den q).take v ∧ den r.queue = (den q).drop v ∧
    den r.assigned ++ den r.queue = den q ∧ (den r.assigned).length = v := by
  rw [fillOutput_spec] at h
  split at h
  · rename_i hv
    cases h
    refine ⟨den_takeR v q, den_dropR v q, takeR_dropR_den v q, ?_⟩
    rw [den_length, lenR_takeR]; omega
  · cases h

/-- The `expect("insufficient inputs for transaction outputs")` of the Rust fires exactly when
the queue holds fewer than `v` sats. -/
theorem c01_fill_output_none (q : Ranges) (v d : Nat) :
    fillOutput q v d = none ↔ (den q).length < v := by
  rw [fillOutput_spec, den_length]
  split <;> simp <;> omega

/-- Range *boundaries*: filling an output either cuts the queue between two ranges or splits
exactly one input range at the output boundary; ranges are never merged, reordered or moved. -/
theorem c01_fill_output_boundaries (q : Ranges) (hq : WF q) (v d : Nat) (r : FillResult)
    (h : fillOutput q v d = some r) :
    (r.assigned ++ r.queue = q) ∨
    (∃ pre s m e post, q = pre ++ (s, e) :: post ∧ s < m ∧ m < e ∧
      r.assigned = pre ++ [(s, m)] ∧ r.queue = (m, e) :: post) := by
  rw [fillOutput_spec] at h
  split at h
  · cases h; exact takeR_dropR_split v q hq
  · cases h

/-! ## One transaction -/

/-- `index_transaction_sats` is the BIP's per-transaction assignment: output `i` receives
`ordinals[:valueᵢ]` of what the previous outputs left, the rest is the leftover (fee) that is
appended to the coinbase's inputs. -/
theorem c01_tx_matches_bip (values : List Nat) (inputs : Ranges) (t : TxSats)
    (h : indexTransactionSats values inputs = some t) :
    (t.outputs.map den, den t.leftover) = Bip.assignTx (den inputs) values := by
  rw [indexTransactionSats_spec] at h
  split at h
  · cases h; exact assignOutputsR_den values inputs
  · cases h

/-- … and it fails (the Rust panics) exactly when the outputs claim more than the inputs hold. -/
theorem c01_tx_insufficient (values : List Nat) (inputs : Ranges) :
    indexTransactionSats values inputs = none ↔ values.sum > (den inputs).length := by
  rw [indexTransactionSats_spec, den_length]
  split <;> simp <;> omega

/-- Sats are neither created nor destroyed by a transaction, every output holds exactly its
value, and all ranges stay well-formed. -/
theorem c01_tx_conservation (values : List Nat) (inputs : Ranges) (hq : WF inputs) (t : TxSats)
    (h : indexTransactionSats values inputs = some t) :
    (t.outputs.map den).flatten ++ den t.leftover = den inputs ∧
    t.outputs.map (fun o => (den o).length) = values ∧
    (∀ o ∈ t.outputs, WF o) ∧ WF t.leftover := by
  have hb := c01_tx_matches_bip values inputs t h
  rw [indexTransactionSats_spec] at h
  split at h
  · rename_i hv
    cases h
    refine ⟨?_, ?_, assignOutputsR_WF values inputs hq⟩
    · simp only [] at hb
      rw [Bip.assignTx] at hb
      have := assignOutputs_flatten values (den inputs)
      rw [← hb] at this
      exact this
    · have := assignOutputsR_lens values inputs hv
      simp only [den_length]
      simpa using this
  · cases h

/-- Range boundaries of a whole transaction: the output ranges, in output order, followed by the
leftover are the input ranges with some of them cut in two (`Splits`): no merge, no reordering. -/
theorem c01_tx_boundaries (values : List Nat) (inputs : Ranges) (hq : WF inputs) (t : TxSats)
    (h : indexTransactionSats values inputs = some t) :
    Splits (t.outputs.flatten ++ t.leftover) inputs := by
  rw [indexTransactionSats_spec] at h
  split at h
  · cases h; exact splits_assignOutputsR values inputs hq
  · cases h

/-- The SAT_TO_SATPOINT rows written by a transaction are exactly the non-common range starts
of its outputs with their offsets. -/
theorem c01_tx_rare_rows (values : List Nat) (inputs : Ranges) (t : TxSats)
    (h : indexTransactionSats values inputs = some t) :
    t.rare = rareRows t.outputs 0 := by
  rw [indexTransactionSats_spec] at h
  split at h
  · cases h; rfl
  · cases h

/-! ## Block subsidy -/

/-- `Height::subsidy` / `Height::starting_sat` are the BIP's `subsidy` / `first_ordinal`. -/
theorem c01_subsidy_first_ordinal (h : Nat) :
    subsidy h = Bip.subsidy h ∧ startingSat h = Bip.firstOrdinal h :=
  ⟨subsidy_eq_bip h, (firstOrdinal_eq_startingSat h).symm⟩

/-! ## One block (Proofs/IndexLiftSat*.lean)

`satProj u` is the sat-only projection of the UTXO table (outpoint ↦ its ordinals, `den` of the
entry's ranges), `btxOf tx` what the BIP reads of a transaction, `satsAt m op` the ordinals at an
outpoint (`[]` if there is none).  `Bip.assignBlock height coinbase txs m` is the BIP's
`assign_ordinals(block)` on explicit ordinal lists: the coinbase's ordinals are
`[first_ordinal(h), first_ordinal(h) + subsidy(h))` followed by every transaction's leftover in
block order, spent outputs leave `m` (`gather`), created ones are written with `AL.set` (`place`),
and what the coinbase does not claim is returned as the block's unclaimed ordinals.

Hypotheses: the table is a finite map (`hN`; true in every reachable state,
`c01_reachable_block_matches_bip`), no txid is the all-zero hash (those outpoints are ord's
special ones), the block has a coinbase, and `NoShadow`: a same-block spend does not also name an
output that was already in the table under the same outpoint (non-coinbase duplicate txid spent
again in the same block — there the updater, which removes an input found in the cache from the
cache only, lets the old table entry resurface; notes/C01.md).  Duplicate *coinbases* are
covered (`c01_duplicate_coinbase_displaces`). -/

/-- **Block level**: the sat-only projection of `applyBlock` (every configuration with the sat
index on: inscriptions, runes, addresses on or off) is `Bip.assignBlock`: every non-special
outpoint holds exactly the ordinals the BIP assigns (and exists iff the BIP has it), and the
block's unclaimed ordinals are appended to the null outpoint. -/
theorem c01_block_matches_bip (cfg : Cfg) (hs : cfg.indexSats = true) (st : State) (blk : Block)
    (cbtx : Tx) (rest : List Tx) (hb : blk.txs = cbtx :: rest)
    (hN : (AL.keys st.utxo).Nodup) (hz : ∀ tx ∈ blk.txs, tx.txid ≠ 0) (hsh : NoShadow st.utxo blk)
    (st' : State) (evs : List Event) (h : applyBlock cfg st blk = .ok (st', evs)) :
    ∃ m' unclaimed,
      Bip.assignBlock blk.height (btxOf cbtx) (rest.map btxOf) (satProj st.utxo) = some (m', unclaimed) ∧
      (∀ op, op.isSpecial = false → AL.get (satProj st'.utxo) op = AL.get m' op) ∧
      satsAt (satProj st'.utxo) OutPoint.null = satsAt m' OutPoint.null ++ unclaimed ∧
      satsAt (satProj st'.utxo) OutPoint.unbound = satsAt m' OutPoint.unbound :=
  applyBlock_bip cfg hs st blk cbtx rest hb hN hz hsh st' evs h

/-- … in particular after every prefix of every chain the indexer accepts: the next block is
indexed as the BIP prescribes (`hN` discharged by reachability). -/
theorem c01_reachable_block_matches_bip (cfg : Cfg) (hs : cfg.indexSats = true) (chain : List Block)
    (st : State) (evs0 : List Event) (hr : run cfg chain = .ok (st, evs0)) (blk : Block)
    (cbtx : Tx) (rest : List Tx) (hb : blk.txs = cbtx :: rest)
    (hz : ∀ tx ∈ blk.txs, tx.txid ≠ 0) (hsh : NoShadow st.utxo blk)
    (st' : State) (evs : List Event) (h : applyBlock cfg st blk = .ok (st', evs)) :
    ∃ m' unclaimed,
      Bip.assignBlock blk.height (btxOf cbtx) (rest.map btxOf) (satProj st.utxo) = some (m', unclaimed) ∧
      (∀ op, op.isSpecial = false → AL.get (satProj st'.utxo) op = AL.get m' op) ∧
      satsAt (satProj st'.utxo) OutPoint.null = satsAt m' OutPoint.null ++ unclaimed ∧
      satsAt (satProj st'.utxo) OutPoint.unbound = satsAt m' OutPoint.unbound :=
  applyBlock_bip cfg hs st blk cbtx rest hb (reachable_keys_nodup cfg hs chain st evs0 hr) hz hsh st' evs h

/-- `NoShadow` holds whenever no transaction of the block other than the coinbase reuses the
txid of an unspent output. -/
theorem c01_no_shadow_of_fresh_txids (tbl : List (OutPoint × UtxoEntry)) (blk : Block)
    (h : FreshTxids tbl blk) : NoShadow tbl blk := noShadow_of_fresh h

/-- **Displacement clause**, specification side: `output.ordinals = …` on an outpoint that
already exists (duplicate txid) replaces what was there; every other outpoint is untouched. -/
theorem c01_place_overwrites (txid : Txid) (os : List Bip.Ordinals) (m : Bip.Outs) :
    (∀ k, k < os.length → AL.get (Bip.place txid os 0 m) ⟨txid, k⟩ = os[k]?) ∧
    (∀ op, op.txid ≠ txid → AL.get (Bip.place txid os 0 m) op = AL.get m op) :=
  ⟨fun k hk => by simpa using get_place_self txid os 0 m k hk,
   fun op h => get_place_other txid os 0 m op (Or.inl h)⟩

/-- **Displacement clause**, implementation side, for the coinbase (the historical case: blocks
91842 / 91880): after the block, output `k` of the coinbase holds exactly the ordinals the BIP
assigns to it — whatever the table held under that outpoint before (an unspent output of an
earlier transaction with the same txid) is overwritten, and the sats in it are gone. -/
theorem c01_duplicate_coinbase_displaces (cfg : Cfg) (hs : cfg.indexSats = true) (st : State) (blk : Block)
    (cbtx : Tx) (rest : List Tx) (hb : blk.txs = cbtx :: rest)
    (hN : (AL.keys st.utxo).Nodup) (hz : ∀ tx ∈ blk.txs, tx.txid ≠ 0) (hsh : NoShadow st.utxo blk)
    (st' : State) (evs : List Event) (h : applyBlock cfg st blk = .ok (st', evs)) :
    ∃ m1 cbOrds,
      Bip.assignTxs (rest.map btxOf) (satProj st.utxo)
        (List.range' (Bip.firstOrdinal blk.height) (Bip.subsidy blk.height)) = some (m1, cbOrds) ∧
      ∀ k, k < cbtx.outputs.length →
        AL.get (satProj st'.utxo) ⟨cbtx.txid, k⟩ =
          (Bip.assignOutputs (cbtx.outputs.map (·.value)) cbOrds).1[k]? := by
  obtain ⟨m', u, ha, h2, -, -⟩ := applyBlock_bip cfg hs st blk cbtx rest hb hN hz hsh st' evs h
  simp only [Bip.assignBlock] at ha
  have hsub : Bip.firstOrdinal blk.height + Bip.subsidy blk.height - Bip.firstOrdinal blk.height =
      Bip.subsidy blk.height := by omega
  rw [hsub] at ha
  split at ha
  · cases ha
  · rename_i m1 cb hat
    simp only [Option.some.injEq, Prod.mk.injEq] at ha
    obtain ⟨rfl, -⟩ := ha
    refine ⟨m1, cb, hat, fun k hk => ?_⟩
    have hne : (⟨cbtx.txid, k⟩ : OutPoint).isSpecial = false :=
      isSpecial_false_of_txid (hz cbtx (by simp [hb]))
    rw [h2 _ hne]
    have hlen : k < (Bip.assignOutputs (btxOf cbtx).values cb).1.length := by
      rw [assignOutputs_length]; simpa [btxOf] using hk
    have := get_place_self (btxOf cbtx).txid _ 0 m1 k hlen
    simpa [btxOf] using this

/-! ## Non-vacuity -/

example : NoShadow [] ⟨1, 0, 101, 0, [coinbaseTx 7 5000000000]⟩ := by
  intro tx htx; simp at htx
example : (AL.keys ({} : State).utxo).Nodup := by simp [AL.keys]
set_option maxRecDepth 100000 in
/-- the duplicate-coinbase chain (same txid 7 in blocks 1 and 2) is accepted by the indexer, its
txids are non-zero, every block has a coinbase and nothing is spent: all hypotheses of
`c01_reachable_block_matches_bip` / `c01_duplicate_coinbase_displaces` hold on it -/
example : (stateAfter satsOnlyCfg dupCoinbaseChain).isSome = true ∧
    (∀ b ∈ dupCoinbaseChain, ∀ tx ∈ b.txs, tx.txid ≠ 0 ∧ b.txs.drop 1 = []) := by decide
example : Bip.place 7 (Bip.assignOutputs [2, 1] [5, 6, 7, 8]).1 0 [(⟨7, 0⟩, [99])] =
    [(⟨7, 0⟩, [5, 6]), (⟨7, 1⟩, [7])] := by
  simp [Bip.assignOutputs, Bip.place, AL.set]


example : fillOutput [(0, 10), (20, 30)] 15 0 = some ⟨[(0, 10), (20, 25)], [(25, 30)], [(0, 0)]⟩ := by
  simp [fillOutput, satRare, satThird, satEpoch, satEpochAux, epochStartingSat, epochSubsidy]
example : fillOutput [(5, 10)] 6 0 = none := by simp [fillOutput]
example : indexTransactionSats [3, 0, 4] [(5, 10), (20, 30)] =
    some ⟨[[(5, 8)], [], [(8, 10), (20, 22)]], [(22, 30)], []⟩ := by
  simp [indexTransactionSats, indexTransactionSatsAux, fillOutput, satRare, satThird, satEpoch, satEpochAux,
    epochStartingSat, epochSubsidy]
example : WF [(5, 10), (20, 30)] := by intro r hr; simp at hr; rcases hr with rfl | rfl <;> decide
example : Bip.assignTx [5, 6, 7, 8, 9] [3, 0, 4] = ([[5, 6, 7], [], [8, 9]], []) := by
  simp [Bip.assignTx, Bip.assignOutputs]

end Ord.Index
