import OrdModel.Proofs.IndexSatsTx
import OrdModel.Proofs.IndexSatsChain
/-!
# C01 — sat ranges follow the ordinal-theory first-in-first-out assignment

Property theorems only.  Model: `OrdModel/Index/Sats.lean` (`fillOutput`, `indexTransactionSats`
= `Updater::index_transaction_sats`), `OrdModel/Index/Block.lean` (`indexTx`, `applyBlock`);
specification: `OrdModel/Index/Bip.lean` (the pseudo-code of `bip.mediawiki` on explicit lists
of ordinals).  `den` expands sat ranges to the ordinals they denote; it is only reasoned about.
Helper lemmas: `OrdModel/Proofs/IndexSats*.lean`.
-/
namespace Ord.Index

/-! ## One output -/

/-- Filling one output of value `v` from a queue of ranges takes the first `v` ordinals of the
queue, in order, and leaves the rest, in order. -/
theorem c01_fill_output (q : Ranges) (v d : Nat) (r : FillResult) (h : fillOutput q v d = some r) :
    den r.assigned = (den q).take v ∧ den r.queue = (den q).drop v ∧
    den r.assigned ++ den r.queue = den q ∧ (den r.assigned).length = v := by
  rw [fillOutput_spec] at h
  split at h
  · rename_i hv
    cases h
    refine ⟨den_takeR v q, den_dropR v q, takeR_dropR_den v q, ?_⟩
    rw [den_length, lenR_takeR]; omega
  · cases h

/-- The `expect("insufficient inputs for transaction outputs")` of the Rust fires exactly when
the queue holds fewer than `v` sats. -/
theorem c01_fill_output_none (q : Ranges) (v d : Nat) :
    fillOutput q v d = none ↔ (den q).length < v := by
  rw [fillOutput_spec, den_length]
  split <;> simp <;> omega

/-- Range *boundaries*: filling an output either cuts the queue between two ranges or splits
exactly one input range at the output boundary; ranges are never merged, reordered or moved. -/
theorem c01_fill_output_boundaries (q : Ranges) (hq : WF q) (v d : Nat) (r : FillResult)
    (h : fillOutput q v d = some r) :
    (r.assigned ++ r.queue = q) ∨
    (∃ pre s m e post, q = pre ++ (s, e) :: post ∧ s < m ∧ m < e ∧
      r.assigned = pre ++ [(s, m)] ∧ r.queue = (m, e) :: post) := by
  rw [fillOutput_spec] at h
  split at h
  · cases h; exact takeR_dropR_split v q hq
  · cases h

/-! ## One transaction -/

/-- `index_transaction_sats` is the BIP's per-transaction assignment: output `i` receives
`ordinals[:valueᵢ]` of what the previous outputs left, the rest is the leftover (fee) that is
appended to the coinbase's inputs. -/
theorem c01_tx_matches_bip (values : List Nat) (inputs : Ranges) (t : TxSats)
    (h : indexTransactionSats values inputs = some t) :
    (t.outputs.map den, den t.leftover) = Bip.assignTx (den inputs) values := by
  rw [indexTransactionSats_spec] at h
  split at h
  · cases h; exact assignOutputsR_den values inputs
  · cases h

/-- … and it fails (the Rust panics) exactly when the outputs claim more than the inputs hold. -/
theorem c01_tx_insufficient (values : List Nat) (inputs : Ranges) :
    indexTransactionSats values inputs = none ↔ values.sum > (den inputs).length := by
  rw [indexTransactionSats_spec, den_length]
  split <;> simp <;> omega

/-- Sats are neither created nor destroyed by a transaction, every output holds exactly its
value, and all ranges stay well-formed. -/
theorem c01_tx_conservation (values : List Nat) (inputs : Ranges) (hq : WF inputs) (t : TxSats)
    (h : indexTransactionSats values inputs = some t) :
    (t.outputs.map den).flatten ++ den t.leftover = den inputs ∧
    t.outputs.map (fun o => (den o).length) = values ∧
    (∀ o ∈ t.outputs, WF o) ∧ WF t.leftover := by
  have hb := c01_tx_matches_bip values inputs t h
  rw [indexTransactionSats_spec] at h
  split at h
  · rename_i hv
    cases h
    refine ⟨?_, ?_, assignOutputsR_WF values inputs hq⟩
    · simp only [] at hb
      rw [Bip.assignTx] at hb
      have := assignOutputs_flatten values (den inputs)
      rw [← hb] at this
      exact this
    · have := assignOutputsR_lens values inputs hv
      simp only [den_length]
      simpa using this
  · cases h

/-- Range boundaries of a whole transaction: the output ranges, in output order, followed by the
leftover are the input ranges with some of them cut in two (`Splits`): no merge, no reordering. -/
theorem c01_tx_boundaries (values : List Nat) (inputs : Ranges) (hq : WF inputs) (t : TxSats)
    (h : indexTransactionSats values inputs = some t) :
    Splits (t.outputs.flatten ++ t.leftover) inputs := by
  rw [indexTransactionSats_spec] at h
  split at h
  · cases h; exact splits_assignOutputsR values inputs hq
  · cases h

/-- The SAT_TO_SATPOINT rows written by a transaction are exactly the non-common range starts
of its outputs with their offsets. -/
theorem c01_tx_rare_rows (values : List Nat) (inputs : Ranges) (t : TxSats)
    (h : indexTransactionSats values inputs = some t) :
    t.rare = rareRows t.outputs 0 := by
  rw [indexTransactionSats_spec] at h
  split at h
  · cases h; rfl
  · cases h

/-! ## Block subsidy -/

/-- `Height::subsidy` / `Height::starting_sat` are the BIP's `subsidy` / `first_ordinal`. -/
theorem c01_subsidy_first_ordinal (h : Nat) :
    subsidy h = Bip.subsidy h ∧ startingSat h = Bip.firstOrdinal h :=
  ⟨subsidy_eq_bip h, (firstOrdinal_eq_startingSat h).symm⟩

/-! ## Non-vacuity -/

example : fillOutput [(0, 10), (20, 30)] 15 0 = some ⟨[(0, 10), (20, 25)], [(25, 30)], [(0, 0)]⟩ := by
  simp [fillOutput, satRare, satThird, satEpoch, satEpochAux, epochStartingSat, epochSubsidy]
example : fillOutput [(5, 10)] 6 0 = none := by simp [fillOutput]
example : indexTransactionSats [3, 0, 4] [(5, 10), (20, 30)] =
    some ⟨[[(5, 8)], [], [(8, 10), (20, 22)]], [(22, 30)], []⟩ := by
  simp [indexTransactionSats, indexTransactionSatsAux, fillOutput, satRare, satThird, satEpoch, satEpochAux,
    epochStartingSat, epochSubsidy]
example : WF [(5, 10), (20, 30)] := by intro r hr; simp at hr; rcases hr with rfl | rfl <;> decide
example : Bip.assignTx [5, 6, 7, 8, 9] [3, 0, 4] = ([[5, 6, 7], [], [8, 9]], []) := by
  simp [Bip.assignTx, Bip.assignOutputs]

end Ord.Index
