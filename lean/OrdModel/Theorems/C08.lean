import OrdModel.Proofs.IndexRunesupplyTx
import OrdModel.Index.OracleRunesupply
import OrdModel.Proofs.IndexLiftRuneSupplyChain
import OrdModel.Proofs.IndexLiftRuneC16
/-!
# C08 — Rune supply is conserved

Property theorems only; helper lemmas are in `OrdModel/Proofs/IndexRunesupply*.lean`, the model in
`OrdModel/Index/Runes.lean`, the specification of one transaction in `OrdModel/Index/RuneSpec.lean`,
the executable form of the invariant (`conservedB`, evaluated on the implementation's rows on
every run) in `OrdModel/Index/OracleRunesupply.lean`.
-/
namespace Ord.Index.C08
open Ord.Index Ord.Index.Spec Ord.Index.RS Ord.Index.Oracle Ord.Outcome

/-- The invariant of C08 as a proposition over the rune tables: for every rune the balances over
all stored outpoints plus the burned amount equal premine + mints · mint amount; every stored
balance is positive and names an existing rune; no stored outpoint is an OP_RETURN output. -/
def Conserved (ents : List (RuneId × RuneEntry)) (bals : List (OutPoint × Balances))
    (opret : OutPoint → Bool) : Prop :=
  (∀ id e, (id, e) ∈ ents → supplyIn bals id + e.burned = e.premine + e.mints * mintAmount e) ∧
  (∀ o row, (o, row) ∈ bals →
    (∀ id b, (id, b) ∈ row → b > 0 ∧ AL.get ents id ≠ none) ∧ row ≠ [] ∧ opret o = false)

/-- The oracle evaluated on the implementation's rows on every run is sound for the invariant:
whenever `conservedB` answers `true`, `Conserved` holds. -/
theorem c08_oracle_sound (ents : List (RuneId × RuneEntry)) (bals : List (OutPoint × Balances))
    (opret : OutPoint → Bool) (h : conservedB ents bals opret = true) : Conserved ents bals opret := by
  unfold conservedB at h
  simp only [Bool.and_eq_true, List.all_eq_true] at h
  refine ⟨fun id e hm => ?_, fun o row hm => ?_⟩
  · have := h.1 (id, e) hm
    simpa [suppliedB] using this
  · have := h.2 (o, row) hm
    simp only [Bool.and_eq_true, Bool.not_eq_true', rowOkB, List.all_eq_true] at this
    obtain ⟨⟨⟨hrow, _⟩, hne⟩, hop⟩ := this
    refine ⟨fun id b hb => ?_, ?_, hop⟩
    · have := hrow (id, b) hb
      simp only [Bool.and_eq_true, decide_eq_true_eq, AL.contains] at this
      refine ⟨this.1, fun hn => ?_⟩
      rw [hn] at this; simp at this
    · intro he; subst he; simp at hne

example : Conserved [(⟨2, 1⟩, ⟨2, 5, 0, 0, 1, 0, 100, 0, 0, none, some ⟨some 10, some 3, none, none, none, none⟩, 0, false⟩)]
    [(⟨7, 0⟩, [(⟨2, 1⟩, 105)])] (fun _ => false) :=
  c08_oracle_sound _ _ _ (by decide)

/-- **One transaction conserves every rune (specification level).**  For every transaction
shape, protocol message and rune: what the outputs hold plus what is burned is exactly what was
unallocated before the edicts (inputs + mint + premine). -/
theorem c08_spec_conserved (outs : List Bool) (msg : Message) (etched : Option RuneId) (r : RuneId) (u0 : Nat)
    (hwf : WellFormed outs.length msg) :
    sumFrom (Spec.allocate outs msg etched r u0).out 0 outs.length + (Spec.allocate outs msg etched r u0).burned = u0 :=
  allocate_conserves outs msg etched r u0 hwf

/-- **One transaction of the MODEL conserves every rune.**  Whenever `indexRunesTx` returns, for
every rune `r`: what the transaction's outputs hold afterwards plus what it adds to the block's
burn accumulator equals what its inputs held plus the open mint plus the premine
(`txUnallocated`) — for any edict list, pointer, cenotaph, OP_RETURN layout.  (`hwf`: the runestone
is well formed, which `Runestone::decipher` guarantees; txid without rows; accumulator without
repeated ids.) -/
theorem c08_tx_conserved (st : State) (blk : Block) (i : Nat) (tx : Tx) (bb : Balances)
    (st' : State) (bb' : Balances) (evs : List Event)
    (hok : indexRunesTx st blk i tx bb = .ok (st', bb', evs))
    (hfresh : ∀ v, AL.get st.balances ⟨tx.txid, v⟩ = none) (hbb : (keys bb).Nodup)
    (hwf : WellFormed tx.outputs.length (Message.ofArtifact tx.artifact)) (r : RuneId) :
    sumFrom (fun v => lk ((AL.get st'.balances ⟨tx.txid, v⟩).getD []) r) 0 tx.outputs.length + lk bb' r
      = lk bb r + txUnallocated st blk i tx r := by
  obtain ⟨h1, h2, _⟩ := indexRunesTx_refines hok hfresh hbb r
  have hc := allocate_conserves (outsOf tx) (Message.ofArtifact tx.artifact)
    ((txEtched (spent st tx) blk i tx).map (·.1)) r (txUnallocated st blk i tx r) (by simpa [outsOf] using hwf)
  have hs : sumFrom (fun v => lk ((AL.get st'.balances ⟨tx.txid, v⟩).getD []) r) 0 tx.outputs.length
      = sumFrom (txSpec st blk i tx r).out 0 tx.outputs.length :=
    sumFrom_congr _ _ _ _ (fun v _ hv => h1 v (by omega))
  rw [hs, h2]
  have : (outsOf tx).length = tx.outputs.length := by simp [outsOf]
  rw [this] at hc
  unfold txSpec
  omega

/-- **OP_RETURN outputs never hold runes (one transaction of the model).**  After a successful
`indexRunesTx`: rows of other transactions' outpoints are what they were once the spent inputs'
rows were removed; no OP_RETURN output of this transaction has a row; nothing is written beyond
the transaction's outputs.  (Hypothesis: the txid had no rows before.) -/
theorem c08_rows_only_on_spendable_outputs (st : State) (blk : Block) (i : Nat) (tx : Tx) (bb : Balances)
    (st' : State) (bb' : Balances) (evs : List Event)
    (hok : indexRunesTx st blk i tx bb = .ok (st', bb', evs))
    (hfresh : ∀ v, AL.get st.balances ⟨tx.txid, v⟩ = none) :
    (∀ o : OutPoint, o.txid ≠ tx.txid → AL.get st'.balances o = AL.get (spendAll st.balances tx.inputs) o) ∧
    (∀ v, opretAt tx v = true → AL.get st'.balances ⟨tx.txid, v⟩ = none) ∧
    (∀ v, v ≥ tx.outputs.length → AL.get st'.balances ⟨tx.txid, v⟩ = none) :=
  indexRunesTx_rows hok hfresh

/-- A transaction whose inputs hold nothing of `r`, which neither mints nor etches `r`, cannot make
`r` appear anywhere: "rune balances appear only through premine and mints". -/
theorem c08_nothing_from_nothing (st : State) (blk : Block) (i : Nat) (tx : Tx) (bb : Balances)
    (st' : State) (bb' : Balances) (evs : List Event)
    (hok : indexRunesTx st blk i tx bb = .ok (st', bb', evs))
    (hfresh : ∀ v, AL.get st.balances ⟨tx.txid, v⟩ = none) (hbb : (keys bb).Nodup)
    (hwf : WellFormed tx.outputs.length (Message.ofArtifact tx.artifact)) (r : RuneId)
    (hz : txUnallocated st blk i tx r = 0) :
    sumFrom (fun v => lk ((AL.get st'.balances ⟨tx.txid, v⟩).getD []) r) 0 tx.outputs.length = 0 ∧
    lk bb' r = lk bb r := by
  have := c08_tx_conserved st blk i tx bb st' bb' evs hok hfresh hbb hwf r
  obtain ⟨_, h2, _⟩ := indexRunesTx_refines hok hfresh hbb r
  rw [hz] at this
  omega

/-- **The model's edict loop conserves every rune.**  Whenever `applyEdicts` returns, for every
rune the unallocated amount plus the amounts allocated to the outputs is unchanged — each
`allocate` moves units from one side to the other (any number of edicts, repeated ids, `0:0`,
splits, caps). -/
theorem c08_edicts_conserve (tx : Tx) (etched : Option RuneId) (edicts : List Edict)
    (un : Balances) (alloc : Allocated) (un' : Balances) (alloc' : Allocated)
    (hok : applyEdicts tx etched edicts un alloc = .ok (un', alloc'))
    (hgood : Good un alloc) (hlen : alloc.length = tx.outputs.length) (r : RuneId) :
    (absFlow un' alloc' r).total tx.outputs.length = (absFlow un alloc r).total tx.outputs.length := by
  rw [(applyEdicts_ok tx etched edicts un alloc un' alloc' hok hgood hlen).2.2 r]
  have := flow_total (outsOf tx) etched r edicts (absFlow un alloc r)
  simpa [outsOf] using this

/-- The mint step adds exactly the mint amount of the minted rune to the unallocated map and
nothing else (so balances only ever appear through premine and mints). -/
theorem c08_mint_adds (st0 : State) (un0 : Balances) (blk : Block) (tx : Tx) (art : Artifact)
    (hart : tx.artifact = some art) (un1 : Balances)
    (h : (mintStep st0 un0 blk tx art).2.1 = .ok un1) (hn : (keys un0).Nodup) (r : RuneId) :
    lk un1 r = lk un0 r +
      (match txMint st0 blk.height tx with | some (id, a) => if id = r then a else 0 | none => 0) :=
  ((mintStep_spec st0 un0 blk tx art hart).2 un1 h hn).2 r

/-! ### the invariant in every reachable state (`Proofs/IndexLiftRune*.lean`) -/

/-- outpoint `o` is an OP_RETURN output of a transaction of the chain -/
def chainOpret (chain : List Block) (o : OutPoint) : Bool :=
  (chain.flatMap (·.txs)).any (fun tx => tx.txid == o.txid && opretAt tx o.vout)

/-- **Rune supply is conserved in every reachable state of the full index model**, for every
configuration (any combination of the sat / address / inscription / rune indexes, any first rune
height): after indexing any chain, for every rune entry the balances over all stored outpoints
plus the burned amount equal premine + mints · mint amount; every stored balance is positive and
names an existing rune; no stored row is empty or sits on an OP_RETURN output.

Hypotheses (`RuneLift.SupplyChainOK`): blocks are consecutive from height 0 with at most 2^32
transactions each (rune ids `(h, i)` are fresh — C11's invariant), and no txid occurs twice in
the chain (outpoints are fresh).  Nothing else: that edict outputs are ≤ n and the pointer < n
follows from the run having succeeded (the model asserts both), the sat / inscription pass is a
frame for the rune tables (`c10_utxo_frame`), and no bound on amounts is needed for the equation
over `Nat` (overflow would have been a `panic`, not an `ok`). -/
theorem c08_chain_conserved (cfg : Cfg) (chain : List Block) (st : State) (evs : List Event)
    (hr : run cfg chain = .ok (st, evs)) (hc : RuneLift.SupplyChainOK chain) :
    Conserved st.runeEntries st.balances (chainOpret chain) := by
  obtain ⟨hS, _⟩ := RuneLift.run_supply cfg chain st evs hr hc
  refine ⟨fun id e hm => ?_, fun o row hm => ?_⟩
  · have := hS.supply id e (RuneLift.get_of_mem_nodup hS.entNodup hm)
    simpa using this
  · obtain ⟨_, h2, h3, _, h5⟩ := hS.rows o row hm
    refine ⟨fun id b hb => h3 id b hb, h2, ?_⟩
    cases hco : chainOpret chain o with
    | false => rfl
    | true =>
      unfold chainOpret at hco
      obtain ⟨tx, htx, hc2⟩ := List.any_eq_true.1 hco
      simp only [Bool.and_eq_true, beq_iff_eq] at hc2
      have := h5 tx htx hc2.1
      rw [this] at hc2
      exact absurd hc2.2 (by simp)

/-- `Reachable` form: every reachable state is conserved with respect to the chain that led to it -/
theorem c08_reachable_conserved (cfg : Cfg) (st : State) (chain : List Block) (evs : List Event)
    (hr : run cfg chain = .ok (st, evs)) (hc : RuneLift.SupplyChainOK chain) :
    Reachable cfg st ∧ Conserved st.runeEntries st.balances (chainOpret chain) :=
  ⟨⟨chain, evs, hr⟩, c08_chain_conserved cfg chain st evs hr hc⟩

/-! ### the C16 corollary: no `Lot` panic (`Proofs/IndexLiftRuneNoLot*.lean`, `IndexLiftRuneKeys.lean`) -/

/-- **Under the supply invariant none of the `Lot` panic branches fires.**  Let `st` be any
reachable state (any configuration) and `blk` the next block; `st1` is the state the first pass
of `applyBlock` hands to the rune pass (the result of `indexUtxoEntries`, or `st` itself when the
sat / address / inscription indexes are off).  Then `indexRunesBlock st1 blk` — all of `addLot`
(`unallocated`, `allocated[..]`, the burn maps), `allocate`, and `flushBurned` at the end of the
block — never panics with `"lot overflow"`, `"entry.burned.checked_add(burned).unwrap()"` or
`"id_to_entry.get(rune_id).unwrap()"`.

Hypotheses (`RuneLift.LotChainOK (chain ++ [blk])`): consecutive blocks of ≤ 2^32 transactions,
no repeated txid, and every etching passes the decipher-time supply check
`premine + cap · amount < 2^128` (`Valid.etchingSupplyInRange`, part of C16's `validChain`).
(`"lot underflow"` / `"allocated[output]"` / the two asserts are not supply sites; C16 discharges
them from the stateless rules: `rune_pass_ok` below combines both.) -/
theorem c08_no_lot_panic (cfg : Cfg) (chain : List Block) (st : State) (evs : List Event)
    (hr : run cfg chain = .ok (st, evs)) (blk : Block) (hc : RuneLift.LotChainOK (chain ++ [blk]))
    (st1 : State) (ev1 : List Event)
    (h1 : (if (cfg.indexInscriptions || cfg.indexAddresses || cfg.indexSats) = true
      then indexUtxoEntries cfg st blk else .ok (st, [])) = .ok (st1, ev1))
    (s : String) (hp : indexRunesBlock st1 blk = .panic s) :
    s ≠ "lot overflow" ∧ s ≠ "entry.burned.checked_add(burned).unwrap()" ∧
    s ≠ "id_to_entry.get(rune_id).unwrap()" := by
  have hf : Runemint.RuneFrame st st1 := by
    split at h1
    · exact RuneLift.indexUtxoEntries_frame cfg st blk st1 ev1 h1
    · simp only [Outcome.ok.injEq, Prod.mk.injEq] at h1
      rw [← h1.1]; exact RuneLift.frame_refl _
  have := RuneLift.next_block_noLot cfg chain st evs hr blk hc st1 hf s hp
  simpa [RuneLift.lotSites] using this

/-- Whole runs: a panic of `run cfg chain` at one of the three `Lot` sites can only have come out
of the sat / address / inscription pass of some block (which has no such site), never out of the
rune pass; with only the rune index on it cannot happen at all. -/
theorem c08_no_lot_panic_run (cfg : Cfg) (chain : List Block) (hc : RuneLift.LotChainOK chain) (s : String)
    (hs : s ∈ RuneLift.lotSites) (hp : run cfg chain = .panic s) :
    ∃ pre b post st evs, chain = pre ++ b :: post ∧ run cfg pre = .ok (st, evs) ∧
      (cfg.indexInscriptions || cfg.indexAddresses || cfg.indexSats) = true ∧
      indexUtxoEntries cfg st b = .panic s :=
  RuneLift.run_lot_panic_origin cfg chain hc s hs hp

theorem c08_no_lot_panic_runes_only (cfg : Cfg)
    (hcfg : cfg.indexInscriptions = false ∧ cfg.indexAddresses = false ∧ cfg.indexSats = false)
    (chain : List Block) (hc : RuneLift.LotChainOK chain) (s : String) (hp : run cfg chain = .panic s) :
    s ∉ RuneLift.lotSites :=
  RuneLift.run_noLot_runesOnly cfg hcfg chain hc s hp

/-- With C16's stateless rules for the block's transactions (`RuneSafe`: edict outputs and
pointer in range, node answers present) the rune pass of the next block of a reachable state
SUCCEEDS — for every configuration. -/
theorem c08_rune_pass_ok (cfg : Cfg) (chain : List Block) (st : State) (evs : List Event)
    (hr : run cfg chain = .ok (st, evs)) (blk : Block) (hc : RuneLift.LotChainOK (chain ++ [blk]))
    (hsafe : ∀ tx ∈ blk.txs, RuneSafe blk.height tx)
    (st1 : State) (hf : Runemint.RuneFrame st st1) : ∃ r, indexRunesBlock st1 blk = .ok r :=
  RuneLift.rune_pass_ok cfg chain st evs hr blk hc hsafe st1 hf

/-- non-vacuity: a chain that etches a rune with premine 100 (block 1), then mints 7 and sends 30
to an OP_RETURN output (block 2) satisfies the hypotheses, is indexed successfully, and ends with
77 units on an output, 30 burned, one mint: 77 + 30 = 100 + 1 · 7 -/
def exChain : List Block :=
  [⟨0, 0, 0, 0, []⟩,
   ⟨1, 0, 0, 0, [⟨1, [], [⟨50, false, []⟩], [],
      some (.runestone [] (some ⟨none, some 100, none, none, none, some ⟨some 7, some 2, none, none, none, none⟩, false⟩)
        none none), 0⟩]⟩,
   ⟨2, 0, 0, 0, [⟨2, [⟨⟨1, 0⟩, false, none, []⟩], [⟨0, true, []⟩, ⟨50, false, []⟩], [],
      some (.runestone [⟨⟨1, 0⟩, 30, 0⟩] none (some ⟨1, 0⟩) none), 0⟩]⟩]

example : RuneLift.SupplyChainOK exChain := by
  refine ⟨?_, by decide⟩
  intro i hi
  have : i = 0 ∨ i = 1 ∨ i = 2 := by simp [exChain] at hi; omega
  rcases this with rfl | rfl | rfl <;> simp [exChain]

example : RuneLift.LotChainOK exChain := by
  refine ⟨?_, by decide⟩
  refine ⟨?_, by decide⟩
  intro i hi
  have : i = 0 ∨ i = 1 ∨ i = 2 := by simp [exChain] at hi; omega
  rcases this with rfl | rfl | rfl <;> simp [exChain]

/-- the supply hypothesis is needed: an etching with `premine + cap · amount ≥ 2^128` (which
`Runestone::decipher` turns into a cenotaph and which therefore never reaches the updater as a
runestone) makes the second mint overflow -/
example : (match run ⟨false, false, false, false, true, 0, 0, 0⟩
    [⟨0, 0, 0, 0, [⟨1, [], [⟨50, false, []⟩], [],
        some (.runestone [] (some ⟨none, some (2 ^ 128 - 1), none, none, none, some ⟨some 1, some 1, none, none, none, none⟩, false⟩)
          none none), 0⟩]⟩,
     ⟨1, 0, 0, 0, [⟨2, [⟨⟨1, 0⟩, false, none, []⟩], [⟨50, false, []⟩], [],
        some (.runestone [] none (some ⟨0, 0⟩) none), 0⟩]⟩] with
    | .panic s => s
    | _ => "") = "lot overflow" := by decide

example : (match run ⟨false, false, false, false, true, 0, 0, 0⟩ exChain with
    | .ok (st, _) => (st.balances, st.runeEntries.map (fun p => (p.2.burned, p.2.mints, p.2.premine)))
    | _ => ([], [])) = ([(⟨2, 1⟩, [(⟨1, 0⟩, 77)])], [(30, 1, 100)]) := by decide

end Ord.Index.C08
