import OrdModel.Proofs.PropsDecompress
import OrdModel.Proofs.PropsTotal
import OrdModel.Proofs.PropsRoundtrip
/-!
# C28 — inscription properties round-trip and decoding is bounded

Property theorems only.  Models: `OrdModel/Codec/{Cbor,Properties,Decompress}.lean`; helper
lemmas: `OrdModel/Proofs/Props*.lean`.
-/
namespace Ord.Props
open Ord Ord.Cbor

/-! ## Clause 1: inline and packed forms decode to the same properties

`wfProps p` is what `ord` itself builds plus the Rust type invariants: `txids` empty, every
gallery item has an id (32-byte txid, u32 index) and no leftover packed `index`, trait names
distinct within each attribute set, strings valid UTF-8, integers in `i64`, lengths `< 2^64`.
Nothing else is assumed: any number of items, any names/values, any string lengths.
(Without it the value does NOT round-trip: see `c28_roundtrip_needs_wf`.) -/

/-- `from_cbor(to_inline_cbor(p)) = p` -/
theorem c28_inline_roundtrip (p : Properties) (hw : wfProps p = true) (bs : Bytes)
    (h : toInline p = some bs) : fromCbor bs = .ok p := by
  unfold toInline at h
  split at h
  · cases h
  · cases h; exact fromCbor_inline p hw

/-- `from_cbor(to_packed_cbor(p)) = p`.  (`hmem`: the packed txid string has a `u64` length,
i.e. fewer than 2^59 items.) -/
theorem c28_packed_roundtrip (p : Properties) (hw : wfProps p = true)
    (hmem : p.gallery.length * 32 < 2 ^ 64) (bs : Bytes) (h : toPacked p = .ok (some bs)) :
    fromCbor bs = .ok p := fromCbor_packed p hw hmem bs h

/-- Both encoders return `None` exactly for the default value, and on well-formed values
`to_packed_cbor` never hits one of its `assert!`/`unwrap` sites. -/
theorem c28_encoders_defined (p : Properties) (hw : wfProps p = true) :
    (toInline p = none ↔ p = {}) ∧ (toPacked p = .ok none ↔ p = {}) ∧ ∃ o, toPacked p = .ok o := by
  have hw' := (wfProps_iff p).1 hw
  obtain ⟨htx, hg, ha, hl⟩ := hw'
  obtain ⟨tx, items, hp, _⟩ := packItems_spec p.gallery hg
  have hdef : propsIsDefault ({} : Properties) = true := by decide
  refine ⟨?_, ?_, ?_⟩
  · unfold toInline
    constructor
    · intro h; split at h
      · rename_i hd; exact propsIsDefault_eq p hd
      · cases h
    · intro h; subst h; rfl
  · unfold toPacked
    rw [htx]
    simp only [List.isEmpty_nil, Bool.not_true, Bool.false_eq_true, if_false, hp, bind_ok]
    constructor
    · intro h; split at h
      · rename_i hd; exact propsIsDefault_eq p hd
      · cases h
    · intro h; subst h; rfl
  · unfold toPacked
    rw [htx]
    simp only [List.isEmpty_nil, Bool.not_true, Bool.false_eq_true, if_false, hp, bind_ok]
    split <;> exact ⟨_, rfl⟩

/-- The hypothesis is needed: a value with two traits of the same name is encoded but decodes
to the default value (duplicate names are a decode error). -/
theorem c28_roundtrip_needs_wf :
    ∃ p bs, toInline p = some bs ∧ fromCbor bs = .ok {} ∧ p ≠ {} := by
  refine ⟨{ attributes := { traits := [([0x61], .null), ([0x61], .null)] } }, _, rfl, ?_, by decide⟩
  decide

/-! ## Clause 2: the compressed forms

Brotli is an abstract inverse pair: "the decompressor, run over `compressed`, yields `cbor`" is
the hypothesis `chunks.flatten = cbor` about the chunk stream it produces (non-empty reads
followed by end of stream).  The exact guard under which the decoder accepts is
`cbor.length ≤ min(30·compressed.length, 4 000 000)`. -/

theorem c28_compressed_roundtrip (p : Properties) (hw : wfProps p = true)
    (hmem : p.gallery.length * 32 < 2 ^ 64) (cbor : Bytes)
    (hc : toInline p = some cbor ∨ toPacked p = .ok (some cbor))
    (compressed : Bytes) (chunks : List Bytes) (hne : ∀ c ∈ chunks, c ≠ [])
    (hbrotli : chunks.flatten = cbor)
    (hguard : cbor.length ≤ min (30 * compressed.length) 4000000) :
    inscriptionProperties (some compressed) (some BROTLI) (chunks.map .data ++ [.data []]) = .ok p := by
  have hmax : cbor.length ≤ decompressMax compressed.length := by
    unfold decompressMax sat64 MAX_PROPERTIES_COMPRESSION_RATIO MAX_COMPRESSED_PROPERTIES_SIZE
    split <;> omega
  have hloop := decompressLoop_chunks (decompressMax compressed.length) chunks [] hne
    (by rw [hbrotli]; simpa using hmax)
  unfold inscriptionProperties propertiesCbor
  simp only [ne_eq, not_true_eq_false, if_false, hloop, List.nil_append, hbrotli]
  rcases hc with hc | hc
  · exact c28_inline_roundtrip p hw cbor hc
  · exact c28_packed_roundtrip p hw hmem cbor hc

/-- Beyond the guard the field is ignored: `properties()` is the default value. -/
theorem c28_compressed_rejected (cbor compressed : Bytes) (chunks : List Bytes)
    (hne : ∀ c ∈ chunks, c ≠ []) (hbrotli : chunks.flatten = cbor)
    (hover : cbor.length > min (30 * compressed.length) 4000000) :
    inscriptionProperties (some compressed) (some BROTLI) (chunks.map .data ++ [.data []]) = .ok {} := by
  have hmax := decompressMax_le compressed.length
  simp only [MAX_PROPERTIES_COMPRESSION_RATIO, MAX_COMPRESSED_PROPERTIES_SIZE] at hmax
  have hloop := decompressLoop_chunks_reject (decompressMax compressed.length) chunks [] hne
    (by simp) (by rw [hbrotli]; simp; omega)
  unfold inscriptionProperties propertiesCbor
  simp only [ne_eq, not_true_eq_false, if_false, hloop]

/-- FINDING (unchanged code): the encoder's guard `len / clen ≤ 30` (integer division) is
weaker than the decoder's `len ≤ 30·clen`.  Witness replayed on the real code in
`corpus/C28/brotli.ratio-gap.txt`: title `"x" ++ "a"×598`; its inline CBOR has 606 bytes and
brotli makes 20 bytes of it; `compress_properties` accepts (606/20 = 30) and the decoder,
however faithfully brotli decompresses, returns the default value. -/
def gapWitness : Properties := { attributes := { title := some (0x78 :: List.replicate 598 0x61) } }

set_option maxRecDepth 20000 in
theorem c28_compressed_roundtrip_fails :
    wfProps gapWitness = true ∧ gapWitness ≠ {} ∧
    ∃ cbor, toInline gapWitness = some cbor ∧ cbor.length = 606 ∧
      (Generated.ratioGuardFixed = false → encoderAccepts 606 20 = true) ∧
      ∀ (compressed : Bytes) (chunks : List Bytes), compressed.length = 20 →
        (∀ c ∈ chunks, c ≠ []) → chunks.flatten = cbor →
        inscriptionProperties (some compressed) (some BROTLI) (chunks.map .data ++ [.data []]) = .ok {} := by
  refine ⟨by decide, by decide, _, rfl, by decide, ?_, ?_⟩
  · intro hflag
    unfold encoderAccepts
    rw [hflag]; decide
  intro compressed chunks hlen hne hfl
  refine c28_compressed_rejected _ compressed chunks hne hfl ?_
  have : (encProperties gapWitness).length = 606 := by decide
  rw [hlen, this]; decide

/-- With the repaired guard (`notes/fix-C28-ratio-gap.diff`; the flag is re-extracted from the
source on every run) everything the encoder accepts is inside the decoder's guard, so
`c28_compressed_roundtrip` applies to every compressed inscription ord builds. -/
theorem c28_encoder_guard_fixed (hflag : Generated.ratioGuardFixed = true) (len clen : Nat)
    (h : encoderAccepts len clen = true) : len ≤ min (30 * clen) 4000000 := by
  unfold encoderAccepts at h
  rw [hflag] at h
  have h' := Bool.and_eq_true_iff.1 h
  have h1 : len ≤ MAX_COMPRESSED_PROPERTIES_SIZE := of_decide_eq_true h'.1
  have h2 : len ≤ sat64 (clen * MAX_PROPERTIES_COMPRESSION_RATIO) := by simpa using h'.2
  unfold MAX_COMPRESSED_PROPERTIES_SIZE at h1
  unfold sat64 MAX_PROPERTIES_COMPRESSION_RATIO at h2
  split at h2 <;> omega

/-- `_partial`: with the encoder's own guard instead of the decoder's the compressed round trip
holds only under the extra hypothesis `len ≤ 30·clen` (which `len / clen ≤ 30` does not give). -/
theorem c28_encoder_guard_partial (len clen : Nat) (h : encoderAccepts len clen = true)
    (hextra : len ≤ 30 * clen) : len ≤ min (30 * clen) 4000000 := by
  unfold encoderAccepts at h
  have h1 : len ≤ MAX_COMPRESSED_PROPERTIES_SIZE := of_decide_eq_true (Bool.and_eq_true_iff.1 h).1
  unfold MAX_COMPRESSED_PROPERTIES_SIZE at h1
  omega

/-! ## Clause 4: a compressed field is never expanded beyond the limits -/

/-- For EVERY read-result stream (whatever the brotli decompressor does, including erroring,
never ending, or producing arbitrarily much), a value returned by `properties_cbor` for a
brotli-encoded field of `value.len()` bytes has at most
`min(30 · value.len(), 4 000 000)` bytes. -/
theorem c28_decompress_bounded (value : Bytes) (stream : List ReadResult) (out : Bytes)
    (h : propertiesCbor (some value) (some BROTLI) stream = some out) :
    out.length ≤ min (30 * value.length) 4000000 := by
  simp only [propertiesCbor] at h
  split at h
  · cases h
  · have h1 := decompressLoop_le _ stream [] out (by simp) h
    have h2 := decompressMax_le value.length
    simp only [MAX_PROPERTIES_COMPRESSION_RATIO, MAX_COMPRESSED_PROPERTIES_SIZE] at h2
    omega

/-- The loop invariant itself, for any limit and any starting accumulator. -/
theorem c28_decompress_loop_invariant (max : Nat) (stream : List ReadResult) (acc out : Bytes)
    (hacc : acc.length ≤ max) (h : decompressLoop max stream acc = some out) :
    out.length ≤ max ∧ ∃ tail, out = acc ++ tail :=
  ⟨decompressLoop_le max stream acc out hacc h, decompressLoop_prefix max stream acc out h⟩

/-- Any other `property_encoding` yields nothing, whatever the stream. -/
theorem c28_unknown_encoding (value enc : Bytes) (stream : List ReadResult) (h : enc ≠ BROTLI) :
    propertiesCbor (some value) (some enc) stream = none := by
  simp [propertiesCbor, h]

/-- The driver's length-only loop (`props.decomp`) is the real loop. -/
theorem c28_decompressLen_spec (max : Nat) (stream : List ReadResult) :
    decompressLen max (sizes stream) 0 = (decompressLoop max stream []).map List.length := by
  simpa using decompressLen_spec max stream []

/-! Non-vacuity -/
def exProps : Properties :=
  { gallery := [{ id := some { txid := List.replicate 32 7, index := 300 },
                  attributes := { title := some [0x68, 0x69], traits := [([0x61], .int (-5)), ([0x62], .str [0xc3, 0xa9])] } },
                { id := some { txid := List.replicate 32 7, index := 0 } }],
    attributes := { title := some [] } }
example : wfProps exProps = true := by decide
example : exProps ≠ {} := by decide
example : ∃ bs, toPacked exProps = .ok (some bs) := by
  obtain ⟨h1, h2, o, ho⟩ := c28_encoders_defined exProps (by decide)
  cases o with
  | none => exact absurd (h2.1 ho) (by decide)
  | some bs => exact ⟨bs, ho⟩

example : propertiesCbor (some [1, 2, 3]) (some BROTLI) [.data [7, 7], .data [8], .data []] = some [7, 7, 8] := by
  decide
example : propertiesCbor (some [1]) (some BROTLI) [.data (List.replicate 31 0), .data []] = none := by
  decide

/-! ## Clause 3: decoding arbitrary bytes never panics

Every `unwrap`/`assert`/index/checked-arithmetic site on the decode path is a `panic` branch of
the model (`Txid::from_slice(..).unwrap()` in `from_cbor` and `from_value`, the `*n -= 1` of
`Decoder::skip`, and "a loop of the Rust code fails to make progress" = fuel exhaustion). -/

/-- `Properties::from_cbor` returns a value — never panics, never errors — for EVERY byte string. -/
theorem c28_from_cbor_total (bs : Bytes) : ∃ p, fromCbor bs = .ok p := fromCbor_ok bs

/-- `minicbor::decode::<Properties>` never panics, for every byte string. -/
theorem c28_decode_total (bs : Bytes) (s : String) : decProperties bs ≠ .panic s :=
  Le.not_panic (decProperties_le bs) s

/-- `Decoder::skip` never panics (its counters never underflow and the loop always makes
progress), and never returns more input than it was given. -/
theorem c28_skip_total (bs : Bytes) :
    (∀ s, skip bs ≠ .panic s) ∧ ∀ r, skip bs = .ok r → r.length ≤ bs.length := by
  have h := skip_le bs
  refine ⟨Le.not_panic h, ?_⟩
  intro r hr; rw [hr] at h; exact h

/-- `Inscription::properties` never panics, for every content of the `properties` and
`property_encoding` fields and whatever the decompressor yields. -/
theorem c28_properties_total (value encoding : Option Bytes) (stream : List ReadResult) :
    ∃ p, inscriptionProperties value encoding stream = .ok p := by
  unfold inscriptionProperties
  split
  · exact fromCbor_ok _
  · exact ⟨_, rfl⟩

end Ord.Props
