import OrdModel.Proofs.PropsDecompress
import OrdModel.Proofs.PropsTotal
/-!
# C28 — inscription properties round-trip and decoding is bounded

Property theorems only.  Models: `OrdModel/Codec/{Cbor,Properties,Decompress}.lean`; helper
lemmas: `OrdModel/Proofs/Props*.lean`.
-/
namespace Ord.Props
open Ord Ord.Cbor

/-! ## Clause 4: a compressed field is never expanded beyond the limits -/

/-- For EVERY read-result stream (whatever the brotli decompressor does, including erroring,
never ending, or producing arbitrarily much), a value returned by `properties_cbor` for a
brotli-encoded field of `value.len()` bytes has at most
`min(30 · value.len(), 4 000 000)` bytes. -/
theorem c28_decompress_bounded (value : Bytes) (stream : List ReadResult) (out : Bytes)
    (h : propertiesCbor (some value) (some BROTLI) stream = some out) :
    out.length ≤ min (30 * value.length) 4000000 := by
  simp only [propertiesCbor] at h
  split at h
  · cases h
  · have h1 := decompressLoop_le _ stream [] out (by simp) h
    have h2 := decompressMax_le value.length
    simp only [MAX_PROPERTIES_COMPRESSION_RATIO, MAX_COMPRESSED_PROPERTIES_SIZE] at h2
    omega

/-- The loop invariant itself, for any limit and any starting accumulator. -/
theorem c28_decompress_loop_invariant (max : Nat) (stream : List ReadResult) (acc out : Bytes)
    (hacc : acc.length ≤ max) (h : decompressLoop max stream acc = some out) :
    out.length ≤ max ∧ ∃ tail, out = acc ++ tail :=
  ⟨decompressLoop_le max stream acc out hacc h, decompressLoop_prefix max stream acc out h⟩

/-- Any other `property_encoding` yields nothing, whatever the stream. -/
theorem c28_unknown_encoding (value enc : Bytes) (stream : List ReadResult) (h : enc ≠ BROTLI) :
    propertiesCbor (some value) (some enc) stream = none := by
  simp [propertiesCbor, h]

/-- The driver's length-only loop (`props.decomp`) is the real loop. -/
theorem c28_decompressLen_spec (max : Nat) (stream : List ReadResult) :
    decompressLen max (sizes stream) 0 = (decompressLoop max stream []).map List.length := by
  simpa using decompressLen_spec max stream []

example : propertiesCbor (some [1, 2, 3]) (some BROTLI) [.data [7, 7], .data [8], .data []] = some [7, 7, 8] := by
  decide
example : propertiesCbor (some [1]) (some BROTLI) [.data (List.replicate 31 0), .data []] = none := by
  decide

/-! ## Clause 3: decoding arbitrary bytes never panics

Every `unwrap`/`assert`/index/checked-arithmetic site on the decode path is a `panic` branch of
the model (`Txid::from_slice(..).unwrap()` in `from_cbor` and `from_value`, the `*n -= 1` of
`Decoder::skip`, and "a loop of the Rust code fails to make progress" = fuel exhaustion). -/

/-- `Properties::from_cbor` returns a value — never panics, never errors — for EVERY byte string. -/
theorem c28_from_cbor_total (bs : Bytes) : ∃ p, fromCbor bs = .ok p := fromCbor_ok bs

/-- `minicbor::decode::<Properties>` never panics, for every byte string. -/
theorem c28_decode_total (bs : Bytes) (s : String) : decProperties bs ≠ .panic s :=
  Le.not_panic (decProperties_le bs) s

/-- `Decoder::skip` never panics (its counters never underflow and the loop always makes
progress), and never returns more input than it was given. -/
theorem c28_skip_total (bs : Bytes) :
    (∀ s, skip bs ≠ .panic s) ∧ ∀ r, skip bs = .ok r → r.length ≤ bs.length := by
  have h := skip_le bs
  refine ⟨Le.not_panic h, ?_⟩
  intro r hr; rw [hr] at h; exact h

/-- `Inscription::properties` never panics, for every content of the `properties` and
`property_encoding` fields and whatever the decompressor yields. -/
theorem c28_properties_total (value encoding : Option Bytes) (stream : List ReadResult) :
    ∃ p, inscriptionProperties value encoding stream = .ok p := by
  unfold inscriptionProperties
  split
  · exact fromCbor_ok _
  · exact ⟨_, rfl⟩

end Ord.Props
