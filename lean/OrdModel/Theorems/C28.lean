import OrdModel.Proofs.PropsDecompress
/-!
# C28 — inscription properties round-trip and decoding is bounded

Property theorems only.  Models: `OrdModel/Codec/{Cbor,Properties,Decompress}.lean`; helper
lemmas: `OrdModel/Proofs/Props*.lean`.
-/
namespace Ord.Props
open Ord Ord.Cbor

/-! ## Clause 4: a compressed field is never expanded beyond the limits -/

/-- For EVERY read-result stream (whatever the brotli decompressor does, including erroring,
never ending, or producing arbitrarily much), a value returned by `properties_cbor` for a
brotli-encoded field of `value.len()` bytes has at most
`min(30 · value.len(), 4 000 000)` bytes. -/
theorem c28_decompress_bounded (value : Bytes) (stream : List ReadResult) (out : Bytes)
    (h : propertiesCbor (some value) (some BROTLI) stream = some out) :
    out.length ≤ min (30 * value.length) 4000000 := by
  simp only [propertiesCbor] at h
  split at h
  · cases h
  · have h1 := decompressLoop_le _ stream [] out (by simp) h
    have h2 := decompressMax_le value.length
    simp only [MAX_PROPERTIES_COMPRESSION_RATIO, MAX_COMPRESSED_PROPERTIES_SIZE] at h2
    omega

/-- The loop invariant itself, for any limit and any starting accumulator. -/
theorem c28_decompress_loop_invariant (max : Nat) (stream : List ReadResult) (acc out : Bytes)
    (hacc : acc.length ≤ max) (h : decompressLoop max stream acc = some out) :
    out.length ≤ max ∧ ∃ tail, out = acc ++ tail :=
  ⟨decompressLoop_le max stream acc out hacc h, decompressLoop_prefix max stream acc out h⟩

/-- Any other `property_encoding` yields nothing, whatever the stream. -/
theorem c28_unknown_encoding (value enc : Bytes) (stream : List ReadResult) (h : enc ≠ BROTLI) :
    propertiesCbor (some value) (some enc) stream = none := by
  simp [propertiesCbor, h]

/-- The driver's length-only loop (`props.decomp`) is the real loop. -/
theorem c28_decompressLen_spec (max : Nat) (stream : List ReadResult) :
    decompressLen max (sizes stream) 0 = (decompressLoop max stream []).map List.length := by
  simpa using decompressLen_spec max stream []

example : propertiesCbor (some [1, 2, 3]) (some BROTLI) [.data [7, 7], .data [8], .data []] = some [7, 7, 8] := by
  decide
example : propertiesCbor (some [1]) (some BROTLI) [.data (List.replicate 31 0), .data []] = none := by
  decide

end Ord.Props
