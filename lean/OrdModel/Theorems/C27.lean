import OrdModel.Proofs.EnvelopeRoundTrip
import OrdModel.Proofs.EnvelopeCompact
/-!
# C27 — Inscription envelopes round-trip and envelope parsing is total

Property theorems only; helper lemmas are in `OrdModel/Proofs/ScriptW5.lean` and
`OrdModel/Proofs/Envelope{Total,Build,Parse,Spec,RoundTrip,Compact}.lean`, the model in
`OrdModel/Codec/{ScriptW5,Envelope}.lean`.

Vocabulary: `batchRevealScript is` = bytes appended by
`Inscription::append_batch_reveal_script_to_builder`; `encode pre` = a script prefix written with
`script::Builder` (`push_slice` / `push_opcode`); `fromWitnesses ws` =
`ParsedEnvelope::from_transaction` of a transaction whose inputs carry the witnesses `ws`;
`expectedEnvelopes input 0 is` = one envelope per inscription, in order, `offset = 0,1,…`,
`pushnum = stutter = false`, payload `expectedPayload i`.
-/
namespace Ord.Envelope
open Ord Ord.ScriptW5

/-! ## 1. Round trip -/

/-- **Key lemma**: whatever `Builder::push_slice` wrote for a slice shorter than 2^32 bytes,
`Script::instructions()` reads back as exactly that push and continues right behind it. -/
theorem c27_push_roundtrip (data rest : Bytes) (h : data.length < 2 ^ 32) :
    instructions (pushSlice data ++ rest) = .ok (.push data) :: instructions rest :=
  instructions_pushSlice data rest h

/-- The tapscript ord looks at: for a script-path witness `[…, script, control_block]` whose
control block does not start with the annex byte 0x50 it is `script`; with an annex
`[…, script, control_block, annex]` likewise. -/
theorem c27_tapscript_selection (stack : List Bytes) (script cb annex : Bytes)
    (hcb : cb.head? ≠ some 0x50) (hannex : annex.head? = some 0x50) :
    tapscriptOf (stack ++ [script, cb]) = some script ∧
    tapscriptOf (stack ++ [script, cb, annex]) = some script := by
  constructor
  · simp [tapscriptOf, hcb]
  · simp [tapscriptOf, hannex]

theorem rawFromWitnesses_skip : ∀ (bs : List (List Bytes)) (i : Nat) (ws : List (List Bytes)),
    (∀ b ∈ bs, tapscriptOf b = none) →
    rawFromWitnesses i (bs ++ ws) = rawFromWitnesses (i + bs.length) ws := by
  intro bs
  induction bs with
  | nil => intro i ws _; simp
  | cons b bs ih =>
    intro i ws h
    simp only [List.cons_append, rawFromWitnesses, h b (by simp), List.length_cons]
    rw [ih (i + 1) ws (fun c hc => h c (by simp [hc]))]
    congr 1; omega

/-- **Round trip, any number of inscriptions, any field combination and size.**
Take any inscriptions `is` (raw field values of any length; un-chunked values shorter than
2^32 bytes, which is what the builder itself requires), write them with ord's batch reveal
builder behind any builder-written prefix that contains no empty push (e.g. `<key> OP_CHECKSIG`),
and put the script into the script-path slot of the witness of input number `before.length`
(the other inputs carrying no tapscript).  Then `ParsedEnvelope::from_transaction` returns exactly
one envelope per inscription, in order, with `input = before.length`, `offset = 0 … k-1`,
`pushnum = stutter = false`, and payload `expectedPayload i`. -/
theorem c27_roundtrip (pre : List Instr) (is : List Inscription) (stack : List Bytes) (cb : Bytes)
    (before after : List (List Bytes))
    (hpre : ∀ ins ∈ pre, ins.encodable = true ∧ ins ≠ .push [])
    (hsized : ∀ i ∈ is, buildable i = true) (hk : is.length ≤ 2 ^ 32)
    (hinput : before.length < 2 ^ 32) (hcb : cb.head? ≠ some 0x50)
    (hother : ∀ w ∈ before ++ after, tapscriptOf w = none) :
    fromWitnesses (before ++ (stack ++ [encode pre ++ batchRevealScript is, cb]) :: after) =
      .ok (expectedEnvelopes before.length 0 is) := by
  unfold fromWitnesses
  rw [rawFromWitnesses_skip before 0 _ (fun b hb => hother b (by simp [hb]))]
  simp only [rawFromWitnesses, (c27_tapscript_selection stack _ cb [0x50] hcb rfl).1, Nat.zero_add]
  rw [fromTapscript_batch before.length hinput pre hpre is hsized hk]
  have := rawFromWitnesses_skip after (before.length + 1) [] (fun b hb => hother b (by simp [hb]))
  simp only [List.append_nil, rawFromWitnesses] at this
  rw [this]
  simp only [List.append_nil]
  exact parseAll_expectedRaw before.length is 0

/-- The same with an annex as last witness element. -/
theorem c27_roundtrip_annex (pre : List Instr) (is : List Inscription) (stack : List Bytes)
    (cb annex : Bytes) (before after : List (List Bytes))
    (hpre : ∀ ins ∈ pre, ins.encodable = true ∧ ins ≠ .push [])
    (hsized : ∀ i ∈ is, buildable i = true) (hk : is.length ≤ 2 ^ 32)
    (hinput : before.length < 2 ^ 32) (hannex : annex.head? = some 0x50)
    (hother : ∀ w ∈ before ++ after, tapscriptOf w = none) :
    fromWitnesses (before ++ (stack ++ [encode pre ++ batchRevealScript is, cb, annex]) :: after) =
      .ok (expectedEnvelopes before.length 0 is) := by
  unfold fromWitnesses
  rw [rawFromWitnesses_skip before 0 _ (fun b hb => hother b (by simp [hb]))]
  have hsel : tapscriptOf (stack ++ [encode pre ++ batchRevealScript is, cb, annex]) =
      some (encode pre ++ batchRevealScript is) := by simp [tapscriptOf, hannex]
  simp only [rawFromWitnesses, hsel, Nat.zero_add]
  rw [fromTapscript_batch before.length hinput pre hpre is hsized hk]
  have := rawFromWitnesses_skip after (before.length + 1) [] (fun b hb => hother b (by simp [hb]))
  simp only [List.append_nil, rawFromWitnesses] at this
  rw [this]
  simp only [List.append_nil]
  exact parseAll_expectedRaw before.length is 0

/-- What comes back, field by field: every data field is the one written — a chunked field
(metadata, properties) holding `Some(vec![])` writes no push and comes back as `None`, which is
why the property says "non-empty values"; every other field, including empty un-chunked values
and an empty body, comes back unchanged — and the three parser flags are
`incomplete_field = unrecognized_even_field = false`, `duplicate_field = dupRule`. -/
theorem c27_expected_fields (i : Inscription) :
    (expectedPayload i).body = i.body ∧
    (expectedPayload i).contentEncoding = i.contentEncoding ∧
    (expectedPayload i).contentType = i.contentType ∧
    (expectedPayload i).delegate = i.delegate ∧
    (expectedPayload i).metaprotocol = i.metaprotocol ∧
    (expectedPayload i).parents = i.parents ∧
    (expectedPayload i).pointer = i.pointer ∧
    (expectedPayload i).propertyEncoding = i.propertyEncoding ∧
    (expectedPayload i).rune = i.rune ∧
    (i.metadata ≠ some [] → (expectedPayload i).metadata = i.metadata) ∧
    (i.properties ≠ some [] → (expectedPayload i).properties = i.properties) ∧
    (i.metadata = some [] → (expectedPayload i).metadata = none) ∧
    (i.properties = some [] → (expectedPayload i).properties = none) ∧
    (expectedPayload i).incompleteField = false ∧
    (expectedPayload i).unrecognizedEvenField = false ∧
    (expectedPayload i).duplicateField = dupRule i := by
  refine ⟨rfl, rfl, rfl, rfl, rfl, rfl, rfl, rfl, rfl, ?_, ?_, ?_, ?_, rfl, rfl, rfl⟩
  · intro h
    simp only [expectedPayload]
    cases hm : i.metadata with
    | none => rfl
    | some v => cases v with
      | nil => exact absurd hm h
      | cons _ _ => rfl
  · intro h
    simp only [expectedPayload]
    cases hm : i.properties with
    | none => rfl
    | some v => cases v with
      | nil => exact absurd hm h
      | cons _ _ => rfl
  · intro h; simp [expectedPayload, h, normChunked]
  · intro h; simp [expectedPayload, h, normChunked]

/-- Exactly when the parser sets `duplicate_field` on ord's own output: more than one parent,
or metadata / properties longer than one 520-byte push (they are written as repeated tags). -/
theorem c27_duplicate_rule (i : Inscription) :
    dupRule i = true ↔
      i.parents.length > 1 ∨ (∃ m, i.metadata = some m ∧ m.length > 520) ∨
        (∃ p, i.properties = some p ∧ p.length > 520) := by
  simp only [dupRule, Bool.or_eq_true, decide_eq_true_eq]
  constructor
  · rintro ((h | h) | h)
    · exact Or.inl h
    · cases hm : i.metadata with
      | none => simp [hm, optLen] at h
      | some m => exact Or.inr (Or.inl ⟨m, rfl, by simpa [hm, optLen] using h⟩)
    · cases hm : i.properties with
      | none => simp [hm, optLen] at h
      | some m => exact Or.inr (Or.inr ⟨m, rfl, by simpa [hm, optLen] using h⟩)
  · rintro (h | ⟨m, hm, h⟩ | ⟨m, hm, h⟩)
    · exact Or.inl (Or.inl h)
    · exact Or.inl (Or.inr (by simpa [hm, optLen] using h))
    · exact Or.inr (by simpa [hm, optLen] using h)

/-- **What the parser returns for an arbitrary raw envelope** (any pushes whatsoever, not only
ord's own): with `v k` = the values that follow key `k` in the tag/value part of the payload
(`F (fieldPart payload) k`), the un-chunked fields are the first value of their tag, the chunked
ones the concatenation of all values of their tag, `parents` all values of tag 3, the body the
concatenation of everything behind the first empty push in tag position;
`duplicate_field` ⇔ some key has more than one value; `incomplete_field` ⇔ odd number of
pushes before the body; `unrecognized_even_field` ⇔ after removing what was taken (`remaining`)
some key with an even first byte is left (unknown even tag, or a repeated un-chunked even tag
such as a second pointer). -/
theorem c27_parse_spec (e : Raw) :
    ∃ p : Parsed, parse e = .ok p ∧
      p.input = e.input ∧ p.offset = e.offset ∧ p.pushnum = e.pushnum ∧ p.stutter = e.stutter ∧
      p.payload.body = bodyOf e.payload ∧
      p.payload.contentEncoding = (F (fieldPart e.payload) [tagContentEncoding]).head? ∧
      p.payload.contentType = (F (fieldPart e.payload) [tagContentType]).head? ∧
      p.payload.delegate = (F (fieldPart e.payload) [tagDelegate]).head? ∧
      p.payload.metadata = joinOpt (F (fieldPart e.payload) [tagMetadata]) ∧
      p.payload.metaprotocol = (F (fieldPart e.payload) [tagMetaprotocol]).head? ∧
      p.payload.parents = F (fieldPart e.payload) [tagParent] ∧
      p.payload.pointer = (F (fieldPart e.payload) [tagPointer]).head? ∧
      p.payload.properties = joinOpt (F (fieldPart e.payload) [tagProperties]) ∧
      p.payload.propertyEncoding = (F (fieldPart e.payload) [tagPropertyEncoding]).head? ∧
      p.payload.rune = (F (fieldPart e.payload) [tagRune]).head? ∧
      (p.payload.duplicateField = true ↔ ∃ k, (F (fieldPart e.payload) k).length > 1) ∧
      p.payload.incompleteField = decide ((fieldPart e.payload).length % 2 = 1) ∧
      (p.payload.unrecognizedEvenField = true ↔
        ∃ k, remaining (F (fieldPart e.payload)) k ≠ [] ∧ evenKey k = true) := by
  obtain ⟨hwf, hv, hinc⟩ := collectFields_spec _ (fieldPart e.payload) [] (Nat.le_refl _) WF_nil
  have hv' : vals (collectFields (fieldPart e.payload) []).1 = F (fieldPart e.payload) := by
    funext k; rw [hv k]; simp [vals, FieldMap.get]
  obtain ⟨a1, a2, a3, a4, a5, a6, a7, a8, a9, a10, wrest, vrest⟩ := takeAll_spec _ hwf
  rw [hv'] at a1 a2 a3 a4 a5 a6 a7 a8 a9 a10 vrest
  have hD : ((collectFields (fieldPart e.payload) []).1.any (fun kv => decide (kv.2.length > 1)) = true ↔
      ∃ k, (F (fieldPart e.payload) k).length > 1) := by
    rw [any_iff _ hwf, hv']
    constructor
    · rintro ⟨k, _, h⟩; exact ⟨k, by simpa using h⟩
    · rintro ⟨k, h⟩
      refine ⟨k, ?_, by simpa using h⟩
      intro e0; rw [e0] at h; simp at h
  have hU : ((takeAll (collectFields (fieldPart e.payload) []).1).rest.any (fun kv => evenKey kv.1) = true ↔
      ∃ k, remaining (F (fieldPart e.payload)) k ≠ [] ∧ evenKey k = true) := by
    rw [any_iff _ wrest]
    simp only [vrest]
  rw [parse_eq]
  dsimp only
  -- make the map and the result of the ten takes opaque before comparing structure fields
  generalize takeAll (collectFields (fieldPart e.payload) []).1 = T at *
  generalize collectFields (fieldPart e.payload) [] = cf at *
  exact ⟨_, rfl, rfl, rfl, rfl, rfl, rfl, a1, a2, a3, a4, a5, a6, a7, a8, a9, a10, hD, hinc, hU⟩

/-- The builder's own precondition: `revealScriptO` (the builder with its `unwrap`) succeeds
exactly on `buildable` inscriptions, and then produces `revealScript`. -/
theorem c27_builder_ok (i : Inscription) (h : buildable i = true) :
    revealScriptO i = .ok (revealScript i) := by
  simp [revealScriptO, h]

/-! ## 2. Totality -/

/-- **Parsing any witnesses never panics**: for every transaction (at most 2^32 inputs, every
witness element at most 2^32 bytes — the `usize → u32` conversions of the input index and the
envelope counter cannot fail below that) `ParsedEnvelope::from_transaction` returns; none of
the slice / `unwrap` sites, nor the model's own fuel bound, is reached. -/
theorem c27_total (ws : List (List Bytes)) (hn : ws.length ≤ 2 ^ 32)
    (hl : ∀ w ∈ ws, ∀ e ∈ w, e.length ≤ 2 ^ 32) : ∀ s, fromWitnesses ws ≠ .panic s := by
  intro s
  unfold fromWitnesses
  have h := rawFromWitnesses_total ws 0 (by omega) hl
  cases hr : rawFromWitnesses 0 ws with
  | ok raws => exact parseAll_total raws s
  | err e => simp
  | panic s' => exact absurd hr (h s')

/-- … in particular every byte string, taken as a tapscript, is parsed without panic, and
every raw envelope (any pushes whatsoever) converts without panic. -/
theorem c27_total_tapscript (input : Nat) (script : Bytes) (hi : input < 2 ^ 32)
    (hs : script.length ≤ 2 ^ 32) : ∀ s, fromTapscript input script ≠ .panic s :=
  fromTapscript_total input script hi hs

theorem c27_total_parse (e : Raw) : ∀ s, parse e ≠ .panic s := parse_total e

/-- `InscriptionId::from_value` never panics (its `Txid::from_slice(..).unwrap()` is
unreachable). -/
theorem c27_total_from_value (v : Bytes) : ∀ s, InscriptionId.fromValue v ≠ .panic s :=
  fromValue_total v

/-! ## 3. Compact encodings -/

/-- `pointer()` of `pointer_value(p)` is `p`, for every `u64`. -/
theorem c27_pointer_roundtrip (p : Nat) (hp : p < 2 ^ 64) :
    pointerOf (some (pointerValue p)) = some p := pointer_roundtrip p hp

/-- `from_value(value(id)) = Some(id)` for every id (32-byte txid, `u32` index). -/
theorem c27_id_roundtrip (id : InscriptionId) (ht : id.txid.length = 32) (hi : id.index < 2 ^ 32) :
    InscriptionId.fromValue id.value = .ok (some id) := fromValue_value id ht hi

/-- Pointer, delegate and parents survive the whole trip: an inscription built from a pointer
`p`, a delegate id and parent ids (as `Inscription::new` does) is written, parsed back
(`expectedPayload`, by `c27_roundtrip`), and the accessors `pointer()`, `delegate()`,
`parents()` return the original values. -/
theorem c27_compact_survive (i : Inscription) (p : Nat) (d : InscriptionId) (ps : List InscriptionId)
    (hp : p < 2 ^ 64) (hd : d.txid.length = 32 ∧ d.index < 2 ^ 32)
    (hps : ∀ id ∈ ps, id.txid.length = 32 ∧ id.index < 2 ^ 32)
    (h1 : i.pointer = some (pointerValue p)) (h2 : i.delegate = some d.value)
    (h3 : i.parents = ps.map InscriptionId.value) :
    pointerOf (expectedPayload i).pointer = some p ∧
    delegateOf (expectedPayload i) = .ok (some d) ∧
    parentsOf (expectedPayload i).parents = .ok ps := by
  refine ⟨?_, ?_, ?_⟩
  · show pointerOf i.pointer = some p
    rw [h1]; exact pointer_roundtrip p hp
  · show delegateOf (expectedPayload i) = .ok (some d)
    simp only [delegateOf, expectedPayload, h2]
    exact fromValue_value d hd.1 hd.2
  · show parentsOf i.parents = .ok ps
    rw [h3]; exact parentsOf_values ps hps

/-! ## Non-vacuity -/

/-- a concrete inscription meeting the hypotheses of `c27_roundtrip` -/
def sample : Inscription :=
  { contentType := some [0x74, 0x65, 0x78, 0x74], body := some [0x68, 0x69],
    metadata := some [0xa0], parents := [[1, 2], [3]], pointer := some [0x10] }

example : buildable sample = true := by decide
example : dupRule sample = true := by decide
example : ∀ ins ∈ [Instr.push (List.replicate 32 7), Instr.op 0xac],
    ins.encodable = true ∧ ins ≠ .push [] := by decide
example : tapscriptOf [[0x01], []] = some [0x01] := by decide
example : tapscriptOf [[0x01], [0x50]] = none := by decide
example : (expectedPayload { metadata := some [] }).metadata = none := by decide
example : pointerValue 256 = [0x00, 0x01] := by decide
example : pointerOf (some [0, 0, 0, 0, 0, 0, 0, 0, 1]) = none := by decide
example : (InscriptionId.mk (List.replicate 32 0xab) 256).value.length = 34 := by decide
example : fromWitnesses [[[0x00, 0x63, 0x03, 0x6f, 0x72, 0x64, 0x68], []]] =
    .ok [{ input := 0, offset := 0, payload := {}, pushnum := false, stutter := false }] := by decide
example : fromWitnesses [[[0x00, 0x63, 0x03, 0x6f, 0x72, 0x64, 0x4c], []]] = .ok [] := by decide

-- the parse specification on non-ord payloads: a repeated pointer tag leaves an even key behind,
-- an unknown odd tag does not, a lone trailing tag is an incomplete field
def rawOf (payload : List Bytes) : Raw :=
  { input := 0, offset := 0, payload := payload, pushnum := false, stutter := false }

example : (match parse (rawOf [[2], [1], [2], [3]]) with
     | .ok p => p.payload.unrecognizedEvenField && p.payload.duplicateField &&
         p.payload.pointer == some [1]
     | _ => false) = true := by decide
example : (match parse (rawOf [[21], [1], [7]]) with
     | .ok p => !p.payload.unrecognizedEvenField && p.payload.incompleteField
     | _ => false) = true := by decide

end Ord.Envelope
