import OrdModel.Codec.Envelope
/-!
# C27 — Inscription envelopes round-trip and envelope parsing is total

Property theorems only; helper lemmas are in `OrdModel/Proofs/Envelope*.lean` and
`OrdModel/Proofs/ScriptW5.lean`, the model in `OrdModel/Codec/{ScriptW5,Envelope}.lean`.
-/
namespace Ord.Envelope
open Ord Ord.ScriptW5

/-- The tapscript ord looks at: for a script-path witness `[…, script, control_block]` whose
control block does not start with the annex byte 0x50 it is `script`; with an annex
`[…, script, control_block, annex]` likewise. -/
theorem c27_tapscript_selection (stack : List Bytes) (script cb annex : Bytes)
    (hcb : cb.head? ≠ some 0x50) (hannex : annex.head? = some 0x50) :
    tapscriptOf (stack ++ [script, cb]) = some script ∧
    tapscriptOf (stack ++ [script, cb, annex]) = some script := by
  constructor
  · simp [tapscriptOf, hcb]
  · simp [tapscriptOf, hannex]

end Ord.Envelope
