/-!
# M-Wallet / Batch — model of the offset bookkeeping of batch inscribing

* `File::inscriptions` (`src/wallet/batch/file.rs`): the pointer written into inscription `i`
  and the `postages` vector;
* `Plan::create_batch_transactions` (`src/wallet/batch/plan.rs`): the reveal transaction's
  input order (parents, then — in `satpoints` mode — the named outputs, then the commit output)
  and output order (one return output per parent with the parent output's value, then the
  per-mode destination outputs, then the premine output, then the runestone);
* `Plan::output`: the location reported for inscription `i`, the rune's reported output.

Values are `Nat` (sats).  `entries` is the per-entry postage as `File::inscriptions` resolves
it: in `satpoints` mode the value of the entry's output, otherwise
`postage.unwrap_or(TARGET_POSTAGE)` repeated.  Scripts, fees, keys and the commit transaction
(`TransactionBuilder`, C20) are not part of this model.
-/
namespace Ord.Batch

inductive Mode where
  | sameSat | satPoints | separateOutputs | sharedOutput
  deriving DecidableEq, Repr

def targetPostage : Nat := 10000

structure Spec where
  mode : Mode
  /-- per-entry postage, in entry order (length = number of inscriptions) -/
  entries : List Nat
  /-- per parent: value of the output holding it, offset of the parent inside that output -/
  parents : List (Nat × Nat)
  /-- `some premine` when the batch carries an etching -/
  premine : Option Nat
  deriving Repr

def Spec.parentValues (s : Spec) : List Nat := s.parents.map (·.1)

/-- the loop of `File::inscriptions`: `Some(pointer)` is written, then
`if mode != SameSat { pointer += postage }` -/
def pointersFrom (sameSat : Bool) : List Nat → Nat → List Nat
  | [], _ => []
  | p :: ps, ptr => ptr :: pointersFrom sameSat ps (if sameSat then ptr else ptr + p)

/-- `let mut pointer = parent_values.iter().sum()` -/
def Spec.pointers (s : Spec) : List Nat :=
  pointersFrom (s.mode == .sameSat) s.entries s.parentValues.sum

/-- `if mode == SameSat && i > 0 { continue } else { postages.push(postage) }` -/
def Spec.postages (s : Spec) : List Nat :=
  if s.mode == .sameSat then s.entries.take 1 else s.entries

/-- values of the per-mode destination outputs -/
def Spec.destOutputs (s : Spec) : List Nat :=
  match s.mode with
  | .separateOutputs | .satPoints => s.postages
  | .sharedOutput | .sameSat => [s.postages.sum]

/-- premine output (`TARGET_POSTAGE`, only when `premine > 0`) and the runestone (value 0) -/
def Spec.etchingOutputs (s : Spec) : List Nat :=
  match s.premine with
  | none => []
  | some p => (if p > 0 then [targetPostage] else []) ++ [0]

/-- values of the reveal transaction's outputs, in order -/
def Spec.revealOutputs (s : Spec) : List Nat :=
  s.parentValues ++ s.destOutputs ++ s.etchingOutputs

/-- number of reveal inputs before the commit input (`commit_input`) -/
def Spec.commitInput (s : Spec) : Nat :=
  s.parents.length + (if s.mode == .satPoints then s.entries.length else 0)

/-- `Plan::output`: reported `(vout, offset)` of inscription `i` -/
def Spec.reported (s : Spec) (i : Nat) : Nat × Nat :=
  match s.mode with
  | .sharedOutput => (s.parents.length, (s.postages.take i).sum)
  | .sameSat => (s.parents.length, 0)
  | .separateOutputs | .satPoints => (s.parents.length + i, 0)

/-- reported output of the rune's premine (`None` without premine) -/
def Spec.runeVout (s : Spec) : Option Nat :=
  match s.premine with
  | some p => if p > 0 then some (s.parents.length + s.destOutputs.length) else none
  | none => none

/-- input-concatenation offset at which parent `k` enters the reveal transaction -/
def Spec.parentOffset (s : Spec) (k : Nat) : Option Nat :=
  match s.parents[k]? with
  | some (_, o) => some ((s.parentValues.take k).sum + o)
  | none => none

/-- where the indexer's first-in-first-out walk over the outputs puts offset `k`
(`assignOutputs` of the index model restricted to one offset): output index and offset in it -/
def locate : List Nat → Nat → Option (Nat × Nat)
  | [], _ => none
  | v :: vs, k =>
    if k < v then some (0, k)
    else match locate vs (k - v) with
      | some (j, o) => some (j + 1, o)
      | none => none

/-- the indexer's rule for a new inscription's offset: the pointer if it is inside the outputs,
else the start of the revealing input (`commit_input`'s input-concatenation offset) -/
def revealOffset (pointer inputStart totalOut : Nat) : Nat :=
  if pointer < totalOut then pointer else inputStart

/-- the location the indexer assigns to inscription `i` of the reveal, from the layout alone -/
def Spec.indexed (s : Spec) (inputStart : Nat) (i : Nat) : Option (Nat × Nat) :=
  match s.pointers[i]? with
  | none => none
  | some p => locate s.revealOutputs (revealOffset p inputStart s.revealOutputs.sum)

/-! ## identity of the reveal's inputs -/

/-- `reveal_inputs`: one per parent (`location.outpoint`), in `satpoints` mode one per named
satpoint, then the commit output (a fresh outpoint, written `"commit"`).  Outpoints are opaque
strings. -/
def revealInputs (parentOutpoints satpointOutpoints : List String) : List String :=
  parentOutpoints ++ satpointOutpoints ++ ["commit"]

def hasDup : List String → Bool
  | [] => false
  | a :: rest => rest.contains a || hasDup rest

/-- a transaction can only be mined if it spends no output twice -/
def minable (parentOutpoints satpointOutpoints : List String) : Bool :=
  !hasDup (revealInputs parentOutpoints satpointOutpoints)

/-- The planner's acceptance as far as input identity goes.  The code under test performs no
check (`fixed = false`: everything is accepted); with the proposed repair
(notes/fix-C21-duplicate-reveal-input.diff, detected by `tools/extractors/batch_fix.py`) a plan
whose parents / satpoints share an output is rejected. -/
def acceptsInputs (fixed : Bool) (parentOutpoints satpointOutpoints : List String) : Bool :=
  !fixed || !hasDup (parentOutpoints ++ satpointOutpoints)

end Ord.Batch
