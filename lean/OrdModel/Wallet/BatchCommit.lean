/-!
# M-Wallet / BatchCommit — which sat a batch commits, and the guard in front of the commit

Model of the part of `Plan::create_batch_transactions` (`src/wallet/batch/plan.rs`) between
`let satpoint = if let Some(satpoint) = self.satpoint` and
`if self.reinscribe && !reinscription { bail!(..) }`:

* `selectSatpoint` — the explicit `satpoint` of the batch file, or the first wallet utxo (in
  `BTreeMap<OutPoint, TxOut>` order) with `value > 0` that is not inscribed
  (`wallet_inscriptions.keys().map(|sp| sp.outpoint)`), not in `locked_utxos`, not in
  `runic_utxos`, at offset 0; else `"wallet contains no cardinal utxos"`;
* `guardLoop` — `for (inscribed_satpoint, _) in &wallet_inscriptions` (in `BTreeMap<SatPoint, _>`
  order).  The loop returns at its first hit, so the ORDER of the list decides which of the two
  `bail!`s fires and at which inscribed satpoint; the error carries that satpoint (`hit`);
* `commitGuard` — both, then `"reinscribe flag set but this would not be a reinscription"`.

An outpoint is an opaque value of a type with decidable equality (the driver uses the text
`txid:vout`, the theorems that compose with the builder model use its `Nat` ranks); the two
lists are supplied in the iteration order of the Rust maps, so the model never compares
outpoints for order.  `Utxo.locked` / `Utxo.runic`: membership of the utxo's outpoint in the
`locked_utxos` / `runic_utxos` sets passed to the planner (`locked_utxos` = the node's locked
outputs ∪ the outputs named by a `satpoints` batch, see `batch_command.rs`); the code only ever
asks these sets about outpoints of `utxos`, so the per-utxo flags lose nothing.

Core Lean only (linked into `drv_batch`).
-/
namespace Ord.BatchCommit

structure Utxo (α : Type) where
  op : α
  value : Nat
  locked : Bool
  runic : Bool
  deriving Repr, DecidableEq

/-- the planner's view of the wallet -/
structure View (α : Type) where
  /-- `utxos: BTreeMap<OutPoint, TxOut>` in key order -/
  utxos : List (Utxo α)
  /-- keys of `wallet_inscriptions: BTreeMap<SatPoint, Vec<InscriptionId>>` in key order:
  `(outpoint, offset)` of every sat of the wallet that carries at least one inscription -/
  inscriptions : List (α × Nat)
  deriving Repr

inductive GuardError (α : Type) where
  /-- `wallet contains no cardinal utxos` -/
  | noCardinals
  /-- `sat at {satpoint} already inscribed` (`hit` = the satpoint itself) or
  `utxo {outpoint} with sat {hit} already inscribed with the following inscriptions` -/
  | alreadyInscribed (hit : α × Nat)
  /-- `reinscribe flag set but this would not be a reinscription` -/
  | notAReinscription
  deriving Repr, DecidableEq

-- results are compared by `decide` in the examples
deriving instance DecidableEq for Except

variable {α : Type} [DecidableEq α]

/-- `inscribed_utxos.contains(outpoint)` -/
def inscribedOutput (ins : List (α × Nat)) (op : α) : Bool := ins.any (fun sp => sp.1 == op)

/-- the predicate of `utxos.iter().find(..)` -/
def isCandidate (v : View α) (u : Utxo α) : Bool :=
  decide (0 < u.value) && !inscribedOutput v.inscriptions u.op && !u.locked && !u.runic

def selectSatpoint (v : View α) (explicit : Option (α × Nat)) : Except (GuardError α) (α × Nat) :=
  match explicit with
  | some sp => .ok sp
  | none =>
    match v.utxos.find? (isCandidate v) with
    | some u => .ok (u.op, 0)
    | none => .error .noCardinals

/-- the `for` loop; the accumulator is `reinscription` -/
def guardLoop (reinscribe : Bool) (s : α × Nat) : List (α × Nat) → Bool → Except (GuardError α) Bool
  | [], r => .ok r
  | sp :: rest, r =>
    if sp = s then
      -- `reinscription = true; if self.reinscribe { continue } bail!("sat at {} already inscribed")`
      if reinscribe then guardLoop reinscribe s rest true else .error (.alreadyInscribed sp)
    else if sp.1 = s.1 then .error (.alreadyInscribed sp)
    else guardLoop reinscribe s rest r

/-- `ok (satpoint, reinscription)` or the error the planner returns at this stage -/
def commitGuard (v : View α) (reinscribe : Bool) (explicit : Option (α × Nat)) :
    Except (GuardError α) ((α × Nat) × Bool) :=
  match selectSatpoint v explicit with
  | .error e => .error e
  | .ok s =>
    match guardLoop reinscribe s v.inscriptions false with
    | .error e => .error e
    | .ok r => if reinscribe && !r then .error .notAReinscription else .ok (s, r)

/-! ## the seeded variant (documentation only: `c21_guard_needed`) -/

/-- the loop with `if !self.reinscribe && inscribed_satpoint.outpoint == satpoint.outpoint` -/
def guardLoopSkipping (reinscribe : Bool) (s : α × Nat) : List (α × Nat) → Bool → Except (GuardError α) Bool
  | [], r => .ok r
  | sp :: rest, r =>
    if sp = s then
      if reinscribe then guardLoopSkipping reinscribe s rest true else .error (.alreadyInscribed sp)
    else if !reinscribe ∧ sp.1 = s.1 then .error (.alreadyInscribed sp)
    else guardLoopSkipping reinscribe s rest r

def commitGuardSkipping (v : View α) (reinscribe : Bool) (explicit : Option (α × Nat)) :
    Except (GuardError α) ((α × Nat) × Bool) :=
  match selectSatpoint v explicit with
  | .error e => .error e
  | .ok s =>
    match guardLoopSkipping reinscribe s v.inscriptions false with
    | .error e => .error e
    | .ok r => if reinscribe && !r then .error .notAReinscription else .ok (s, r)

end Ord.BatchCommit
