import OrdModel.Basic.Outcome
/-!
# M-Wallet / Builder — model of `src/wallet/transaction_builder.rs`

`TransactionBuilder::build_transaction` and its seven stages, line by line, as pure functions
over a state record.  Every `unwrap`/`expect`/`assert!`/`assert_eq!`/index/unchecked
arithmetic site is an explicit `panic "<site>"` branch (dev profile: `u64 + - ` and
`Amount + -` panic on overflow), every returned `Error::X` is `err "X"`.

Abstractions (all explicit parameters, supplied per case by the harness):

* an outpoint is a `Nat` = its rank in `BTreeMap<OutPoint, _>` order among all outpoints the
  wallet state mentions, so list order = BTree iteration order;
* a script is `(id, len, opReturn, addr)`: identity, byte length, `Script::is_op_return`,
  and whether `Address::from_script(script, network)` succeeds;
* `Env.fee n` = `FeeRate::fee(n)` (f64 arithmetic, not modelled: any function),
  `Env.dust s` = `Script::minimal_non_dust()`.

Panic site names: text before `@` is the message class the harness canonicalises the real
panic message to; the `@stage` suffix only distinguishes sites for the theorems.
-/
namespace Ord.Builder
open Ord Ord.Outcome

abbrev U64 : Nat := 2 ^ 64

structure Script where
  id : Nat
  len : Nat
  opReturn : Bool
  addr : Bool
  deriving DecidableEq, Repr, Inhabited

inductive Target where
  | value (v : Nat)
  | postage
  | exact (v : Nat)
  deriving DecidableEq, Repr, Inhabited

/-- which of the proposed repairs are present in the source (`notes/fix-C20-*.diff`); read from
the source text on every run by `tools/extractors/builder_fixes.py`.  Default = unchanged code. -/
structure Fixes where
  /-- `OutOfRange(self.outgoing, amount.saturating_sub(1))` instead of `amount - 1` -/
  subOverflow : Bool := false
  /-- a zero `Value`/`ExactPostage` target is rejected (`Error::Dust`) for OP_RETURN recipients -/
  zeroBurn : Bool := false
  deriving Repr, DecidableEq

structure Env where
  fee : Nat → Nat
  dust : Script → Nat
  fixes : Fixes := {}

/-- wallet state; `amounts` / `inscriptions` in `BTreeMap` key order -/
structure Wallet where
  amounts : List (Nat × Nat)        -- (outpoint, value)
  inscriptions : List (Nat × Nat)   -- satpoints (outpoint, offset) carrying ≥ 1 inscription
  locked : List Nat
  runic : List Nat
  deriving Repr, Inhabited

structure Request where
  outgoing : Nat × Nat              -- satpoint (outpoint, offset)
  recipient : Script
  change0 : Script
  change1 : Script
  target : Target
  deriving Repr, Inhabited

abbrev TxOut := Script × Nat

/-- mutable part of `TransactionBuilder`.  `unused` is `unused_change_addresses` as a stack:
head = the `Vec`'s last element (`.last()` = `head?`, `.pop()` = `tail`). -/
structure St where
  utxos : List Nat
  inputs : List Nat
  outputs : List TxOut
  unused : List Script
  deriving Repr, Inhabited, DecidableEq

structure Tx where
  inputs : List Nat
  outputs : List TxOut
  deriving Repr, Inhabited, DecidableEq

def TARGET_POSTAGE : Nat := 10000
def MAX_POSTAGE : Nat := 20000
def ADDITIONAL_INPUT_VBYTES : Nat := 57
def ADDITIONAL_OUTPUT_VBYTES : Nat := 43

/-! ## vsize (BIP-141) of the dummy transaction of `estimate_vbytes_with` -/

def varintSize (n : Nat) : Nat :=
  if n < 0xFD then 1 else if n ≤ 0xFFFF then 3 else if n ≤ 0xFFFFFFFF then 5 else 9

/-- `TxOut::size`: 8-byte amount + compact size of the script length + script -/
def outSize (s : Script) : Nat := 8 + varintSize s.len + s.len

def outsSize : List TxOut → Nat
  | [] => 0
  | o :: rest => outSize o.1 + outsSize rest

/-- version + inputs (36 outpoint + 1 empty script_sig + 4 sequence) + outputs + lock time -/
def baseSize (nin : Nat) (outs : List TxOut) : Nat :=
  4 + varintSize nin + 41 * nin + varintSize outs.length + outsSize outs + 4

/-- every input carries the witness `[<64 bytes>]` (1 + 1 + 64 = 66 bytes); marker+flag 2 bytes;
weight = 3·base + total; vsize = ⌈weight / 4⌉.  With no inputs nothing is segwit-serialised. -/
def vsize (nin : Nat) (outs : List TxOut) : Nat :=
  if nin = 0 then baseSize nin outs
  else (4 * baseSize nin outs + 2 + 66 * nin + 3) / 4

/-! ## small helpers -/

def assert (c : Bool) (site : String) : Outcome Unit :=
  if c then .ok () else .panic site

/-- `Amount + Amount` (`expect("Amount addition error")`) -/
def amountAdd (site : String) (a b : Nat) : Outcome Nat :=
  if a + b < U64 then .ok (a + b) else .panic site

/-- `u64 + u64` in the dev profile -/
def u64Add (site : String) (a b : Nat) : Outcome Nat :=
  if a + b < U64 then .ok (a + b) else .panic site

def outSum : List TxOut → Nat
  | [] => 0
  | o :: rest => o.2 + outSum rest

/-- `outputs.iter().map(|o| o.value).sum::<Amount>()` — a `u64` sum -/
def sumOutputs (site : String) (outs : List TxOut) : Outcome Nat :=
  if outSum outs < U64 then .ok (outSum outs) else .panic site

/-- apply `f` to the value of the last output (`outputs.last_mut()…`) -/
def updLast (site : String) (f : Nat → Outcome Nat) : List TxOut → Outcome (List TxOut)
  | [] => .panic site
  | [o] => match f o.2 with
    | .ok v => .ok [(o.1, v)]
    | .err e => .err e
    | .panic s => .panic s
  | o :: o' :: rest => match updLast site f (o' :: rest) with
    | .ok l => .ok (o :: l)
    | .err e => .err e
    | .panic s => .panic s

def lastOut (site : String) : List TxOut → Outcome TxOut
  | [] => .panic site
  | [o] => .ok o
  | _ :: o' :: rest => lastOut site (o' :: rest)

/-! ## `calculate_sat_offset` -/

def calcSatOffset (w : Wallet) (out : Nat × Nat) : List Nat → Nat → Outcome Nat
  | [], _ => .panic "Could_not_find_outgoing_sat_in_inputs"
  | op :: rest, acc =>
    if op = out.1 then u64Add "add-overflow@calculate_sat_offset" acc out.2
    else match w.amounts.lookup op with
      | none => .panic "index@calculate_sat_offset"
      | some v =>
        if acc + v < U64 then calcSatOffset w out rest (acc + v)
        else .panic "add-overflow@calculate_sat_offset"

/-! ## `select_cardinal_utxo` -/

def isCardinal (w : Wallet) (op : Nat) : Bool :=
  !(w.runic.contains op || w.inscriptions.any (fun sp => sp.1 == op) || w.locked.contains op)

def absDiff (a b : Nat) : Nat := max a b - min a b

/-- `is_preference_and_closer || not_preference_but_closer || newly_meets_preference` -/
def better (preferUnder : Bool) (target best cur : Nat) : Bool :=
  let closer := decide (absDiff cur target < absDiff best target)
  if preferUnder then
    (decide (cur ≤ target) && closer) || (decide (best > target) && closer)
      || (decide (best > target) && decide (cur ≤ target))
  else
    (decide (cur ≥ target) && closer) || (decide (best < target) && closer)
      || (decide (best < target) && decide (cur ≥ target))

def scanCardinal (w : Wallet) (target : Nat) (pu : Bool) :
    List Nat → Option (Nat × Nat) → Outcome (Option (Nat × Nat))
  | [], best => .ok best
  | u :: rest, best =>
    if isCardinal w u then
      match w.amounts.lookup u with
      | none => .panic "index@select_cardinal_utxo"
      | some cur =>
        match best with
        | none => scanCardinal w target pu rest (some (u, cur))   -- compares `cur` with itself: no change
        | some (bu, bv) =>
          if better pu target bv cur then scanCardinal w target pu rest (some (u, cur))
          else scanCardinal w target pu rest (some (bu, bv))
    else scanCardinal w target pu rest best

/-- returns `(utxo, value, remaining utxos)` -/
def selectCardinal (w : Wallet) (utxos : List Nat) (target : Nat) (pu : Bool) :
    Outcome (Nat × Nat × List Nat) :=
  match scanCardinal w target pu utxos none with
  | .ok none => .err "NotEnoughCardinalUtxos"
  | .ok (some (u, v)) => .ok (u, v, utxos.erase u)
  | .err e => .err e
  | .panic s => .panic s

/-! ## stage 1: `select_outgoing` -/

/-- the loop over `self.inscriptions.iter().rev()` (call with the reversed list) -/
def inscriptionCheck (dustLimit : Nat) (out : Nat × Nat) : List (Nat × Nat) → Outcome Unit
  | [] => .ok ()
  | sp :: rest =>
    if out.1 = sp.1 ∧ out.2 ≠ sp.2 then
      if sp.2 + dustLimit < U64 then
        if out.2 < sp.2 + dustLimit then .err "UtxoContainsAdditionalInscriptions"
        else inscriptionCheck dustLimit out rest
      else .panic "add-overflow@select_outgoing"
    else inscriptionCheck dustLimit out rest

def selectOutgoing (env : Env) (w : Wallet) (r : Request) (st : St) : Outcome St :=
  match st.unused.head? with
  | none => .panic "unwrap-none@select_outgoing"
  | some c =>
    match inscriptionCheck (env.dust c) r.outgoing w.inscriptions.reverse with
    | .err e => .err e
    | .panic s => .panic s
    | .ok () =>
      match w.amounts.lookup r.outgoing.1 with
      | none => .err "NotInWallet"
      | some amount =>
        if r.outgoing.2 ≥ amount then
          -- `Err(Error::OutOfRange(self.outgoing, amount - 1))`
          if amount = 0 ∧ env.fixes.subOverflow = false then .panic "sub-overflow@select_outgoing"
          else .err "OutOfRange"
        else
          .ok { st with
            utxos := st.utxos.erase r.outgoing.1
            inputs := st.inputs ++ [r.outgoing.1]
            outputs := st.outputs ++ [(r.recipient, amount)] }

/-! ## stage 2: `align_outgoing` -/

def alignOutgoing (w : Wallet) (r : Request) (st : St) : Outcome St := do
  assert (st.outputs.length == 1) "inv:only_one_output"
  match st.outputs with
  | [] => .panic "index@align_outgoing"
  | o :: _ =>
    assert (decide (o.1 = r.recipient)) "inv:first_output_is_recipient"
    let satOffset ← calcSatOffset w r.outgoing st.inputs 0
    if satOffset = 0 then .ok st
    else
      match st.unused with
      | [] => .panic "not_enough_change_addresses@align_outgoing"
      | c :: unused' =>
        let outs ← updLast "no_output" (fun v => subW "amount-sub@align_outgoing" v satOffset)
          ((c, satOffset) :: st.outputs)
        .ok { st with outputs := outs, unused := unused' }

/-! ## stage 3: `pad_alignment_output` -/

def padLoop (w : Wallet) (dustLimit : Nat) : Nat → St → Outcome St
  | 0, _ => .panic "model-fuel@pad_alignment_output"
  | fuel + 1, st =>
    match st.outputs with
    | [] => .panic "index@pad_alignment_output"
    | o :: outs =>
      if o.2 < dustLimit then
        match selectCardinal w st.utxos (dustLimit - o.2) true with
        | .err e => .err e
        | .panic s => .panic s
        | .ok (utxo, size, utxos') =>
          match amountAdd "amount-add@pad_alignment_output" o.2 size with
          | .err e => .err e
          | .panic s => .panic s
          | .ok v =>
            padLoop w dustLimit fuel
              { st with utxos := utxos', inputs := utxo :: st.inputs, outputs := (o.1, v) :: outs }
      else .ok st

def padAlignmentOutput (env : Env) (w : Wallet) (r : Request) (st : St) : Outcome St :=
  match st.outputs with
  | [] => .panic "index@pad_alignment_output"
  | o :: _ =>
    if o.1 = r.recipient then .ok st
    else
      match st.unused.head? with
      | none => .panic "unwrap-none@pad_alignment_output"
      | some c => padLoop w (env.dust c) (st.utxos.length + 1) st

/-! ## stage 4: `add_value` -/

def addLoop (env : Env) (w : Wallet) : Nat → Nat → St → Outcome St
  | 0, _, _ => .panic "model-fuel@add_value"
  | fuel + 1, deficit, st =>
    if deficit > 0 then
      let additionalFee := env.fee ADDITIONAL_INPUT_VBYTES
      if deficit + additionalFee < U64 then
        match selectCardinal w st.utxos (deficit + additionalFee) false with
        | .err e => .err e
        | .panic s => .panic s
        | .ok (utxo, value, utxos') =>
          if value < additionalFee then .err "NotEnoughCardinalUtxos"
          else
            let benefit := value - additionalFee
            match updLast "unwrap-none@add_value" (fun v => amountAdd "amount-add@add_value" v value) st.outputs with
            | .err e => .err e
            | .panic s => .panic s
            | .ok outs =>
              addLoop env w fuel (if benefit > deficit then 0 else deficit - benefit)
                { st with utxos := utxos', inputs := st.inputs ++ [utxo], outputs := outs }
      else .err "ValueOverflow"
    else .ok st

/-- `min_value`: the recipient script's dust value for `Postage`, else the requested value -/
def minValue (env : Env) (r : Request) (last : TxOut) : Nat :=
  match r.target with
  | .postage => env.dust last.1
  | .value v => v
  | .exact v => v

def addValue (env : Env) (w : Wallet) (r : Request) (st : St) : Outcome St := do
  let estimatedFee := env.fee (vsize st.inputs.length st.outputs)
  let last ← lastOut "unwrap-none@add_value" st.outputs
  if minValue env r last + estimatedFee < U64 then
    let total := minValue env r last + estimatedFee
    if last.2 ≤ total then addLoop env w (st.utxos.length + 1) (total - last.2) st
    else .ok st
  else .err "ValueOverflow"

/-! ## stage 5: `strip_value` -/

def maxTarget : Target → Nat × Nat
  | .exact p => (p, p)
  | .postage => (MAX_POSTAGE, TARGET_POSTAGE)
  | .value v => (v, v)

def stripValue (env : Env) (w : Wallet) (r : Request) (st : St) : Outcome St := do
  let satOffset ← calcSatOffset w r.outgoing st.inputs 0
  let total ← sumOutputs "add-overflow@strip_value" st.outputs
  assert (st.outputs.any (fun o => decide (o.1 = r.recipient))) "couldn't_find_output_that_contains_the_index"
  let value ← subW "amount-sub@strip_value" total satOffset
  let vb := vsize st.inputs.length st.outputs
  if env.fee vb ≤ value then
    let excess := value - env.fee vb
    let mx := (maxTarget r.target).1
    let target := (maxTarget r.target).2
    if excess > mx then
      let diff ← subW "unwrap-none@strip_value" value target
      match st.unused with
      | [] => .panic "unwrap-none@strip_value"
      | c :: unused' =>
        let rhs ← amountAdd "amount-add@strip_value" (env.dust c) (env.fee (vb + ADDITIONAL_OUTPUT_VBYTES))
        if diff > rhs then
          let outs ← updLast "no_outputs_found" (fun _ => .ok target) st.outputs
          .ok { st with outputs := outs ++ [(c, value - target)], unused := unused' }
        else .ok st
    else .ok st
  else .ok st

/-! ## stage 6: `deduct_fee` -/

def deductFee (env : Env) (w : Wallet) (r : Request) (st : St) : Outcome St := do
  let satOffset ← calcSatOffset w r.outgoing st.inputs 0
  let fee := env.fee (vsize st.inputs.length st.outputs)
  let total ← sumOutputs "add-overflow@deduct_fee" st.outputs
  let last ← lastOut "No_output_to_deduct_fee_from" st.outputs
  let rest ← subW "unwrap-none@deduct_fee" total fee
  assert (decide (rest > satOffset)) "inv:deducting_fee_does_not_consume_sat"
  assert (decide (last.2 ≥ fee)) "inv:last_output_can_pay_fee"
  let outs ← updLast "No_output_to_deduct_fee_from" (fun v => subW "amount-sub@deduct_fee" v fee) st.outputs
  .ok { st with outputs := outs }

/-! ## stage 7: `build` -/

/-- first loop of `build`: offset of the outgoing sat in the input concatenation, or
`none` when the outgoing outpoint is not among the inputs (`found = false`) -/
def buildSatOffset (w : Wallet) (out : Nat × Nat) : List Nat → Nat → Outcome (Option Nat)
  | [], _ => .ok none
  | op :: rest, acc =>
    if op = out.1 then
      match u64Add "add-overflow@build.sat_offset" acc out.2 with
      | .ok v => .ok (some v)
      | .err e => .err e
      | .panic s => .panic s
    else match w.amounts.lookup op with
      | none => .panic "index@build.sat_offset"
      | some v =>
        if acc + v < U64 then buildSatOffset w out rest (acc + v)
        else .panic "add-overflow@build.sat_offset"

/-- second loop: the first output whose end exceeds `satOffset` must be the recipient -/
def buildFindOutput (rcp : Script) (satOffset : Nat) : List TxOut → Nat → Outcome Bool
  | [], _ => .ok false
  | o :: rest, outputEnd =>
    if outputEnd + o.2 < U64 then
      if outputEnd + o.2 > satOffset then
        if o.1 = rcp then .ok true else .panic "inv:outgoing_sat_is_sent_to_recipient"
      else buildFindOutput rcp satOffset rest (outputEnd + o.2)
    else .panic "add-overflow@build.output_end"

def countScript (s : Script) (outs : List TxOut) : Nat :=
  (outs.filter (fun o => decide (o.1 = s))).length

/-- the target check on the recipient output's value -/
def checkRecipientValue (env : Env) (r : Request) (value : Nat) : Outcome Unit :=
  let slop := env.fee ADDITIONAL_OUTPUT_VBYTES
  match r.target with
  | .postage => do
    let cap ← amountAdd "amount-add@build.slop" MAX_POSTAGE slop
    assert (decide (value ≤ cap)) "inv:excess_postage_is_stripped"
  | .exact p => do
    let cap ← amountAdd "amount-add@build.slop" p slop
    assert (decide (value ≤ cap)) "inv:excess_postage_is_stripped"
  | .value v => do
    let over ← subW "unwrap-none@build.value" value v
    let cap ← amountAdd "amount-add@build.slop" (max (env.dust r.change0) (env.dust r.change1)) slop
    assert (decide (over ≤ cap)) "inv:output_equals_target_value"

/-- body of the per-output loop -/
def checkOutput (env : Env) (r : Request) (satOffset : Nat) (o : TxOut) (offset : Nat) : Outcome Unit :=
  if o.1 = r.recipient then do
    checkRecipientValue env r o.2
    assert (offset == satOffset) "inv:sat_is_at_first_position_in_recipient_output"
  else
    assert (decide (o.1 = r.change0 ∨ o.1 = r.change1)) "inv:all_outputs_are_either_change_or_recipient"

/-- the per-output loop with the target checks -/
def buildCheckOutputs (env : Env) (r : Request) (satOffset : Nat) : List TxOut → Nat → Outcome Unit
  | [], _ => .ok ()
  | o :: rest, offset => do
    checkOutput env r satOffset o offset
    let offset' ← u64Add "add-overflow@build.offset" offset o.2
    buildCheckOutputs env r satOffset rest offset'

def buildSumInputs (w : Wallet) : List Nat → Nat → Outcome Nat
  | [], acc => .ok acc
  | op :: rest, acc =>
    match w.amounts.lookup op with
    | none => .panic "index@build.actual_fee"
    | some v =>
      if acc + v < U64 then buildSumInputs w rest (acc + v) else .panic "amount-add@build.actual_fee"

def buildSubOutputs : List TxOut → Nat → Outcome Nat
  | [], acc => .ok acc
  | o :: rest, acc =>
    if o.2 ≤ acc then buildSubOutputs rest (acc - o.2) else .panic "amount-sub@build.actual_fee"

def buildDust (env : Env) : List TxOut → Outcome Unit
  | [] => .ok ()
  | o :: rest =>
    if env.dust o.1 ≤ o.2 then buildDust env rest else .panic "inv:all_outputs_are_above_dust_limit"

def buildFinal (env : Env) (w : Wallet) (r : Request) (st : St) : Outcome Tx := do
  assert ((w.amounts.filter (fun kv => kv.1 == r.outgoing.1 && decide (r.outgoing.2 < kv.2))).length == 1)
    "inv:outgoing_sat_is_contained_in_utxos"
  assert ((st.inputs.filter (fun i => i == r.outgoing.1)).length == 1) "inv:inputs_spend_outgoing_sat"
  let found ← buildSatOffset w r.outgoing st.inputs 0
  match found with
  | none => .panic "inv:outgoing_sat_is_found_in_inputs"
  | some satOffset =>
    let foundOut ← buildFindOutput r.recipient satOffset st.outputs 0
    assert foundOut "inv:outgoing_sat_is_found_in_outputs"
    assert (countScript r.recipient st.outputs == 1) "inv:recipient_address_appears_exactly_once_in_outputs"
    assert (decide (countScript r.change0 st.outputs ≤ 1 ∧ countScript r.change1 st.outputs ≤ 1))
      "inv:change_addresses_appear_at_most_once_in_outputs"
    buildCheckOutputs env r satOffset st.outputs 0
    let sumIn ← buildSumInputs w st.inputs 0
    let actualFee ← buildSubOutputs st.outputs sumIn
    assert (actualFee == env.fee (vsize st.inputs.length st.outputs)) "inv:fee_estimation_is_correct"
    buildDust env st.outputs
    .ok { inputs := st.inputs, outputs := st.outputs }

/-! ## `build_transaction` -/

def precheck (env : Env) (r : Request) : Outcome Unit :=
  -- `change_addresses : BTreeSet<Address>` has fewer than two elements
  if r.change0 = r.change1 then .err "DuplicateAddress"
  else if r.recipient.opReturn then
    if env.fixes.zeroBurn ∧ (r.target = .value 0 ∨ r.target = .exact 0) then .err "Dust" else .ok ()
  else if !r.recipient.addr then .err "InvalidAddress"
  else if r.recipient = r.change0 ∨ r.recipient = r.change1 then .err "DuplicateAddress"
  else match r.target with
    | .postage => .ok ()
    | .value v => if v < env.dust r.recipient then .err "Dust" else .ok ()
    | .exact v => if v < env.dust r.recipient then .err "Dust" else .ok ()

def initial (w : Wallet) (r : Request) : St :=
  { utxos := w.amounts.map (·.1), inputs := [], outputs := [], unused := [r.change1, r.change0] }

def build (env : Env) (w : Wallet) (r : Request) : Outcome Tx := do
  precheck env r
  let s1 ← selectOutgoing env w r (initial w r)
  let s2 ← alignOutgoing w r s1
  let s3 ← padAlignmentOutput env w r s2
  let s4 ← addValue env w r s3
  let s5 ← stripValue env w r s4
  let s6 ← deductFee env w r s5
  buildFinal env w r s6

/-! ## the property's predicate, as decidable statements about a returned transaction -/

def inVal (w : Wallet) (op : Nat) : Nat :=
  match w.amounts.lookup op with
  | some v => v
  | none => 0

/-- total value of the inputs strictly before the first occurrence of `op` -/
def prefixBefore (w : Wallet) (op : Nat) : List Nat → Nat
  | [] => 0
  | i :: rest => if i = op then 0 else inVal w i + prefixBefore w op rest

/-- total value of the outputs strictly before the first output paying `s` -/
def outStart (s : Script) : List TxOut → Nat
  | [] => 0
  | o :: rest => if o.1 = s then 0 else o.2 + outStart s rest

def inSum (w : Wallet) : List Nat → Nat
  | [] => 0
  | i :: rest => inVal w i + inSum w rest

/-- (a) the outgoing sat exists, its outpoint is spent exactly once, exactly one output pays the
recipient, and that output starts exactly at the outgoing sat's position in the input
concatenation (FIFO), i.e. the sat is the first sat of the recipient output -/
def PostA (w : Wallet) (r : Request) (tx : Tx) : Prop :=
  r.outgoing.2 < inVal w r.outgoing.1 ∧
  (tx.inputs.filter (fun i => i == r.outgoing.1)).length = 1 ∧
  countScript r.recipient tx.outputs = 1 ∧
  outStart r.recipient tx.outputs = prefixBefore w r.outgoing.1 tx.inputs + r.outgoing.2 ∧
  outStart r.recipient tx.outputs < outSum tx.outputs

/-- (b) every other inscribed satpoint on a spent outpoint lands strictly before the recipient
output (hence in an earlier — change — output; not in the recipient output, not in the fee) -/
def PostB (w : Wallet) (r : Request) (tx : Tx) : Prop :=
  ∀ sp ∈ w.inscriptions, sp.1 ∈ tx.inputs → sp ≠ r.outgoing →
    prefixBefore w sp.1 tx.inputs + sp.2 < outStart r.recipient tx.outputs

/-- (c) every input other than the outgoing outpoint is a wallet UTXO that is not inscribed,
not runic and not locked -/
def PostC (w : Wallet) (r : Request) (tx : Tx) : Prop :=
  ∀ op ∈ tx.inputs, op = r.outgoing.1 ∨
    ((w.amounts.lookup op).isSome ∧ isCardinal w op = true)

/-- (d) every output pays the recipient or one of the two change addresses -/
def PostD (r : Request) (tx : Tx) : Prop :=
  ∀ o ∈ tx.outputs, o.1 = r.recipient ∨ o.1 = r.change0 ∨ o.1 = r.change1

/-- (e) no output is below the dust value of its script -/
def PostE (env : Env) (tx : Tx) : Prop :=
  ∀ o ∈ tx.outputs, env.dust o.1 ≤ o.2

/-- (f) recipient value against the target -/
def PostF (env : Env) (r : Request) (tx : Tx) : Prop :=
  ∀ o ∈ tx.outputs, o.1 = r.recipient →
    match r.target with
    | .value v => v ≤ o.2 ∧
        o.2 ≤ v + max (env.dust r.change0) (env.dust r.change1) + env.fee ADDITIONAL_OUTPUT_VBYTES
    | .postage => o.2 ≤ MAX_POSTAGE + env.fee ADDITIONAL_OUTPUT_VBYTES
    | .exact p => o.2 ≤ p + env.fee ADDITIONAL_OUTPUT_VBYTES

/-- (g) the fee paid is exactly the fee rate applied to the estimated signed size -/
def PostG (env : Env) (w : Wallet) (tx : Tx) : Prop :=
  outSum tx.outputs + env.fee (vsize tx.inputs.length tx.outputs) = inSum w tx.inputs

instance (w r tx) : Decidable (PostA w r tx) := by unfold PostA; infer_instance
instance (w r tx) : Decidable (PostB w r tx) := by unfold PostB; infer_instance
instance (w r tx) : Decidable (PostC w r tx) := by unfold PostC; infer_instance
instance (r tx) : Decidable (PostD r tx) := by unfold PostD; infer_instance
instance (env tx) : Decidable (PostE env tx) := by unfold PostE; infer_instance
instance (env r tx) : Decidable (PostF env r tx) := by
  unfold PostF
  cases r.target <;> infer_instance
instance (env w tx) : Decidable (PostG env w tx) := by unfold PostG; infer_instance

end Ord.Builder
