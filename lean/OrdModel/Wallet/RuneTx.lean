import OrdModel.Index.RuneSpec
import OrdModel.Codec.Runestone
/-
The UNFUNDED transaction each wallet rune command builds, before `fund_raw_transaction`:

* `Wallet::create_unsigned_send_or_burn_runes_transaction` (src/wallet.rs) — `ord wallet send
  <addr> <dec>:<RUNE>` (destination = some) and `ord wallet burn <dec>:<RUNE>` (destination = none);
* `Split::build_transaction` (src/subcommand/wallet/split.rs) — `ord wallet split --splits F`.

Wallet outputs are identified by their rank in `BTreeMap<OutPoint, _>` order, runes by their
name (`Rune(u128)`, the key of every map in that code); `ids` is the server's name → id answer
(`Wallet::get_rune`).  `BTreeMap<Rune, u128>` values are association lists in key order; a
balance lookup sums the entries of a key (a map has at most one).  u128 sums of balances of one
rune cannot overflow (they are bounded by the rune's supply, C08): `Nat`.
The `checked_add(...).unwrap()` of the split file's per-rune total and the
`assert_eq!(Runestone::decipher(&tx), Some(Artifact::Runestone(runestone)))` are `panic` branches.
-/
namespace Ord.Wallet.RuneTx
open Ord Ord.Index

/-- one wallet output as the wallet knows it after syncing with the ord server -/
structure WOut where
  /-- `output_info[o].runes` as (rune name, amount) -/
  runes : List (Nat × Nat)
  /-- some inscription's satpoint is on this output -/
  inscribed : Bool
  deriving Repr, Inhabited

/-- `map.get(rune).unwrap_or_default()` -/
def bal (runes : List (Nat × Nat)) (r : Nat) : Nat :=
  ((runes.filter (fun p => p.1 == r)).map (·.2)).sum

/-- an input chosen by the wallet: outpoint rank and the balances the wallet knows for it -/
abbrev Input := Nat × List (Nat × Nat)

/-- `balances`: runic outputs that carry no inscription, in outpoint order -/
def runicFrom : Nat → List WOut → List Input
  | _, [] => []
  | i, o :: rest =>
    if !o.runes.isEmpty && !o.inscribed then (i, o.runes) :: runicFrom (i + 1) rest
    else runicFrom (i + 1) rest

def runicBalances (inv : List WOut) : List Input := runicFrom 0 inv

/-- `input_rune_balances[r]` after the inputs `sel` were accumulated -/
def total (sel : List Input) (r : Nat) : Nat := (sel.map (fun i => bal i.2 r)).sum

/-- distinct elements, first occurrences dropped -/
def dedup : List Nat → List Nat
  | [] => []
  | a :: l => if a ∈ dedup l then dedup l else a :: dedup l

/-- keys of `input_rune_balances` -/
def names (sel : List Input) : List Nat := dedup (sel.flatMap (fun i => i.2.map (·.1)))

inductive OutK where
  /-- the OP_RETURN carrying the runestone -/
  | stone
  /-- wallet change address (`get_change_address`) -/
  | change (value : Nat)
  /-- `k`-th recipient of the command -/
  | dest (k : Nat) (value : Nat)
  deriving Repr, DecidableEq, Inhabited

structure Tx where
  inputs : List Input
  outs : List OutK
  /-- edicts of the runestone in the order the wallet lists them (`encipher` sorts a copy) -/
  edicts : List Edict
  /-- the transaction has a runestone output -/
  stone : Bool
  deriving Repr, Inhabited

/-- OP_RETURN flags of the outputs, the shape `Spec.allocate` takes -/
def Tx.opret (t : Tx) : List Bool := t.outs.map (fun o => o == .stone)

/-- the protocol message of the transaction -/
def Tx.msg (t : Tx) : Spec.Message := if t.stone then .runestone t.edicts none else .none

/-! ## send / burn -/

/-- the `for (output, runes) in balances` loop with its `break` -/
def selectSend (r amount : Nat) : List Input → List Input → List Input
  | [], sel => sel
  | (i, runes) :: rest, sel =>
    if bal runes r > 0 then
      let sel' := sel ++ [(i, runes)]
      if total sel' r ≥ amount then sel' else selectSend r amount rest sel'
    else selectSend r amount rest sel

def TARGET_POSTAGE : Nat := 10000

/-- `create_unsigned_send_or_burn_runes_transaction` after `get_rune` and `to_integer` succeeded.
`zeroFixed` = the repair `ensure!(amount > 0, …)` of notes/fix-C22-zero-amount.diff is present
(taken from the source text by tools/extractors/fund_call_order.py). -/
def sendOrBurn (zeroFixed : Bool) (inv : List WOut) (ids : Nat → RuneId) (r amount : Nat)
    (dest : Bool) (postage : Nat) : Outcome Tx :=
  if zeroFixed && amount == 0 then .err "zero-amount" else
  let sel := selectSend r amount (runicBalances inv) []
  let have_ := total sel r
  let needsChange := have_ > amount || (names sel).length > 1
  if have_ < amount then .err "insufficient" else
  if dest then
    .ok { inputs := sel, edicts := [⟨ids r, amount, 2⟩], stone := needsChange,
          outs := if needsChange then [.stone, .change postage, .dest 0 postage] else [.dest 0 postage] }
  else
    .ok { inputs := sel, edicts := [⟨ids r, amount, 0⟩], stone := true,
          outs := if needsChange then [.stone, .change postage] else [.stone] }

/-! ## split -/

structure SplitOut where
  /-- `Output::runes : BTreeMap<Rune, u128>` in key order -/
  runes : List (Nat × Nat)
  /-- `value:` of the split file -/
  value : Option Nat
  /-- `address.script_pubkey().minimal_non_dust()` (parameter, supplied by the harness) -/
  dust : Nat
  deriving Repr, Inhabited

/-- `*map.entry(r).or_default() += a` on an association list -/
def addTo : List (Nat × Nat) → Nat → Nat → List (Nat × Nat)
  | [], r, a => [(r, a)]
  | (k, v) :: t, r, a => if k = r then (k, v + a) :: t else (k, v) :: addTo t r a

def lk : List (Nat × Nat) → Nat → Nat
  | [], _ => 0
  | (k, v) :: t, r => if k = r then v else lk t r

/-- inner loop of the `input_runes_required` computation for one split output -/
def scanRunes : List (Nat × Nat) → List (Nat × Nat) → Outcome (List (Nat × Nat))
  | [], acc => .ok acc
  | (r, a) :: rest, acc =>
    if a = 0 then .err "zero-value"
    else if lk acc r + a < 2 ^ 128 then scanRunes rest (addTo acc r a)
    else .panic "required.checked_add(amount).unwrap()"

def scanOutputs : List SplitOut → List (Nat × Nat) → Outcome (List (Nat × Nat))
  | [], acc => .ok acc
  | o :: rest, acc =>
    match scanRunes o.runes acc with
    | .ok acc' => scanOutputs rest acc'
    | .err e => .err e
    | .panic s => .panic s

/-- the `for (output, runes) in balances` loop: an output is taken iff some required rune is still
short and the output holds some of it -/
def selectSplit (req : List (Nat × Nat)) : List Input → List Input → List Input
  | [], sel => sel
  | (i, runes) :: rest, sel =>
    if req.any (fun p => total sel p.1 < p.2 && bal runes p.1 != 0) then
      selectSplit req rest (sel ++ [(i, runes)])
    else selectSplit req rest sel

def splitEdicts (ids : Nat → RuneId) (base : Nat) : Nat → List SplitOut → List Edict
  | _, [] => []
  | i, o :: rest => o.runes.map (fun p => ⟨ids p.1, p.2, i + base⟩) ++ splitEdicts ids base (i + 1) rest

def splitOuts : Nat → List SplitOut → Outcome (List OutK)
  | _, [] => .ok []
  | i, o :: rest =>
    let value := o.value.getD o.dust
    if value < o.dust then .err "dust-output"
    else match splitOuts (i + 1) rest with
      | .ok l => .ok (.dest i value :: l)
      | .err e => .err e
      | .panic s => .panic s

def toCodecEdict (e : Edict) : Ord.Runestone.Edict := ⟨⟨e.id.block, e.id.tx⟩, e.amount, e.output⟩

/-- `runestone.encipher().len()` (codec model of C25) -/
def stoneSize (edicts : List Edict) : Nat :=
  match Ord.Runestone.encipher ⟨edicts.map toCodecEdict, none, none, none⟩ with
  | .ok bs => bs.length
  | _ => 0

/-- `Runestone::decipher(&tx) == Some(Artifact::Runestone(runestone))` for a runestone that has
only edicts: `encipher` writes them stably sorted by id and `decipher` returns them in that order
(C25 round trip), so the assertion holds iff the wallet's list is already sorted. -/
def decipherAgrees (edicts : List Edict) : Bool :=
  Ord.Runestone.sortEdicts (edicts.map toCodecEdict) == edicts.map toCodecEdict

def MAX_STANDARD_OP_RETURN_SIZE : Nat := 83

/-- `Split::build_transaction` (`changeDust` = `change_script_pubkey.minimal_non_dust()`) -/
def split (inv : List WOut) (ids : Nat → RuneId) (noLimit : Bool) (postage : Option Nat)
    (changeDust : Nat) (outputs : List SplitOut) : Outcome Tx :=
  if outputs.isEmpty then .err "no-outputs" else
  let postage := postage.getD TARGET_POSTAGE
  if postage < changeDust then .err "dust-postage" else
  match scanOutputs outputs [] with
  | .err e => .err e
  | .panic s => .panic s
  | .ok req =>
    let sel := selectSplit req (runicBalances inv) []
    if req.any (fun p => total sel p.1 < p.2) then .err "shortfall" else
    let needChange := (names sel).any (fun n => total sel n > lk req n)
    let base := if needChange then 2 else 1
    let edicts := splitEdicts ids base 0 outputs
    if !noLimit && stoneSize edicts > MAX_STANDARD_OP_RETURN_SIZE then .err "runestone-size" else
    match splitOuts 0 outputs with
    | .err e => .err e
    | .panic s => .panic s
    | .ok dests =>
      if !decipherAgrees edicts then .panic "assert_eq!(Runestone::decipher(&tx), Some(Artifact::Runestone(runestone)))"
      else .ok { inputs := sel, edicts := edicts, stone := true,
                 outs := (if needChange then [.stone, .change postage] else [.stone]) ++ dests }

end Ord.Wallet.RuneTx
