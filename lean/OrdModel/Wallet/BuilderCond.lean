import OrdModel.Wallet.Builder
/-!
# Definitions used by the hypotheses of `c20_no_panic_partial`

Pipeline prefixes/suffix of `build` (`stages123`, `stages1234`, `tail567`), and the quantities the
funding conditions `Cond` (`Proofs/BuilderFull5.lean`) speak about: `strips` (the split condition
of `strip_value`), `feeFinal`, `finalOuts`, the per-target bounds, and `condBits` (the nine
fields decided).  Kept in a model file (core Lean only) because the driver evaluates them for
the oracle line `builder.oracle.partial`.
-/
namespace Ord.Builder
open Ord Ord.Outcome

/-- total value of the wallet as the builder sees it (`amounts[k]` for every key) -/
def walletTotal (w : Wallet) : Nat := inSum w (w.amounts.map (·.1))


/-- the pipeline of `build_transaction` up to and including `pad_alignment_output` -/
def stages123 (env : Env) (w : Wallet) (r : Request) : Outcome St := do
  precheck env r
  let s1 ← selectOutgoing env w r (initial w r)
  let s2 ← alignOutgoing w r s1
  padAlignmentOutput env w r s2


/-- the pipeline up to and including `add_value` (coin selection for value) -/
def stages1234 (env : Env) (w : Wallet) (r : Request) : Outcome St := do
  let s3 ← stages123 env w r
  addValue env w r s3


/-- the condition under which `strip_value` splits off a change output: `R` = recipient output
value after `add_value`, `n` inputs, `pre` = the optional alignment output, `c` = next unused
change script -/
def strips (env : Env) (r : Request) (n : Nat) (pre : List TxOut) (R : Nat) (c : Script) : Prop :=
  env.fee (vsize n (pre ++ [(r.recipient, R)])) ≤ R ∧
  R - env.fee (vsize n (pre ++ [(r.recipient, R)])) > (maxTarget r.target).1 ∧
  R - (maxTarget r.target).2 >
    env.dust c + env.fee (vsize n (pre ++ [(r.recipient, R)]) + ADDITIONAL_OUTPUT_VBYTES)

instance (env r n pre R c) : Decidable (strips env r n pre R c) := by unfold strips; infer_instance


/-- value of the fee deducted by `deduct_fee` -/
def feeFinal (env : Env) (r : Request) (n : Nat) (pre : List TxOut) (R : Nat) (c : Script) : Nat :=
  if strips env r n pre R c then
    env.fee (vsize n (pre ++ [(r.recipient, (maxTarget r.target).2), (c, R - (maxTarget r.target).2)]))
  else env.fee (vsize n (pre ++ [(r.recipient, R)]))

/-- the outputs of the transaction that `build` checks -/
def finalOuts (env : Env) (r : Request) (n : Nat) (pre : List TxOut) (R : Nat) (c : Script) : List TxOut :=
  if strips env r n pre R c then
    pre ++ [(r.recipient, (maxTarget r.target).2),
            (c, R - (maxTarget r.target).2 - feeFinal env r n pre R c)]
  else pre ++ [(r.recipient, R - feeFinal env r n pre R c)]


/-- postage targets: recipient value at most the cap plus the fee of one extra output -/
def CapOk (env : Env) (r : Request) (v : Nat) : Prop :=
  match r.target with
  | .postage => v ≤ MAX_POSTAGE + env.fee ADDITIONAL_OUTPUT_VBYTES
  | .exact p => v ≤ p + env.fee ADDITIONAL_OUTPUT_VBYTES
  | .value _ => True

/-- value target: recipient value at least the requested value -/
def ReachOk (r : Request) (v : Nat) : Prop :=
  match r.target with
  | .value t => t ≤ v
  | _ => True

/-- value target: recipient value at most requested + larger change dust + fee of one output -/
def NotAboveOk (env : Env) (r : Request) (v : Nat) : Prop :=
  match r.target with
  | .value t => v ≤ t + max (env.dust r.change0) (env.dust r.change1) + env.fee ADDITIONAL_OUTPUT_VBYTES
  | _ => True

instance (env r v) : Decidable (CapOk env r v) := by unfold CapOk; cases r.target <;> infer_instance
instance (r v) : Decidable (ReachOk r v) := by unfold ReachOk; cases r.target <;> infer_instance
instance (env r v) : Decidable (NotAboveOk env r v) := by unfold NotAboveOk; cases r.target <;> infer_instance


/-- stages 5–7 of `build_transaction` -/
def tail567 (env : Env) (w : Wallet) (r : Request) (s4 : St) : Outcome Tx := do
  let s5 ← stripValue env w r s4
  let s6 ← deductFee env w r s5
  buildFinal env w r s6


/-- the nine fields of `Cond`, decided, in declaration order: `[strip_no_overflow,
slop_no_overflow, fee_lt_value, change_pays_fee, target_pos, postage_cap, value_reached,
value_not_above, no_dust]` -/
def condBits (env : Env) (r : Request) (n : Nat) (pre : List TxOut) (R : Nat) (c : Script) : List Bool :=
  [ decide (env.fee (vsize n (pre ++ [(r.recipient, R)])) ≤ R →
      R - env.fee (vsize n (pre ++ [(r.recipient, R)])) > (maxTarget r.target).1 →
      env.dust c + env.fee (vsize n (pre ++ [(r.recipient, R)]) + ADDITIONAL_OUTPUT_VBYTES) < U64),
    decide ((match r.target with
      | .postage => MAX_POSTAGE
      | .exact p => p
      | .value _ => max (env.dust r.change0) (env.dust r.change1)) + env.fee ADDITIONAL_OUTPUT_VBYTES < U64),
    decide (feeFinal env r n pre R c < R),
    decide (strips env r n pre R c → feeFinal env r n pre R c ≤ R - (maxTarget r.target).2),
    decide (strips env r n pre R c → 0 < (maxTarget r.target).2),
    decide (¬ strips env r n pre R c → CapOk env r (R - feeFinal env r n pre R c)),
    decide (¬ strips env r n pre R c → ReachOk r (R - feeFinal env r n pre R c)),
    decide (¬ strips env r n pre R c → NotAboveOk env r (R - feeFinal env r n pre R c)),
    decide (∀ o ∈ finalOuts env r n pre R c, env.dust o.1 ≤ o.2) ]


end Ord.Builder
