/-!
# M-Wallet / Offer — model of `src/subcommand/wallet/offer/accept.rs` (`Accept::run`)

The acceptance decision as a pure function of

* the PSBT inputs: per input its previous outpoint and the signature fields the code looks at
  (`final_script_sig`, `final_script_witness`; every other signature-carrying field —
  `partial_sigs`, `tap_key_sig`, `tap_script_sigs` — is *ignored* by the code and therefore
  only recorded as a flag the model never reads),
* the wallet's view built by `WalletConstructor::build`
  (`src/wallet/wallet_constructor.rs`): `utxos = listunspent ∪ (listlockunspent ∩ gettxout)`
  — locked outputs ARE part of `wallet.utxos()` — and `output_info` (what the ord server
  says each of those outputs holds: `inscriptions : Option<Vec<Id>>`, `None` without an
  inscription index; `runes : Option<map>`, `None` without a rune index),
* the named inscription and amount (`--inscription`, `--amount`),
* the node's answer to `simulaterawtransaction` (a parameter: `none` = RPC error),
* the node's answers to `walletprocesspsbt(sign = true)` + `finalizepsbt` (a parameter:
  the finalized transaction's per-input `script_sig` / `witness`, or one of the failure
  shapes), and to `sendrawtransaction`.

Outpoints and inscription ids are opaque strings (only equality is ever used).
Every check of `Accept::run` appears here in source order; each `ensure!`/`bail!` is one
`Err` constructor.  There is no panic site on this path (`psbt.unsigned_tx.input[i]` is
in range because `Psbt::deserialize` enforces `inputs.len() = unsigned_tx.input.len()`;
`signed_tx.input[i]` is guarded by the explicit length check).
-/
namespace Ord.Offer

abbrev OutPoint := String
abbrev InsId := String

/-- `enum Signature { Script(&Script), Witness(&Witness) }` -/
inductive Sig where
  | script (bytes : List UInt8)
  | witness (items : List (List UInt8))
  deriving DecidableEq, Repr

/-- one PSBT input, as far as `Accept::run` reads it -/
structure PIn where
  outpoint : OutPoint
  finalScriptSig : Option (List UInt8) := none
  finalScriptWitness : Option (List (List UInt8)) := none
  /-- `partial_sigs` / `tap_key_sig` / `tap_script_sigs` non-empty: never read by the code -/
  otherSigs : Bool := false
  deriving DecidableEq, Repr

/-- one input of the finalized transaction -/
structure TIn where
  outpoint : OutPoint
  scriptSig : List UInt8 := []
  witness : List (List UInt8) := []
  deriving DecidableEq, Repr

/-- `api::Output` as far as it is read -/
structure OutInfo where
  /-- `None` = server without inscription index -/
  inscriptions : Option (List InsId)
  /-- number of distinct runes with a balance; `None` = server without rune index -/
  runes : Option Nat
  deriving DecidableEq, Repr

/-- what the node/server told `WalletConstructor::build` -/
structure View where
  /-- `listunspent` -/
  unspent : List OutPoint
  /-- `listlockunspent` entries for which `gettxout` answered -/
  locked : List OutPoint
  /-- `output_info` (one entry per key of `utxos`) -/
  info : List (OutPoint × OutInfo)
  deriving Repr

/-- `let mut utxos = get_utxos(); utxos.extend(get_locked_utxos())` -/
def View.utxos (v : View) : List OutPoint := v.unspent ++ v.locked

/-- node answers after the pre-checks (parameters of the decision) -/
inductive Fin where
  /-- `walletprocesspsbt` RPC failed -/
  | processErr
  /-- `finalizepsbt` RPC failed -/
  | finalizeErr
  /-- `finalizepsbt` answered without `hex` -/
  | noHex
  /-- `hex` does not decode as a transaction -/
  | undecodable
  | tx (ins : List TIn)
  deriving Repr

inductive Err where
  | decode
  | tooManyWalletInputs (n : Nat)
  | noWalletInput
  | notInWallet
  | runes
  | noInscriptionIndex
  | tooManyInscriptions (n : Nat)
  | noInscription
  | wrongInscription
  | simulate
  | amountRange
  | balance
  | bothSigKinds
  | sellerSigned (i : Nat)
  | buyerUnsigned (i : Nat)
  | process
  | finalize
  | unableToSign
  | undecodable
  | lengthMismatch
  | txBothSigKinds
  | sellerNotSigned
  | buyerSigChanged (i : Nat)
  | send
  deriving DecidableEq, Repr

def Err.toString : Err → String
  | .decode => "decode"
  | .tooManyWalletInputs n => s!"too-many-wallet-inputs:{n}"
  | .noWalletInput => "no-wallet-input"
  | .notInWallet => "not-in-wallet"
  | .runes => "runes"
  | .noInscriptionIndex => "no-inscription-index"
  | .tooManyInscriptions n => s!"too-many-inscriptions:{n}"
  | .noInscription => "no-inscription"
  | .wrongInscription => "wrong-inscription"
  | .simulate => "simulate"
  | .amountRange => "amount-range"
  | .balance => "balance"
  | .bothSigKinds => "both-sig-kinds"
  | .sellerSigned i => s!"seller-signed:{i}"
  | .buyerUnsigned i => s!"buyer-unsigned:{i}"
  | .process => "process"
  | .finalize => "finalize"
  | .unableToSign => "unable-to-sign"
  | .undecodable => "undecodable"
  | .lengthMismatch => "length-mismatch"
  | .txBothSigKinds => "tx-both-sig-kinds"
  | .sellerNotSigned => "seller-not-signed"
  | .buyerSigChanged i => s!"buyer-sig-changed:{i}"
  | .send => "send"

/-- outcome of `Accept::run`.  `signedRejected` = `walletprocesspsbt(sign = true)` had been
called (the wallet was asked to sign) when the command failed. -/
inductive Result where
  | rejected (e : Err)
  | dryOk
  | signedRejected (e : Err)
  | broadcast
  deriving DecidableEq, Repr

def Result.toString : Result → String
  | .rejected e => s!"err {e.toString}"
  | .dryOk => "dry-ok"
  | .signedRejected e => s!"err-after-sign {e.toString}"
  | .broadcast => "broadcast"

/-- the wallet was asked to sign -/
def Result.signs : Result → Bool
  | .signedRejected _ => true
  | .broadcast => true
  | _ => false

/-- all pre-signing checks passed (dry run: "would sign") -/
def Result.approved : Result → Bool
  | .rejected _ => false
  | _ => true

/-- `Accept::psbt_signatures`, one input -/
def psbtSig (i : PIn) : Except Err (Option Sig) :=
  match i.finalScriptSig, i.finalScriptWitness with
  | none, none => .ok none
  | some s, none => .ok (some (.script s))
  | none, some w => .ok (some (.witness w))
  | some _, some _ => .error .bothSigKinds

def psbtSigs : List PIn → Except Err (List (Option Sig))
  | [] => .ok []
  | i :: rest =>
    match psbtSig i with
    | .error e => .error e
    | .ok s =>
      match psbtSigs rest with
      | .error e => .error e
      | .ok ss => .ok (s :: ss)

/-- `Accept::tx_signatures`, one input -/
def txSig (i : TIn) : Except Err (Option Sig) :=
  match i.scriptSig.isEmpty, i.witness.isEmpty with
  | true, true => .ok none
  | false, true => .ok (some (.script i.scriptSig))
  | true, false => .ok (some (.witness i.witness))
  | false, false => .error .txBothSigKinds

def txSigs : List TIn → Except Err (List (Option Sig))
  | [] => .ok []
  | i :: rest =>
    match txSig i with
    | .error e => .error e
    | .ok s =>
      match txSigs rest with
      | .error e => .error e
      | .ok ss => .ok (s :: ss)

/-- indices (from `k`) and outpoints of the inputs that are keys of `wallet.utxos()`:
the `outgoing` BTreeMap in index order -/
def outgoing (utxos : List OutPoint) : List PIn → Nat → List (Nat × OutPoint)
  | [], _ => []
  | i :: rest, k =>
    if utxos.contains i.outpoint then (k, i.outpoint) :: outgoing utxos rest (k + 1)
    else outgoing utxos rest (k + 1)

def lookupInfo (info : List (OutPoint × OutInfo)) (o : OutPoint) : Option OutInfo :=
  match info with
  | [] => none
  | (k, v) :: rest => if k == o then some v else lookupInfo rest o

/-- the first signature loop: seller input unsigned, every other input signed; first failing
index wins -/
def checkSigs (seller : Nat) : List (Option Sig) → Nat → Except Err Unit
  | [], _ => .ok ()
  | s :: rest, k =>
    if k == seller then
      if s.isNone then checkSigs seller rest (k + 1) else .error (.sellerSigned k)
    else
      if s.isSome then checkSigs seller rest (k + 1) else .error (.buyerUnsigned k)

/-- the second signature loop over `zip old new` -/
def checkAfter (seller : Nat) : List (Option Sig) → List (Option Sig) → Nat → Except Err Unit
  | o :: os, n :: ns, k =>
    if k == seller then
      if n.isSome then checkAfter seller os ns (k + 1) else .error .sellerNotSigned
    else
      if o == n then checkAfter seller os ns (k + 1) else .error (.buyerSigChanged k)
  | _, _, _ => .ok ()

def i64Max : Nat := 2 ^ 63 - 1

/-- the `outgoing` map must have exactly one entry -/
def pickSeller (v : View) (ins : List PIn) : Except Err (Nat × OutPoint) :=
  let og := outgoing v.utxos ins 0
  if og.length > 1 then .error (.tooManyWalletInputs og.length) else
  match og with
  | [] => .error .noWalletInput
  | p :: _ => .ok p

/-- `if let Some(runes) = … { ensure!(runes.is_empty()) }`: without a rune index the check
is skipped -/
def seesRunes : Option Nat → Bool
  | some n => n != 0
  | none => false

/-- rune check, then inscription checks, on the wallet's `output_info` entry -/
def checkHolding (v : View) (named : InsId) (op : OutPoint) : Except Err Unit :=
  match lookupInfo v.info op with
  | none => .error .notInWallet
  | some info =>
    if seesRunes info.runes then .error .runes else
    match info.inscriptions with
    | none => .error .noInscriptionIndex
    | some l =>
      if l.length > 1 then .error (.tooManyInscriptions l.length) else
      match l with
      | [] => .error .noInscription
      | i :: _ => if i != named then .error .wrongInscription else .ok ()

/-- `simulate_transaction(..)?` then `balance_change == self.amount.to_signed()?` -/
def checkBalance (amount : Nat) (sim : Option Int) : Except Err Unit :=
  match sim with
  | none => .error .simulate
  | some change =>
    if amount > i64Max then .error .amountRange else
    if change != (amount : Int) then .error .balance else .ok ()

/-- `psbt_signatures(..)?` then the first signature loop -/
def checkPsbtSigs (idx : Nat) (ins : List PIn) : Except Err (List (Option Sig)) :=
  match psbtSigs ins with
  | .error e => .error e
  | .ok sigs =>
    match checkSigs idx sigs 0 with
    | .error e => .error e
    | .ok () => .ok sigs

/-- everything before `if self.dry_run`: the seller input's index and the PSBT's signatures -/
def pre (v : View) (named : InsId) (amount : Nat) (sim : Option Int) (ins : List PIn) :
    Except Err (Nat × List (Option Sig)) :=
  match pickSeller v ins with
  | .error e => .error e
  | .ok (idx, op) =>
    match checkHolding v named op with
    | .error e => .error e
    | .ok () =>
      match checkBalance amount sim with
      | .error e => .error e
      | .ok () =>
        match checkPsbtSigs idx ins with
        | .error e => .error e
        | .ok sigs => .ok (idx, sigs)

/-- everything after `walletprocesspsbt` has been called -/
def post (seller : Nat) (old : List (Option Sig)) (nIn : Nat) (fin : Fin) (sendOk : Bool) : Result :=
  match fin with
  | .processErr => .signedRejected .process
  | .finalizeErr => .signedRejected .finalize
  | .noHex => .signedRejected .unableToSign
  | .undecodable => .signedRejected .undecodable
  | .tx tins =>
    if tins.length != nIn then .signedRejected .lengthMismatch else
    match txSigs tins with
    | .error e => .signedRejected e
    | .ok new =>
      match checkAfter seller old new 0 with
      | .error e => .signedRejected e
      | .ok () => if sendOk then .broadcast else .signedRejected .send

/-- `Accept::run` after the PSBT has been decoded -/
def accept (dryRun : Bool) (v : View) (named : InsId) (amount : Nat) (sim : Option Int)
    (ins : List PIn) (fin : Fin) (sendOk : Bool) : Result :=
  match pre v named amount sim ins with
  | .error e => .rejected e
  | .ok (seller, sigs) =>
    if dryRun then .dryOk else post seller sigs ins.length fin sendOk

/-! ## The advertised trade, as an executable predicate (used by the oracle lines and shown
equivalent to the theorems' conclusions in `Proofs/Offer.lean`) -/

def sigOf (i : PIn) : Option Sig :=
  match psbtSig i with
  | .ok s => s
  | .error _ => none

/-- exactly one kind of final signature present -/
def PIn.signed (i : PIn) : Bool :=
  match psbtSig i with
  | .ok (some _) => true
  | _ => false

/-- no final signature field present -/
def PIn.unsigned (i : PIn) : Bool :=
  i.finalScriptSig.isNone && i.finalScriptWitness.isNone

/-- every input other than `seller` is signed, `seller` is unsigned (indices from `k`) -/
def othersSigned (seller : Nat) : List PIn → Nat → Bool
  | [], _ => true
  | i :: rest, k =>
    (if k == seller then i.unsigned else i.signed) && othersSigned seller rest (k + 1)

/-- the conclusion of C24's first clause on concrete data.  `runeIndex = false` drops the
"no runes" requirement to "none that the wallet can see". -/
def advertised (v : View) (named : InsId) (amount : Nat) (sim : Option Int) (ins : List PIn) : Bool :=
  match outgoing v.utxos ins 0 with
  | [(idx, op)] =>
    (match lookupInfo v.info op with
     | some info =>
       (info.runes == some 0 || info.runes == none) && info.inscriptions == some [named]
     | none => false)
    && sim == some (amount : Int)
    && othersSigned idx ins 0
  | _ => false

/-- second clause on concrete data: other inputs' signatures unchanged, seller's present -/
def unchangedAfter (seller : Nat) : List PIn → List TIn → Nat → Bool
  | i :: is, t :: ts, k =>
    (if k == seller then
      (match txSig t with | .ok (some _) => true | _ => false)
     else
      (match txSig t with | .ok s => s == sigOf i | .error _ => false))
    && unchangedAfter seller is ts (k + 1)
  | [], [], _ => true
  | _, _, _ => false

/-- some input at a position `k` with `k = seller` iff `wantSeller` has outpoint `op` and the
given signedness: what an error naming `op` as the (un)signed seller/buyer input must point at -/
def namesInput (seller : Nat) (wantSeller : Bool) (wantUnsigned : Bool) (op : OutPoint) :
    List PIn → Nat → Bool
  | [], _ => false
  | i :: rest, k =>
    ((k == seller) == wantSeller && i.outpoint == op && i.unsigned == wantUnsigned)
      || namesInput seller wantSeller wantUnsigned op rest (k + 1)

def sellerIndex (v : View) (ins : List PIn) : Option Nat :=
  match outgoing v.utxos ins 0 with
  | [(idx, _)] => some idx
  | _ => none

end Ord.Offer
