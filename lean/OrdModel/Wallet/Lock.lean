/-
`Wallet::lock_non_cardinal_outputs` (src/wallet.rs): the argument of the `lockunspent` RPC, and
the node-side picture after it.  Outpoints are `Nat` ranks.

  inscriptions = { satpoint.outpoint | satpoint ∈ self.inscriptions().keys() }
  locked       = self.locked_utxos().keys()
  outputs      = self.utxos().keys().filter(∈ inscriptions)
                   .chain(self.get_runic_outputs()?.unwrap_or_default())
                   .filter(∉ locked)

`utxos` already contains the locked outputs (`utxos.extend(locked_utxos)` in the constructor).
-/
namespace Ord.Wallet.Lock

structure WState where
  /-- `self.utxos()` keys (unlocked ∪ locked wallet outputs) -/
  utxos : List Nat
  /-- outpoints of `self.inscriptions()` satpoints -/
  inscribed : List Nat
  /-- `get_runic_outputs()` (outputs whose `output_info.runes` is non-empty) -/
  runic : List Nat
  /-- `self.locked_utxos()` keys -/
  locked : List Nat
  deriving Repr, Inhabited

/-- the list passed to `lockunspent` (order and multiplicity as in the code) -/
def toLock (w : WState) : List Nat :=
  ((w.utxos.filter (fun o => w.inscribed.contains o)) ++ w.runic).filter (fun o => !w.locked.contains o)

/-- the node's locked set after the call succeeded -/
def lockedAfter (w : WState) : List Nat := w.locked ++ toLock w

/-- wallet outputs the node may still select when funding -/
def spendable (w : WState) : List Nat := w.utxos.filter (fun o => !(lockedAfter w).contains o)

/-- holds an inscription or runes -/
def nonCardinal (w : WState) (o : Nat) : Bool := w.inscribed.contains o || w.runic.contains o

/-- The property's predicate on an observed run: `lockedNow` = the node's locked set after the
command, `inputs` = inputs of the transaction the command produced, `subject` = the outputs the
command is about (its explicit inputs).  Every non-cardinal wallet output is locked or is the
subject, and every input is the subject or cardinal. -/
def oracle (w : WState) (lockedNow inputs subject : List Nat) : Bool :=
  w.utxos.all (fun o => !nonCardinal w o || lockedNow.contains o || subject.contains o) &&
  inputs.all (fun o => subject.contains o || !nonCardinal w o)

end Ord.Wallet.Lock
