import OrdModel.Codec.Cbor
/-
Model of `src/properties.rs`: the data types, the hand-written and derived minicbor
`Encode`/`Decode` impls (derive semantics read off minicbor-derive 0.19.3: map encoding skips
`is_nil` fields and writes `map(count)`; map decoding reads keys with `d.i64()`, last duplicate
wins, unknown keys are `d.skip()`ped, definite and indefinite maps are both accepted, missing
fields fall back to `Default`/`None`), `Properties::{from_cbor,to_inline_cbor,to_packed_cbor}`,
and `InscriptionId::{value,from_value}`.

Strings are byte lists; Rust `String`s are valid UTF-8 by type invariant, which appears as the
hypothesis `validUtf8` in well-formedness.  Integers: `Trait::Integer(i64)` is an `Int` with the
range in well-formedness; `u32` indices are `Nat`.
-/
namespace Ord.Props
open Ord Ord.Cbor

inductive Trait where
  | bool (b : Bool)
  | int (i : Int)
  | null
  | str (s : Bytes)
  deriving Repr, DecidableEq, Inhabited

structure Attributes where
  title : Option Bytes := none
  traits : List (Bytes × Trait) := []
  deriving Repr, DecidableEq, Inhabited

structure InscriptionId where
  txid : Bytes        -- 32 bytes
  index : Nat         -- u32
  deriving Repr, DecidableEq, Inhabited

structure Item where
  id : Option InscriptionId := none
  attributes : Attributes := {}
  index : Option Nat := none
  deriving Repr, DecidableEq, Inhabited

structure Properties where
  gallery : List Item := []
  attributes : Attributes := {}
  txids : Bytes := []
  deriving Repr, DecidableEq, Inhabited

/-! ## InscriptionId -/

/-- little-endian bytes of `n` without trailing zero bytes (`index.to_le_bytes()` trimmed) -/
def leTrim (n : Nat) : Bytes :=
  if n = 0 then [] else UInt8.ofNat (n % 256) :: leTrim (n / 256)
termination_by n
decreasing_by omega

/-- little-endian value -/
def leNat : Bytes → Nat
  | [] => 0
  | b :: r => b.toNat + 256 * leNat r

/-- `InscriptionId::value` -/
def idValue (id : InscriptionId) : Bytes := id.txid ++ leTrim id.index

/-- `InscriptionId::from_value`.  (`Txid::from_slice(txid).unwrap()` is applied to the first 32
bytes of a slice already known to have ≥ 32 bytes.) -/
def idFromValue (v : Bytes) : Outcome (Option InscriptionId) :=
  if v.length < 32 then .ok none
  else if v.length > 36 then .ok none
  else
    let txid := v.take 32
    let index := v.drop 32
    if (match index.getLast? with
        | some last => index.length != 4 && last.toNat == 0
        | none => false) then .ok none
    else if txid.length ≠ 32 then .panic "from_value:txid"
    else .ok (some { txid := txid, index := leNat index })

/-! ## Encoders -/

def encTrait : Trait → Bytes
  | .bool b => encBool b
  | .int i => encI64 i
  | .null => encNull
  | .str s => encStr s

def encTraitsBody : List (Bytes × Trait) → Bytes
  | [] => []
  | (n, v) :: r => encStr n ++ encTrait v ++ encTraitsBody r

/-- `impl Encode for Traits` -/
def encTraits (ts : List (Bytes × Trait)) : Bytes := encMapHdr ts.length ++ encTraitsBody ts

def b2n (b : Bool) : Nat := if b then 1 else 0

/-- derived `Encode for Attributes` (`title` nil when `None`; `traits` skipped when default) -/
def encAttributes (a : Attributes) : Bytes :=
  encMapHdr (b2n a.title.isSome + b2n (!a.traits.isEmpty))
  ++ (match a.title with | some t => encI64 0 ++ encStr t | none => [])
  ++ (if a.traits.isEmpty then [] else encI64 1 ++ encTraits a.traits)

def attrsIsDefault (a : Attributes) : Bool := a.title.isNone && a.traits.isEmpty

/-- derived `Encode for Item` -/
def encItem (i : Item) : Bytes :=
  encMapHdr (b2n i.id.isSome + b2n (!attrsIsDefault i.attributes) + b2n i.index.isSome)
  ++ (match i.id with | some id => encI64 0 ++ encBytes (idValue id) | none => [])
  ++ (if attrsIsDefault i.attributes then [] else encI64 1 ++ encAttributes i.attributes)
  ++ (match i.index with | some n => encI64 2 ++ encU32 n | none => [])

def encItems : List Item → Bytes
  | [] => []
  | i :: r => encItem i ++ encItems r

/-- derived `Encode for Properties` (= `minicbor::to_vec`) -/
def encProperties (p : Properties) : Bytes :=
  encMapHdr (b2n (!p.gallery.isEmpty) + b2n (!attrsIsDefault p.attributes) + b2n (!p.txids.isEmpty))
  ++ (if p.gallery.isEmpty then [] else encI64 0 ++ encArrayHdr p.gallery.length ++ encItems p.gallery)
  ++ (if attrsIsDefault p.attributes then [] else encI64 1 ++ encAttributes p.attributes)
  ++ (if p.txids.isEmpty then [] else encI64 2 ++ encBytes p.txids)

def propsIsDefault (p : Properties) : Bool :=
  p.gallery.isEmpty && attrsIsDefault p.attributes && p.txids.isEmpty

/-- `Properties::to_inline_cbor` -/
def toInline (p : Properties) : Option Bytes :=
  if propsIsDefault p then none else some (encProperties p)

/-- the loop of `to_packed_cbor` over the gallery: `(txids, packed_gallery)` -/
def packItems : List Item → Outcome (Bytes × List Item)
  | [] => .ok ([], [])
  | i :: r =>
    if i.index.isSome then .panic "packed:assert index.is_none()"
    else match i.id with
      | none => .panic "packed:id.unwrap()"
      | some id =>
        (packItems r).bind fun (tx, items) =>
          .ok (id.txid ++ tx,
               { id := none, attributes := i.attributes,
                 index := if id.index = 0 then none else some id.index } :: items)

/-- `Properties::to_packed_cbor` -/
def toPacked (p : Properties) : Outcome (Option Bytes) :=
  if !p.txids.isEmpty then .panic "packed:assert txids.is_empty()"
  else if propsIsDefault p then .ok none
  else (packItems p.gallery).bind fun (tx, items) =>
    .ok (some (encProperties { gallery := items, attributes := p.attributes, txids := tx }))

/-! ## Decoders -/

/-- `impl Decode for Trait`: dispatch on `decoder.datatype()?` -/
def decTrait (bs : Bytes) : Outcome (Trait × Bytes) :=
  (probe bs).bind fun c =>
    if c ≤ 0x1b ∨ (0x20 ≤ c ∧ c ≤ 0x3b) then (decI64 bs).bind fun (i, r) => .ok (.int i, r)
    else if 0x60 ≤ c ∧ c ≤ 0x7b then (decStr bs).bind fun (s, r) => .ok (.str s, r)
    else if c = 0xf4 ∨ c = 0xf5 then (decBool bs).bind fun (b, r) => .ok (.bool b, r)
    else if c = 0xf6 then (decNull bs).bind fun (_, r) => .ok (.null, r)
    else .err "trait-type"

/-- the `for _ in 0..len` of `impl Decode for Traits` (`names` = the `HashSet`) -/
def traitsLoop : Nat → List (Bytes × Trait) → Bytes → Outcome (List (Bytes × Trait) × Bytes)
  | 0, acc, bs => .ok (acc.reverse, bs)
  | n + 1, acc, bs =>
    (decStr bs).bind fun (name, bs1) =>
      if acc.any (fun p => p.1 == name) then .err "duplicate-trait"
      else (decTrait bs1).bind fun (v, bs2) => traitsLoop n ((name, v) :: acc) bs2

/-- `impl Decode for Traits` -/
def decTraits (bs : Bytes) : Outcome (List (Bytes × Trait) × Bytes) :=
  (decLenHdr 5 bs).bind fun (len, r) =>
    match len with
    | none => .err "indefinite"
    | some n => traitsLoop n [] r

def attrField (k : Int) (a : Attributes) (bs : Bytes) : Outcome (Attributes × Bytes) :=
  if k = 0 then (decOption decStr bs).bind fun (t, r) => .ok ({ a with title := t }, r)
  else if k = 1 then (decTraits bs).bind fun (t, r) => .ok ({ a with traits := t }, r)
  else (skip bs).bind fun r => .ok (a, r)

/-- derived `Decode for Attributes` -/
def decAttributes (bs : Bytes) : Outcome (Attributes × Bytes) := decStruct attrField {} bs

/-- `impl Decode for InscriptionId` -/
def decId (bs : Bytes) : Outcome (InscriptionId × Bytes) :=
  (decBytes bs).bind fun (v, r) =>
    (idFromValue v).bind fun o =>
      match o with
      | some id => .ok (id, r)
      | none => .err "inscription-id"

def itemField (k : Int) (i : Item) (bs : Bytes) : Outcome (Item × Bytes) :=
  if k = 0 then (decOption decId bs).bind fun (v, r) => .ok ({ i with id := v }, r)
  else if k = 1 then (decAttributes bs).bind fun (v, r) => .ok ({ i with attributes := v }, r)
  else if k = 2 then (decOption decU32 bs).bind fun (v, r) => .ok ({ i with index := v }, r)
  else (skip bs).bind fun r => .ok (i, r)

/-- derived `Decode for Item` -/
def decItem (bs : Bytes) : Outcome (Item × Bytes) := decStruct itemField {} bs

def propsField (k : Int) (p : Properties) (bs : Bytes) : Outcome (Properties × Bytes) :=
  if k = 0 then (decVec decItem bs).bind fun (v, r) => .ok ({ p with gallery := v }, r)
  else if k = 1 then (decAttributes bs).bind fun (v, r) => .ok ({ p with attributes := v }, r)
  else if k = 2 then (decBytes bs).bind fun (v, r) => .ok ({ p with txids := v }, r)
  else (skip bs).bind fun r => .ok (p, r)

/-- derived `Decode for Properties`, i.e. `minicbor::decode::<Properties>` (trailing bytes are
not looked at) -/
def decProperties (bs : Bytes) : Outcome Properties :=
  (decStruct propsField {} bs).bind fun (p, _) => .ok p

/-- the first loop of `from_cbor`: `gallery.iter_mut().zip(txids.as_chunks::<32>().0)` -/
def applyTxids : List Item → Bytes → Outcome (List Item)
  | [], _ => .ok []
  | i :: r, tx =>
    if tx.length < 32 then .ok (i :: r)           -- no complete chunk left: zip stops
    else
      let chunk := tx.take 32
      if chunk.length ≠ 32 then .panic "from_cbor:Txid::from_slice"
      else (applyTxids r (tx.drop 32)).bind fun r' =>
        .ok ({ i with id := some { txid := chunk, index := i.index.getD 0 } } :: r')

/-- `Properties::from_cbor` -/
def fromCbor (bs : Bytes) : Outcome Properties :=
  let p0 : Outcome Properties :=
    match decProperties bs with
    | .ok p => .ok p
    | .err _ => .ok {}
    | .panic s => .panic s
  p0.bind fun p =>
    (applyTxids p.gallery p.txids).bind fun g1 =>
      let g2 := g1.map fun i => { i with index := none }
      let g3 := if g2.any (fun i => i.id.isNone) then [] else g2
      .ok { gallery := g3, attributes := p.attributes, txids := [] }

/-! ## Well-formedness: what `ord` itself builds (ids present, no packed leftovers, distinct trait
names) plus the Rust type invariants (valid UTF-8 `String`s, `i64`/`u32` ranges, lengths < 2^64).
This is the hypothesis of the round-trip theorems and is evaluated by the driver's oracle. -/

def wfStr (s : Bytes) : Bool := validUtf8 s && s.length < 2 ^ 64

def wfTrait : Trait → Bool
  | .int i => decide (-(2 : Int) ^ 63 ≤ i ∧ i < (2 : Int) ^ 63)
  | .str s => wfStr s
  | _ => true

def namesNodup : List Bytes → Bool
  | [] => true
  | n :: r => !r.contains n && namesNodup r

def wfAttrs (a : Attributes) : Bool :=
  (match a.title with | some t => wfStr t | none => true)
  && a.traits.all (fun p => wfStr p.1 && wfTrait p.2)
  && namesNodup (a.traits.map (·.1))
  && a.traits.length < 2 ^ 64

def wfItem (i : Item) : Bool :=
  (match i.id with | some id => id.txid.length == 32 && id.index < 2 ^ 32 | none => false)
  && i.index.isNone && wfAttrs i.attributes

def wfProps (p : Properties) : Bool :=
  p.txids.isEmpty && p.gallery.all wfItem && wfAttrs p.attributes && p.gallery.length < 2 ^ 64

end Ord.Props
