import OrdModel.Basic.Outcome
import OrdModel.Codec.Varint
import OrdModel.Codec.Script
/-
Model of `crates/ordinals/src/runestone.rs` (+ `runestone/{message,tag,flag}.rs`, `edict.rs`,
`rune_id.rs`, `etching.rs::supply`).

A transaction is modelled by the list of its output scripts (`decipher` reads nothing else; the
number of outputs is the length of the list).  Integers are `Nat`; every `try_from`/`checked_*`
of the Rust code is an explicit range test.  The one `unwrap` that can fail on the decipher path
(`u32::try_from(tx.output.len()).unwrap()` in `Edict::from_integers`) and the one on the encipher
path (`previous.delta(edict.id).unwrap()`) are explicit `Outcome.panic` branches.

`fields : HashMap<u128, VecDeque<u128>>` is modelled by the list of `(tag, value)` pairs in
order of appearance: the map's entry for `tag` is the sub-list of pairs with that tag (entries
are removed when they become empty, so `keys()` = tags that still have a pair).  `Tag::take`
with `N = 1` reads/removes the first pair with the tag, with `N = 2` the first two.
-/
namespace Ord.Runestone
open Ord Ord.Script

structure RuneId where
  block : Nat
  tx : Nat
  deriving Repr, DecidableEq, Inhabited

structure Edict where
  id : RuneId
  amount : Nat
  output : Nat
  deriving Repr, DecidableEq, Inhabited

structure Terms where
  amount : Option Nat
  cap : Option Nat
  heightStart : Option Nat
  heightEnd : Option Nat
  offsetStart : Option Nat
  offsetEnd : Option Nat
  deriving Repr, DecidableEq, Inhabited

structure Etching where
  divisibility : Option Nat
  premine : Option Nat
  rune : Option Nat
  spacers : Option Nat
  /-- `char` as its scalar value -/
  symbol : Option Nat
  terms : Option Terms
  turbo : Bool
  deriving Repr, DecidableEq, Inhabited

structure Runestone where
  edicts : List Edict
  etching : Option Etching
  mint : Option RuneId
  pointer : Option Nat
  deriving Repr, DecidableEq, Inhabited

inductive Flaw where
  | edictOutput | edictRuneId | invalidScript | opcode | supplyOverflow | trailingIntegers
  | truncatedField | unrecognizedEvenTag | unrecognizedFlag | varint
  deriving Repr, DecidableEq, Inhabited

structure Cenotaph where
  etching : Option Nat
  flaw : Option Flaw
  mint : Option RuneId
  deriving Repr, DecidableEq, Inhabited

inductive Artifact where
  | cenotaph (c : Cenotaph)
  | runestone (r : Runestone)
  deriving Repr, DecidableEq, Inhabited

/-! ## constants -/
def MAX_DIVISIBILITY : Nat := 38
def MAX_SPACERS : Nat := 0x07ffffff
def OP_RETURN : UInt8 := 0x6a
/-- `Runestone::MAGIC_NUMBER = OP_PUSHNUM_13` -/
def MAGIC_NUMBER : UInt8 := 0x5d

/-! ## rune ids and edicts -/

/-- `RuneId::new` -/
def RuneId.new (block tx : Nat) : Option RuneId :=
  if block = 0 ∧ tx > 0 then none else some ⟨block, tx⟩

/-- `RuneId::next` (`block`, `tx` are u128 deltas) -/
def RuneId.next (self : RuneId) (block tx : Nat) : Option RuneId :=
  if block < 2 ^ 64 then
    if self.block + block < 2 ^ 64 then
      if block = 0 then
        if tx < 2 ^ 32 then
          if self.tx + tx < 2 ^ 32 then RuneId.new (self.block + block) (self.tx + tx) else none
        else none
      else
        if tx < 2 ^ 32 then RuneId.new (self.block + block) tx else none
    else none
  else none

/-- `RuneId::delta` -/
def RuneId.delta (self next : RuneId) : Option (Nat × Nat) :=
  if next.block < self.block then none
  else
    let block := next.block - self.block
    if block = 0 then
      if next.tx < self.tx then none else some (block, next.tx - self.tx)
    else some (block, next.tx)

/-- `Edict::from_integers`; `n` = number of transaction outputs -/
def Edict.fromIntegers (n : Nat) (id : RuneId) (amount output : Nat) : Outcome (Option Edict) :=
  if output < 2 ^ 32 then
    if n < 2 ^ 32 then
      if output > n then .ok none else .ok (some ⟨id, amount, output⟩)
    else .panic "Edict::from_integers: u32::try_from(tx.output.len()).unwrap()"
  else .ok none

/-! ## message -/

abbrev Fields := List (Nat × Nat)

structure Message where
  flaw : Option Flaw
  edicts : List Edict
  fields : Fields
  deriving Repr, DecidableEq, Inhabited

/-- the body loop of `Message::from_integers`: `payload[i + 1..].chunks(4)` -/
def parseEdicts (n : Nat) (id : RuneId) : List Nat → Outcome (Option Flaw × List Edict)
  | [] => .ok (none, [])
  | [_] => .ok (some .trailingIntegers, [])
  | [_, _] => .ok (some .trailingIntegers, [])
  | [_, _, _] => .ok (some .trailingIntegers, [])
  | a :: b :: c :: d :: rest =>
    match id.next a b with
    | none => .ok (some .edictRuneId, [])
    | some nx =>
      match Edict.fromIntegers n nx c d with
      | .panic s => .panic s
      | .err e => .err e
      | .ok none => .ok (some .edictOutput, [])
      | .ok (some e) =>
        match parseEdicts n nx rest with
        | .ok (f, es) => .ok (f, e :: es)
        | .err e => .err e
        | .panic s => .panic s

/-- `Message::from_integers` -/
def Message.fromIntegers (n : Nat) : List Nat → Outcome Message
  | [] => .ok ⟨none, [], []⟩
  | tag :: rest =>
    if tag = 0 then
      match parseEdicts n ⟨0, 0⟩ rest with
      | .ok (f, es) => .ok ⟨f, es, []⟩
      | .err e => .err e
      | .panic s => .panic s
    else
      match rest with
      | [] => .ok ⟨some .truncatedField, [], []⟩
      | value :: rest' =>
        match Message.fromIntegers n rest' with
        | .ok m => .ok { m with fields := (tag, value) :: m.fields }
        | .err e => .err e
        | .panic s => .panic s

/-! ## `Tag::take` -/

/-- first value of `tag` -/
def first (t : Nat) : Fields → Option Nat
  | [] => none
  | (k, v) :: fs => if k = t then some v else first t fs

/-- remove the first pair of `tag` -/
def erase1 (t : Nat) : Fields → Fields
  | [] => []
  | (k, v) :: fs => if k = t then fs else (k, v) :: erase1 t fs

/-- `Tag::take::<1, _>` -/
def take1 {α : Type} (t : Nat) (w : Nat → Option α) (fs : Fields) : Option α × Fields :=
  match first t fs with
  | none => (none, fs)
  | some v =>
    match w v with
    | none => (none, fs)
    | some a => (some a, erase1 t fs)

/-- `Tag::take::<2, _>` -/
def take2 {α : Type} (t : Nat) (w : Nat → Nat → Option α) (fs : Fields) : Option α × Fields :=
  match first t fs with
  | none => (none, fs)
  | some v0 =>
    match first t (erase1 t fs) with
    | none => (none, fs)
    | some v1 =>
      match w v0 v1 with
      | none => (none, fs)
      | some a => (some a, erase1 t (erase1 t fs))

/-- `Flag::take`: is bit `k` set, and the flags with it cleared -/
def takeFlag (k : Nat) (flags : Nat) : Bool × Nat :=
  if flags.testBit k then (true, flags - 2 ^ k) else (false, flags)

/-! ## the `with` closures of `decipher` -/

def wAny (v : Nat) : Option Nat := some v

def wDivisibility (v : Nat) : Option Nat :=
  if v < 2 ^ 8 then (if v ≤ MAX_DIVISIBILITY then some v else none) else none

def wSpacers (v : Nat) : Option Nat :=
  if v < 2 ^ 32 then (if v ≤ MAX_SPACERS then some v else none) else none

/-- `char::from_u32` succeeds -/
def isChar (v : Nat) : Bool := v < 0xD800 || (0xE000 ≤ v && v ≤ 0x10FFFF)

def wSymbol (v : Nat) : Option Nat :=
  if v < 2 ^ 32 then (if isChar v then some v else none) else none

def wU64 (v : Nat) : Option Nat := if v < 2 ^ 64 then some v else none

def wMint (block tx : Nat) : Option RuneId :=
  if block < 2 ^ 64 then (if tx < 2 ^ 32 then RuneId.new block tx else none) else none

def wPointer (n : Nat) (v : Nat) : Option Nat :=
  if v < 2 ^ 32 then (if v < n then some v else none) else none

/-- `Etching::supply` -/
def Etching.supply (e : Etching) : Option Nat :=
  let premine := e.premine.getD 0
  let cap := (e.terms.bind (·.cap)).getD 0
  let amount := (e.terms.bind (·.amount)).getD 0
  if cap * amount < 2 ^ 128 then
    if premine + cap * amount < 2 ^ 128 then some (premine + cap * amount) else none
  else none

/-- the `Flag::Terms.take(&mut flags).then(|| Terms { … })` part: the terms, the flags left and
the fields left.  (Fields are evaluated in source order: cap, height.0, height.1, amount,
offset.0, offset.1.) -/
def takeTerms (flags : Nat) (fields : Fields) : Option Terms × Nat × Fields :=
  let fl := takeFlag 1 flags
  if fl.1 then
    let cap := take1 8 wAny fields
    let hs := take1 12 wU64 cap.2
    let he := take1 14 wU64 hs.2
    let amount := take1 10 wAny he.2
    let os := take1 16 wU64 amount.2
    let oe := take1 18 wU64 os.2
    (some ⟨amount.1, cap.1, hs.1, he.1, os.1, oe.1⟩, fl.2, oe.2)
  else (none, fl.2, fields)

/-- the `Flag::Etching.take(&mut flags).then(|| Etching { … })` part (source order: divisibility,
premine, rune, spacers, symbol, terms, turbo) -/
def takeEtching (flags : Nat) (fields : Fields) : Option Etching × Nat × Fields :=
  let fl := takeFlag 0 flags
  if fl.1 then
    let divisibility := take1 1 wDivisibility fields
    let premine := take1 6 wAny divisibility.2
    let rune := take1 4 wAny premine.2
    let spacers := take1 3 wSpacers rune.2
    let symbol := take1 5 wSymbol spacers.2
    let terms := takeTerms fl.2 symbol.2
    let turbo := takeFlag 2 terms.2.1
    (some ⟨divisibility.1, premine.1, rune.1, spacers.1, symbol.1, terms.1, turbo.1⟩, turbo.2,
      terms.2.2)
  else (none, fl.2, fields)

/-- everything `decipher` extracts from the message before deciding runestone/cenotaph -/
structure Parsed where
  etching : Option Etching
  mint : Option RuneId
  pointer : Option Nat
  /-- flags left after the recognised ones are taken -/
  flags : Nat
  /-- fields left after all takes -/
  fields : Fields
  deriving Repr, DecidableEq, Inhabited

def parseFields (n : Nat) (fields : Fields) : Parsed :=
  let flags := take1 2 wAny fields
  let etching := takeEtching (flags.1.getD 0) flags.2
  let mint := take2 20 wMint etching.2.2
  let pointer := take1 22 (wPointer n) mint.2
  ⟨etching.1, mint.1, pointer.1, etching.2.1, pointer.2⟩

/-- `flaw.get_or_insert(f)` when `cond` -/
def orFlaw (flaw : Option Flaw) (cond : Bool) (f : Flaw) : Option Flaw :=
  if cond then (match flaw with | some g => some g | none => some f) else flaw

def supplyOverflows (etching : Option Etching) : Bool :=
  match etching with
  | some e => e.supply.isNone
  | none => false

def hasEvenTag (fields : Fields) : Bool := fields.any (fun p => p.1 % 2 == 0)

/-- the part of `decipher` after `Message::from_integers` -/
def decipherMsg (n : Nat) (msg : Message) : Artifact :=
  let p := parseFields n msg.fields
  let flaw := msg.flaw
  let flaw := orFlaw flaw (supplyOverflows p.etching) .supplyOverflow
  let flaw := orFlaw flaw (p.flags != 0) .unrecognizedFlag
  let flaw := orFlaw flaw (hasEvenTag p.fields) .unrecognizedEvenTag
  match flaw with
  | some f => .cenotaph ⟨p.etching.bind (·.rune), some f, p.mint⟩
  | none => .runestone ⟨msg.edicts, p.etching, p.mint, p.pointer⟩

def decipherInts (n : Nat) (ints : List Nat) : Outcome Artifact :=
  match Message.fromIntegers n ints with
  | .ok msg => .ok (decipherMsg n msg)
  | .err e => .err e
  | .panic s => .panic s

/-! ## payload -/

inductive Payload where
  | valid (bs : List UInt8)
  | invalid (f : Flaw)
  deriving Repr, DecidableEq, Inhabited

/-- the `for result in instructions` loop of `Runestone::payload` -/
def collectPushes : List Item → Payload
  | [] => .valid []
  | .ok (.push bs) :: rest =>
    match collectPushes rest with
    | .valid p => .valid (bs ++ p)
    | .invalid f => .invalid f
  | .ok (.op _) :: _ => .invalid .opcode
  | .err :: _ => .invalid .invalidScript

/-- one output: `none` = `continue` -/
def scriptPayload (script : List UInt8) : Option Payload :=
  match instructions script with
  | .ok (.op a) :: .ok (.op b) :: rest =>
    if a = OP_RETURN ∧ b = MAGIC_NUMBER then some (collectPushes rest) else none
  | _ => none

/-- `Runestone::payload` -/
def payload : List (List UInt8) → Option Payload
  | [] => none
  | s :: ss =>
    match scriptPayload s with
    | some p => some p
    | none => payload ss

/-- `Runestone::integers`; `(b :: t).drop k = t.drop (k - 1)` because `decode` never answers
`k = 0` (`Ord.Varint.c26_decode_ok`) -/
def integers : List UInt8 → Except Varint.Err (List Nat)
  | [] => .ok []
  | b :: t =>
    match Varint.decode (b :: t) with
    | .error e => .error e
    | .ok (v, k) =>
      match integers (t.drop (k - 1)) with
      | .ok vs => .ok (v :: vs)
      | .error e => .error e
termination_by bs => bs.length
decreasing_by simp; omega

/-- `Runestone::decipher` on the output scripts of a transaction -/
def decipher (scripts : List (List UInt8)) : Outcome (Option Artifact) :=
  match payload scripts with
  | none => .ok none
  | some (.invalid f) => .ok (some (.cenotaph ⟨none, some f, none⟩))
  | some (.valid p) =>
    match integers p with
    | .error _ => .ok (some (.cenotaph ⟨none, some .varint, none⟩))
    | .ok ints =>
      match decipherInts scripts.length ints with
      | .ok a => .ok (some a)
      | .err e => .err e
      | .panic s => .panic s

/-! ## encipher -/

def encodeInts : List Nat → List UInt8
  | [] => []
  | n :: ns => Varint.encode n ++ encodeInts ns

/-- `Tag::encode_option` at the integer level -/
def optField (tag : Nat) : Option Nat → List Nat
  | none => []
  | some v => [tag, v]

/-- stable insertion by rune id (block, then tx) -/
def RuneId.le (a b : RuneId) : Bool := a.block < b.block || (a.block == b.block && a.tx ≤ b.tx)

def insertEdict (e : Edict) : List Edict → List Edict
  | [] => [e]
  | x :: xs => if e.id.le x.id then e :: x :: xs else x :: insertEdict e xs

/-- `edicts.sort_by_key(|edict| edict.id)` (stable) -/
def sortEdicts : List Edict → List Edict
  | [] => []
  | e :: es => insertEdict e (sortEdicts es)

/-- the delta-encoding loop -/
def edictInts (prev : RuneId) : List Edict → Outcome (List Nat)
  | [] => .ok []
  | e :: es =>
    match prev.delta e.id with
    | none => .panic "encipher: previous.delta(edict.id).unwrap()"
    | some (b, t) =>
      match edictInts e.id es with
      | .ok rest => .ok (b :: t :: e.amount :: e.output :: rest)
      | .err x => .err x
      | .panic s => .panic s

def etchingFlags (e : Etching) : Nat :=
  1 + (if e.terms.isSome then 2 else 0) + (if e.turbo then 4 else 0)

def termsInts (t : Terms) : List Nat :=
  optField 10 t.amount ++ optField 8 t.cap ++ optField 12 t.heightStart ++ optField 14 t.heightEnd
    ++ optField 16 t.offsetStart ++ optField 18 t.offsetEnd

def etchingInts (e : Etching) : List Nat :=
  [2, etchingFlags e] ++ optField 4 e.rune ++ optField 1 e.divisibility ++ optField 3 e.spacers
    ++ optField 5 e.symbol ++ optField 6 e.premine
    ++ (match e.terms with | some t => termsInts t | none => [])

def mintInts : Option RuneId → List Nat
  | none => []
  | some id => [20, id.block, 20, id.tx]

/-- the tag/value part of the payload, as integers -/
def fieldInts (r : Runestone) : List Nat :=
  (match r.etching with | some e => etchingInts e | none => []) ++ mintInts r.mint
    ++ optField 22 r.pointer

/-- the whole payload of `encipher`, as integers (each is then varint-encoded) -/
def encipherInts (r : Runestone) : Outcome (List Nat) :=
  if r.edicts.isEmpty then .ok (fieldInts r)
  else
    match edictInts ⟨0, 0⟩ (sortEdicts r.edicts) with
    | .ok es => .ok (fieldInts r ++ 0 :: es)
    | .err x => .err x
    | .panic s => .panic s

/-- `payload.chunks(k + 1)` -/
def chunks (k : Nat) (l : List UInt8) : List (List UInt8) :=
  match l with
  | [] => []
  | b :: t => (b :: t).take (k + 1) :: chunks k ((b :: t).drop (k + 1))
termination_by l.length
decreasing_by simp; omega

def pushAll : List (List UInt8) → Outcome (List UInt8)
  | [] => .ok []
  | c :: cs =>
    match pushSlice c with
    | .ok bs =>
      match pushAll cs with
      | .ok rest => .ok (bs ++ rest)
      | .err x => .err x
      | .panic s => .panic s
    | .err x => .err x
    | .panic s => .panic s

/-- script for a given payload: `OP_RETURN OP_13` then one push per `chunks(u32::MAX)` chunk -/
def payloadScript (p : List UInt8) : Outcome (List UInt8) :=
  match pushAll (chunks (2 ^ 32 - 2) p) with
  | .ok bs => .ok (OP_RETURN :: MAGIC_NUMBER :: bs)
  | .err x => .err x
  | .panic s => .panic s

/-- `Runestone::encipher` -/
def encipher (r : Runestone) : Outcome (List UInt8) :=
  match encipherInts r with
  | .ok ints => payloadScript (encodeInts ints)
  | .err x => .err x
  | .panic s => .panic s

end Ord.Runestone
