import OrdModel.Codec.Properties
import OrdModel.Generated.PropsRatioGuard
/-
Model of `Inscription::properties_cbor` / `Inscription::properties`
(`src/inscriptions/inscription.rs`) and of the size guards of `Inscription::compress_properties`.

Brotli is not modelled.  `brotli::Decompressor::read(&mut buffer)` is an abstract stream of read
results: `err` (an `io::Error`, mapped to `None` by `.ok()?`) or `data chunk` (`Ok(n)` with the
`n = chunk.length` bytes placed in `buffer[..n]`; `n = 0` is end of stream).  A stream that is
exhausted answers `Ok(0)`.
-/
namespace Ord.Props
open Ord Ord.Cbor

def MAX_COMPRESSED_PROPERTIES_SIZE : Nat := 4000000
def MAX_PROPERTIES_COMPRESSION_RATIO : Nat := 30

inductive ReadResult where
  | err
  | data (chunk : Bytes)
  deriving Repr, Inhabited

/-- `value.len().saturating_mul(RATIO).min(MAX)` (usize = u64) -/
def decompressMax (inputLen : Nat) : Nat :=
  min (sat64 (inputLen * MAX_PROPERTIES_COMPRESSION_RATIO)) MAX_COMPRESSED_PROPERTIES_SIZE

/-- the `loop` of `properties_cbor`; `none` = the function returned `None`.
`value.len() + n` cannot overflow `usize` (`value.len() ≤ max ≤ 4 000 000`, `n ≤ 4096`). -/
def decompressLoop (max : Nat) : List ReadResult → Bytes → Option Bytes
  | [], acc => some acc
  | .err :: _, _ => none
  | .data chunk :: rest, acc =>
    if chunk.length = 0 then some acc
    else if acc.length + chunk.length > max then none
    else decompressLoop max rest (acc ++ chunk)

/-- length-only version used by the driver (proved equal to the length of `decompressLoop`) -/
def decompressLen (max : Nat) : List (Option Nat) → Nat → Option Nat
  | [], acc => some acc
  | none :: _, _ => none
  | some n :: rest, acc =>
    if n = 0 then some acc
    else if acc + n > max then none
    else decompressLen max rest (acc + n)

def BROTLI : Bytes := [0x62, 0x72]   -- "br"

/-- `properties_cbor`: `stream` is what the brotli decompressor constructed over `value` yields -/
def propertiesCbor (value : Option Bytes) (encoding : Option Bytes) (stream : List ReadResult) :
    Option Bytes :=
  match value with
  | none => none
  | some v =>
    match encoding with
    | none => some v
    | some e =>
      if e ≠ BROTLI then none
      else decompressLoop (decompressMax v.length) stream []

/-- `Inscription::properties` -/
def inscriptionProperties (value encoding : Option Bytes) (stream : List ReadResult) : Outcome Properties :=
  match propertiesCbor value encoding stream with
  | some cbor => fromCbor cbor
  | none => .ok {}

/-- the two `ensure!`s of `compress_properties` for a CBOR of `len` bytes whose brotli encoding has
`clen` bytes and was kept (`clen < len`).  The shape of the ratio guard is re-read from the source on
every run (`tools/extractors/props_ratio_guard.py`): `len / clen ≤ RATIO` on the unchanged tree,
`len ≤ clen.saturating_mul(RATIO)` once `notes/fix-C28-ratio-gap.diff` is applied. -/
def encoderAccepts (len clen : Nat) : Bool :=
  len ≤ MAX_COMPRESSED_PROPERTIES_SIZE &&
  (if Generated.ratioGuardFixed then decide (len ≤ sat64 (clen * MAX_PROPERTIES_COMPRESSION_RATIO))
   else decide (len / clen ≤ MAX_PROPERTIES_COMPRESSION_RATIO))

end Ord.Props
