/-
Model of `crates/ordinals/src/varint.rs` (LEB128 for u128).

Rust `encode_to_vec`: `while n >> 7 > 0 { push(low_byte(n) | 0x80); n >>= 7 }; push(low_byte(n))`.
Rust `decode`: loop over bytes with index `i`; `i > 18` ⇒ Overlong; payload `value = byte & 0x7f`;
`i == 18 && value & 0b0111_1100 != 0` ⇒ Overflow; `n |= value << 7i`; stop at first byte without
the continuation bit; falling off the end ⇒ Unterminated.

The model works on `Nat` (no width) for the value and `UInt8` for bytes.  `n |= value << 7i` is
written `n + value * 2^(7i)`: the two agree because `n < 2^(7i)` is a loop invariant (proved as
`decodeAux_acc`), and the correspondence check compares against the real bit-or.
-/
namespace Ord.Varint

inductive Err where
  | overlong | overflow | unterminated
  deriving Repr, DecidableEq, Inhabited

def Err.toString : Err → String
  | .overlong => "overlong" | .overflow => "overflow" | .unterminated => "unterminated"

/-- `varint::encode` -/
def encode (n : Nat) : List UInt8 :=
  if n < 128 then [UInt8.ofNat n]
  else UInt8.ofNat (n % 128 + 128) :: encode (n / 128)
termination_by n
decreasing_by omega

/-- loop body of `varint::decode`, `i` = index of the next byte, `acc` = `n` so far -/
def decodeAux (i acc : Nat) : List UInt8 → Except Err (Nat × Nat)
  | [] => .error .unterminated
  | b :: bs =>
    if i > 18 then .error .overlong
    else
      let v := b.toNat % 128
      if i = 18 ∧ 4 ≤ v then .error .overflow
      else
        let acc' := acc + v * 2 ^ (7 * i)
        if b.toNat < 128 then .ok (acc', i + 1)
        else decodeAux (i + 1) acc' bs

/-- `varint::decode` -/
def decode (bs : List UInt8) : Except Err (Nat × Nat) := decodeAux 0 0 bs

/-- little-endian base-128 value of the payload bits of a byte list -/
def payload : List UInt8 → Nat
  | [] => 0
  | b :: bs => b.toNat % 128 + 128 * payload bs

end Ord.Varint

namespace Ord.Varint

/-- Executable form of the conclusions of the C26 theorems, evaluated on an *implementation*
answer `r` for input `bs` (independent of `decode`). -/
def checkAnswer (bs : List UInt8) : Except Err (Nat × Nat) → Bool
  | .ok (v, k) =>
    0 < k && k ≤ bs.length && k ≤ 19 &&
    (bs.take (k - 1)).all (fun b => 128 ≤ b.toNat) &&
    (match (bs.drop (k - 1)).head? with | some b => decide (b.toNat < 128) | none => false) &&
    v == payload (bs.take k) && v < 2 ^ 128
  | .error .unterminated => bs.length ≤ 19 && bs.all (fun b => 128 ≤ b.toNat)
  | .error .overlong => 20 ≤ bs.length && (bs.take 19).all (fun b => 128 ≤ b.toNat)
  | .error .overflow =>
    18 < bs.length && (bs.take 18).all (fun b => 128 ≤ b.toNat) &&
    (match (bs.drop 18).head? with | some b => decide (4 ≤ b.toNat % 128) | none => false)

end Ord.Varint
