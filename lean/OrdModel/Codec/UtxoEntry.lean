import OrdModel.Basic.Outcome
import OrdModel.Codec.Varint
import OrdModel.Codec.Entry
set_option linter.unusedVariables false
/-
Model of `src/index/utxo_entry.rs` (`UtxoEntryBuf`, `UtxoEntry::parse`, `ParsedUtxoEntry`) and of
`Index::{encode,decode}_rune_balance` (`src/index.rs`) with the `while i < buffer.len()` loops of
their callers.

Byte layout of an output entry, depending on the index flags:
* `index_sats`:  varint(number of ranges) ++ ranges (11 bytes each);  otherwise varint(value)
* `index_addresses`: varint(script length) ++ script;                   otherwise nothing
* `index_inscriptions`: (u32 LE sequence number ++ varint(offset))*  to the end;  otherwise nothing
So `index_sats` switches the first field, `index_addresses` inserts the second, and
`index_inscriptions` only decides whether trailing bytes are written/read.

The dev profile (the one the harness and the test-suite use) has `debug_assertions`, so the
builder's `State` machine and every `assert!` is live; each is a `panic` branch here, as is every
`unwrap`, `try_into`, checked `*`/`+` and slice index of `parse`.
usize is 64 bits.
-/
namespace Ord.Utxo
open Ord.Entry

structure Flags where
  sats : Bool
  addresses : Bool
  inscriptions : Bool
  deriving DecidableEq, Repr

inductive State where
  | needSats | needScriptPubkey | valid
  deriving DecidableEq, Repr

structure Buf where
  vec : List UInt8
  state : State
  deriving DecidableEq, Repr

/-- `UtxoEntryBuf::new` -/
def Buf.new : Buf := ⟨[], .needSats⟩

/-- `advance_state` applied after the bytes were appended -/
def advance (f : Flags) (expected new : State) (b : Buf) (vec : List UInt8) : Outcome Buf :=
  if b.state ≠ expected then .panic "assert-state"
  else .ok ⟨vec, if new = .needScriptPubkey ∧ f.addresses = false then .valid else new⟩

/-- `push_value` -/
def pushValue (f : Flags) (value : Nat) (b : Buf) : Outcome Buf :=
  if f.sats then .panic "assert-flag"
  else advance f .needSats .needScriptPubkey b (b.vec ++ Varint.encode value)

/-- `push_sat_ranges` -/
def pushSatRanges (f : Flags) (ranges : List UInt8) (b : Buf) : Outcome Buf :=
  if f.sats = false then .panic "assert-flag"
  else
    let num := ranges.length / 11
    if num * 11 ≠ ranges.length then .panic "assert-len"
    else advance f .needSats .needScriptPubkey b (b.vec ++ Varint.encode num ++ ranges)

/-- `push_script_pubkey` -/
def pushScriptPubkey (f : Flags) (script : List UInt8) (b : Buf) : Outcome Buf :=
  if f.addresses = false then .panic "assert-flag"
  else advance f .needScriptPubkey .valid b (b.vec ++ Varint.encode script.length ++ script)

/-- `push_inscriptions` (raw bytes) -/
def pushInscriptions (f : Flags) (raw : List UInt8) (b : Buf) : Outcome Buf :=
  if f.inscriptions = false then .panic "assert-flag"
  else advance f .valid .valid b (b.vec ++ raw)

/-- one inscription: u32 LE sequence number, varint offset -/
def encodeInscription (i : Nat × Nat) : List UInt8 := leBytes 4 i.1 ++ Varint.encode i.2

/-- `push_inscription` -/
def pushInscription (f : Flags) (i : Nat × Nat) (b : Buf) : Outcome Buf :=
  if f.inscriptions = false then .panic "assert-flag"
  else advance f .valid .valid b (b.vec ++ encodeInscription i)

/-- `as_ref` (the stored bytes) -/
def asRef (b : Buf) : Outcome (List UInt8) :=
  if b.state ≠ .valid then .panic "assert-state" else .ok b.vec

/-- one `push_*` call (mirrors `ord::index::verif::UtxoOp`) -/
inductive Op where
  | value (v : Nat)
  | satRanges (bs : List UInt8)
  | scriptPubkey (bs : List UInt8)
  | inscriptions (bs : List UInt8)
  | inscription (seq off : Nat)
  deriving Repr

def applyOp (f : Flags) (b : Buf) : Op → Outcome Buf
  | .value v => pushValue f v b
  | .satRanges r => pushSatRanges f r b
  | .scriptPubkey s => pushScriptPubkey f s b
  | .inscriptions r => pushInscriptions f r b
  | .inscription s o => pushInscription f (s, o) b

def applyOps (f : Flags) (b : Buf) : List Op → Outcome Buf
  | [] => .ok b
  | op :: ops =>
    match applyOp f b op with
    | .ok b' => applyOps f b' ops
    | .err e => .err e
    | .panic s => .panic s

/-- `new`, pushes, `as_ref` -/
def runOps (f : Flags) (ops : List Op) : Outcome (List UInt8) :=
  match applyOps f Buf.new ops with
  | .ok b => asRef b
  | .err e => .err e
  | .panic s => .panic s

/-! ### parse -/

/-- `&bs[a..b]` -/
def slice (bs : List UInt8) (a b : Nat) : Outcome (List UInt8) :=
  if b < a then .panic "slice"
  else if bs.length < b then .panic "slice"
  else .ok ((bs.drop a).take (b - a))

inductive Sats where
  | ranges (bs : List UInt8)
  | value (v : Nat)
  deriving DecidableEq, Repr

structure Parsed where
  sats : Sats
  script : Option (List UInt8)
  inscriptions : Option (List UInt8)
  deriving DecidableEq, Repr

def usizeLimit : Nat := 2 ^ 64

/-- first field: `(sats, offset after it)` -/
def parseSats (f : Flags) (bs : List UInt8) : Outcome (Sats × Nat) :=
  match Varint.decode bs with
  | .error _ => .panic "varint"
  | .ok (n, k) =>
    if f.sats then
      if usizeLimit ≤ n then .panic "tryinto"
      else if usizeLimit ≤ n * 11 then .panic "mul-overflow"
      else if usizeLimit ≤ k + n * 11 then .panic "add-overflow"
      else
        match slice bs k (k + n * 11) with
        | .ok r => .ok (.ranges r, k + n * 11)
        | .err e => .err e
        | .panic s => .panic s
    else
      if 2 ^ 64 ≤ n then .panic "tryinto" else .ok (.value n, k)

/-- second field (only with the address index): `(script, offset after it)` -/
def parseScript (f : Flags) (bs : List UInt8) (offset : Nat) : Outcome (Option (List UInt8) × Nat) :=
  if f.addresses then
    if bs.length < offset then .panic "slice"            -- `&self.bytes[offset..]`
    else
      match Varint.decode (bs.drop offset) with
      | .error _ => .panic "varint"
      | .ok (n, k) =>
        if usizeLimit ≤ n then .panic "tryinto"
        else if usizeLimit ≤ offset + k + n then .panic "add-overflow"
        else
          match slice bs (offset + k) (offset + k + n) with
          | .ok s => .ok (some s, offset + k + n)
          | .err e => .err e
          | .panic s => .panic s
  else .ok (none, offset)

/-- `UtxoEntry::parse` -/
def parse (f : Flags) (bs : List UInt8) : Outcome Parsed :=
  match parseSats f bs with
  | .err e => .err e
  | .panic s => .panic s
  | .ok (sats, o1) =>
    match parseScript f bs o1 with
    | .err e => .err e
    | .panic s => .panic s
    | .ok (script, o2) =>
      if f.inscriptions then
        match slice bs o2 bs.length with
        | .ok r => .ok ⟨sats, script, some r⟩
        | .err e => .err e
        | .panic s => .panic s
      else .ok ⟨sats, script, none⟩

/-- `chunks_exact(11)` -/
def chunks11 (bs : List UInt8) : List (List UInt8) :=
  if h : bs.length < 11 then [] else bs.take 11 :: chunks11 (bs.drop 11)
termination_by bs.length
decreasing_by simp only [List.length_drop]; omega

/-- the `value += range.1 - range.0` loop (checked u64 `+`) -/
def sumDeltas : Nat → List (List UInt8) → Outcome Nat
  | acc, [] => .ok acc
  | acc, c :: cs =>
    let r := satRangeLoad c
    let acc' := acc + (r.2 - r.1)
    if 2 ^ 64 ≤ acc' then .panic "add-overflow" else sumDeltas acc' cs

/-- `ParsedUtxoEntry::total_value` -/
def totalValue (p : Parsed) : Outcome Nat :=
  match p.sats with
  | .value v => .ok v
  | .ranges r => sumDeltas 0 (chunks11 r)

/-- `ParsedUtxoEntry::sat_ranges` -/
def satRanges (p : Parsed) : Outcome (List UInt8) :=
  match p.sats with
  | .ranges r => .ok r
  | .value _ => .panic "missing"

/-- `ParsedUtxoEntry::script_pubkey` -/
def scriptPubkey (p : Parsed) : Outcome (List UInt8) :=
  match p.script with
  | some s => .ok s
  | none => .panic "none"

/-- `ParsedUtxoEntry::inscriptions` -/
def inscriptionsRaw (p : Parsed) : Outcome (List UInt8) :=
  match p.inscriptions with
  | some s => .ok s
  | none => .panic "none"

/-- the loop of `parse_inscriptions` over the raw inscription bytes -/
def parseInscriptionList (bs : List UInt8) : Outcome (List (Nat × Nat)) :=
  if h0 : bs.length = 0 then .ok []
  else if bs.length < 4 then .panic "slice"
  else
    match Varint.decode (bs.drop 4) with
    | .error _ => .panic "varint"
    | .ok (v, k) =>
      if 2 ^ 64 ≤ v then .panic "tryinto"
      else
        match parseInscriptionList (bs.drop (4 + k)) with
        | .ok rest => .ok ((leVal (bs.take 4), v) :: rest)
        | .err e => .err e
        | .panic s => .panic s
termination_by bs.length
decreasing_by simp only [List.length_drop]; omega

/-- `ParsedUtxoEntry::parse_inscriptions` -/
def parseInscriptions (p : Parsed) : Outcome (List (Nat × Nat)) :=
  match p.inscriptions with
  | none => .panic "none"
  | some raw => parseInscriptionList raw

/-! ### merged / empty -/

/-- `UtxoEntryBuf::empty` -/
def emptyBuf (f : Flags) : Outcome Buf :=
  match (if f.sats then pushSatRanges f [] Buf.new else pushValue f 0 Buf.new) with
  | .ok b => if f.addresses then pushScriptPubkey f [] b else .ok b
  | .err e => .err e
  | .panic s => .panic s

def empty (f : Flags) : Outcome (List UInt8) :=
  match emptyBuf f with
  | .ok b => asRef b
  | .err e => .err e
  | .panic s => .panic s

def assertThat (c : Bool) (site : String) : Outcome Unit := if c then .ok () else .panic site

/-- `UtxoEntryBuf::merged(a, b, index)` followed by `as_ref` -/
def merged (f : Flags) (a b : List UInt8) : Outcome (List UInt8) := do
  let pa ← parse f a
  let pb ← parse f b
  let m0 := Buf.new
  let m1 ←
    if f.sats then do
      let ra ← satRanges pa
      let rb ← satRanges pb
      pushSatRanges f (ra ++ rb) m0
    else do
      let va ← totalValue pa
      assertThat (va == 0) "assert-value"
      let vb ← totalValue pb
      assertThat (vb == 0) "assert-value"
      pushValue f 0 m0
  let m2 ←
    if f.addresses then do
      let sa ← scriptPubkey pa
      assertThat sa.isEmpty "assert-script"
      let sb ← scriptPubkey pb
      assertThat sb.isEmpty "assert-script"
      pushScriptPubkey f [] m1
    else pure m1
  let m3 ←
    if f.inscriptions then do
      let ia ← inscriptionsRaw pa
      let m ← pushInscriptions f ia m2
      let ib ← inscriptionsRaw pb
      pushInscriptions f ib m
    else pure m2
  asRef m3

/-! ### the abstract entry and the updater's construction order -/

structure Entry where
  value : Nat
  ranges : List UInt8                 -- concatenated 11-byte `SatRange::store` values
  script : List UInt8
  inscriptions : List (Nat × Nat)     -- (sequence number, offset)
  deriving DecidableEq, Repr

def encodeInscriptions (l : List (Nat × Nat)) : List UInt8 := l.flatMap encodeInscription

/-- the bytes of an entry for a flag combination (closed form of the layout) -/
def layout (f : Flags) (e : Entry) : List UInt8 :=
  (if f.sats then Varint.encode (e.ranges.length / 11) ++ e.ranges else Varint.encode e.value) ++
  (if f.addresses then Varint.encode e.script.length ++ e.script else []) ++
  (if f.inscriptions then encodeInscriptions e.inscriptions else [])

/-- the pushes `ord::index::verif::utxo_build` / the updater perform for one output -/
def buildOps (f : Flags) (e : Entry) : List Op :=
  (if f.sats then [Op.satRanges e.ranges] else [Op.value e.value]) ++
  (if f.addresses then [Op.scriptPubkey e.script] else []) ++
  (if f.inscriptions then e.inscriptions.map (fun i => Op.inscription i.1 i.2) else [])

def build (f : Flags) (e : Entry) : Outcome (List UInt8) := runOps f (buildOps f e)

/-- typed sat ranges ↔ the concatenated bytes -/
def encodeRanges : List (Nat × Nat) → Outcome (List UInt8)
  | [] => .ok []
  | r :: rs =>
    match satRangeStore r, encodeRanges rs with
    | .ok b, .ok bs => .ok (b ++ bs)
    | .panic s, _ => .panic s
    | .err e, _ => .err e
    | _, .panic s => .panic s
    | _, .err e => .err e

def decodeRanges (bs : List UInt8) : List (Nat × Nat) := (chunks11 bs).map satRangeLoad

/-! ### rune balances -/

/-- `Index::encode_rune_balance` -/
def encodeBalance (x : (Nat × Nat) × Nat) : List UInt8 :=
  Varint.encode x.1.1 ++ Varint.encode x.1.2 ++ Varint.encode x.2

def encodeBalances (l : List ((Nat × Nat) × Nat)) : List UInt8 := l.flatMap encodeBalance

/-- `Index::decode_rune_balance` (`Result`: every failure is a returned error) -/
def decodeBalance (bs : List UInt8) : Outcome (((Nat × Nat) × Nat) × Nat) :=
  match Varint.decode bs with
  | .error e => .err e.toString
  | .ok (block, l1) =>
    match Varint.decode (bs.drop l1) with
    | .error e => .err e.toString
    | .ok (tx, l2) =>
      if 2 ^ 64 ≤ block then .err "tryinto"
      else if 2 ^ 32 ≤ tx then .err "tryinto"
      else
        match Varint.decode (bs.drop (l1 + l2)) with
        | .error e => .err e.toString
        | .ok (bal, l3) => .ok (((block, tx), bal), l1 + l2 + l3)

theorem decodeAux_len_pos : ∀ (bs : List UInt8) (i acc v k : Nat),
    Varint.decodeAux i acc bs = .ok (v, k) → i < k := by
  intro bs
  induction bs with
  | nil => intro i acc v k h; simp [Varint.decodeAux] at h
  | cons b bs ih =>
    intro i acc v k h
    simp only [Varint.decodeAux] at h
    split at h
    · cases h
    · split at h
      · cases h
      · split at h
        · injection h with h; injection h with _ hk; omega
        · have := ih _ _ _ _ h; omega

theorem decodeBalance_len_pos (bs : List UInt8) (x : (Nat × Nat) × Nat) (len : Nat)
    (h : decodeBalance bs = .ok (x, len)) : 0 < len := by
  unfold decodeBalance at h
  split at h
  · cases h
  · rename_i block l1 hd
    have := decodeAux_len_pos bs 0 0 _ _ hd
    split at h
    · cases h
    · split at h
      · cases h
      · split at h
        · cases h
        · split at h
          · cases h
          · injection h with h; injection h with _ hl; omega

/-- the callers' loop: `while i < buffer.len() { decode_rune_balance(&buffer[i..]).unwrap(); i += len }` -/
def decodeBalances (bs : List UInt8) : Outcome (List ((Nat × Nat) × Nat)) :=
  if h0 : bs.length = 0 then .ok []
  else
    match hd : decodeBalance bs with
    | .err _ => .panic "unwrap"
    | .panic s => .panic s
    | .ok (x, len) =>
      match decodeBalances (bs.drop len) with
      | .ok rest => .ok (x :: rest)
      | .err e => .err e
      | .panic s => .panic s
termination_by bs.length
decreasing_by
  have := decodeBalance_len_pos bs _ _ hd
  simp only [List.length_drop]; omega

end Ord.Utxo
