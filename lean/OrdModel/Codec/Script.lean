import OrdModel.Basic.Outcome
/-
Model of the parts of rust-bitcoin 0.32 `blockdata::script` that ord's runestone code uses.

* `Script::instructions()` (`instruction.rs`, `Instructions::next`, `enforce_minimal = false`):
  byte `b ≤ 0x4b` = direct push of `b` bytes (so `OP_0` is the empty push), `0x4c/0x4d/0x4e` =
  `OP_PUSHDATA1/2/4` with a 1/2/4-byte little-endian length, everything else is an opcode.
  A push whose length prefix or data runs past the end yields one `Err` item and the iterator is
  *killed* (no further items).
* `ScriptBuf::push_slice` (`owned.rs`, `push_slice_no_opt`): minimal length prefix chosen by the
  data length; panics for 2^32 bytes or more.
-/
namespace Ord.Script

inductive Instr where
  | push (bs : List UInt8)
  | op (b : UInt8)
  deriving Repr, DecidableEq, Inhabited

/-- one item of the `Instructions` iterator: `Ok(instruction)` or `Err(_)` -/
inductive Item where
  | ok (i : Instr)
  | err
  deriving Repr, DecidableEq, Inhabited

/-- little-endian value of a byte list (`read_uint_iter`) -/
def leValue : List UInt8 → Nat
  | [] => 0
  | b :: bs => b.toNat + 256 * leValue bs

/-- `take_slice_or_kill(n)` -/
def takePush (n : Nat) (rest : List UInt8) : Item × List UInt8 :=
  if n ≤ rest.length then (.ok (.push (rest.take n)), rest.drop n) else (.err, [])

/-- `next_push_data_len(k, _)` with `enforce_minimal = false` -/
def pushData (k : Nat) (rest : List UInt8) : Item × List UInt8 :=
  if k ≤ rest.length then takePush (leValue (rest.take k)) (rest.drop k) else (.err, [])

/-- `Instructions::next`: the item and the remaining bytes (`[]` after a kill) -/
def next : List UInt8 → Option (Item × List UInt8)
  | [] => none
  | b :: rest =>
    if b.toNat ≤ 0x4b then some (takePush b.toNat rest)
    else if b.toNat = 0x4c then some (pushData 1 rest)
    else if b.toNat = 0x4d then some (pushData 2 rest)
    else if b.toNat = 0x4e then some (pushData 4 rest)
    else some (.ok (.op b), rest)

theorem takePush_length (n : Nat) (rest : List UInt8) : (takePush n rest).2.length ≤ rest.length := by
  unfold takePush; split <;> simp

theorem pushData_length (k : Nat) (rest : List UInt8) : (pushData k rest).2.length ≤ rest.length := by
  unfold pushData; split
  · have := takePush_length (leValue (rest.take k)) (rest.drop k)
    simp at this ⊢; omega
  · simp

theorem next_lt {bs : List UInt8} {it : Item} {rest : List UInt8}
    (h : next bs = some (it, rest)) : rest.length < bs.length := by
  cases bs with
  | nil => simp [next] at h
  | cons b t =>
    simp only [next] at h
    have h1 := takePush_length b.toNat t
    have h2 := pushData_length 1 t
    have h3 := pushData_length 2 t
    have h4 := pushData_length 4 t
    split at h
    · injection h with h; rw [h] at h1; simp at h1 ⊢; omega
    · split at h
      · injection h with h; rw [h] at h2; simp at h2 ⊢; omega
      · split at h
        · injection h with h; rw [h] at h3; simp at h3 ⊢; omega
        · split at h
          · injection h with h; rw [h] at h4; simp at h4 ⊢; omega
          · injection h with h; injection h with _ h; subst h; simp

/-- all items the iterator yields, in order -/
def instructions (bs : List UInt8) : List Item :=
  match h : next bs with
  | none => []
  | some (it, rest) => it :: instructions rest
termination_by bs.length
decreasing_by exact next_lt h

/-- `ScriptBuf::push_slice`: the bytes appended for one data push -/
def pushSlice (data : List UInt8) : Outcome (List UInt8) :=
  let n := data.length
  if n < 0x4c then .ok (UInt8.ofNat n :: data)
  else if n < 0x100 then .ok (0x4c :: UInt8.ofNat n :: data)
  else if n < 0x10000 then .ok (0x4d :: UInt8.ofNat (n % 0x100) :: UInt8.ofNat (n / 0x100) :: data)
  else if n < 0x100000000 then
    .ok (0x4e :: UInt8.ofNat (n % 0x100) :: UInt8.ofNat (n / 0x100 % 0x100)
      :: UInt8.ofNat (n / 0x10000 % 0x100) :: UInt8.ofNat (n / 0x1000000) :: data)
  else .panic "push_slice: tried to put a 4bn+ sized object into a script"

end Ord.Script
