import OrdModel.Basic.Outcome
import OrdModel.Codec.ScriptW5
/-
Model of the inscription envelope code of ord (property C27):

* `src/inscriptions/envelope.rs`: `RawEnvelope::{from_transaction, from_tapscript, accept,
  from_instructions}`, `impl From<RawEnvelope> for ParsedEnvelope`,
  `ParsedEnvelope::from_transaction`;
* `src/inscriptions/tag.rs`: `Tag::{chunked, bytes, append, append_array, take, take_array}`;
* `src/inscriptions/inscription.rs`: `append_reveal_script_to_builder`,
  `append_batch_reveal_script_to_builder`, `pointer_value`, `pointer`, `delegate`, `parents`;
* `src/inscriptions/inscription_id.rs`: `InscriptionId::{value, from_value}`;
* `src/lib.rs` `unversioned_leaf_script_from_witness` = rust-bitcoin `Witness::tapscript()`
  (`P2TrSpend::from_witness`).

Every `unwrap`/slice/`try_into().unwrap()` on these paths is an explicit `.panic` branch
(`Ord.Outcome`); a `script::Error` is `.err "script"`.
-/
namespace Ord.Envelope
open Ord Ord.ScriptW5

/-! ## Raw envelopes -/

/-- `Envelope<Vec<Vec<u8>>>` -/
structure Raw where
  input : Nat
  offset : Nat
  payload : List Bytes
  pushnum : Bool
  stutter : Bool
  deriving Repr, DecidableEq, Inhabited

def protocolId : Bytes := [0x6f, 0x72, 0x64]   -- b"ord"
def opIf : UInt8 := 0x63
def opEndif : UInt8 := 0x68

/-- the data value the parser substitutes for OP_1NEGATE (0x4f) and OP_1..OP_16 (0x51..0x60) -/
def pushnumValue (b : UInt8) : Option Bytes :=
  if b.toNat = 0x4f then some [0x81]
  else if 0x51 ≤ b.toNat ∧ b.toNat ≤ 0x60 then some [UInt8.ofNat (b.toNat - 0x50)]
  else none

/-- `instructions.peek() == Some(&Ok(PushBytes([])))` -/
def peekIsEmptyPush : List Item → Bool
  | .ok (.push []) :: _ => true
  | _ => false

/-- `RawEnvelope::accept`: consume the next item iff it is exactly `Ok(instruction)` -/
def accept (i : Instr) : List Item → Bool × List Item
  | [] => (false, [])
  | x :: rest => if x = .ok i then (true, rest) else (false, x :: rest)

/-- the `loop { match instructions.next().transpose()? … }` of `from_instructions`.
`ok (some (payload, pushnum), rest)` = reached OP_ENDIF; `ok (none, rest)` = `Ok((false, None))`
(iterator exhausted, or a non-push, non-pushnum opcode); `err` = script error. -/
def collect : List Item → Outcome (Option (List Bytes × Bool) × List Item)
  | [] => .ok (none, [])
  | .error :: _ => .err "script"
  | .ok (.push bs) :: rest =>
    match collect rest with
    | .ok (some (p, n), r) => .ok (some (bs :: p, n), r)
    | other => other
  | .ok (.op b) :: rest =>
    if b = opEndif then .ok (some ([], false), rest)
    else match pushnumValue b with
      | some v =>
        match collect rest with
        | .ok (some (p, _), r) => .ok (some (v :: p, true), r)
        | other => other
      | none => .ok (none, rest)

/-- `usize → u32` `try_into().unwrap()` -/
def toU32 (site : String) (n : Nat) : Outcome Nat :=
  if n < 2 ^ 32 then .ok n else .panic site

/-- `RawEnvelope::from_instructions`; returns `((stutter, envelope), remaining items)` -/
def fromInstructions (input offset : Nat) (stutter : Bool) (items : List Item) :
    Outcome ((Bool × Option Raw) × List Item) :=
  match accept (.op opIf) items with
  | (false, items) => .ok ((peekIsEmptyPush items, none), items)
  | (true, items) =>
    match accept (.push protocolId) items with
    | (false, items) => .ok ((peekIsEmptyPush items, none), items)
    | (true, items) =>
      match collect items with
      | .ok (none, rest) => .ok ((false, none), rest)
      | .ok (some (payload, pushnum), rest) =>
        match toU32 "envelope.rs: input.try_into().unwrap()" input with
        | .ok input =>
          match toU32 "envelope.rs: offset.try_into().unwrap()" offset with
          | .ok offset => .ok ((false, some { input, offset, payload, pushnum, stutter }), rest)
          | .err e => .err e
          | .panic s => .panic s
        | .err e => .err e
        | .panic s => .panic s
      | .err e => .err e
      | .panic s => .panic s

/-- the `while let Some(instruction) = instructions.next().transpose()?` loop of
`from_tapscript`; `count` = `envelopes.len()`.  Fuel bounds the number of items still to be
consumed; running out of it is a `.panic "fuel"` that is proved unreachable. -/
def tapscriptLoop (input : Nat) : Nat → Bool → Nat → List Item → Outcome (List Raw)
  | 0, _, _, _ => .panic "fuel"
  | _ + 1, _, _, [] => .ok []
  | _ + 1, _, _, .error :: _ => .err "script"
  | fuel + 1, stuttered, count, .ok ins :: rest =>
    if ins = .push [] then
      match fromInstructions input count stuttered rest with
      | .ok ((_, some env), rest') =>
        match tapscriptLoop input fuel stuttered (count + 1) rest' with
        | .ok envs => .ok (env :: envs)
        | other => other
      | .ok ((stutter, none), rest') => tapscriptLoop input fuel stutter count rest'
      | .err e => .err e
      | .panic s => .panic s
    else tapscriptLoop input fuel stuttered count rest

/-- `RawEnvelope::from_tapscript` on the instruction items -/
def fromItems (input : Nat) (items : List Item) : Outcome (List Raw) :=
  tapscriptLoop input (items.length + 1) false 0 items

/-- `RawEnvelope::from_tapscript` -/
def fromTapscript (input : Nat) (script : Bytes) : Outcome (List Raw) :=
  fromItems input (instructions script)

/-- `Witness::tapscript()` (rust-bitcoin `P2TrSpend::from_witness`): no element or one element ⇒
none; last element starts with 0x50 (annex): two elements ⇒ none (key spend), three or more ⇒
third-to-last; otherwise second-to-last. -/
def tapscriptOf (witness : List Bytes) : Option Bytes :=
  match witness.reverse with
  | [] => none
  | [_] => none
  | last :: second :: more =>
    if last.head? = some 0x50 then
      match more with
      | [] => none
      | third :: _ => some third
    else some second

/-- `RawEnvelope::from_transaction`, the transaction given as the list of input witnesses -/
def rawFromWitnesses : Nat → List (List Bytes) → Outcome (List Raw)
  | _, [] => .ok []
  | i, w :: ws =>
    match tapscriptOf w with
    | none => rawFromWitnesses (i + 1) ws
    | some script =>
      match fromTapscript i script with
      | .ok envs =>
        match rawFromWitnesses (i + 1) ws with
        | .ok more => .ok (envs ++ more)
        | other => other
      | .err _ => rawFromWitnesses (i + 1) ws
      | .panic s => .panic s

/-! ## Parsed envelopes -/

/-- `Inscription` (all fields are raw bytes) -/
structure Inscription where
  body : Option Bytes := none
  contentEncoding : Option Bytes := none
  contentType : Option Bytes := none
  delegate : Option Bytes := none
  duplicateField : Bool := false
  incompleteField : Bool := false
  metadata : Option Bytes := none
  metaprotocol : Option Bytes := none
  parents : List Bytes := []
  pointer : Option Bytes := none
  properties : Option Bytes := none
  propertyEncoding : Option Bytes := none
  rune : Option Bytes := none
  unrecognizedEvenField : Bool := false
  deriving Repr, DecidableEq, Inhabited

/-- `Envelope<Inscription>` -/
structure Parsed where
  input : Nat
  offset : Nat
  payload : Inscription
  pushnum : Bool
  stutter : Bool
  deriving Repr, DecidableEq, Inhabited

/-- `BTreeMap<&[u8], Vec<&[u8]>>` as an association list with distinct keys.  Only
order-insensitive queries (`any`) and keyed access are made on it, so the key order of the
BTreeMap is not modelled. -/
abbrev FieldMap := List (Bytes × List Bytes)

/-- `fields.entry(key).or_default().push(value)` -/
def FieldMap.push : FieldMap → Bytes → Bytes → FieldMap
  | [], k, v => [(k, [v])]
  | (k', vs) :: m, k, v => if k' = k then (k', vs ++ [v]) :: m else (k', vs) :: FieldMap.push m k v

def FieldMap.get : FieldMap → Bytes → Option (List Bytes)
  | [], _ => none
  | (k', vs) :: m, k => if k' = k then some vs else FieldMap.get m k

def FieldMap.remove : FieldMap → Bytes → FieldMap
  | [], _ => []
  | (k', vs) :: m, k => if k' = k then m else (k', vs) :: FieldMap.remove m k

/-- replace the value list of an existing key (`get_mut` + mutation) -/
def FieldMap.set : FieldMap → Bytes → List Bytes → FieldMap
  | [], _, _ => []
  | (k', vs) :: m, k, new => if k' = k then (k', new) :: m else (k', vs) :: FieldMap.set m k new

/-- index of the first empty push at an even position:
`payload.iter().enumerate().position(|(i, push)| i % 2 == 0 && push.is_empty())` -/
def bodyPos : Nat → List Bytes → Option Nat
  | _, [] => none
  | i, p :: ps => if i % 2 = 0 ∧ p = [] then some i else bodyPos (i + 1) ps

/-- `for item in payload[..n].chunks(2)`: `[key, value]` ⇒ push into the map, a lone trailing
key ⇒ `incomplete_field` -/
def collectFields : List Bytes → FieldMap → FieldMap × Bool
  | [], m => (m, false)
  | [_], m => (m, true)
  | k :: v :: rest, m => collectFields rest (m.push k v)

/-- the tags of `tag.rs` that the parser knows (`Tag::X as u8`) -/
def tagContentType : UInt8 := 1
def tagPointer : UInt8 := 2
def tagParent : UInt8 := 3
def tagMetadata : UInt8 := 5
def tagMetaprotocol : UInt8 := 7
def tagContentEncoding : UInt8 := 9
def tagDelegate : UInt8 := 11
def tagRune : UInt8 := 13
def tagProperties : UInt8 := 17
def tagPropertyEncoding : UInt8 := 19

/-- `Tag::chunked` -/
def chunked (tag : UInt8) : Bool := tag = tagMetadata || tag = tagProperties

/-- `Tag::take` -/
def take (tag : UInt8) (m : FieldMap) : Option Bytes × FieldMap :=
  if chunked tag then
    match m.get [tag] with
    | none => (none, m)
    | some values =>
      let m := m.remove [tag]
      if values.isEmpty then (none, m) else (some values.flatten, m)
  else
    match m.get [tag] with
    | none => (none, m)
    | some [] => (none, m)
    | some (v :: rest) =>
      if rest.isEmpty then (some v, m.remove [tag]) else (some v, m.set [tag] rest)

/-- `Tag::take_array` -/
def takeArray (tag : UInt8) (m : FieldMap) : List Bytes × FieldMap :=
  match m.get [tag] with
  | none => ([], m)
  | some values => (values, m.remove [tag])

/-- `impl From<RawEnvelope> for ParsedEnvelope` -/
def parse (e : Raw) : Outcome Parsed :=
  let body := bodyPos 0 e.payload
  let n := body.getD e.payload.length
  -- `envelope.payload[..n]`
  if n ≤ e.payload.length then
    let (fields, incompleteField) := collectFields (e.payload.take n) []
    let duplicateField := fields.any (fun kv => decide (kv.2.length > 1))
    let (contentEncoding, fields) := take tagContentEncoding fields
    let (contentType, fields) := take tagContentType fields
    let (delegate, fields) := take tagDelegate fields
    let (metadata, fields) := take tagMetadata fields
    let (metaprotocol, fields) := take tagMetaprotocol fields
    let (parents, fields) := takeArray tagParent fields
    let (pointer, fields) := take tagPointer fields
    let (properties, fields) := take tagProperties fields
    let (propertyEncoding, fields) := take tagPropertyEncoding fields
    let (rune, fields) := take tagRune fields
    let unrecognizedEvenField :=
      fields.any (fun kv => match kv.1.head? with | some lsb => lsb.toNat % 2 = 0 | none => false)
    -- `envelope.payload[i + 1..]`
    let bodyBytes : Outcome (Option Bytes) :=
      match body with
      | none => .ok none
      | some i =>
        if i + 1 ≤ e.payload.length then .ok (some (e.payload.drop (i + 1)).flatten)
        else .panic "envelope.rs: payload[i + 1..]"
    match bodyBytes with
    | .ok body =>
      .ok {
        input := e.input, offset := e.offset, pushnum := e.pushnum, stutter := e.stutter,
        payload := {
          body, contentEncoding, contentType, delegate, duplicateField, incompleteField,
          metadata, metaprotocol, parents, pointer, properties, propertyEncoding, rune,
          unrecognizedEvenField } }
    | .err s => .err s
    | .panic s => .panic s
  else .panic "envelope.rs: payload[..body]"

def parseAll : List Raw → Outcome (List Parsed)
  | [] => .ok []
  | e :: es =>
    match parse e with
    | .ok p =>
      match parseAll es with
      | .ok ps => .ok (p :: ps)
      | other => other
    | .err s => .err s
    | .panic s => .panic s

/-- `ParsedEnvelope::from_transaction` -/
def fromWitnesses (ws : List (List Bytes)) : Outcome (List Parsed) :=
  match rawFromWitnesses 0 ws with
  | .ok raws => parseAll raws
  | .err s => .err s
  | .panic s => .panic s

/-! ## Building reveal scripts -/

def maxScriptElementSize : Nat := 520

/-- `slice::chunks(n)` (fuel = length of the slice; `n = 520 > 0` at every call site) -/
def chunksFuel (n : Nat) : Nat → Bytes → List Bytes
  | 0, _ => []
  | f + 1, l => if l.isEmpty then [] else l.take n :: chunksFuel n f (l.drop n)

def chunks (n : Nat) (l : Bytes) : List Bytes := chunksFuel n l.length l

/-- `Tag::append` (the script bytes appended to the builder) -/
def appendTag (tag : UInt8) : Option Bytes → Bytes
  | none => []
  | some value =>
    if chunked tag then
      ((chunks maxScriptElementSize value).map (fun c => pushSlice [tag] ++ pushSlice c)).flatten
    else pushSlice [tag] ++ pushSlice value

/-- `Tag::append_array` -/
def appendArray (tag : UInt8) (values : List Bytes) : Bytes :=
  (values.map (fun v => pushSlice [tag] ++ pushSlice v)).flatten

/-- the body part: `push_slice(BODY_TAG)` then one push per 520-byte chunk -/
def appendBody : Option Bytes → Bytes
  | none => []
  | some body => pushSlice [] ++ ((chunks maxScriptElementSize body).map pushSlice).flatten

/-- `Inscription::append_reveal_script_to_builder` (bytes appended to the builder) -/
def revealScript (i : Inscription) : Bytes :=
  [0x00, opIf] ++ pushSlice protocolId
    ++ appendTag tagContentType i.contentType
    ++ appendTag tagContentEncoding i.contentEncoding
    ++ appendTag tagMetaprotocol i.metaprotocol
    ++ appendArray tagParent i.parents
    ++ appendTag tagDelegate i.delegate
    ++ appendTag tagPointer i.pointer
    ++ appendTag tagMetadata i.metadata
    ++ appendTag tagRune i.rune
    ++ appendTag tagProperties i.properties
    ++ appendTag tagPropertyEncoding i.propertyEncoding
    ++ appendBody i.body
    ++ [opEndif]

/-- `Inscription::append_batch_reveal_script_to_builder` -/
def batchRevealScript : List Inscription → Bytes
  | [] => []
  | i :: is => revealScript i ++ batchRevealScript is

def optLt (n : Nat) : Option Bytes → Bool
  | none => true
  | some v => decide (v.length < n)

/-- the un-chunked values go through `value.as_slice().try_into().unwrap()` (`&[u8]` →
`&PushBytes`), which fails for `2^32 ≤ len`; chunked values and the body are cut into
520-byte pieces first. -/
def buildable (i : Inscription) : Bool :=
  optLt (2 ^ 32) i.contentType && optLt (2 ^ 32) i.contentEncoding &&
  optLt (2 ^ 32) i.metaprotocol && i.parents.all (fun p => decide (p.length < 2 ^ 32)) &&
  optLt (2 ^ 32) i.delegate && optLt (2 ^ 32) i.pointer && optLt (2 ^ 32) i.rune &&
  optLt (2 ^ 32) i.propertyEncoding

/-- builder with its panic site -/
def revealScriptO (i : Inscription) : Outcome Bytes :=
  if buildable i then .ok (revealScript i) else .panic "PushBytes::try_from(&[u8]).unwrap()"

/-! ## Compact encodings -/

/-- `n.to_le_bytes()` for a `k`-byte integer -/
def leBytes : Nat → Nat → Bytes
  | 0, _ => []
  | k + 1, n => UInt8.ofNat (n % 256) :: leBytes k (n / 256)

/-- `while bytes.last() == Some(0) { bytes.pop() }` -/
def stripTrailingZeros (bs : Bytes) : Bytes :=
  (bs.reverse.dropWhile (fun b => b = 0)).reverse

/-- `Inscription::pointer_value` -/
def pointerValue (p : Nat) : Bytes := stripTrailingZeros (leBytes 8 p)

/-- `value.get(i).copied().unwrap_or(0)` for `i < k`, as a little-endian number -/
def lePadded (k : Nat) (value : Bytes) : Nat := leValue ((value ++ List.replicate k 0).take k)

/-- `Inscription::pointer` on the raw pointer field -/
def pointerOf : Option Bytes → Option Nat
  | none => none
  | some value =>
    if (value.drop 8).any (fun b => b ≠ 0) then none else some (lePadded 8 value)

/-- `InscriptionId` with the txid as its 32 raw bytes (`Txid::to_byte_array`) -/
structure InscriptionId where
  txid : Bytes
  index : Nat
  deriving Repr, DecidableEq, Inhabited

/-- `InscriptionId::value` -/
def InscriptionId.value (id : InscriptionId) : Bytes :=
  id.txid ++ stripTrailingZeros (leBytes 4 id.index)

/-- `InscriptionId::from_value` -/
def InscriptionId.fromValue (value : Bytes) : Outcome (Option InscriptionId) :=
  if value.length < 32 then .ok none
  else if value.length > 32 + 4 then .ok none
  else
    let txid := value.take 32
    let index := value.drop 32
    if (match index.getLast? with
        | some last => decide (index.length ≠ 4) && decide (last = 0)
        | none => false) then
      .ok none
    else if txid.length = 32 then      -- `Txid::from_slice(txid).unwrap()`
      .ok (some { txid, index := lePadded 4 index })
    else .panic "inscription_id.rs: Txid::from_slice(txid).unwrap()"

/-- `Inscription::delegate` -/
def delegateOf (i : Inscription) : Outcome (Option InscriptionId) :=
  match i.delegate with
  | none => .ok none
  | some v => InscriptionId.fromValue v

/-- `Inscription::parents` (`filter_map(from_value)`) -/
def parentsOf : List Bytes → Outcome (List InscriptionId)
  | [] => .ok []
  | v :: vs =>
    match InscriptionId.fromValue v with
    | .ok r =>
      match parentsOf vs with
      | .ok ids => .ok (match r with | some id => id :: ids | none => ids)
      | other => other
    | .err s => .err s
    | .panic s => .panic s

/-! ## What the round-trip theorem says comes back (used by the theorems and by the oracle) -/

/-- a chunked field holding `Some(vec![])` writes no push at all and is read back as `None` -/
def normChunked : Option Bytes → Option Bytes
  | some [] => none
  | o => o

def optLen : Option Bytes → Nat
  | none => 0
  | some v => v.length

/-- when the parser sets `duplicate_field` on ord's own output: more than one parent, or a
chunked field (metadata / properties) longer than one 520-byte push -/
def dupRule (i : Inscription) : Bool :=
  decide (i.parents.length > 1) || decide (optLen i.metadata > 520) ||
    decide (optLen i.properties > 520)

/-- the inscription the parser returns for the reveal script of `i` -/
def expectedPayload (i : Inscription) : Inscription :=
  { i with
    metadata := normChunked i.metadata
    properties := normChunked i.properties
    duplicateField := dupRule i
    incompleteField := false
    unrecognizedEvenField := false }

def expectedEnvelopes (input : Nat) : Nat → List Inscription → List Parsed
  | _, [] => []
  | k, i :: is =>
    { input, offset := k, payload := expectedPayload i, pushnum := false, stutter := false } ::
      expectedEnvelopes input (k + 1) is

end Ord.Envelope
