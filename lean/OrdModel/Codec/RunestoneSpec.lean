import OrdModel.Codec.Runestone
/-
Specification-level vocabulary for property C25: the predicates the theorems in
`Theorems/C25.lean` are stated with, written independently of the control flow of `decipher`
(no state threading, no `take`).  They are executable so that the driver can evaluate them on
the *implementation's* answers (oracle lines).
-/
namespace Ord.Runestone
open Ord Ord.Script

/-! ## well-formed runestones (domain of the round-trip theorem) -/

/-- every component is inside its Rust type (`u8`/`u32`/`u64`/`u128`/`char`) -/
def RuneId.typed (i : RuneId) : Bool := i.block < 2 ^ 64 && i.tx < 2 ^ 32

def Edict.typed (e : Edict) : Bool := e.id.typed && e.amount < 2 ^ 128 && e.output < 2 ^ 32

def optAll (p : Nat → Bool) : Option Nat → Bool
  | none => true
  | some v => p v

def Terms.typed (t : Terms) : Bool :=
  optAll (· < 2 ^ 128) t.amount && optAll (· < 2 ^ 128) t.cap && optAll (· < 2 ^ 64) t.heightStart
    && optAll (· < 2 ^ 64) t.heightEnd && optAll (· < 2 ^ 64) t.offsetStart
    && optAll (· < 2 ^ 64) t.offsetEnd

def Etching.typed (e : Etching) : Bool :=
  optAll (· < 2 ^ 8) e.divisibility && optAll (· < 2 ^ 128) e.premine && optAll (· < 2 ^ 128) e.rune
    && optAll (· < 2 ^ 32) e.spacers && optAll (fun v => isChar v) e.symbol
    && (match e.terms with | some t => t.typed | none => true)

def Runestone.typed (r : Runestone) : Bool :=
  r.edicts.all Edict.typed
    && (match r.etching with | some e => e.typed | none => true)
    && (match r.mint with | some m => m.typed | none => true)
    && optAll (· < 2 ^ 32) r.pointer

/-- a rune id that `RuneId::new` accepts -/
def RuneId.valid (i : RuneId) : Bool := !(i.block == 0 && i.tx > 0)

def Etching.wf (e : Etching) : Bool :=
  optAll (· ≤ MAX_DIVISIBILITY) e.divisibility && optAll (· ≤ MAX_SPACERS) e.spacers
    && e.supply.isSome

/-- what a runestone must satisfy, in a transaction with `n` outputs, to survive the round trip -/
def Runestone.wf (r : Runestone) (n : Nat) : Bool :=
  n < 2 ^ 32
    && r.edicts.all (fun e => e.id.valid && e.output ≤ n)
    && (match r.etching with | some e => e.wf | none => true)
    && (match r.mint with | some m => m.valid | none => true)
    && optAll (· < n) r.pointer

/-- the round trip's only normalisation: edicts come back ordered by rune id (stable) -/
def Runestone.sorted (r : Runestone) : Runestone := { r with edicts := sortEdicts r.edicts }

/-! ## "an output starts with OP_RETURN OP_13" -/

def startsWithMagic (s : List UInt8) : Bool :=
  match s with
  | a :: b :: _ => a == OP_RETURN && b == MAGIC_NUMBER
  | _ => false

def anyMagic (scripts : List (List UInt8)) : Bool := scripts.any startsWithMagic

/-! ## the message seen as tag/value pairs -/

/-- the tag/value pairs in front of the body tag (or of the dangling last tag) -/
def fieldPairs : List Nat → Fields
  | [] => []
  | [_] => []
  | t :: v :: rest => if t = 0 then [] else (t, v) :: fieldPairs rest

/-- the values given for tag `t`, in order -/
def vals (t : Nat) : Fields → List Nat
  | [] => []
  | (k, v) :: fs => if k = t then v :: vals t fs else vals t fs

def specFlags (fs : Fields) : Nat := (vals 2 fs).head?.getD 0

/-- the etched rune name: first `Rune` value, if the etching flag is set -/
def specRune (fs : Fields) : Option Nat :=
  if (specFlags fs).testBit 0 then (vals 4 fs).head? else none

/-- the mint: the first two `Mint` values, if they form a valid rune id -/
def specMint (fs : Fields) : Option RuneId :=
  match vals 20 fs with
  | b :: t :: _ => wMint b t
  | _ => none

/-! ## the violations, each defined on its own -/

/-- supply overflow: etching flag set and `premine + cap * amount` (absent = 0; cap and amount
count only with the terms flag) does not fit in 128 bits -/
def specSupplyOverflow (fs : Fields) : Bool :=
  let flags := specFlags fs
  let premine := (vals 6 fs).head?.getD 0
  let cap := if flags.testBit 1 then (vals 8 fs).head?.getD 0 else 0
  let amount := if flags.testBit 1 then (vals 10 fs).head?.getD 0 else 0
  flags.testBit 0 && !(cap * amount < 2 ^ 128 && premine + cap * amount < 2 ^ 128)

/-- unrecognized flag: a bit other than etching/terms/turbo, or terms/turbo without etching -/
def specUnrecognizedFlag (fs : Fields) : Bool :=
  let flags := specFlags fs
  if flags.testBit 0 then 8 ≤ flags else flags != 0

/-- 1 if the list has a first value and it satisfies `ok`, else 0 -/
def oneIf (ok : Nat → Bool) (l : List Nat) : Nat :=
  match l.head? with | some v => if ok v then 1 else 0 | none => 0

/-- how many leading values of an even tag `decipher` consumes -/
def consumed (n : Nat) (fs : Fields) (t : Nat) : Nat :=
  let flags := specFlags fs
  let e := flags.testBit 0
  let te := e && flags.testBit 1
  let one (ok : Nat → Bool) : Nat := oneIf ok (vals t fs)
  if t = 2 then one (fun _ => true)
  else if t = 4 ∨ t = 6 then (if e then one (fun _ => true) else 0)
  else if t = 8 ∨ t = 10 then (if te then one (fun _ => true) else 0)
  else if t = 12 ∨ t = 14 ∨ t = 16 ∨ t = 18 then (if te then one (· < 2 ^ 64) else 0)
  else if t = 20 then (if (specMint fs).isSome then 2 else 0)
  else if t = 22 then one (fun v => v < 2 ^ 32 && v < n)
  else 0

/-- unrecognized even tag: some even tag has more values than `decipher` consumes
(unknown tag, known tag whose flag is not set, repeated tag, or value out of range) -/
def specEvenTag (n : Nat) (fs : Fields) : Bool :=
  fs.any (fun p => p.1 % 2 == 0 && consumed n fs p.1 < (vals p.1 fs).length)

/-- the flaw recorded in an artifact -/
def Artifact.flaw : Artifact → Option Flaw
  | .cenotaph c => c.flaw
  | .runestone _ => none

def Artifact.mint : Artifact → Option RuneId
  | .cenotaph c => c.mint
  | .runestone r => r.mint

/-- the etched rune name an artifact carries -/
def Artifact.rune : Artifact → Option Nat
  | .cenotaph c => c.etching
  | .runestone r => r.etching.bind (·.rune)

/-- first element of a list of optional flaws -/
def firstFlaw : List (Option Flaw) → Option Flaw
  | [] => none
  | some f :: _ => some f
  | none :: rest => firstFlaw rest

def flawIf (c : Bool) (f : Flaw) : Option Flaw := if c then some f else none

/-- "an even tag is left over after every recognised field has been taken" — the code's own
notion of an unrecognized even tag (`specEvenTag` is its declarative counterpart) -/
def leftoverEvenTag (n : Nat) (fs : Fields) : Bool := hasEvenTag (parseFields n fs).fields

/-- the message-level violations in the documented order; `even` decides the last one -/
def messageFlaws (even : Nat → Fields → Bool) (n : Nat) (structural : Option Flaw) (fs : Fields) :
    List (Option Flaw) :=
  [structural, flawIf (specSupplyOverflow fs) .supplyOverflow,
   flawIf (specUnrecognizedFlag fs) .unrecognizedFlag, flawIf (even n fs) .unrecognizedEvenTag]

/-- the first message-structure error of an integer sequence (`none` = well-structured).
Field part: a tag without value is `truncatedField`; after the body tag the integers are read
four at a time: fewer than four left = `trailingIntegers`, a delta leading to an invalid /
overflowing id = `edictRuneId`, an output above `n` (or above u32) = `edictOutput`. -/
def edictsFlaw (n : Nat) (id : RuneId) : List Nat → Option Flaw
  | [] => none
  | [_] => some .trailingIntegers
  | [_, _] => some .trailingIntegers
  | [_, _, _] => some .trailingIntegers
  | a :: b :: _ :: d :: rest =>
    match id.next a b with
    | none => some .edictRuneId
    | some nx => if d < 2 ^ 32 ∧ d ≤ n then edictsFlaw n nx rest else some .edictOutput

def structureFlaw (n : Nat) : List Nat → Option Flaw
  | [] => none
  | [t] => if t = 0 then none else some .truncatedField
  | t :: v :: rest => if t = 0 then edictsFlaw n ⟨0, 0⟩ (v :: rest) else structureFlaw n rest

/-- the flaw the property prescribes for a transaction (`none` = no violation): script error or
non-push opcode, else bad varint, else the first of the message-level violations -/
def specFlawWith (even : Nat → Fields → Bool) (scripts : List (List UInt8)) : Option Flaw :=
  match payload scripts with
  | none => none
  | some (.invalid f) => some f
  | some (.valid p) =>
    match integers p with
    | .error _ => some .varint
    | .ok ints =>
      firstFlaw (messageFlaws even scripts.length (structureFlaw scripts.length ints) (fieldPairs ints))

def specFlaw (scripts : List (List UInt8)) : Option Flaw := specFlawWith specEvenTag scripts

/-- is the item a data push -/
def _root_.Ord.Script.Item.isPush : Item → Bool
  | .ok (.push _) => true
  | _ => false

def _root_.Ord.Script.Item.bytes : Item → List UInt8
  | .ok (.push bs) => bs
  | _ => []

/-- the payload of a matching output by its first item that is not a data push: none = the
concatenated pushes; an opcode = flaw `opcode`; a script error = flaw `invalidScript` -/
def pushesResult (its : List Item) : Payload :=
  match its.find? (fun i => !i.isPush) with
  | none => .valid (its.flatMap Item.bytes)
  | some (.ok (.op _)) => .invalid .opcode
  | some _ => .invalid .invalidScript

end Ord.Runestone
