import OrdModel.Basic.Outcome
/-
Model of `src/index/entry.rs`: the `Entry::{store,load}` pairs the index uses for every table
key/value.

* `SatRange` (`(u64,u64)` ↔ `[u8;11]`): `store` computes `delta = end - start` (checked `-`: dev
  profile panics when `end < start`), `n = base as u128 | (delta as u128) << 51`, and keeps the low
  11 bytes of `n.to_le_bytes()` (bits 88.. are silently dropped).  `load` reads bytes 0..7 as a LE
  u64, masks 51 bits (`base`), reads bytes 6..11 as a LE u64 and shifts right by 3 (`delta`, 37
  bits although the source comment says 33), returns `(base, base + delta)`.
  The model uses the same bit operations on `Nat` (`|||`, `<<<`, `&&&`, `>>>`).
* `Header`, `OutPoint`, `SatPoint`, `Txid`: rust-bitcoin consensus (de)serialisation.  The byte
  *layout* is modelled (LE integer fields, hash bytes in internal order); rust-bitcoin itself is
  in the trusted base and is compared byte-for-byte by the correspondence harness.
* `InscriptionId` ↔ `(u128,u128,u32)`, `RuneId` ↔ `(u64,u32)`, `Rune` ↔ `u128`,
  `RuneEntry`/`InscriptionEntry` ↔ the redb tuple values (redb's own tuple/Option/char/Vec
  serialisation is in the trusted base).

Hashes are `List UInt8` (length 32 in every well-formed value), integers are `Nat`/`Int`, `char`
is its scalar value.
-/
namespace Ord.Entry

/-! ## little-endian helpers -/

/-- the `k` low-order little-endian bytes of `n` (`n.to_le_bytes()[..k]`; higher bits dropped) -/
def leBytes : Nat → Nat → List UInt8
  | 0, _ => []
  | k + 1, n => UInt8.ofNat (n % 256) :: leBytes k (n / 256)

/-- `uN::from_le_bytes` -/
def leVal : List UInt8 → Nat
  | [] => 0
  | b :: bs => b.toNat + 256 * leVal bs

/-! ## SatRange -/

/-- `impl Entry for SatRange` — `store` -/
def satRangeStore (r : Nat × Nat) : Outcome (List UInt8) :=
  if r.2 < r.1 then .panic "sub-overflow"            -- `self.1 - self.0`
  else
    let base := r.1
    let delta := r.2 - r.1
    let n := base ||| (delta <<< 51)
    .ok (leBytes 11 n)

/-- `impl Entry for SatRange` — `load` (argument: the 11 bytes) -/
def satRangeLoad (bs : List UInt8) : Nat × Nat :=
  let rawBase := leVal (bs.take 7)                    -- [b0..b6, 0]
  let base := rawBase &&& ((1 <<< 51) - 1)
  let rawDelta := leVal ((bs.drop 6).take 5)          -- [b6..b10, 0,0,0]
  let delta := rawDelta >>> 3
  (base, base + delta)

/-- the intended domain of the packing -/
def satRangeGuard (r : Nat × Nat) : Prop := r.1 < 2 ^ 51 ∧ r.1 ≤ r.2 ∧ r.2 - r.1 < 2 ^ 37

instance (r : Nat × Nat) : Decidable (satRangeGuard r) := by unfold satRangeGuard; infer_instance

def supply : Nat := 2099999997690000
def maxSubsidy : Nat := 5000000000

/-! ## consensus layouts -/

/-- two's complement bits of an `i32` -/
def i32Bits (v : Int) : Nat := (v % 4294967296).toNat

def i32OfBits (n : Nat) : Int := if n < 2147483648 then (n : Int) else (n : Int) - 4294967296

structure Header where
  version : Int
  prev : List UInt8
  merkle : List UInt8
  time : Nat
  bits : Nat
  nonce : Nat
  deriving DecidableEq, Repr

def Header.wf (h : Header) : Prop :=
  -2147483648 ≤ h.version ∧ h.version < 2147483648 ∧ h.prev.length = 32 ∧ h.merkle.length = 32 ∧
  h.time < 2 ^ 32 ∧ h.bits < 2 ^ 32 ∧ h.nonce < 2 ^ 32

/-- `Header::store` (80 bytes) -/
def headerStore (h : Header) : List UInt8 :=
  leBytes 4 (i32Bits h.version) ++ h.prev ++ h.merkle ++ leBytes 4 h.time ++ leBytes 4 h.bits ++
    leBytes 4 h.nonce

/-- `Header::load` (any 80 bytes deserialise) -/
def headerLoad (bs : List UInt8) : Header :=
  { version := i32OfBits (leVal (bs.take 4))
    prev := (bs.drop 4).take 32
    merkle := (bs.drop 36).take 32
    time := leVal ((bs.drop 68).take 4)
    bits := leVal ((bs.drop 72).take 4)
    nonce := leVal ((bs.drop 76).take 4) }

structure OutPoint where
  txid : List UInt8
  vout : Nat
  deriving DecidableEq, Repr

def OutPoint.wf (o : OutPoint) : Prop := o.txid.length = 32 ∧ o.vout < 2 ^ 32

/-- `OutPoint::store` (36 bytes) -/
def outPointStore (o : OutPoint) : List UInt8 := o.txid ++ leBytes 4 o.vout

def outPointLoad (bs : List UInt8) : OutPoint :=
  { txid := bs.take 32, vout := leVal ((bs.drop 32).take 4) }

structure SatPoint where
  outpoint : OutPoint
  offset : Nat
  deriving DecidableEq, Repr

def SatPoint.wf (s : SatPoint) : Prop := s.outpoint.wf ∧ s.offset < 2 ^ 64

/-- `SatPoint::store` (44 bytes) -/
def satPointStore (s : SatPoint) : List UInt8 := outPointStore s.outpoint ++ leBytes 8 s.offset

def satPointLoad (bs : List UInt8) : SatPoint :=
  { outpoint := outPointLoad (bs.take 36), offset := leVal ((bs.drop 36).take 8) }

/-- `Txid::store` / `load`: the 32 bytes in internal order -/
def txidStore (t : List UInt8) : List UInt8 := t
def txidLoad (bs : List UInt8) : List UInt8 := bs

/-! ## tuple-valued entries -/

structure InscriptionId where
  txid : List UInt8
  index : Nat
  deriving DecidableEq, Repr

/-- `InscriptionId::store`: `(u128 LE of bytes 0..16, u128 LE of bytes 16..32, index)` -/
def inscriptionIdStore (i : InscriptionId) : Nat × Nat × Nat :=
  (leVal (i.txid.take 16), leVal (i.txid.drop 16), i.index)

/-- `InscriptionId::load` -/
def inscriptionIdLoad (v : Nat × Nat × Nat) : InscriptionId :=
  { txid := leBytes 16 v.1 ++ leBytes 16 v.2.1, index := v.2.2 }

structure RuneId where
  block : Nat
  tx : Nat
  deriving DecidableEq, Repr

def runeIdStore (i : RuneId) : Nat × Nat := (i.block, i.tx)
def runeIdLoad (v : Nat × Nat) : RuneId := { block := v.1, tx := v.2 }

/-- `Rune::store` / `load` -/
def runeStore (r : Nat) : Nat := r
def runeLoad (v : Nat) : Nat := v

structure Terms where
  amount : Option Nat
  cap : Option Nat
  height : Option Nat × Option Nat
  offset : Option Nat × Option Nat
  deriving DecidableEq, Repr

/-- `TermsEntryValue = (cap, height, amount, offset)` -/
abbrev TermsValue := Option Nat × (Option Nat × Option Nat) × Option Nat × (Option Nat × Option Nat)

structure RuneEntry where
  block : Nat
  burned : Nat
  divisibility : Nat
  etching : List UInt8
  mints : Nat
  number : Nat
  premine : Nat
  rune : Nat            -- spaced_rune.rune.0
  spacers : Nat         -- spaced_rune.spacers
  symbol : Option Nat   -- char scalar value
  terms : Option Terms
  timestamp : Nat
  turbo : Bool
  deriving DecidableEq, Repr

/-- `RuneEntryValue` (field order of the Rust tuple) -/
structure RuneEntryValue where
  block : Nat
  burned : Nat
  divisibility : Nat
  etching : Nat × Nat
  mints : Nat
  number : Nat
  premine : Nat
  spacedRune : Nat × Nat
  symbol : Option Nat
  terms : Option TermsValue
  timestamp : Nat
  turbo : Bool
  deriving DecidableEq, Repr

def termsStore (t : Terms) : TermsValue := (t.cap, t.height, t.amount, t.offset)
def termsLoad (v : TermsValue) : Terms :=
  { cap := v.1, height := v.2.1, amount := v.2.2.1, offset := v.2.2.2 }

/-- `RuneEntry::store` -/
def runeEntryStore (e : RuneEntry) : RuneEntryValue :=
  { block := e.block, burned := e.burned, divisibility := e.divisibility
    etching := (leVal (e.etching.take 16), leVal ((e.etching.drop 16).take 16))
    mints := e.mints, number := e.number, premine := e.premine
    spacedRune := (e.rune, e.spacers)
    symbol := e.symbol
    terms := e.terms.map termsStore
    timestamp := e.timestamp, turbo := e.turbo }

/-- `RuneEntry::load` -/
def runeEntryLoad (v : RuneEntryValue) : RuneEntry :=
  { block := v.block, burned := v.burned, divisibility := v.divisibility
    etching := leBytes 16 v.etching.1 ++ leBytes 16 v.etching.2
    mints := v.mints, number := v.number, premine := v.premine
    rune := v.spacedRune.1, spacers := v.spacedRune.2
    symbol := v.symbol
    terms := v.terms.map termsLoad
    timestamp := v.timestamp, turbo := v.turbo }

structure InscriptionEntry where
  charms : Nat
  fee : Nat
  height : Nat
  hidden : Bool
  id : InscriptionId
  inscriptionNumber : Int
  parents : List Nat
  sat : Option Nat       -- `Option<Sat>`
  sequenceNumber : Nat
  timestamp : Nat
  deriving DecidableEq, Repr

structure InscriptionEntryValue where
  charms : Nat
  fee : Nat
  height : Nat
  hidden : Bool
  id : Nat × Nat × Nat
  inscriptionNumber : Int
  parents : List Nat
  sat : Option Nat       -- `Option<u64>`
  sequenceNumber : Nat
  timestamp : Nat
  deriving DecidableEq, Repr

/-- `InscriptionEntry::store` (`sat.map(Sat::n)`) -/
def inscriptionEntryStore (e : InscriptionEntry) : InscriptionEntryValue :=
  { charms := e.charms, fee := e.fee, height := e.height, hidden := e.hidden
    id := inscriptionIdStore e.id
    inscriptionNumber := e.inscriptionNumber, parents := e.parents
    sat := e.sat.map (fun s => s)
    sequenceNumber := e.sequenceNumber, timestamp := e.timestamp }

/-- `InscriptionEntry::load` (`sat.map(Sat)`) -/
def inscriptionEntryLoad (v : InscriptionEntryValue) : InscriptionEntry :=
  { charms := v.charms, fee := v.fee, height := v.height, hidden := v.hidden
    id := inscriptionIdLoad v.id
    inscriptionNumber := v.inscriptionNumber, parents := v.parents
    sat := v.sat.map (fun s => s)
    sequenceNumber := v.sequenceNumber, timestamp := v.timestamp }

end Ord.Entry
