/-
Bitcoin script instruction iteration and the builder's push encoding, as used by the
inscription envelope code (work stream W5, property C27).

Modelled from rust-bitcoin 0.32.8 (the version pinned in /repo/Cargo.lock):

* `blockdata/script/instruction.rs`, `impl Iterator for Instructions` with
  `enforce_minimal = false` (`Script::instructions()`):
  - byte `0x00..=0x4b` (`Class::PushBytes(n)`): `take_slice_or_kill(n)` — the next `n` bytes are
    the push; fewer than `n` left ⇒ the iterator is killed and yields
    `Err(EarlyEndOfScript)` as its last item.  `0x00` (OP_0/OP_FALSE) is the empty push.
  - `0x4c/0x4d/0x4e` (OP_PUSHDATA1/2/4): `read_uint_iter` reads a 1/2/4-byte little-endian
    length (too few bytes ⇒ kill + error), then `take_slice_or_kill`.
  - every other byte `b` is `Op(b)`.
* `blockdata/script/owned.rs`, `ScriptBuf::push_slice_no_opt` (what `Builder::push_slice` calls):
  length `< 0x4c` ⇒ one length byte; `< 0x100` ⇒ `4c len`; `< 0x10000` ⇒ `4d lo hi`;
  `< 0x100000000` ⇒ `4e b0 b1 b2 b3`; otherwise `panic!`.  There is **no** OP_PUSHNUM
  optimisation in `push_slice` (a one-byte slice `[1]` is emitted as `01 01`).

The items produced by the iterator are modelled as a list; an error can only be the last item
(the real iterator is fused and empty after `kill`).
-/
namespace Ord.ScriptW5

abbrev Bytes := List UInt8

inductive Instr where
  | push (bs : Bytes)
  | op (b : UInt8)
  deriving Repr, DecidableEq, Inhabited

/-- one item of `Script::instructions()`: `Ok(instruction)` or `Err(script::Error)` -/
inductive Item where
  | ok (i : Instr)
  | error
  deriving Repr, DecidableEq, Inhabited

/-- little-endian value of a byte list (`read_uint_iter`) -/
def leValue : Bytes → Nat
  | [] => 0
  | b :: bs => b.toNat + 256 * leValue bs

/-- `take_slice_or_kill(n)` followed by the rest of the iteration (`k` = the continuation) -/
def takeSlice (n : Nat) (rest : Bytes) (k : Bytes → List Item) : List Item :=
  if n ≤ rest.length then .ok (.push (rest.take n)) :: k (rest.drop n) else [.error]

/-- `Script::instructions()` collected into a list (fuel = an upper bound on the number of
remaining bytes; `instructions` supplies `length + 1`, and running out of fuel is impossible —
see `Proofs/ScriptW5.lean`, `instrFuel_eq`). -/
def instrFuel : Nat → Bytes → List Item
  | 0, _ => []
  | _, [] => []
  | fuel + 1, b :: rest =>
    if b.toNat ≤ 0x4b then
      takeSlice b.toNat rest (instrFuel fuel)
    else if b.toNat = 0x4c then
      if 1 ≤ rest.length then takeSlice (leValue (rest.take 1)) (rest.drop 1) (instrFuel fuel)
      else [.error]
    else if b.toNat = 0x4d then
      if 2 ≤ rest.length then takeSlice (leValue (rest.take 2)) (rest.drop 2) (instrFuel fuel)
      else [.error]
    else if b.toNat = 0x4e then
      if 4 ≤ rest.length then takeSlice (leValue (rest.take 4)) (rest.drop 4) (instrFuel fuel)
      else [.error]
    else .ok (.op b) :: instrFuel fuel rest

def instructions (bs : Bytes) : List Item := instrFuel (bs.length + 1) bs

/-- `ScriptBuf::push_slice_no_opt`: length prefix + data (defined for every length; the Rust
code panics for `2^32 ≤ length`, see `pushSliceO`). -/
def pushSlice (data : Bytes) : Bytes :=
  let n := data.length
  if n < 0x4c then UInt8.ofNat n :: data
  else if n < 0x100 then 0x4c :: UInt8.ofNat n :: data
  else if n < 0x10000 then 0x4d :: UInt8.ofNat (n % 0x100) :: UInt8.ofNat (n / 0x100) :: data
  else
    0x4e :: UInt8.ofNat (n % 0x100) :: UInt8.ofNat ((n / 0x100) % 0x100) ::
      UInt8.ofNat ((n / 0x10000) % 0x100) :: UInt8.ofNat (n / 0x1000000) :: data

/-- serialisation of one instruction the way `script::Builder` writes it -/
def encodeInstr : Instr → Bytes
  | .push bs => pushSlice bs
  | .op b => [b]

def encode : List Instr → Bytes
  | [] => []
  | i :: is => encodeInstr i ++ encode is

/-- an opcode byte that `instructions()` yields as `Op` (not a push prefix) -/
def isPlainOp (b : UInt8) : Bool := decide (0x4e < b.toNat)

/-- an instruction that the builder can emit and the iterator reads back unchanged -/
def Instr.encodable : Instr → Bool
  | .push bs => decide (bs.length < 2 ^ 32)
  | .op b => isPlainOp b

end Ord.ScriptW5
