import OrdModel.Basic.Outcome
/-
Model of the part of minicbor 2.2.1 (`decode/decoder.rs`, `encode/encoder.rs`) that is reachable
from the `Encode`/`Decode` impls of `src/properties.rs`.

A `Decoder { buf, pos }` is modelled by the *remaining* input `buf[pos..] : List UInt8`; positions
only occur in error values, and every `decode::Error` is collapsed into `Outcome.err` because
`Properties::from_cbor` does (`unwrap_or_default`).  `panic` is reserved for: exhausted loop fuel
(every loop of the Rust code that is not bounded by a structural argument gets a fuel argument;
running out of it would mean the Rust loop does not make progress) and the one checked
subtraction `*n -= 1` of `Decoder::skip`.  Both are proved unreachable (C28 clause 3).

What is *not* modelled: the `usize` position arithmetic of the reader (`self.pos += n`,
`pos.checked_add(n)`): `n ≤ remaining length` is the model's test, which is what
`checked_add` + `buf.get(pos..end)` computes on a 64-bit target; `u64_to_usize` never fails there.
-/
namespace Ord.Cbor
open Ord

abbrev Bytes := List UInt8

/-- big-endian value of a byte string (`uN::from_be_bytes`) -/
def beNat (bs : Bytes) : Nat := bs.foldl (fun acc b => acc * 256 + b.toNat) 0

/-- `k` big-endian bytes of `n` (`to_be_bytes`) -/
def toBE : Nat → Nat → Bytes
  | 0, _ => []
  | k + 1, n => UInt8.ofNat (n / 256 ^ k % 256) :: toBE k n

/-! ## UTF-8 (`core::str::from_utf8`) -/

def isCont (b : UInt8) : Bool := 0x80 ≤ b.toNat && b.toNat ≤ 0xBF

/-- Unicode table 3-7 "well-formed UTF-8 byte sequences", which is what `from_utf8` accepts -/
def validUtf8 : Bytes → Bool
  | [] => true
  | b0 :: r =>
    let c := b0.toNat
    if c < 0x80 then validUtf8 r
    else if 0xC2 ≤ c ∧ c ≤ 0xDF then
      match r with
      | b1 :: r1 => isCont b1 && validUtf8 r1
      | _ => false
    else if 0xE0 ≤ c ∧ c ≤ 0xEF then
      match r with
      | b1 :: b2 :: r2 =>
        let lo := if c = 0xE0 then 0xA0 else 0x80
        let hi := if c = 0xED then 0x9F else 0xBF
        (lo ≤ b1.toNat && b1.toNat ≤ hi) && isCont b2 && validUtf8 r2
      | _ => false
    else if 0xF0 ≤ c ∧ c ≤ 0xF4 then
      match r with
      | b1 :: b2 :: b3 :: r3 =>
        let lo := if c = 0xF0 then 0x90 else 0x80
        let hi := if c = 0xF4 then 0x8F else 0xBF
        (lo ≤ b1.toNat && b1.toNat ≤ hi) && isCont b2 && isCont b3 && validUtf8 r3
      | _ => false
    else false

/-! ## Encoder (`Encoder::type_len`, `u32`, `i64`, `bytes`, `str`, `array`, `map`, `bool`, `null`) -/

/-- `Encoder::type_len(t, x)` with `t = major <<< 5`; also `Encoder::u64` for `major = 0` and the
negative branch of `Encoder::i64` for `major = 1`.  `x < 2^64`. -/
def typeLen (major x : Nat) : Bytes :=
  if x < 24 then [UInt8.ofNat (major * 32 + x)]
  else if x < 0x100 then UInt8.ofNat (major * 32 + 24) :: toBE 1 x
  else if x < 0x10000 then UInt8.ofNat (major * 32 + 25) :: toBE 2 x
  else if x < 0x100000000 then UInt8.ofNat (major * 32 + 26) :: toBE 4 x
  else UInt8.ofNat (major * 32 + 27) :: toBE 8 x

/-- `Encoder::u32` (same head choice as `type_len(0, x)`) -/
def encU32 (x : Nat) : Bytes := typeLen 0 x

/-- `Encoder::i64` -/
def encI64 (x : Int) : Bytes :=
  if 0 ≤ x then typeLen 0 x.toNat else typeLen 1 (-1 - x).toNat

def encBytes (b : Bytes) : Bytes := typeLen 2 b.length ++ b
def encStr (s : Bytes) : Bytes := typeLen 3 s.length ++ s
def encArrayHdr (n : Nat) : Bytes := typeLen 4 n
def encMapHdr (n : Nat) : Bytes := typeLen 5 n
def encBool (b : Bool) : Bytes := [if b then 0xf5 else 0xf4]
def encNull : Bytes := [0xf6]

/-! ## Decoder primitives -/

/-- `read_array::<k>()` then `from_be_bytes` -/
def argN (k : Nat) (bs : Bytes) : Outcome (Nat × Bytes) :=
  if k ≤ bs.length then .ok (beNat (bs.take k), bs.drop k) else .err "eoi"

/-- `Decoder::unsigned(info, _)`: the argument of a head whose additional information is `info` -/
def arg (info : Nat) (bs : Bytes) : Outcome (Nat × Bytes) :=
  if info < 24 then .ok (info, bs)
  else if info = 24 then argN 1 bs
  else if info = 25 then argN 2 bs
  else if info = 26 then argN 4 bs
  else if info = 27 then argN 8 bs
  else .err "type"

/-- `read_slice(n)` -/
def takeN (n : Nat) (bs : Bytes) : Outcome (Bytes × Bytes) :=
  if n ≤ bs.length then .ok (bs.take n, bs.drop n) else .err "eoi"

/-- `Decoder::datatype()` as far as its callers here use it: the current byte, or an error at end
of input and for `0x38..=0x3b` when `peek()` (the byte after the head) is out of range. -/
def probe : Bytes → Outcome Nat
  | [] => .err "eoi"
  | b :: r =>
    if 0x38 ≤ b.toNat ∧ b.toNat ≤ 0x3b ∧ r.isEmpty then .err "eoi" else .ok b.toNat

/-- `Decoder::u32()`.  (The 8-byte form is range-checked by `try_as`; the shorter ones always fit.) -/
def decU32 : Bytes → Outcome (Nat × Bytes)
  | [] => .err "eoi"
  | b :: r =>
    if b.toNat ≤ 0x1b then
      (arg b.toNat r).bind fun (v, r') => if v < 2 ^ 32 then .ok (v, r') else .err "overflow"
    else .err "type"

/-- `Decoder::i64()` — also `Decoder::int()` followed by `i64::try_from(Int)`: both accept exactly
major types 0 and 1 with any argument width and reject arguments `≥ 2^63`. -/
def decI64 : Bytes → Outcome (Int × Bytes)
  | [] => .err "eoi"
  | b :: r =>
    if b.toNat ≤ 0x1b then
      (arg b.toNat r).bind fun (v, r') =>
        if v < 2 ^ 63 then .ok ((v : Int), r') else .err "overflow"
    else if 0x20 ≤ b.toNat ∧ b.toNat ≤ 0x3b then
      (arg (b.toNat - 0x20) r).bind fun (v, r') =>
        if v < 2 ^ 63 then .ok (-1 - (v : Int), r') else .err "overflow"
    else .err "type"

/-- `Decoder::bytes()` (definite length only) -/
def decBytes : Bytes → Outcome (Bytes × Bytes)
  | [] => .err "eoi"
  | b :: r =>
    if b.toNat / 32 ≠ 2 ∨ b.toNat % 32 = 31 then .err "type"
    else (arg (b.toNat % 32) r).bind fun (n, r') => takeN n r'

/-- `Decoder::str()` (definite length only, UTF-8 checked) -/
def decStr : Bytes → Outcome (Bytes × Bytes)
  | [] => .err "eoi"
  | b :: r =>
    if b.toNat / 32 ≠ 3 ∨ b.toNat % 32 = 31 then .err "type"
    else (arg (b.toNat % 32) r).bind fun (n, r') =>
      (takeN n r').bind fun (s, r'') => if validUtf8 s then .ok (s, r'') else .err "utf8"

/-- `Decoder::array()` / `Decoder::map()`: `none` = indefinite length -/
def decLenHdr (major : Nat) : Bytes → Outcome (Option Nat × Bytes)
  | [] => .err "eoi"
  | b :: r =>
    if b.toNat / 32 ≠ major then .err "type"
    else if b.toNat % 32 = 31 then .ok (none, r)
    else (arg (b.toNat % 32) r).bind fun (n, r') => .ok (some n, r')

def decBool : Bytes → Outcome (Bool × Bytes)
  | [] => .err "eoi"
  | b :: r => if b.toNat = 0xf4 then .ok (false, r) else if b.toNat = 0xf5 then .ok (true, r) else .err "type"

def decNull : Bytes → Outcome (Unit × Bytes)
  | [] => .err "eoi"
  | b :: r => if b.toNat = 0xf6 then .ok ((), r) else .err "type"

/-! ## `Decoder::skip()` (feature `alloc`) -/

/-- u64 saturation -/
def sat64 (n : Nat) : Nat := if n < 2 ^ 64 then n else 2 ^ 64 - 1

/-- the chunks of an indefinite-length byte/text string: `BytesIter`/`StrIter` in state `Indef`,
driven to the end by `for v in … { v?; }` -/
def indefChunks (text : Bool) : Nat → Bytes → Outcome Bytes
  | 0, _ => .panic "chunks:fuel"
  | fuel + 1, bs =>
    match bs with
    | [] => .err "eoi"
    | b :: r =>
      if b.toNat = 0xff then .ok r
      else if text then (decStr bs).bind fun (_, bs') => indefChunks text fuel bs'
      else (decBytes bs).bind fun (_, bs') => indefChunks text fuel bs'

/-- what one `Some(n)` array/map header does to the counters -/
def skipDef (nr ir : Nat) (st : List (Option Nat)) (n : Nat) : Nat × Nat × List (Option Nat) :=
  if n = 0 then (nr, ir, st)
  else if nr = 0 ∧ ir = 0 then (nr, ir, some n :: st)
  else (sat64 (nr + n), ir, st)

/-- what one indefinite array/map header does to the counters -/
def skipIndef (nr ir : Nat) (st : List (Option Nat)) : Nat × Nat × List (Option Nat) :=
  if nr = 0 ∧ ir = 0 then (nr, ir, none :: st)
  else if nr < 2 then (nr, sat64 (ir + 1), st)
  else (0, 0, none :: some (nr - 1) :: (List.replicate ir none ++ st))

/-- The `match self.current()?` of one loop iteration.  Result: new counters, remaining input and
whether the arm ended in `continue` (tags). -/
def skipItem (nr ir : Nat) (st : List (Option Nat)) :
    Bytes → Outcome ((Nat × Nat × List (Option Nat)) × Bytes × Bool)
  | [] => .err "eoi"
  | b :: r =>
    let c := b.toNat
    if c ≤ 0x1b then (arg c r).bind fun (_, r') => .ok ((nr, ir, st), r', false)
    else if 0x20 ≤ c ∧ c ≤ 0x3b then (arg (c - 0x20) r).bind fun (_, r') => .ok ((nr, ir, st), r', false)
    else if 0x40 ≤ c ∧ c ≤ 0x5f then
      if c = 0x5f then (indefChunks false (r.length + 1) r).bind fun r' => .ok ((nr, ir, st), r', false)
      else (arg (c - 0x40) r).bind fun (n, r') => (takeN n r').bind fun (_, r'') => .ok ((nr, ir, st), r'', false)
    else if 0x60 ≤ c ∧ c ≤ 0x7f then
      if c = 0x7f then (indefChunks true (r.length + 1) r).bind fun r' => .ok ((nr, ir, st), r', false)
      else (arg (c - 0x60) r).bind fun (n, r') => (takeN n r').bind fun (s, r'') =>
        if validUtf8 s then .ok ((nr, ir, st), r'', false) else .err "utf8"
    else if 0x80 ≤ c ∧ c ≤ 0x9f then
      if c = 0x9f then .ok (skipIndef nr ir st, r, false)
      else (arg (c - 0x80) r).bind fun (n, r') => .ok (skipDef nr ir st n, r', false)
    else if 0xa0 ≤ c ∧ c ≤ 0xbf then
      if c = 0xbf then .ok (skipIndef nr ir st, r, false)
      else (arg (c - 0xa0) r).bind fun (n, r') => .ok (skipDef nr ir st (sat64 (n * 2)), r', false)
    else if 0xc0 ≤ c ∧ c ≤ 0xdb then (arg (c - 0xc0) r).bind fun (_, r') => .ok ((nr, ir, st), r', true)
    else if 0xe0 ≤ c ∧ c ≤ 0xfb then (arg (c - 0xe0) r).bind fun (_, r') => .ok ((nr, ir, st), r', false)
    else if c = 0xff then
      if nr = 0 ∧ ir = 0 then
        match st with
        | none :: st' => .ok ((nr, ir, st'), r, false)
        | _ => .ok ((nr, ir, st), r, false)
      else .ok ((nr, ir - 1, st), r, false)
    else .err "type"

/-- `while let Some(Some(0)) = stack.last() { stack.pop(); }` -/
def popZeros : List (Option Nat) → List (Option Nat)
  | some 0 :: st => popZeros st
  | st => st

/-- the `while nrounds > 0 || irounds > 0 || !stack.is_empty()` loop -/
def skipLoop : Nat → Nat → Nat → List (Option Nat) → Bytes → Outcome Bytes
  | 0, _, _, _, _ => .panic "skip:fuel"
  | fuel + 1, nr, ir, st, bs =>
    if nr = 0 ∧ ir = 0 ∧ st.isEmpty then .ok bs
    else
      (skipItem nr ir st bs).bind fun ((nr', ir', st'), bs', isTag) =>
        if isTag then skipLoop fuel nr' ir' st' bs'
        else if nr' = 0 ∧ ir' = 0 then
          match popZeros st' with
          | [] => .ok bs'                                           -- `None => break`
          | some 0 :: _ => .panic "skip:sub"                         -- `*n -= 1` on zero
          | some (n + 1) :: st'' => skipLoop fuel 0 0 (some n :: st'') bs'
          | none :: st'' => skipLoop fuel 0 0 (none :: st'') bs'
        else skipLoop fuel (nr' - 1) ir' st' bs'

/-- `Decoder::skip()` -/
def skip (bs : Bytes) : Outcome Bytes := skipLoop (bs.length + 1) 1 0 [] bs

/-! ## Generic containers -/

/-- `Option<T>::decode`: `Type::Null == d.datatype()?` → `d.skip()`, else `T::decode` -/
def decOption {α : Type} (dec : Bytes → Outcome (α × Bytes)) (bs : Bytes) : Outcome (Option α × Bytes) :=
  (probe bs).bind fun c =>
    if c = 0xf6 then (skip bs).bind fun r => .ok (none, r)
    else (dec bs).bind fun (v, r) => .ok (some v, r)

/-- `ArrayIterWithCtx` in state `Def(n)` collected with `push` -/
def arrayDefLoop {α : Type} (dec : Bytes → Outcome (α × Bytes)) : Nat → List α → Bytes → Outcome (List α × Bytes)
  | 0, acc, bs => .ok (acc.reverse, bs)
  | n + 1, acc, bs => (dec bs).bind fun (v, bs') => arrayDefLoop dec n (v :: acc) bs'

/-- `ArrayIterWithCtx` in state `Indef` -/
def arrayIndefLoop {α : Type} (dec : Bytes → Outcome (α × Bytes)) : Nat → List α → Bytes → Outcome (List α × Bytes)
  | 0, _, _ => .panic "array:fuel"
  | fuel + 1, acc, bs =>
    match bs with
    | [] => .err "eoi"
    | b :: r =>
      if b.toNat = 0xff then .ok (acc.reverse, r)
      else (dec bs).bind fun (v, bs') => arrayIndefLoop dec fuel (v :: acc) bs'

/-- `Vec<T>::decode` -/
def decVec {α : Type} (dec : Bytes → Outcome (α × Bytes)) (bs : Bytes) : Outcome (List α × Bytes) :=
  (decLenHdr 4 bs).bind fun (len, r) =>
    match len with
    | some n => arrayDefLoop dec n [] r
    | none => arrayIndefLoop dec (r.length + 1) [] r

/-- derived `#[cbor(map)]` decoder, definite length: `for _ in 0..len { match d.i64()? { … } }` -/
def mapDefLoop {σ : Type} (field : Int → σ → Bytes → Outcome (σ × Bytes)) :
    Nat → σ → Bytes → Outcome (σ × Bytes)
  | 0, acc, bs => .ok (acc, bs)
  | n + 1, acc, bs =>
    (decI64 bs).bind fun (k, bs1) => (field k acc bs1).bind fun (acc', bs2) => mapDefLoop field n acc' bs2

/-- derived `#[cbor(map)]` decoder, indefinite length:
`while Type::Break != d.datatype()? { match d.i64()? { … } }; d.skip()?` -/
def mapIndefLoop {σ : Type} (field : Int → σ → Bytes → Outcome (σ × Bytes)) :
    Nat → σ → Bytes → Outcome (σ × Bytes)
  | 0, _, _ => .panic "map:fuel"
  | fuel + 1, acc, bs =>
    (probe bs).bind fun c =>
      if c = 0xff then (skip bs).bind fun r => .ok (acc, r)
      else (decI64 bs).bind fun (k, bs1) => (field k acc bs1).bind fun (acc', bs2) =>
        mapIndefLoop field fuel acc' bs2

/-- derived `Decode` of a `#[cbor(map)]` struct all of whose fields are optional or defaulted -/
def decStruct {σ : Type} (field : Int → σ → Bytes → Outcome (σ × Bytes)) (init : σ) (bs : Bytes) :
    Outcome (σ × Bytes) :=
  (decLenHdr 5 bs).bind fun (len, r) =>
    match len with
    | some n => mapDefLoop field n init r
    | none => mapIndefLoop field (r.length + 1) init r

end Ord.Cbor
