import OrdModel.Proofs.IndexMiscReplayRunes
namespace Ord.Index
open Outcome

theorem mintTriple_rinv (c : List Block) {rs : ReplayState} {st0 : State} (h0 : RInv rs st0) (mintId : Option RuneId)
    (un0 : Balances) (height : Nat) (txid : Txid) (M : State × Outcome Balances × List Event)
    (hM : (match mintId with
      | none => (st0, Outcome.ok un0, ([] : List Event))
      | some id =>
        match mint st0 height id with
        | (s, none) => (s, Outcome.ok un0, [])
        | (s, some amount) => (s, addLot un0 id amount, [Event.runeMinted amount height id txid])) = M) :
    RInv (M.2.2.foldl (applyEvent c) rs) M.1 := by
  subst hM
  split
  · exact h0
  · rename_i id
    split
    · rename_i s hm
      exact mint_rinv c h0 height id txid s none hm
    · rename_i s amount hm
      exact mint_rinv c h0 height id txid s (some amount) hm

theorem indexRunesTx_rinv (c : List Block) {rs : ReplayState} {st : State} (h : RInv rs st) (blk : Block) (i : Nat)
    (tx : Tx) (bb : Balances) (st' : State) (bb' : Balances) (evs : List Event)
    (hx : indexRunesTx st blk i tx bb = .ok (st', bb', evs)) :
    RInv (evs.foldl (applyEvent c) rs) st' := by
  unfold indexRunesTx at hx
  split at hx
  · cases hx
  · cases hx
  · rename_i st0 un0 hti
    have h0 : RInv rs st0 := h.of_eq rfl rfl (takeInputs_rframe _ _ _ _ _ hti)
    dsimp only at hx
    split at hx
    · cases hx
    · cases hx
    · rename_i st3 un alloc evs1 hp1
      have hp : RInv (evs1.foldl (applyEvent c) rs) st3 := by
        split at hp1
        · simp only [Outcome.ok.injEq, Prod.mk.injEq] at hp1
          obtain ⟨rfl, -, -, rfl⟩ := hp1
          exact h0
        · rename_i art hart
          generalize hMd : (match (match art with
              | Artifact.runestone _ _ m _ => m
              | Artifact.cenotaph _ m => m) with
            | none => (st0, Outcome.ok un0, ([] : List Event))
            | some id =>
              match mint st0 blk.height id with
              | (s, none) => (s, Outcome.ok un0, [])
              | (s, some amount) => (s, addLot un0 id amount, [Event.runeMinted amount blk.height id tx.txid])) = M at hp1
          have hM := mintTriple_rinv c h0 _ un0 blk.height tx.txid M hMd
          split at hp1
          · cases hp1
          · cases hp1
          · split at hp1
            · cases hp1
            · cases hp1
            · rename_i st2 et het
              have h2 : RInv (M.2.2.foldl (applyEvent c) rs) st2 := hM.of_eq rfl rfl (etched_rframe _ _ _ _ _ _ _ het)
              split at hp1
              · cases hp1
              · cases hp1
              · split at hp1
                · rename_i id rune
                  simp only [Outcome.ok.injEq, Prod.mk.injEq] at hp1
                  obtain ⟨rfl, -, -, rfl⟩ := hp1
                  rw [List.foldl_append]
                  exact createRuneEntry_rinv c h2 blk tx art id rune
                · simp only [Outcome.ok.injEq, Prod.mk.injEq] at hp1
                  obtain ⟨rfl, -, -, rfl⟩ := hp1
                  exact h2
      split at hx
      · cases hx
      · cases hx
      · split at hx
        · cases hx
        · cases hx
        · rename_i st4 burned evs2 hwo
          split at hx
          · cases hx
          · cases hx
          · simp only [Outcome.ok.injEq, Prod.mk.injEq] at hx
            obtain ⟨rfl, -, rfl⟩ := hx
            obtain ⟨hre, add, rfl, hadd⟩ := writeOutputs_rframe blk tx _ _ _ _ _ _ _ hwo
            rw [List.append_assoc, List.foldl_append]
            refine hp.neutral c _ ?_ hre
            intro e he
            rcases List.mem_append.1 he with he | he
            · obtain ⟨a, op, id, rfl⟩ := hadd e he
              trivial
            · obtain ⟨x, _, rfl⟩ := List.mem_map.1 he
              trivial

end Ord.Index
