import OrdModel.Proofs.IndexMiscReplayRunes
namespace Ord.Index
open Outcome

theorem takeInputs_frame : ∀ (ins : List TxIn) (st : State) (un : Balances) (st' : State) (un' : Balances),
    takeInputs ins st un = .ok (st', un') → st'.runeEntries = st.runeEntries := by
  intro ins
  induction ins with
  | nil => intro st un st' un' h; simp only [takeInputs, Outcome.ok.injEq, Prod.mk.injEq] at h; rw [← h.1]
  | cons i rest ih =>
    intro st un st' un' h
    simp only [takeInputs] at h
    split at h
    · exact ih _ _ _ _ h
    · split at h
      · exact (ih _ _ _ _ h).trans rfl
      · cases h
      · cases h

def IsTransfer (blk : Block) (tx : Tx) (e : Event) : Prop :=
  ∃ a op id, e = .runeTransferred a blk.height op id tx.txid

theorem writeOutputs_frame (blk : Block) (tx : Tx) : ∀ (l : List (Nat × Balances)) (st : State) (burned : Balances)
    (evs : List Event) (st' : State) (burned' : Balances) (evs' : List Event),
    writeOutputs blk tx l st burned evs = .ok (st', burned', evs') →
    st'.runeEntries = st.runeEntries ∧ ∃ add, evs' = evs ++ add ∧ ∀ e ∈ add, IsTransfer blk tx e := by
  intro l
  induction l with
  | nil =>
    intro st burned evs st' burned' evs' h
    simp only [writeOutputs, Outcome.ok.injEq, Prod.mk.injEq] at h
    obtain ⟨rfl, rfl, rfl⟩ := h
    exact ⟨rfl, [], by simp, by simp⟩
  | cons p rest ih =>
    intro st burned evs st' burned' evs' h
    obtain ⟨vout, bs⟩ := p
    simp only [writeOutputs] at h
    split at h
    · exact ih _ _ _ _ _ _ h
    · split at h <;> split at h
      all_goals first
        | (split at h <;> first | exact ih _ _ _ _ _ _ h | cases h)
        | (obtain ⟨h1, add, h2, h3⟩ := ih _ _ _ _ _ _ h
           refine ⟨h1, (sortBalances bs).map (fun x => Event.runeTransferred x.snd blk.height ⟨tx.txid, vout⟩ x.fst tx.txid) ++ add,
             by rw [h2, List.append_assoc], ?_⟩
           intro e he
           rcases List.mem_append.1 he with he | he
           · obtain ⟨x, _, rfl⟩ := List.mem_map.1 he
             exact ⟨x.2, _, x.1, rfl⟩
           · exact h3 e he)

theorem etched_frame (st : State) (blk : Block) (i : Nat) (tx : Tx) (art : Artifact) (st' : State)
    (et : Option (RuneId × Nat)) (h : etched st blk i tx art = .ok (st', et)) :
    st'.runeEntries = st.runeEntries := by
  unfold etched at h
  dsimp only at h
  split at h
  · simp only [Outcome.ok.injEq, Prod.mk.injEq] at h; rw [← h.1]
  · split at h
    · simp only [Outcome.ok.injEq, Prod.mk.injEq] at h; rw [← h.1]
    · split at h
      · cases h
      · cases h
      · simp only [Outcome.ok.injEq, Prod.mk.injEq] at h; rw [← h.1]
      · simp only [Outcome.ok.injEq, Prod.mk.injEq] at h; rw [← h.1]
  · simp only [Outcome.ok.injEq, Prod.mk.injEq] at h; rw [← h.1]

theorem flushBurned_frame : ∀ (bb : Balances) (st st' : State), flushBurned bb st = .ok st' →
    AL.keys st'.runeEntries = AL.keys st.runeEntries ∧
    ∀ id, (AL.get st'.runeEntries id).map (·.mints) = (AL.get st.runeEntries id).map (·.mints) := by
  intro bb
  induction bb with
  | nil => intro st st' h; simp only [flushBurned, Outcome.ok.injEq] at h; subst h; exact ⟨rfl, fun _ => rfl⟩
  | cons p rest ih =>
    intro st st' h
    obtain ⟨id, b⟩ := p
    simp only [flushBurned] at h
    split at h
    · cases h
    · rename_i e he
      split at h
      · cases h
      · obtain ⟨h1, h2⟩ := ih _ _ h
        refine ⟨h1.trans ?_, fun id' => (h2 id').trans ?_⟩
        · show AL.keys (AL.set st.runeEntries id _) = _
          rw [AL.keys_set, insertUnique]
          have hmem := AL.mem_keys_of_mem (AL.mem_of_get he)
          simp [hmem]
        · show (AL.get (AL.set st.runeEntries id _) id').map _ = _
          rw [AL.get_set]
          split
          · rename_i hid
            have : id = id' := by simpa using hid
            subst this
            simp [he]
          · rfl

end Ord.Index
