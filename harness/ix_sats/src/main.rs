//! Index group `sats` (C01 sat assignment follows the BIP, C02 every mined sat is in exactly one
//! place and the lookups agree with it).
//!
//!   eng_ix_sats chain --seed N --cases N --out DIR [--blocks N] [--prop C01|C02|all]
//!   eng_ix_sats dup   --seed N --cases N --out DIR [--replay FILE] [--prop C01|C02|all]
//!
//! `chain`: ixlib's generated chains with the sats probe after every block.  `dup`: crafted
//! chains with a duplicate coinbase txid, one per `ix.dupcase <seed>` line.
mod dup;
mod probe;

fn main() {
  let args = common::Args::parse();
  probe::install_panic_hook();
  let prop = args.get("prop").unwrap_or("all").to_string();
  match args.stream.as_str() {
    "dup" => dup::run(&args),
    // helper, not a check stream: scenario sizes of case seeds 0..cases
    "dupscan" => dup::scan(args.cases),
    _ => {
      let mut p = probe::SatsProbe::new(&prop);
      ixlib::run(&args, &mut |ctx, rng, out, dist| p.run(ctx, rng, out, dist, "-"));
    }
  }
}
