//! Stream `dup`: crafted chains with a duplicate coinbase txid (two byte-identical coinbase
//! transactions, as in mainnet blocks 91722/91880 and 91812/91842).  ixlib's generator never
//! produces them.  Every case is determined by one u64 (`ix.dupcase <seed>`), so a corpus file
//! is just a list of such lines.
use {
  crate::probe::{SatsProbe, URow},
  bitcoin::{
    Amount, Block, OutPoint, ScriptBuf, Sequence, Transaction, TxIn, TxOut, Txid, Witness, absolute::LockTime, script,
    transaction::Version,
  },
  common::{Args, Dist, Rng, Streams},
  ixlib::{
    Ctx, Flags, Node, UpdateOutcome,
    chaingen::{self, Utxo, p2tr, p2wpkh},
    emit, env,
  },
  ordinals::Height,
  std::{path::Path, time::Duration},
};

// copied from ixlib/src/lib.rs (private there)
fn cfg_line(flags: Flags, chain: &str) -> String {
  let (first_ins, jubilee, first_rune) = match chain {
    "regtest" => (0, 110, 0),
    "testnet4" => (0, 0, 0),
    "signet" => (112402, 175392, 0),
    _ => panic!("chain parameters not tabulated for {chain}"),
  };
  format!(
    "cfg sats={} addr={} tx={} ins={} runes={} first_ins={first_ins} jubilee={jubilee} first_rune={first_rune}",
    flags.sats as u8, flags.addr as u8, flags.tx as u8, flags.ins as u8, flags.runes as u8
  )
}

// copied from ixlib/src/lib.rs (private there)
fn dump_sections(out: &mut Streams, rows: &[String], flags: Flags) {
  let secs = env::sections(rows);
  let mut names = vec!["chain", "stats"];
  if flags.sats || flags.addr || flags.ins {
    names.push("utxo");
  }
  if flags.sats {
    names.push("sat2satpoint");
  }
  if flags.ins {
    names.push("ins");
    names.push("tx");
  }
  if flags.addr {
    names.push("addr");
  }
  if flags.runes {
    names.push("runes");
  }
  for n in names {
    out.emit(&format!("dump {n}"), &secs[n]);
  }
}

fn coinbase(script_sig: ScriptBuf, output: Vec<TxOut>) -> Transaction {
  Transaction {
    version: Version(2),
    lock_time: LockTime::ZERO,
    input: vec![TxIn { previous_output: OutPoint::null(), script_sig, sequence: Sequence::MAX, witness: Witness::new() }],
    output,
  }
}

fn script(rng: &mut Rng) -> ScriptBuf {
  match rng.below(4) {
    0 => p2wpkh(1),
    1 => p2wpkh(2),
    2 => p2tr(7),
    _ => p2tr(8),
  }
}

/// `total` split over 1–3 outputs, each positive
fn split(rng: &mut Rng, total: u64) -> Vec<TxOut> {
  let n = 1 + rng.below(3);
  let mut left = total;
  let mut outs = Vec::new();
  for i in 0..n {
    let v = if i + 1 == n {
      left
    } else {
      match rng.below(4) {
        0 => 1,
        1 => 546,
        2 => left / 2,
        _ => 1 + rng.below(left.max(2) - 1),
      }
      .min(left.saturating_sub(n - 1 - i))
      .max(1)
    };
    left -= v;
    outs.push(TxOut { value: Amount::from_sat(v), script_pubkey: script(rng) });
  }
  outs
}

#[derive(Clone, Copy, PartialEq, Debug)]
enum Kind {
  Ordinary,
  A,
  B,
}

struct Plan {
  kind: Kind,
  /// a transaction spending an earlier output is attempted
  spend: bool,
  /// … and it spends (T, 0)
  spend_dup: bool,
}

pub struct Case<'a> {
  pub scratch: &'a Path,
  pub case: u64,
  pub prop: &'a str,
}

/// everything about a case that is decided before the first block is built
struct Scenario {
  flags: Flags,
  plan: Vec<Plan>,
  /// the duplicated coinbase: fixed script_sig, fixed outputs
  dup_cb: Transaction,
  underpays: bool,
}

fn scenario(rng: &mut Rng) -> Scenario {
  let flags = Flags { sats: true, addr: rng.chance(1, 2), tx: rng.chance(1, 2), ins: rng.chance(1, 2), runes: rng.chance(1, 2) };
  let mut plan: Vec<Plan> = Vec::new();
  let ordinary = |rng: &mut Rng, p: u64| Plan { kind: Kind::Ordinary, spend: rng.chance(p, 4), spend_dup: false };
  for _ in 0..(2 + rng.below(4)) {
    plan.push(ordinary(rng, 1));
  }
  plan.push(Plan { kind: Kind::A, spend: rng.chance(1, 4), spend_dup: false });
  for _ in 0..rng.below(4) {
    plan.push(ordinary(rng, 2));
  }
  plan.push(Plan { kind: Kind::B, spend: rng.chance(1, 4), spend_dup: false });
  let after = 1 + rng.below(2);
  let spend_dup_at = if rng.chance(1, 2) { Some(rng.below(after)) } else { None };
  for i in 0..after {
    let mut p = ordinary(rng, 2);
    if spend_dup_at == Some(i) {
      p.spend = true;
      p.spend_dup = true;
    }
    plan.push(p);
  }
  let subsidy = Height(1).subsidy();
  let dup_total = if rng.chance(1, 4) { subsidy - 1 - rng.below(100_000) } else { subsidy };
  let dup_cb = coinbase(script::Builder::new().push_slice(b"dup").into_script(), split(rng, dup_total));
  Scenario { flags, plan, dup_cb, underpays: dup_total < subsidy }
}

/// `dupscan`: the size of the scenarios of case seeds 0..n (to pick small corpus cases); builds nothing
pub fn scan(n: u64) {
  for seed in 0..n {
    let s = scenario(&mut Rng::new(seed));
    let f = s.flags;
    println!(
      "{seed} blocks={} spends={} dup_outputs={} underpays={} flags={}{}{}{}{}",
      s.plan.len(),
      s.plan.iter().filter(|p| p.spend).count(),
      s.dup_cb.output.len(),
      s.underpays as u8,
      f.sats as u8,
      f.addr as u8,
      f.tx as u8,
      f.ins as u8,
      f.runes as u8
    );
  }
}

/// one crafted chain
pub fn dup_case(c: &Case, seed: u64, out: &mut Streams, dist: &mut Dist) {
  let mut rng = Rng::new(seed);
  out.emit(&format!("ix.dupcase {seed}"), "ok");
  let Scenario { flags, plan, dup_cb, underpays } = scenario(&mut rng);
  let chain = "regtest";
  let node = Node::new(chain, c.scratch);
  // events off: the `events` line is not part of this stream
  let ix = env::open(&node, c.scratch, flags, &[], false);
  let mut g = chaingen::Gen::new(rng.fork(), node.core.state().network);
  let mut probe = SatsProbe::new(c.prop);
  out.emit(&cfg_line(flags, chain), "ok");
  let genesis = node.block_at(0);
  g.absorb(&genesis, 0);
  emit::emit_block(out, 0, &genesis, g.network, &g.txs);
  let mut next_emit = 1u32;
  dist.add("dup_blocks", plan.len() as u64);
  let subsidy = Height(1).subsidy();
  if underpays {
    dist.hit("dup_underpays");
  }
  let dup_txid: Txid = dup_cb.compute_txid();
  dist.hit(&format!("dup_outputs_{}", dup_cb.output.len()));
  let mut dup_confirmed = 0u32; // how many times it has been mined
  let mut destroyed: Vec<(u64, u64)> = Vec::new();

  for p in &plan {
    let height = node.height() + 1;
    assert_eq!(Height(height).subsidy(), subsidy);
    // an optional simple transaction: one input, 1–2 outputs, a small fee
    let mut txs: Vec<Transaction> = Vec::new();
    let mut fees = 0u64;
    if p.spend {
      let candidates: Vec<usize> = (0..g.utxos.len())
        .filter(|&i| {
          let u = &g.utxos[i];
          if p.spend_dup { u.op == OutPoint { txid: dup_txid, vout: 0 } } else { u.op.txid != dup_txid && u.value > 0 }
        })
        .collect();
      if !candidates.is_empty() {
        let u = g.utxos.remove(*rng.pick(&candidates));
        let fee = rng.below(2000).min(u.value.saturating_sub(1));
        let avail = u.value - fee;
        let mut outs = Vec::new();
        if rng.chance(1, 2) && avail >= 2 {
          let v = 1 + rng.below(avail - 1);
          outs.push(TxOut { value: Amount::from_sat(v), script_pubkey: script(&mut rng) });
          outs.push(TxOut { value: Amount::from_sat(avail - v), script_pubkey: script(&mut rng) });
        } else {
          outs.push(TxOut { value: Amount::from_sat(avail), script_pubkey: script(&mut rng) });
        }
        let tx = Transaction {
          version: Version(2),
          lock_time: LockTime::ZERO,
          input: vec![TxIn { previous_output: u.op, script_sig: ScriptBuf::new(), sequence: Sequence::MAX, witness: Witness::new() }],
          output: outs,
        };
        let txid = tx.compute_txid();
        for (vout, o) in tx.output.iter().enumerate() {
          g.utxos.push(Utxo { op: OutPoint { txid, vout: vout as u32 }, value: o.value.to_sat(), script: o.script_pubkey.clone(), height, hot: false });
        }
        g.txs.insert(txid, (tx.clone(), height));
        fees += fee;
        txs.push(tx);
        dist.hit(if p.spend_dup { "dup_spend_of_duplicated_outpoint" } else { "dup_spend" });
      }
    }
    let cb = match p.kind {
      Kind::Ordinary => {
        let reward = subsidy + fees;
        let total = if rng.chance(1, 5) { reward - rng.below(50_000) } else { reward };
        coinbase(script::Builder::new().push_int(i64::from(height)).into_script(), split(&mut rng, total))
      }
      Kind::A | Kind::B => dup_cb.clone(),
    };
    let cbid = cb.compute_txid();
    if p.kind != Kind::Ordinary {
      assert_eq!(cbid, dup_txid);
      dup_confirmed += 1;
    }
    if p.kind == Kind::B {
      // what block B overwrites: the ranges the implementation showed for (T, vout) so far
      let mut n = 0;
      for r in probe.prev_rows().iter().filter(|r: &&URow| r.op.txid == dup_txid) {
        destroyed.extend(r.ranges.iter().copied());
        n += 1;
      }
      assert_eq!(n, dup_cb.output.len(), "an output of the duplicated transaction was spent before block B");
      dist.add("dup_destroyed_ranges", destroyed.len() as u64);
    }
    for (vout, o) in cb.output.iter().enumerate() {
      let op = OutPoint { txid: cbid, vout: vout as u32 };
      if !g.utxos.iter().any(|u| u.op == op) {
        g.utxos.push(Utxo { op, value: o.value.to_sat(), script: o.script_pubkey.clone(), height, hot: false });
      }
    }
    g.txs.insert(cbid, (cb.clone(), height));
    let mut txdata = vec![cb];
    txdata.extend(txs);
    node.push_block(Block { header: env::make_header(node.tip(), height, rng.next_u64() as u32), txdata });

    match env::update(&ix, Duration::from_secs(120)) {
      UpdateOutcome::Ok => {}
      UpdateOutcome::Err(e) => {
        out.emit("endblock", &format!("err {e}"));
        dist.hit("impl_err");
        return;
      }
      UpdateOutcome::Panic(p) => {
        out.emit("endblock", &format!("panic {p}"));
        dist.hit("impl_panic");
        return;
      }
      UpdateOutcome::Hang => {
        out.emit("endblock", "hang");
        dist.hit("impl_hang");
        return;
      }
    }
    let first_new_height = next_emit.max(1);
    while next_emit <= node.height() {
      if next_emit == 1 {
        // block 0's endblock comes with the first update
        out.emit("endblock", "ok");
      }
      let blk = node.block_at(next_emit);
      emit::emit_block(out, next_emit, &blk, g.network, &g.txs);
      out.emit("endblock", "ok");
      next_emit += 1;
    }
    let rows = ix.index.verif_dump().unwrap();
    dump_sections(out, &rows, flags);
    let d = if destroyed.is_empty() { "-".to_string() } else { destroyed.iter().map(|(a, b)| format!("{a}-{b}")).collect::<Vec<_>>().join(",") };
    {
      let ctx = Ctx { ix: &ix, node: &node, g: &g, flags, chain, case: c.case, rows: &rows, secs: env::sections(&rows), events: "-", first_new_height };
      probe.run(&ctx, &mut rng, out, dist, &d);
    }
    out.emit(&format!("index.oracle.nofail {} {} ok", c.case, node.height()), "true");
    dist.hit("block");
  }
  assert_eq!(dup_confirmed, 2);
  dist.hit(&format!("flags_{}{}{}{}{}", flags.sats as u8, flags.addr as u8, flags.tx as u8, flags.ins as u8, flags.runes as u8));
  dist.hit("dup_case");
}

pub fn run(args: &Args) {
  let mut out = Streams::create(&args.out);
  let mut dist = Dist::default();
  let mut rng = Rng::new(args.seed);
  let scratch = args.out.join("scratch");
  std::fs::create_dir_all(&scratch).unwrap();
  let prop = args.get("prop").unwrap_or("all").to_string();
  let seeds: Vec<u64> = match &args.replay {
    Some(file) => common::replay_lines(file)
      .iter()
      .filter_map(|l| l.trim().strip_prefix("ix.dupcase ").map(|s| s.trim().parse().expect("ix.dupcase <u64>")))
      .collect(),
    None => (0..args.cases).map(|_| rng.next_u64()).collect(),
  };
  for (case, seed) in seeds.into_iter().enumerate() {
    dup_case(&Case { scratch: &scratch, case: case as u64, prop: &prop }, seed, &mut out, &mut dist);
  }
  let _ = std::fs::remove_dir_all(&scratch);
  dist.write(&args.out);
  out.finish();
}
